(* P_Ucs.v -- proofs about M_Ucs (C25). *)
From PyDcop Require Import Base Net M_Ucs.
From Coq Require Import Lia ZifyBool Permutation.

(* ================================================================== 1. _max_footprint *)
Section MaxFootprint.
  Variable C : cfg.
  Notation hosted_t := (list (Z * (Z * Z))).

  Definition fp_nonneg (h : hosted_t) : Prop := forall e, In e h -> 0 <= snd (snd e).

  Lemma dedup_In x l : In x (dedup l) <-> In x l.
  Proof.
    induction l as [|y r IH]; simpl; [tauto|].
    destruct (zmem y r) eqn:E.
    - rewrite IH. split; auto. intros [->|H]; auto. now apply zmem_In.
    - simpl. rewrite IH. tauto.
  Qed.

  Lemma dedup_NoDup l : NoDup (dedup l).
  Proof.
    induction l as [|y r IH]; simpl; [constructor|].
    destruct (zmem y r) eqn:E; auto.
    constructor; auto. rewrite dedup_In. intro H. apply zmem_In in H. congruence.
  Qed.

  Lemma combs_In m : forall l T, In T (combs m l) -> List.length T = m /\ (forall x, In x T -> In x l).
  Proof.
    induction m as [|m IH]; intros l T H.
    - destruct l; simpl in H; destruct H as [<-|[]]; split; auto; intros x [].
    - induction l as [|y r IHl]; simpl in H; [contradiction|].
      apply in_app_or in H as [H|H].
      + apply in_map_iff in H as [T0 [<- H0]]. apply IH in H0 as [L I]. split; simpl; [lia|].
        intros x [->|Hx]; auto.
      + apply IHl in H as [L I]. split; auto. intros x Hx. right; auto.
  Qed.

  Lemma combs_NoDup m : forall l T, NoDup l -> In T (combs m l) -> NoDup T.
  Proof.
    induction m as [|m IH]; intros l T ND H.
    - destruct l; simpl in H; destruct H as [<-|[]]; constructor.
    - induction l as [|y r IHl]; simpl in H; [contradiction|].
      inversion ND; subst.
      apply in_app_or in H as [H|H].
      + apply in_map_iff in H as [T0 [<- H0]]. constructor.
        * intro Hy. apply combs_In in H0 as [_ I]. auto.
        * eapply IH; eauto.
      + auto.
  Qed.

  (* every set of at most m elements of l is covered by one of the m-combinations *)
  Lemma combs_cover : forall l m S, NoDup l -> NoDup S -> (forall x, In x S -> In x l) ->
    (List.length S <= m)%nat -> (m <= List.length l)%nat ->
    exists T, In T (combs m l) /\ forall x, In x S -> In x T.
  Proof.
    induction l as [|y r IH]; intros m S NDl NDS Hin Hlen Hm.
    - simpl in Hm. assert (m = 0)%nat by lia. subst. destruct S; [|simpl in Hlen; lia].
      exists []. split; simpl; auto.
    - destruct m as [|m].
      + destruct S; [|simpl in Hlen; lia]. exists []. split; simpl; auto.
      + inversion NDl; subst. simpl in Hm.
        destruct (in_dec Z.eq_dec y S) as [Hy|Hy].
        * (* y in S *)
          set (S0 := remove Z.eq_dec y S).
          assert (L0 : (List.length S0 < List.length S)%nat) by (apply remove_length_lt; auto).
          destruct (IH m S0) as [T0 [HT0 Hc]]; auto.
          { unfold S0. clear - NDS. induction S; simpl; [constructor|]. inversion NDS; subst.
            destruct (Z.eq_dec y a); auto. constructor; auto. intro Hx. apply in_remove in Hx as [Hx _]. auto. }
          { intros x Hx. apply in_remove in Hx as [Hx Hne]. destruct (Hin x Hx); [congruence|assumption]. }
          { lia. } { lia. }
          exists (y :: T0). split.
          { simpl. apply in_or_app. left. apply in_map. auto. }
          intros x Hx. destruct (Z.eq_dec x y) as [->|Hne]; [left; auto|].
          right. apply Hc. apply in_in_remove; auto.
        * (* y not in S : S within r *)
          assert (HinR : forall x, In x S -> In x r).
          { intros x Hx. destruct (Hin x Hx); auto. subst. contradiction. }
          assert (LS : (List.length S <= List.length r)%nat) by (apply NoDup_incl_length; auto).
          destruct (Nat.le_gt_cases (Datatypes.S m) (List.length r)) as [Hle|Hgt].
          -- destruct (IH (Datatypes.S m) S) as [T [HT Hc]]; auto.
             exists T. split; auto. simpl. apply in_or_app. right. auto.
          -- destruct (IH m S) as [T0 [HT0 Hc]]; auto; try lia.
             exists (y :: T0). split.
             { simpl. apply in_or_app. left. apply in_map. auto. }
             intros x Hx. right. auto.
  Qed.

  Lemma total_for_mono h S T : fp_nonneg h -> (forall x, In x S -> In x T) -> total_for h S <= total_for h T.
  Proof.
    intros Hn Hsub. unfold total_for. induction h as [|e r IH]; simpl; [lia|].
    assert (Hr : fp_nonneg r) by (intros x Hx; apply Hn; right; auto).
    specialize (IH Hr). pose proof (Hn e (or_introl eq_refl)) as He.
    destruct (zmem (fst (snd e)) S) eqn:ES.
    - apply zmem_In in ES. apply Hsub in ES. apply zmem_In in ES. rewrite ES. lia.
    - destruct (zmem (fst (snd e)) T); lia.
  Qed.

  Lemma total_for_nonneg h S : fp_nonneg h -> 0 <= total_for h S.
  Proof.
    intros Hn. unfold total_for. induction h as [|e r IH]; simpl; [lia|].
    assert (Hr : fp_nonneg r) by (intros x Hx; apply Hn; right; auto).
    pose proof (Hn e (or_introl eq_refl)). specialize (IH Hr). destruct (zmem _ _); lia.
  Qed.

  (* restricting a selection to the owners actually present changes nothing *)
  Lemma total_for_filter h S :
    total_for h (filter (fun x => zmem x (owners_of h)) S) = total_for h S.
  Proof.
    unfold total_for.
    assert (H : forall e, In e h ->
              zmem (fst (snd e)) (filter (fun x => zmem x (owners_of h)) S) = zmem (fst (snd e)) S).
    { intros e He. destruct (zmem (fst (snd e)) S) eqn:E.
      - apply zmem_In. apply filter_In. split; [now apply zmem_In|].
        apply zmem_In. unfold owners_of. apply dedup_In. apply in_map_iff. exists e; auto.
      - destruct (zmem _ (filter _ S)) eqn:E2; auto. apply zmem_In in E2. apply filter_In in E2 as [E2 _].
        apply zmem_In in E2. congruence. }
    revert H. generalize (filter (fun x => zmem x (owners_of h)) S) as S'. intros S'.
    induction h as [|e r IH]; simpl; auto. intros H.
    rewrite (H e (or_introl eq_refl)). f_equal. apply IH. intros e' He'. apply H. right; auto.
  Qed.

  Lemma fold_max_init l : forall a, a <= fold_left Z.max l a.
  Proof. induction l; simpl; intros; [lia|]. etransitivity; [|apply IHl]. lia. Qed.

  Lemma fold_max_ge l : forall a x, In x l -> x <= fold_left Z.max l a.
  Proof.
    induction l as [|y r IH]; simpl; intros a x H; [contradiction|].
    destruct H as [->|H]; auto.
    etransitivity; [|apply fold_max_init]. lia.
  Qed.

  Lemma fold_max_attained l : forall a, fold_left Z.max l a = a \/ In (fold_left Z.max l a) l.
  Proof.
    induction l as [|y r IH]; simpl; intros a; auto.
    destruct (IH (Z.max a y)) as [H|H]; auto.
    rewrite H. destruct (Z.max_spec a y) as [[_ ->]|[_ ->]]; auto.
  Qed.

  Hypothesis kt_pos : 1 <= c_ktarget C.

  (* the number of owners considered *)
  Definition m_of (h : hosted_t) : nat :=
    Z.to_nat (Z.min (c_ktarget C - 1) (Z.of_nat (List.length (owners_of h)))).

  (* (a) _max_footprint dominates the total held for ANY set of at most k_target-1 owners *)
  Lemma max_footprint_upper h S :
    fp_nonneg h -> NoDup S -> Z.of_nat (List.length S) <= c_ktarget C - 1 ->
    total_for h S <= max_footprint C h.
  Proof.
    intros Hn ND HL.
    rewrite <- total_for_filter.
    set (S' := filter (fun x => zmem x (owners_of h)) S).
    assert (ND' : NoDup S') by (apply NoDup_filter; auto).
    assert (Hin : forall x, In x S' -> In x (owners_of h)).
    { intros x Hx. apply filter_In in Hx as [_ Hx]. now apply zmem_In. }
    assert (L1 : (List.length S' <= List.length S)%nat) by (unfold S'; clear; induction S as [|a S0 IHS]; simpl; [lia|destruct (zmem a (owners_of h)); simpl; lia]).
    assert (L2 : (List.length S' <= List.length (owners_of h))%nat).
    { apply NoDup_incl_length; auto. }
    destruct (combs_cover (owners_of h) (m_of h) S') as [T [HT Hc]]; auto.
    { apply dedup_NoDup. } { unfold m_of. lia. } { unfold m_of. lia. }
    etransitivity; [apply (total_for_mono h S' T Hn Hc)|].
    unfold max_footprint. apply fold_max_ge. apply in_map. exact HT.
  Qed.

  (* (b) ... and is attained by such a set *)
  Lemma max_footprint_attained h :
    fp_nonneg h ->
    exists S, NoDup S /\ Z.of_nat (List.length S) <= c_ktarget C - 1
              /\ (forall x, In x S -> In x (owners_of h)) /\ total_for h S = max_footprint C h.
  Proof.
    intros Hn. unfold max_footprint.
    set (os := owners_of h). set (m := Z.to_nat (Z.min (c_ktarget C - 1) (Z.of_nat (List.length os)))).
    destruct (combs_cover os m [] (dedup_NoDup _) (NoDup_nil _)) as [T0 [HT0 _]];
      [intros x []|simpl; lia|unfold m; lia|].
    destruct (fold_max_attained (map (total_for h) (combs m os)) 0) as [H|H].
    - (* the maximum is 0: T0 has total 0 *)
      exists T0. pose proof (combs_In _ _ _ HT0) as [L I].
      split; [eapply combs_NoDup; eauto; apply dedup_NoDup|].
      split; [unfold m in L; lia|]. split; auto.
      rewrite H. apply Z.le_antisymm; [|apply total_for_nonneg; auto].
      rewrite <- H. apply fold_max_ge. apply in_map. auto.
    - apply in_map_iff in H as [T [HT HinT]].
      exists T. pose proof (combs_In _ _ _ HinT) as [L I].
      split; [eapply combs_NoDup; eauto; apply dedup_NoDup|].
      split; [unfold m in L; lia|]. split; auto.
  Qed.

  Lemma max_footprint_nonneg h : 0 <= max_footprint C h.
  Proof. unfold max_footprint. apply fold_max_init. Qed.

  (* accepting a replica whose key is new appends it to the dict *)
  Lemma dict_set_absent (c : Z) (v : Z * Z) (h : hosted_t) :
    mem_key Z.eqb c h = false -> dict_set Z.eqb c v h = h ++ [(c, v)].
  Proof.
    unfold mem_key. induction h as [|[k' v'] r IH]; simpl; auto.
    destruct (Z.eqb c k') eqn:E; [discriminate|]. intros H. f_equal. auto.
  Qed.

  Lemma total_for_app h1 h2 S : total_for (h1 ++ h2) S = total_for h1 S + total_for h2 S.
  Proof. unfold total_for. rewrite map_app. induction (map _ h1); simpl; lia. Qed.

  (* the acceptance test keeps the worst case within the remaining capacity *)
  Lemma max_footprint_after_accept h c o fp :
    fp_nonneg h -> 0 <= fp -> mem_key Z.eqb c h = false ->
    max_footprint C (dict_set Z.eqb c (o, fp) h) <= max_footprint C h + fp.
  Proof.
    intros Hn Hfp Hk. rewrite (dict_set_absent _ _ _ Hk).
    assert (Hn' : fp_nonneg (h ++ [(c, (o, fp))])).
    { intros e He. apply in_app_or in He as [He|[<-|[]]]; auto. }
    destruct (max_footprint_attained _ Hn') as [S [ND [L [_ <-]]]].
    rewrite total_for_app.
    pose proof (max_footprint_upper h S Hn ND L).
    unfold total_for at 2. simpl. destruct (zmem o S); lia.
  Qed.
End MaxFootprint.

(* ================================================================== 2. protocol invariants *)
Lemma isort_In {A} (leb : A -> A -> bool) (l : list A) x : In x (isort leb l) <-> In x l.
Proof.
  unfold isort. induction l as [|y r IH]; simpl; [tauto|].
  assert (G : forall z l0, In x (insert_sorted leb z l0) <-> x = z \/ In x l0).
  { intros z l0. induction l0 as [|w l0 IH0]; simpl; [intuition|].
    destruct (leb z w); simpl; [intuition|]. rewrite IH0. intuition. }
  rewrite G, IH. intuition.
Qed.

Lemma mem_key_dict_set (k c : Z) (v : Z * Z) h :
  mem_key Z.eqb k (dict_set Z.eqb c v h) = (k =? c) || mem_key Z.eqb k h.
Proof.
  unfold mem_key. destruct (Z.eqb_spec k c) as [->|Hne]; simpl.
  - rewrite (lookup_dict_set_same Z.eqb Z.eqb_eq). reflexivity.
  - rewrite (lookup_dict_set_other Z.eqb Z.eqb_eq); auto.
Qed.

Lemma is_prefix_split pre : forall p, is_prefix pre p = true -> p = pre ++ skipn (List.length pre) p.
Proof.
  induction pre as [|x pre IH]; intros p H; simpl; auto.
  destruct p as [|y p]; simpl in H; [discriminate|].
  apply andb_true_iff in H as [E H]. apply Z.eqb_eq in E. subst. simpl. f_equal. auto.
Qed.

Lemma last_z_app l x : last_z (l ++ [x]) = x.
Proof. unfold last_z. apply last_last. Qed.

Lemma set_union_In a : forall b x, In x (set_union b a) <-> In x b \/ In x a.
Proof.
  unfold set_union. induction a as [|y r IH]; simpl; intros b x; [tauto|].
  rewrite IH. destruct (zmem y b) eqn:E.
  - apply zmem_In in E. intuition; subst; auto.
  - rewrite in_app_iff. simpl. intuition.
Qed.

Lemma NoDup_snoc (l : list Z) x : NoDup l -> ~ In x l -> NoDup (l ++ [x]).
Proof.
  intros H Hx. induction l as [|y r IH]; simpl; [constructor; auto; constructor|].
  inversion H; subst. constructor.
  - rewrite in_app_iff. simpl. intros [G|[G|[]]]; auto. subst. apply Hx. left; auto.
  - apply IH; auto. intro G. apply Hx. right; auto.
Qed.

Lemma set_union_NoDup a : forall b, NoDup b -> NoDup (set_union b a).
Proof.
  unfold set_union. induction a as [|y r IH]; simpl; intros b H; auto.
  apply IH. destruct (zmem y b) eqn:E; auto.
  apply NoDup_snoc; auto. intro G. apply zmem_In in G. congruence.
Qed.

Lemma zrange_from_In n : forall s x, In x (zrange_from s n) -> s <= x < s + Z.of_nat n.
Proof.
  induction n as [|n IH]; simpl; intros s x H; [contradiction|].
  destruct H as [<-|H]; [lia|]. apply IH in H. lia.
Qed.

Section Proto.
  Variable C : cfg.
  Notation hosted_t := (list (Z * (Z * Z))).

  (* well-formed deployments: replication level >= 1, non-negative footprints, and the active
     computations of every agent fit in its capacity *)
  Record wf : Prop := mkWf {
    wf_kt : 1 <= c_ktarget C;
    wf_k : 1 <= c_k C;
    wf_fp : forall n x, In x (a_comps (agent C n)) -> 0 <= comp_fp x;
    wf_cap : forall n, 0 <= remaining C n
  }.
  Hypothesis WF : wf.

  Definition hle (h1 h2 : Z -> hosted_t) : Prop :=
    forall n c, mem_key Z.eqb c (h1 n) = true -> mem_key Z.eqb c (h2 n) = true.
  Definition hstu (hst : Z -> hosted_t) (me : Z) (s : nstate) : Z -> hosted_t :=
    fun n => if n =? me then s_hosted s else hst n.

  Definition hosts_ok (H : Z -> hosted_t) (c : Z) (hosts : list Z) : Prop :=
    NoDup hosts /\ forall h, In h hosts -> mem_key Z.eqb c (H h) = true /\ owns C h c = false.
  Definition hosting_ok (c : Z) (p : path) : Prop :=
    forall pre rest, p = pre ++ HOSTING :: rest -> owns C (last_z pre) c = false.
  Definition paths_ok (c : Z) (paths : ptable) : Prop :=
    forall cost p, In (cost, p) paths -> hosting_ok c p.
  (* token facts *)
  Definition TF (H : Z -> hosted_t) (c fp : Z) (rq : path) (paths : ptable) (count : Z) (hosts : list Z) :=
    hosts_ok H c hosts /\ Z.of_nat (List.length hosts) + count = c_k C /\ 0 <= count /\ 0 <= fp
    /\ paths_ok c paths /\ ~ In HOSTING rq /\ owns C (hd (-2) rq) c = true.
  Definition tok_ok H (t : tok) :=
    TF H (t_comp t) (t_fp t) (t_path t) (t_paths t) (t_count t) (t_hosts t).
  Definition msg_ok (H : Z -> hosted_t) (d : Z) (m : msg) : Prop :=
    match m with
    | MReplicate k => k = c_k C
    | MRequest t => tok_ok H t /\ 1 <= t_count t
    | MAnswer t => tok_ok H t /\ exists pre s, t_path t = pre ++ [d; s]
    end.
  Definition rh_ok (H : Z -> hosted_t) (n : Z) (rh : list (Z * list Z)) : Prop :=
    forall c hs, zlookup c rh = Some hs -> hosts_ok H c hs /\ owns C n c = true.
  Definition ev_ok (H : Z -> hosted_t) (e : ev) : Prop :=
    match e with
    | EvAccept n c o fp hb =>
        mem_key Z.eqb c hb = false /\ max_footprint C hb + fp <= remaining C n /\ owns C n c = false
        /\ fp_nonneg hb
    | EvRepl n c hosts => owns C n c = true /\ hosts_ok H c hosts /\ Z.of_nat (List.length hosts) <= c_k C
    | EvDone n rh => rh_ok H n rh
    | EvRaise _ _ => True
    end.
  Definition st_ok (H : Z -> hosted_t) (n : Z) (s : nstate) : Prop :=
    fp_nonneg (s_hosted s) /\ max_footprint C (s_hosted s) <= remaining C n /\ rh_ok H n (s_rhosts s).

  (* ---- monotonicity in the global hosted map *)
  Lemma hle_refl H : hle H H. Proof. intros n c; auto. Qed.
  Lemma hle_trans H1 H2 H3 : hle H1 H2 -> hle H2 H3 -> hle H1 H3.
  Proof. intros A B n c X. auto. Qed.
  Lemma hosts_ok_mono H H' c hs : hle H H' -> hosts_ok H c hs -> hosts_ok H' c hs.
  Proof. intros L [ND A]. split; auto. intros h Hh. destruct (A h Hh). split; auto. Qed.
  Lemma TF_mono H H' c fp rq paths count hosts :
    hle H H' -> TF H c fp rq paths count hosts -> TF H' c fp rq paths count hosts.
  Proof. intros L (A & B). split; auto. eapply hosts_ok_mono; eauto. Qed.
  Lemma msg_ok_mono H H' d m : hle H H' -> msg_ok H d m -> msg_ok H' d m.
  Proof.
    intros L. destruct m; simpl; auto; intros [A B]; split; auto; eapply TF_mono; eauto.
  Qed.
  Lemma rh_ok_mono H H' n rh : hle H H' -> rh_ok H n rh -> rh_ok H' n rh.
  Proof. intros L A c hs E. destruct (A c hs E). split; auto. eapply hosts_ok_mono; eauto. Qed.
  Lemma ev_ok_mono H H' e : hle H H' -> ev_ok H e -> ev_ok H' e.
  Proof.
    intros L. destruct e; simpl; auto.
    - intros (A & B & D). repeat split; auto; eapply hosts_ok_mono; eauto.
    - apply rh_ok_mono; auto.
  Qed.
  Lemma Forall_ev_ok_mono H H' evs : hle H H' -> Forall (ev_ok H) evs -> Forall (ev_ok H') evs.
  Proof. intros L. apply Forall_impl. intros e. apply ev_ok_mono; auto. Qed.
  Lemma st_ok_mono H H' n s : hle H H' -> st_ok H n s -> st_ok H' n s.
  Proof. intros L (A & B & D). split; [exact A|]. split; [exact B|]. eapply rh_ok_mono; eauto. Qed.

  Definition ext (s s' : nstate) : Prop :=
    forall c, mem_key Z.eqb c (s_hosted s) = true -> mem_key Z.eqb c (s_hosted s') = true.
  Lemma hstu_hle hst me s s' : ext s s' -> hle (hstu hst me s) (hstu hst me s').
  Proof. intros E n c. unfold hstu. destruct (n =? me); auto. Qed.

  Lemma TF_intro H c fp rq paths count hosts :
    hosts_ok H c hosts -> Z.of_nat (List.length hosts) + count = c_k C -> 0 <= count -> 0 <= fp ->
    paths_ok c paths -> ~ In HOSTING rq -> owns C (hd (-2) rq) c = true -> TF H c fp rq paths count hosts.
  Proof. intros. unfold TF. tauto. Qed.

  (* ---- handler-local reasoning *)
  Section Handler.
    Variable me : Z.
    Hypothesis me_pos : 0 <= me.
    Variable hst : Z -> hosted_t.
    Variable s0 : nstate.                (* the state at handler entry *)
    Notation Hs s := (hstu hst me s).

    Definition Mid (s : nstate) (evs : list ev) : Prop :=
      ext s0 s /\ st_ok (Hs s) me s /\ Forall (ev_ok (Hs s)) evs.
    Definition Post (r : hres) : Prop :=
      let '(s', outs, evs, _) := r in
      Mid s' evs /\ forall d m, In (d, m) outs -> msg_ok (Hs s') d m.

    Lemma Mid_raise s evs k : Mid s evs -> Mid s (evs ++ [EvRaise me k]).
    Proof.
      intros (A & B & D). split; [exact A|]. split; [exact B|]. apply Forall_app. split; auto. repeat constructor.
    Qed.

    Lemma Post_raise s evs k b : Mid s evs -> Post (s, [], evs ++ [EvRaise me k], b).
    Proof. intros M. split; [apply Mid_raise; auto|]. intros d m []. Qed.

    Lemma Mid_pending s evs p : Mid s evs -> Mid (set_pending s p) evs.
    Proof. intros M. exact M. Qed.

    Lemma send_answer_post s b sp rq paths visited c fp count hosts evs :
      Mid s evs -> TF (Hs s) c fp rq paths count hosts ->
      Post (send_answer C me s b sp rq paths visited c fp count hosts evs).
    Proof.
      intros M T. unfold send_answer.
      destruct (negb (last_z rq =? me)); [apply (Post_raise _ _ _ true); auto|].
      destruct (rev rq) as [|sd [|target rest]] eqn:E; try (apply (Post_raise _ _ _ true); auto).
      destruct (_ || _); [apply (Post_raise _ _ _ true); auto|].
      split; auto. intros d m [G|[]]. inversion G; subst. simpl. split; [exact T|].
      exists (rev rest), sd. simpl.
      rewrite <- (rev_involutive rq), E. simpl. rewrite <- app_assoc. reflexivity.
    Qed.

    Lemma send_request_post s b sp tp paths visited c fp count hosts evs :
      Mid s evs -> TF (Hs s) c fp tp paths count hosts -> 1 <= count ->
      Post (send_request C me s b sp tp paths visited c fp count hosts evs).
    Proof.
      intros M T Hc. unfold send_request.
      destruct (_ || _); [apply (Post_raise _ _ _ true); auto|].
      split; [apply Mid_pending; auto|]. intros d m [G|[]]. inversion G; subst. simpl. split; auto.
    Qed.

    Lemma computation_replicated_post s c hosts evs :
      Mid s evs -> hosts_ok (Hs s) c hosts -> Z.of_nat (List.length hosts) <= c_k C -> owns C me c = true ->
      Post (computation_replicated me s c hosts evs).
    Proof.
      intros M HO L OW. unfold computation_replicated.
      assert (EV : ev_ok (Hs s) (EvRepl me c hosts)) by (simpl; auto).
      destruct M as (A & (B1 & B2 & B3) & D).
      destruct (zlookup c (s_inprog s)) as [n|].
      2:{ split; [|intros d m []]. split; [exact A|]. split; [unfold st_ok; tauto|].
          apply Forall_app. split; auto. constructor; [exact EV|]. repeat constructor. }
      set (t1 := filter _ _).
      set (rh := dict_set Z.eqb c _ (s_rhosts s)).
      assert (RH : rh_ok (Hs s) me rh).
      { intros c' hs E. unfold rh, zlookup in E.
        destruct (Z.eq_dec c' c) as [->|Hne].
        - rewrite (lookup_dict_set_same Z.eqb Z.eqb_eq) in E. inversion E; subst hs. split; auto.
          assert (CUR : hosts_ok (Hs s) c match zlookup c (s_rhosts s) with Some l => l | None => [] end).
          { destruct (zlookup c (s_rhosts s)) eqn:E2; [apply (B3 c l E2)|]. split; [constructor|intros h []]. }
          destruct CUR as [ND1 A1]. destruct HO as [ND2 A2]. split.
          + apply set_union_NoDup; auto.
          + intros h Hh. apply set_union_In in Hh as [Hh|Hh]; auto.
        - rewrite (lookup_dict_set_other Z.eqb Z.eqb_eq) in E by auto. apply (B3 c' hs E). }
      split; [|intros d m []].
      split; [exact A|]. split; [unfold st_ok; simpl; tauto|].
      change (Hs (set_rhosts (set_inprog s t1) rh)) with (Hs s).
      apply Forall_app. split; auto. apply Forall_app. split; [constructor; [exact EV|constructor]|].
      destruct t1; constructor; [exact RH|constructor].
    Qed.

    (* ---- paths table operations keep the __hosting__ discipline *)
    Lemma paths_ok_remove c paths p : paths_ok c paths -> paths_ok c (remove_path paths p).
    Proof. intros P cost q Hq. apply filter_In in Hq as [Hq _]. eapply P; eauto. Qed.

    Lemma paths_ok_psort_snoc c paths e :
      paths_ok c paths -> hosting_ok c (snd e) -> paths_ok c (psort (paths ++ [e])).
    Proof.
      intros P He cost q Hq. unfold psort in Hq. apply isort_In in Hq.
      apply in_app_or in Hq as [Hq|[E|[]]]; [eapply P; eauto|]. subst e. exact He.
    Qed.

    Lemma no_hosting_ok c p : ~ In HOSTING p -> hosting_ok c p.
    Proof. intros N pre rest E. exfalso. apply N. rewrite E. apply in_or_app. right. left. auto. Qed.

    Lemma hosting_path_ok c rq :
      ~ In HOSTING rq -> owns C (last_z rq) c = false -> hosting_ok c (rq ++ [HOSTING]).
    Proof.
      intros N O pre rest E.
      assert (G : pre = rq).
      { clear O. revert pre E. induction rq as [|x r IH]; intros pre E.
        - destruct pre as [|y pre]; auto. simpl in E. inversion E. destruct pre; discriminate.
        - destruct pre as [|y pre]; simpl in E; inversion E; subst.
          + exfalso. apply N. left; auto.
          + f_equal. apply IH; auto. intro G. apply N. right; auto. }
      subst. exact O.
    Qed.

    Lemma neighbors_pos n r : In (n, r) (neighbors C me) -> 0 <= n.
    Proof.
      unfold neighbors. intros H. apply in_map_iff in H as [j [E H]]. inversion E; subst.
      apply filter_In in H as [H _]. apply zrange_from_In in H. lia.
    Qed.

    Lemma paths_ok_add_neighbors c nbrs : forall visited spent rq paths,
      (forall n r, In (n, r) nbrs -> 0 <= n) -> ~ In HOSTING rq -> paths_ok c paths ->
      paths_ok c (add_neighbor_paths nbrs visited spent rq paths).
    Proof.
      induction nbrs as [|[n r] rest IH]; simpl; intros visited spent rq paths Hn N P; auto.
      apply IH; auto. { intros n' r' G. eapply Hn. right; eauto. }
      assert (NP : hosting_ok c (rq ++ [n])).
      { apply no_hosting_ok. rewrite in_app_iff. simpl. intros [G|[G|[]]]; auto.
        pose proof (Hn n r (or_introl eq_refl)). unfold HOSTING in G. lia. }
      destruct (zmem n visited); auto.
      destruct (cheapest_path_to n paths) as [[ch cp]|].
      - destruct (spent + r <? ch); auto. apply paths_ok_psort_snoc; auto. apply paths_ok_remove; auto.
      - apply paths_ok_psort_snoc; auto.
    Qed.

    (* ---- the visiting loop *)
    Lemma visit_loop_post prefix skip budget spent visited c fp
          (Hlast : last_z prefix = me) (Hfp : 0 <= fp) (Hnoh : ~ In HOSTING prefix)
          (Hown : owns C (hd (-2) prefix) c = true) :
      forall fuel i s paths count hosts evs,
        Mid s evs -> hosts_ok (Hs s) c hosts -> Z.of_nat (List.length hosts) + count = c_k C ->
        1 <= count -> paths_ok c paths ->
        match visit_loop C fuel i me prefix skip budget spent visited c fp s paths count hosts evs with
        | LDone r => Post r
        | LCont s' paths' count' hosts' evs' =>
            Mid s' evs' /\ hosts_ok (Hs s') c hosts' /\ Z.of_nat (List.length hosts') + count' = c_k C
            /\ 1 <= count' /\ paths_ok c paths'
        end.
    Proof.
      assert (Hne : prefix <> []).
      { intro E. subst prefix. unfold last_z in Hlast. simpl in Hlast. lia. }
      induction fuel as [|fuel IH]; intros i s paths count hosts evs M HO HL HC HP; simpl.
      - apply (Post_raise _ _ _ true); auto.
      - destruct (nth_error paths i) as [[cost p]|] eqn:En; [|auto].
        destruct (is_prefix prefix p && (cost <=? budget + spent)) eqn:Ec; [|apply IH; auto].
        apply andb_true_iff in Ec as [Epre _].
        destruct (skipn (List.length prefix) p) as [|x tl] eqn:Esk; [apply (Post_raise _ _ _ true); auto|].
        destruct (match skip with Some sp => path_eqb (prefix ++ [x]) sp | None => false end); [apply IH; auto|].
        destruct (x =? HOSTING) eqn:Ex.
        + apply Z.eqb_eq in Ex. subst x.
          assert (HPr : paths_ok c (remove_path paths (prefix ++ [HOSTING]))) by (apply paths_ok_remove; auto).
          assert (Onot : owns C me c = false).
          { apply nth_error_In in En. specialize (HP cost p En).
            rewrite <- Hlast. apply (HP prefix tl). rewrite (is_prefix_split _ _ Epre) at 1. rewrite Esk. reflexivity. }
          destruct (can_host C me (s_hosted s) c fp) eqn:Ecan; [|apply IH; auto].
          unfold can_host in Ecan. apply andb_true_iff in Ecan as [Ek Ecap].
          apply negb_true_iff in Ek. apply Z.leb_le in Ecap.
          set (owner := hd (-2) (prefix ++ [HOSTING])).
          set (s' := set_hosted s (dict_set Z.eqb c (owner, fp) (s_hosted s))).
          assert (EXT : ext s s').
          { intros c' G. unfold s'. simpl. rewrite mem_key_dict_set. rewrite G. apply orb_true_r. }
          assert (HLE : hle (Hs s) (Hs s')) by (apply hstu_hle; auto).
          destruct M as (A & (B1 & B2 & B3) & D).
          assert (M' : Mid s' (evs ++ [EvAccept me c owner fp (s_hosted s)])).
          { split; [intros c' G; apply EXT; apply A; auto|]. split.
            - unfold s'. split; [|split]; simpl.
              + rewrite (dict_set_absent _ _ _ Ek). intros e He. apply in_app_or in He as [He|[<-|[]]]; auto.
              + etransitivity; [apply max_footprint_after_accept; auto; apply (wf_kt WF)|]. lia.
              + eapply rh_ok_mono; eauto.
            - apply Forall_app. split; [eapply Forall_ev_ok_mono; eauto|].
              repeat constructor; simpl; auto. }
          assert (HO' : hosts_ok (Hs s') c (hosts ++ [me])).
          { destruct HO as [ND AH]. split.
            - apply NoDup_snoc; auto. intro G. destruct (AH me G) as [G1 _].
              unfold hstu in G1. rewrite Z.eqb_refl in G1. congruence.
            - intros h Hh. apply in_app_or in Hh as [Hh|[<-|[]]].
              + destruct (AH h Hh). split; auto.
              + split; auto. unfold hstu. rewrite Z.eqb_refl. unfold s'. simpl.
                rewrite mem_key_dict_set, Z.eqb_refl. reflexivity. }
          assert (HL' : Z.of_nat (List.length (hosts ++ [me])) + (count - 1) = c_k C).
          { rewrite app_length. simpl. lia. }
          destruct (count - 1 =? 0) eqn:E0.
          * apply send_answer_post; auto. apply TF_intro; auto; lia.
          * apply IH; auto. lia.
        + apply send_request_post; auto. apply Z.eqb_neq in Ex.
          apply TF_intro; auto; try lia.
          * rewrite in_app_iff. simpl. intros [G|[G|[]]]; auto.
          * destruct prefix; [contradiction|exact Hown].
    Qed.

    Lemma on_request_post s b sp rq paths visited c fp count hosts evs :
      Mid s evs -> TF (Hs s) c fp rq paths count hosts -> 1 <= count ->
      Post (on_request C me s b sp rq paths visited c fp count hosts evs).
    Proof.
      intros M (HO & HL & HC & Hfp & HP & Hnoh & Hown) H1. unfold on_request.
      destruct (negb (last_z rq =? me)) eqn:El; [apply (Post_raise _ _ _ true); auto|].
      apply negb_false_iff in El. apply Z.eqb_eq in El.
      set (paths2 := if _ && _ then _ else _).
      assert (HP2 : paths_ok c paths2).
      { unfold paths2. destruct (negb (zmem me visited) && negb (owns C me c)) eqn:E.
        - apply andb_true_iff in E as [_ E]. apply negb_true_iff in E.
          apply paths_ok_psort_snoc; [apply paths_ok_remove; auto|]. simpl.
          apply hosting_path_ok; auto. rewrite El. auto.
        - apply paths_ok_remove; auto. }
      pose proof (visit_loop_post rq None b sp (if negb (zmem me visited) then visited ++ [me] else visited)
                    c fp El Hfp Hnoh Hown (S (List.length paths2)) 0 s paths2 count hosts evs M HO HL H1 HP2) as V.
      destruct (visit_loop _ _ _ _ _ _ _ _ _ _ _ _ _ _ _ _) as [r|s' p3 c3 h3 e3]; auto.
      destruct V as (M3 & HO3 & HL3 & HC3 & HP3).
      apply send_answer_post; auto. apply TF_intro; auto; try lia.
      apply paths_ok_add_neighbors; auto. intros n r. apply neighbors_pos.
    Qed.

    Lemma on_answer_post s b sp rq paths visited c fp count hosts evs :
      Mid s evs -> TF (Hs s) c fp rq paths count hosts -> (exists pre sd, rq = pre ++ [me; sd]) ->
      Post (on_answer C me s b sp rq paths visited c fp count hosts evs).
    Proof.
      intros M (HO & HL & HC & Hfp & HP & Hnoh & Hown) (pre & sd & Erq). unfold on_answer.
      assert (Erev : rev rq = sd :: me :: rev pre).
      { rewrite Erq, rev_app_distr. reflexivity. }
      rewrite Erev.
      assert (Einit : removelast rq = pre ++ [me]).
      { rewrite Erq. change [me; sd] with ([me] ++ [sd]). rewrite app_assoc. apply removelast_last. }
      rewrite Einit.
      assert (Hlast : last_z (pre ++ [me]) = me) by apply last_z_app.
      assert (Hnoh' : ~ In HOSTING (pre ++ [me])).
      { intro G. apply Hnoh. rewrite Erq. apply in_app_or in G as [G|[G|[]]]; apply in_or_app; [left; auto|right; left; auto]. }
      assert (Hown' : owns C (hd (-2) (pre ++ [me])) c = true).
      { rewrite Erq in Hown. destruct pre; exact Hown. }
      assert (Hshort : (3 <=? Z.of_nat (List.length rq)) = false -> owns C me c = true).
      { intros G. apply Z.leb_gt in G. rewrite Erq, app_length in G. simpl in G.
        destruct pre; [|simpl in G; lia]. rewrite Erq in Hown. exact Hown. }
      assert (HLk : forall (hs : list Z) cnt, Z.of_nat (List.length hs) + cnt = c_k C -> 0 <= cnt -> Z.of_nat (List.length hs) <= c_k C)
        by (intros; lia).
      destruct (count =? 0) eqn:E0.
      - destruct (3 <=? Z.of_nat (List.length rq)) eqn:Elong.
        + apply send_answer_post; auto. apply TF_intro; auto.
        + apply computation_replicated_post; eauto.
      - apply Z.eqb_neq in E0. assert (H1 : 1 <= count) by lia.
        pose proof (visit_loop_post (pre ++ [me]) (Some rq) b sp visited c fp Hlast Hfp Hnoh' Hown'
                      (S (List.length paths)) 0 s paths count hosts evs M HO HL H1 HP) as V.
        destruct (visit_loop _ _ _ _ _ _ _ _ _ _ _ _ _ _ _ _) as [r|s' p3 c3 h3 e3]; auto.
        destruct V as (M3 & HO3 & HL3 & HC3 & HP3).
        destruct (3 <=? Z.of_nat (List.length rq)) eqn:Elong.
        + apply send_answer_post; auto. apply TF_intro; auto; lia.
        + destruct p3 as [|e0 p3'] eqn:Ep3.
          * apply computation_replicated_post; eauto. eapply HLk; eauto. lia.
          * rewrite <- Ep3 in *. destruct (filter _ p3) as [|[c0 q0] r0]; [apply (Post_raise _ _ _ true); auto|].
            apply on_request_post; auto. apply TF_intro; auto; try lia.
            simpl. intros [G|[]]. unfold HOSTING in G. lia.
    Qed.

  End Handler.

  Lemma Mid_refl me hst s : st_ok (hstu hst me s) me s -> Mid me hst s s [].
  Proof. intros S. split; [intros c G; exact G|]. split; [exact S|constructor]. Qed.

  Lemma replicate_loop_post me (me_pos : 0 <= me) hst k (Hk : k = c_k C) : forall comps s0 s outs evs,
    (forall x, In x comps -> In x (a_comps (agent C me))) ->
    Mid me hst s0 s evs -> (forall d m, In (d, m) outs -> msg_ok (hstu hst me s) d m) ->
    Post me hst s0 (replicate_loop C me k comps s outs evs).
  Proof.
    induction comps as [|x rest IH]; intros s0 s outs evs Hin M HOuts; simpl.
    - split; auto.
    - set (paths := psort _).
      assert (HPaths : paths_ok (comp_name x) paths).
      { intros cost p Hp. unfold paths, psort in Hp. apply isort_In in Hp.
        apply in_map_iff in Hp as [[n r] [E Hn]]. inversion E; subst. simpl.
        apply no_hosting_ok. simpl. apply neighbors_pos in Hn. unfold HOSTING. lia. }
      destruct paths as [|[c0 q0] r0] eqn:Ep.
      { split; [apply Mid_raise; auto|exact HOuts]. }
      rewrite <- Ep in *.
      assert (Hx : In x (a_comps (agent C me))) by (apply Hin; left; auto).
      assert (T : forall H, TF H (comp_name x) (comp_fp x) [me] paths k []).
      { intros H. pose proof (wf_k WF). apply TF_intro; auto; try (simpl; lia).
        - split; [constructor|intros h []].
        - apply (wf_fp WF me x Hx).
        - simpl. intros [G|[]]. unfold HOSTING in G. lia.
        - simpl. unfold owns, own_names. apply zmem_In. apply in_map. auto. }
      assert (K1 : 1 <= k) by (pose proof (wf_k WF); lia).
      pose proof (on_request_post me me_pos hst s0 s (min_cost r0 c0) 0 [me] paths [me]
                    (comp_name x) (comp_fp x) k [] evs M (T _) K1) as R.
      assert (M2 : Mid me hst s s evs).
      { destruct M as (A & B & D). split; [intros c G; exact G|]. split; auto. }
      pose proof (on_request_post me me_pos hst s s (min_cost r0 c0) 0 [me] paths [me]
                    (comp_name x) (comp_fp x) k [] evs M2 (T _) K1) as R2.
      destruct (on_request _ _ _ _ _ _ _ _ _ _ _ _ _) as [[[s1 o1] e1] raised].
      destruct R as [M1 O1]. destruct R2 as [(EXT & _) _].
      assert (HLE : hle (hstu hst me s) (hstu hst me s1)) by (apply hstu_hle; auto).
      assert (OUTS : forall d m, In (d, m) (outs ++ o1) -> msg_ok (hstu hst me s1) d m).
      { intros d m G. apply in_app_or in G as [G|G]; auto. eapply msg_ok_mono; eauto. }
      destruct raised.
      + split; auto.
      + apply IH; auto. intros y Hy. apply Hin. right; auto.
  Qed.

  Lemma replicate_post me (me_pos : 0 <= me) hst s k :
    k = c_k C -> st_ok (hstu hst me s) me s -> Post me hst s (replicate C me s k).
  Proof.
    intros Hk S. unfold replicate.
    assert (DONE : forall i, Post me hst s (set_inprog s i, [], [EvDone me (s_rhosts s)], false)).
    { intros i. split; [|intros d m []]. split; [intros c G; exact G|]. split; [exact S|].
      constructor; [|constructor]. simpl. apply S. }
    destruct (a_comps (agent C me)) as [|x0 r0] eqn:Ec.
    - destruct s. apply (DONE s_inprog).
    - set (s1 := set_inprog s _).
      destruct (neighbors C me) eqn:En; [apply DONE|].
      apply replicate_loop_post; auto.
      + intros x Hx. rewrite Ec. exact Hx.
      + split; [intros c G; exact G|]. split; [exact S|constructor].
      + intros d m [].
  Qed.

  (* ---- the handlers of the protocol *)
  Lemma ucs_recv_post n hst s src m :
    msg_ok (hstu hst n s) n m -> st_ok (hstu hst n s) n s ->
    let '(s', outs, evs) := ucs_recv C n s src m in
    ext s s' /\ st_ok (hstu hst n s') n s' /\ Forall (ev_ok (hstu hst n s')) evs
    /\ forall d m', In (d, m') outs -> msg_ok (hstu hst n s') d m'.
  Proof.
    intros MO S. unfold ucs_recv.
    destruct (is_agent C n) eqn:Ea; simpl.
    2:{ split; [intros c G; exact G|]. split; [exact S|]. split; [constructor|intros d m' []]. }
    assert (Hn : 0 <= n) by (unfold is_agent in Ea; lia).
    assert (FIN : forall r, Post n hst s r -> let '(s', outs, evs) := drop_raised r in
              ext s s' /\ st_ok (hstu hst n s') n s' /\ Forall (ev_ok (hstu hst n s')) evs
              /\ forall d m', In (d, m') outs -> msg_ok (hstu hst n s') d m').
    { intros [[[s' o] e] b] [(A & B & D) O]. simpl. auto. }
    destruct m as [k|t|t]; simpl in MO.
    - apply FIN. apply replicate_post; auto.
    - destruct MO as [T H1]. apply FIN. apply on_request_post; auto. apply Mid_refl; auto.
    - destruct MO as [T E]. apply FIN.
      apply (on_answer_post n Hn hst s (set_pending s _)); auto.
      apply (Mid_refl n hst s S).
  Qed.

  (* ---- the network *)
  Notation P := (ucs_proto C).
  Notation config := (Net.config nstate msg).
  Definition Hof (cf : config) : Z -> hosted_t := fun n => s_hosted (w_st (nodes cf n)).
  Definition Inv (cf : config) : Prop :=
    (forall s d m, In m (chan cf s d) -> msg_ok (Hof cf) d m) /\
    (forall d s m, In (s, m) (w_held (nodes cf d)) -> msg_ok (Hof cf) d m) /\
    (forall n, st_ok (Hof cf) n (w_st (nodes cf n))).

  Lemma In_upd_chan (c : node -> node -> list msg) s d q x y m :
    In m (upd_chan c s d q x y) -> (x = s /\ y = d /\ In m q) \/ In m (c x y).
  Proof.
    unfold upd_chan. destruct (Z.eqb_spec x s), (Z.eqb_spec y d); simpl; auto.
  Qed.

  Lemma In_send_all outs : forall (c : node -> node -> list msg) src s d m,
    In m (send_all c src outs s d) -> In m (c s d) \/ (s = src /\ In (d, m) outs).
  Proof.
    induction outs as [|[d0 m0] r IH]; simpl; intros c src s d m H; auto.
    apply IH in H as [H|[E H]]; [|right; split; [exact E|right; exact H]].
    apply In_upd_chan in H as [(E1 & E2 & H)|H]; [|left; exact H].
    apply in_app_or in H as [H|[G|[]]]; [left; subst; exact H|].
    right. subst. split; [reflexivity|left; reflexivity].
  Qed.

  Lemma In_reinject_all l : forall (c : node -> node -> list msg) dst s d m,
    In m (reinject_all c dst l s d) -> In m (c s d) \/ (d = dst /\ In (s, m) l).
  Proof.
    unfold reinject_all. induction l as [|[s0 m0] r IH]; simpl; intros c dst s d m H; auto.
    apply In_upd_chan in H as [(E1 & E2 & H)|H].
    - subst. destruct H as [<-|H]; auto. apply IH in H as [H|[_ H]]; auto.
    - apply IH in H as [H|[E H]]; auto.
  Qed.

  Definition heq (h1 h2 : Z -> hosted_t) : Prop := forall n, h1 n = h2 n.
  Lemma heq_hle h1 h2 : heq h1 h2 -> hle h1 h2.
  Proof. intros E n c. rewrite E. auto. Qed.
  Lemma heq_sym h1 h2 : heq h1 h2 -> heq h2 h1.
  Proof. intros E n. auto. Qed.

  Lemma step_inv cf a : Inv cf ->
    let '(cf', evs) := step P cf a in
    Inv cf' /\ hle (Hof cf) (Hof cf') /\ Forall (ev_ok (Hof cf')) evs.
  Proof.
    intros (IC & IH & IS). destruct a as [n|s d]; simpl.
    - (* Start n *)
      destruct (w_running (nodes cf n)) eqn:Er.
      { split; [split; auto|]. split; [apply hle_refl|constructor]. }
      unfold ucs_start.
      assert (GEN : forall outs : list (node * msg), (forall d m, In (d, m) outs -> msg_ok (Hof cf) d m) ->
                 let cf' := mkConfig (upd_node (nodes cf) n (mkWrap true [] (w_st (nodes cf n))))
                                     (reinject_all (send_all (chan cf) n outs) n (reinject (w_held (nodes cf n)))) in
                 Inv cf' /\ hle (Hof cf) (Hof cf') /\ Forall (ev_ok (Hof cf')) []).
      { intros outs OUTS cf'.
        assert (HE : heq (Hof cf) (Hof cf')).
        { intros x. unfold Hof, cf', upd_node. simpl. destruct (x =? n) eqn:Ex; auto.
          apply Z.eqb_eq in Ex. subst. reflexivity. }
        pose proof (heq_hle _ _ HE) as HL.
        split; [|split; [exact HL|constructor]].
        split; [|split].
        + intros s d m G. unfold cf' in G. simpl in G.
          apply In_reinject_all in G as [G|[E G]].
          * apply (msg_ok_mono (Hof cf)); [exact HL|]. apply In_send_all in G as [G|[E G]]; [apply (IC s d m G)|apply (OUTS d m G)].
          * subst. unfold reinject in G. try apply (proj2 (in_rev _ _)) in G. apply (msg_ok_mono (Hof cf)); [exact HL|]. apply (IH n s m G).
        + intros d s m G. unfold cf', upd_node in G. simpl in G.
          destruct (d =? n); [destruct G|]. apply (msg_ok_mono (Hof cf)); [exact HL|]. apply (IH d s m G).
        + intros x. eapply st_ok_mono; eauto. unfold cf', upd_node. simpl.
          destruct (x =? n) eqn:Ex; auto. apply Z.eqb_eq in Ex. subst. apply IS. }
      destruct (n =? ORCH); apply GEN.
      + intros d m G. apply in_map_iff in G as [a [E _]]. inversion E; subst. reflexivity.
      + intros d m [].
    - (* Deliver s d *)
      destruct (chan cf s d) as [|m q] eqn:Ech.
      { split; [split; auto|]. split; [apply hle_refl|constructor]. }
      assert (MOK : msg_ok (Hof cf) d m) by (apply (IC s d); rewrite Ech; left; auto).
      assert (C0 : forall x y m', In m' (upd_chan (chan cf) s d q x y) -> msg_ok (Hof cf) y m').
      { intros x y m' G. apply In_upd_chan in G as [(E1 & E2 & G)|G]; [subst|eauto].
        apply (IC s d). rewrite Ech. right; auto. }
      destruct (w_running (nodes cf d)) eqn:Er.
      + set (w := nodes cf d).
        assert (HE0 : heq (Hof cf) (hstu (Hof cf) d (w_st w))).
        { intros x. unfold hstu, Hof, w. destruct (x =? d) eqn:Ex; auto. apply Z.eqb_eq in Ex. subst. auto. }
        pose proof (ucs_recv_post d (Hof cf) (w_st w) s m
                      (msg_ok_mono _ _ _ _ (heq_hle _ _ HE0) MOK)
                      (st_ok_mono _ _ _ _ (heq_hle _ _ HE0) (IS d))) as R.
        change (p_recv P d (w_st w) s m) with (ucs_recv C d (w_st w) s m).
        destruct (ucs_recv C d (w_st w) s m) as [[st' outs] evs].
        destruct R as (EXT & ST & EV & OUT).
        set (cf' := mkConfig _ _).
        assert (HE : heq (hstu (Hof cf) d st') (Hof cf')).
        { intros x. unfold hstu, Hof, cf', upd_node. simpl. destruct (x =? d); auto. }
        pose proof (heq_hle _ _ HE) as HL1.
        assert (HL : hle (Hof cf) (Hof cf')).
        { eapply hle_trans; [apply (heq_hle _ _ HE0)|]. eapply hle_trans; [|exact HL1]. apply hstu_hle; auto. }
        split; [|split; [exact HL|apply (Forall_ev_ok_mono (hstu (Hof cf) d st')); [exact HL1|exact EV]]].
        split; [|split].
        * intros x y m' G. unfold cf' in G. simpl in G.
          apply In_send_all in G as [G|[E G]].
          -- apply (msg_ok_mono (Hof cf)); [exact HL|]. apply (C0 x y m' G).
          -- apply (msg_ok_mono (hstu (Hof cf) d st')); [exact HL1|]. apply OUT. exact G.
        * intros y x m' G. unfold cf', upd_node in G. simpl in G.
          apply (msg_ok_mono (Hof cf)); [exact HL|].
          destruct (y =? d) eqn:Ey; simpl in G; [|apply (IH y x m' G)].
          apply Z.eqb_eq in Ey. subst. apply (IH d x m' G).
        * intros x. unfold cf', upd_node. simpl. destruct (x =? d) eqn:Ex; simpl.
          -- apply Z.eqb_eq in Ex. subst. apply (st_ok_mono (hstu (Hof cf) d st')); [exact HL1|exact ST].
          -- apply (st_ok_mono (Hof cf)); [exact HL|apply IS].
      + set (cf' := mkConfig _ _).
        assert (HE : heq (Hof cf) (Hof cf')).
        { intros x. unfold Hof, cf', upd_node. simpl. destruct (x =? d) eqn:Ex; auto.
          apply Z.eqb_eq in Ex. subst. reflexivity. }
        pose proof (heq_hle _ _ HE) as HL.
        split; [|split; [exact HL|constructor]].
        split; [|split].
        * intros x y m' G. unfold cf' in G. simpl in G. eapply msg_ok_mono; eauto.
        * intros y x m' G. unfold cf', upd_node in G. simpl in G.
          destruct (y =? d) eqn:Ey; simpl in G; [|eapply msg_ok_mono; eauto].
          apply Z.eqb_eq in Ey. subst. apply in_app_or in G as [G|[G|[]]]; [eapply msg_ok_mono; eauto|].
          inversion G; subst. eapply msg_ok_mono; eauto.
        * intros x. eapply st_ok_mono; eauto. unfold cf', upd_node. simpl.
          destruct (x =? d) eqn:Ex; auto. apply Z.eqb_eq in Ex. subst. apply IS.
  Qed.

  Lemma max_footprint_nil : max_footprint C [] = 0.
  Proof.
    unfold max_footprint. simpl. pose proof (wf_kt WF). rewrite Z.min_r by lia. reflexivity.
  Qed.

  Lemma init_inv : Inv (init P).
  Proof.
    split; [intros s d m []|]. split; [intros d s m []|].
    intros n. simpl. split; [intros e []|]. split.
    - simpl. rewrite max_footprint_nil. apply (wf_cap WF).
    - intros c hs E. discriminate.
  Qed.

  Lemma exec_inv sched : forall cf, Inv cf ->
    let '(cf', evs) := exec P cf sched in
    Inv cf' /\ hle (Hof cf) (Hof cf') /\ Forall (ev_ok (Hof cf')) evs.
  Proof.
    induction sched as [|a r IH]; intros cf I; simpl.
    - split; auto. split; [apply hle_refl|constructor].
    - pose proof (step_inv cf a I) as S1. destruct (step P cf a) as [cf1 e1].
      destruct S1 as (I1 & L1 & E1). specialize (IH cf1 I1).
      destruct (exec P cf1 r) as [cf2 e2]. destruct IH as (I2 & L2 & E2).
      split; auto. split; [eapply hle_trans; eauto|].
      apply Forall_app. split; auto. eapply Forall_ev_ok_mono; eauto.
  Qed.

  Lemma reachable_inv cf : reachable P cf -> Inv cf.
  Proof.
    induction 1 as [|cf a R IH]; [apply init_inv|].
    pose proof (step_inv cf a IH) as S1. destruct (step P cf a) as [cf1 e1]. apply S1.
  Qed.
End Proto.

(* ================================================================== 3. the statements of C25 *)
Section Theorems.
  Variable C : cfg.
  Hypothesis WF : wf C.
  Notation P := (ucs_proto C).
  Notation hosted_of cf n := (s_hosted (w_st (nodes cf n))).

  (* _max_footprint = the maximum, over the sets of at most k_target-1 owners, of the total
     footprint of the replicas held for them *)
  Lemma max_footprint_spec_l h : fp_nonneg h ->
    (forall S, NoDup S -> Z.of_nat (List.length S) <= c_ktarget C - 1 -> total_for h S <= max_footprint C h)
    /\ (exists S, NoDup S /\ Z.of_nat (List.length S) <= c_ktarget C - 1 /\ total_for h S = max_footprint C h).
  Proof.
    intros Hn. split.
    - intros S ND L. apply max_footprint_upper; auto. apply (wf_kt C WF).
    - destruct (max_footprint_attained C (wf_kt C WF) h Hn) as (S & A & B & _ & D). exists S. auto.
  Qed.

  Lemma run_inv sched :
    Inv C (fst (run P sched)) /\ Forall (ev_ok C (Hof (fst (run P sched)))) (snd (run P sched)).
  Proof.
    unfold run. pose proof (exec_inv C WF sched (init P) (init_inv C WF)) as E.
    destruct (exec P (init P) sched) as [cf evs]. simpl. destruct E as (A & _ & B). auto.
  Qed.

  (* every acceptance, in every run: the replica is new, the host is not an owner of the
     computation, and the remaining capacity covers the new footprint plus the total footprint
     of the replicas already held for ANY set of at most k_target-1 owners *)
  Lemma accept_safe_l sched n c o fp hb :
    In (EvAccept n c o fp hb) (snd (run P sched)) ->
    mem_key Z.eqb c hb = false /\ owns C n c = false /\
    forall S, NoDup S -> Z.of_nat (List.length S) <= c_ktarget C - 1 -> fp + total_for hb S <= remaining C n.
  Proof.
    intros H. destruct (run_inv sched) as [_ F]. rewrite Forall_forall in F. specialize (F _ H).
    simpl in F. destruct F as (A & B & D & E). split; auto. split; auto.
    intros S ND L. pose proof (max_footprint_upper C (wf_kt C WF) hb S E ND L). lia.
  Qed.

  (* the requested level k: same statement with k-1 owners whenever k <= k_target (= 3) *)
  Lemma accept_safe_level_l sched n c o fp hb :
    c_k C <= c_ktarget C ->
    In (EvAccept n c o fp hb) (snd (run P sched)) ->
    forall S, NoDup S -> Z.of_nat (List.length S) <= c_k C - 1 -> fp + total_for hb S <= remaining C n.
  Proof.
    intros K H S ND L. destruct (accept_safe_l sched n c o fp hb H) as (_ & _ & G). apply G; auto. lia.
  Qed.

  (* in every reachable configuration every agent can activate the replicas it holds for any
     k_target-1 owners within its remaining capacity *)
  Lemma capacity_safe_l cf n S :
    reachable P cf -> NoDup S -> Z.of_nat (List.length S) <= c_ktarget C - 1 ->
    total_for (hosted_of cf n) S <= remaining C n.
  Proof.
    intros R ND L. destruct (reachable_inv C WF cf R) as (_ & _ & IS). destruct (IS n) as (A & B & _).
    pose proof (max_footprint_upper C (wf_kt C WF) _ S A ND L). lia.
  Qed.

  Definition placed (cf : config nstate msg) (n c : Z) (hs : list Z) : Prop :=
    owns C n c = true /\ NoDup hs /\
    forall h, In h hs -> h <> n /\ owns C h c = false /\ mem_key Z.eqb c (hosted_of cf h) = true.

  Lemma hosts_ok_placed cf n c hs : owns C n c = true -> hosts_ok C (Hof cf) c hs -> placed cf n c hs.
  Proof.
    intros O [ND A]. split; auto. split; auto. intros h Hh. destruct (A h Hh) as [A1 A2].
    split; [intro E; subst; congruence|]. split; auto.
  Qed.

  (* computation_replicated(c, hosts) at n, in every run: n owns c, the hosts are distinct, at
     most k, none of them owns c (so none is n) and each of them holds (and has registered) the
     replica in the final configuration *)
  Lemma placement_inv_l sched n c hs :
    In (EvRepl n c hs) (snd (run P sched)) ->
    placed (fst (run P sched)) n c hs /\ Z.of_nat (List.length hs) <= c_k C.
  Proof.
    intros H. destruct (run_inv sched) as [_ F]. rewrite Forall_forall in F. specialize (F _ H).
    simpl in F. destruct F as (A & B & D). split; auto. apply hosts_ok_placed; auto.
  Qed.

  (* replication_done(replica_hosts) at n: every reported entry is such a placement *)
  Lemma done_report_inv_l sched n rh c hs :
    In (EvDone n rh) (snd (run P sched)) -> zlookup c rh = Some hs -> placed (fst (run P sched)) n c hs.
  Proof.
    intros H E. destruct (run_inv sched) as [_ F]. rewrite Forall_forall in F. specialize (F _ H).
    simpl in F. destruct (F c hs E). apply hosts_ok_placed; auto.
  Qed.

  (* the _replica_hosts table of every agent in every reachable configuration *)
  Lemma replica_hosts_inv_l cf n c hs :
    reachable P cf -> zlookup c (s_rhosts (w_st (nodes cf n))) = Some hs -> placed cf n c hs.
  Proof.
    intros R E. destruct (reachable_inv C WF cf R) as (_ & _ & IS). destruct (IS n) as (_ & _ & D).
    destruct (D c hs E). apply hosts_ok_placed; auto.
  Qed.
End Theorems.

(* a decidable sufficient condition for [wf] (used by the non-vacuity example) *)
Definition wf_b (C : cfg) : bool :=
  (1 <=? c_ktarget C) && (1 <=? c_k C) &&
  forallb (fun a => forallb (fun x => 0 <=? comp_fp x) (a_comps a)
                    && (0 <=? a_cap a - zsum (map comp_fp (a_comps a)))) (c_agents C).

Lemma wf_b_sound C : wf_b C = true -> wf C.
Proof.
  unfold wf_b. intros H. apply andb_true_iff in H as [H H3]. apply andb_true_iff in H as [H1 H2].
  rewrite forallb_forall in H3.
  assert (A : forall n, agent C n = dflt_agent \/ In (agent C n) (c_agents C)).
  { intros n. unfold agent. destruct ((0 <=? n) && (n <? nagents C)) eqn:E; auto.
    right. apply nth_In. unfold nagents in E. lia. }
  constructor; try lia.
  - intros n x Hx. destruct (A n) as [E|E].
    + rewrite E in Hx. destruct Hx.
    + apply H3 in E. apply andb_true_iff in E as [E _]. rewrite forallb_forall in E. apply E in Hx. lia.
  - intros n. unfold remaining. destruct (A n) as [E|E].
    + rewrite E. simpl. lia.
    + apply H3 in E. apply andb_true_iff in E as [_ E]. lia.
Qed.

(* ================================================================== 4. token conservation (local) *)
(* A handler that consumes the request/answer token of computation c posts exactly one token of
   c, or reports computation_replicated(c, _), or raises: the token is never silently dropped
   nor duplicated.  (Local basis of termination; the global argument is not proved.) *)
Section Conservation.
  Variable C : cfg.

  Definition is_tok (c : Z) (m : msg) : bool :=
    match m with MRequest t | MAnswer t => t_comp t =? c | MReplicate _ => false end.

  Definition conserved (me c : Z) (evs0 : list ev) (r : hres) : Prop :=
    let '(_, outs, evs, raised) := r in
    exists evs1, evs = evs0 ++ evs1 /\
      ((raised = false /\ (exists d m, outs = [(d, m)] /\ is_tok c m = true) /\ forall hs, ~ In (EvRepl me c hs) evs1)
       \/ (raised = false /\ outs = [] /\ exists hs, In (EvRepl me c hs) evs1)
       \/ (raised = true /\ outs = [] /\ exists k, In (EvRaise me k) evs1)).

  Definition only_accepts (l : list ev) : Prop :=
    Forall (fun e => match e with EvAccept _ _ _ _ _ => True | _ => False end) l.

  Lemma only_accepts_no_repl l me c hs : only_accepts l -> ~ In (EvRepl me c hs) l.
  Proof. intros F G. unfold only_accepts in F. rewrite Forall_forall in F. apply (F _ G). Qed.

  Lemma conserved_prefix me c evs0 evs1 r :
    only_accepts evs1 -> conserved me c (evs0 ++ evs1) r -> conserved me c evs0 r.
  Proof.
    destruct r as [[[s o] e] b]. intros OA (evs2 & E & D). exists (evs1 ++ evs2). split.
    - rewrite E, app_assoc. reflexivity.
    - destruct D as [(A & B & D)|[(A & B & hs & D)|(A & B & k & D)]].
      + left. split; auto. split; auto. intros hs G. apply in_app_or in G as [G|G].
        * eapply only_accepts_no_repl; eauto. * eapply D; eauto.
      + right. left. split; auto. split; auto. exists hs. apply in_or_app. auto.
      + right. right. split; auto. split; auto. exists k. apply in_or_app. auto.
  Qed.

  Lemma raise_conserved me c s evs k : conserved me c evs (s, [], evs ++ [EvRaise me k], true).
  Proof. exists [EvRaise me k]. split; auto. right. right. split; auto. split; auto. exists k. left; auto. Qed.

  Lemma send_answer_conserved me s b sp rq paths visited c fp count hosts evs :
    conserved me c evs (send_answer C me s b sp rq paths visited c fp count hosts evs).
  Proof.
    unfold send_answer. destruct (negb _); [(first [apply (raise_conserved _ _ s2) | apply (raise_conserved _ _ s)])|].
    destruct (rev rq) as [|sd [|tg rest]]; try (first [apply (raise_conserved _ _ s2) | apply (raise_conserved _ _ s)]).
    destruct (_ || _); [(first [apply (raise_conserved _ _ s2) | apply (raise_conserved _ _ s)])|].
    exists []. split; [rewrite app_nil_r; auto|]. left. split; auto. split; [|intros hs []].
    eexists _, _. split; [reflexivity|]. simpl. apply Z.eqb_refl.
  Qed.

  Lemma send_request_conserved me s b sp tp paths visited c fp count hosts evs :
    conserved me c evs (send_request C me s b sp tp paths visited c fp count hosts evs).
  Proof.
    unfold send_request. destruct (_ || _); [(first [apply (raise_conserved _ _ s2) | apply (raise_conserved _ _ s)])|].
    exists []. split; [rewrite app_nil_r; auto|]. left. split; auto. split; [|intros hs []].
    eexists _, _. split; [reflexivity|]. simpl. apply Z.eqb_refl.
  Qed.

  Lemma computation_replicated_conserved me s c hosts evs :
    conserved me c evs (computation_replicated me s c hosts evs).
  Proof.
    unfold computation_replicated. destruct (zlookup c (s_inprog s)).
    - eexists. split; [reflexivity|]. right. left. split; auto. split; auto. exists hosts. left; auto.
    - exists [EvRepl me c hosts; EvRaise me 4]. split; auto. right. right. split; auto. split; auto.
      exists 4. right. left. auto.
  Qed.

  Lemma visit_loop_conserved me prefix skip budget spent visited c fp : forall fuel i s paths count hosts evs,
    match visit_loop C fuel i me prefix skip budget spent visited c fp s paths count hosts evs with
    | LDone r => conserved me c evs r
    | LCont _ _ _ _ evs' => exists evs1, evs' = evs ++ evs1 /\ only_accepts evs1
    end.
  Proof.
    induction fuel as [|fuel IH]; intros i s paths count hosts evs; simpl.
    - (first [apply (raise_conserved _ _ s2) | apply (raise_conserved _ _ s)]).
    - destruct (nth_error paths i) as [[cost p]|]; [|exists []; split; [rewrite app_nil_r; auto|constructor]].
      destruct (_ && _); [|apply IH].
      destruct (skipn _ p) as [|x tl]; [(first [apply (raise_conserved _ _ s2) | apply (raise_conserved _ _ s)])|].
      destruct (match skip with Some sp => _ | None => false end); [apply IH|].
      destruct (x =? HOSTING); [|apply send_request_conserved].
      destruct (can_host _ _ _ _ _); [|apply IH].
      set (ea := EvAccept _ _ _ _ _).
      assert (OA : only_accepts [ea]) by (repeat constructor).
      destruct (count - 1 =? 0).
      + apply (conserved_prefix me c evs [ea]); auto. apply send_answer_conserved.
      + match goal with |- context [visit_loop C fuel ?i' me prefix skip budget spent visited c fp ?s' ?p' ?c' ?h' ?e'] =>
          specialize (IH i' s' p' c' h' e') end.
        destruct (visit_loop _ _ _ _ _ _ _ _ _ _ _ _ _ _ _ _) as [r|s2 p2 c2 h2 e2].
        * apply (conserved_prefix me c evs [ea]); auto.
        * destruct IH as (evs1 & E & F). exists (ea :: evs1). split.
          -- rewrite E, <- app_assoc. reflexivity.
          -- constructor; simpl; auto.
  Qed.

  Lemma on_request_conserved me s b sp rq paths visited c fp count hosts evs :
    conserved me c evs (on_request C me s b sp rq paths visited c fp count hosts evs).
  Proof.
    unfold on_request. destruct (negb _); [(first [apply (raise_conserved _ _ s2) | apply (raise_conserved _ _ s)])|].
    match goal with |- context [visit_loop C ?f ?i me rq None b sp ?v c fp s ?p count hosts evs] =>
      pose proof (visit_loop_conserved me rq None b sp v c fp f i s p count hosts evs) as V end.
    destruct (visit_loop _ _ _ _ _ _ _ _ _ _ _ _ _ _ _ _) as [r|s2 p2 c2 h2 e2]; auto.
    destruct V as (evs1 & E & F). subst e2. apply (conserved_prefix me c evs evs1); auto.
    apply send_answer_conserved.
  Qed.

  Lemma on_answer_conserved me s b sp rq paths visited c fp count hosts evs :
    conserved me c evs (on_answer C me s b sp rq paths visited c fp count hosts evs).
  Proof.
    unfold on_answer. destruct (rev rq) as [|sd [|cur rest]]; try (first [apply (raise_conserved _ _ s2) | apply (raise_conserved _ _ s)]).
    destruct (count =? 0).
    - destruct (3 <=? _); [apply send_answer_conserved|apply computation_replicated_conserved].
    - match goal with |- context [visit_loop C ?f ?i me ?pre ?sk b sp visited c fp s paths count hosts evs] =>
        pose proof (visit_loop_conserved me pre sk b sp visited c fp f i s paths count hosts evs) as V end.
      destruct (visit_loop _ _ _ _ _ _ _ _ _ _ _ _ _ _ _ _) as [r|s2 p2 c2 h2 e2]; auto.
      destruct V as (evs1 & E & F). subst e2. apply (conserved_prefix me c evs evs1); auto.
      destruct (3 <=? _); [apply send_answer_conserved|].
      destruct p2; [apply computation_replicated_conserved|].
      destruct (filter _ _) as [|[c0 q0] r0]; [(first [apply (raise_conserved _ _ s2) | apply (raise_conserved _ _ s)])|apply on_request_conserved].
  Qed.

  Definition token_outcome (n c : Z) (r : nstate * list (node * msg) * list ev) : Prop :=
    let '(_, outs, evs) := r in
    (exists d m, outs = [(d, m)] /\ is_tok c m = true)
    \/ (outs = [] /\ exists hs, In (EvRepl n c hs) evs)
    \/ (outs = [] /\ exists k, In (EvRaise n k) evs).

  Lemma conserved_outcome n c r : conserved n c [] r -> token_outcome n c (drop_raised r).
  Proof.
    destruct r as [[[s o] e] b]. intros (evs1 & E & D). simpl in E. subst e. simpl.
    destruct D as [(A & B & D)|[(A & B & D)|(A & B & D)]]; auto.
  Qed.

  Lemma token_conserved_l n s src t :
    is_agent C n = true ->
    token_outcome n (t_comp t) (ucs_recv C n s src (MRequest t))
    /\ token_outcome n (t_comp t) (ucs_recv C n s src (MAnswer t)).
  Proof.
    intros A. unfold ucs_recv. rewrite A. simpl. split; apply conserved_outcome.
    - apply on_request_conserved. - apply on_answer_conserved.
  Qed.
End Conservation.

(* ================================================================== 5. one token per computation *)
(* Potential argument: (tokens of c in flight) + (replicate orders in flight to the owner of c)
   + (1 if the orchestrator has not started) never increases along a step and is 1 initially.
   Counted over the channels between the nodes that exist (orchestrator + agents) and their hold
   buffers; nodes outside never send ([src_ok]) and ignore what they receive. *)
Lemma zrange_from_In_conv n : forall s x, s <= x < s + Z.of_nat n -> In x (zrange_from s n).
Proof.
  induction n as [|n IH]; simpl; intros s x H; [lia|].
  destruct (Z.eq_dec s x); auto. right. apply IH. lia.
Qed.

Lemma zrange_from_NoDup n : forall s, NoDup (zrange_from s n).
Proof.
  induction n as [|n IH]; simpl; intros s; constructor; auto.
  intro H. apply zrange_from_In in H. lia.
Qed.

Section Unique.
  Variable C : cfg.
  Variables (c o : Z).
  Hypothesis own_o : forall d, owns C d c = true -> d = o.
  Hypothesis nodup_o : NoDup (own_names C o).
  Notation P := (ucs_proto C).

  Definition U : list Z := ORCH :: agent_ids C.
  Definition inU (x : Z) : bool := zmem x U.

  Lemma U_NoDup : NoDup U.
  Proof.
    unfold U. constructor; [|apply zrange_from_NoDup].
    intro H. apply zrange_from_In in H. unfold ORCH in H. lia.
  Qed.

  Lemma agent_inU d : is_agent C d = true -> inU d = true.
  Proof.
    unfold is_agent, nagents. intros H. apply zmem_In. right. apply zrange_from_In_conv. lia.
  Qed.

  Definition is_rep (m : msg) : bool := match m with MReplicate _ => true | _ => false end.
  Definition fw (d : Z) (m : msg) : bool := is_tok c m || (is_rep m && (d =? o)).
  Definition b2n (b : bool) : nat := if b then 1%nat else 0%nat.
  Definition cntl (f : msg -> bool) (l : list msg) : nat := List.length (filter f l).
  Definition lsum (g : Z -> nat) (l : list Z) : nat := list_sum (map g l).

  Lemma cntl_app f a b : cntl f (a ++ b) = (cntl f a + cntl f b)%nat.
  Proof. unfold cntl. now rewrite filter_app, app_length. Qed.
  Lemma cntl_cons f m l : cntl f (m :: l) = (b2n (f m) + cntl f l)%nat.
  Proof. unfold cntl. simpl. destruct (f m); reflexivity. Qed.

  Lemma lsum_ext g g' l : (forall x, In x l -> g x = g' x) -> lsum g l = lsum g' l.
  Proof.
    unfold lsum. induction l as [|y r IH]; simpl; intros H; auto.
  Qed.
  Lemma lsum_lin g h K l : lsum (fun x => g x + h x * K)%nat l = (lsum g l + lsum h l * K)%nat.
  Proof. unfold lsum. induction l as [|y r IH]; simpl; [lia|]. rewrite IH. lia. Qed.
  Lemma lsum_delta d l : NoDup l -> lsum (fun y => b2n (y =? d)) l = b2n (zmem d l).
  Proof.
    unfold lsum. induction l as [|y r IH]; simpl; intros ND; auto. inversion ND; subst.
    rewrite IH by auto. unfold zmem. simpl. rewrite (Z.eqb_sym d y).
    destruct (Z.eqb_spec y d) as [->|Hne]; simpl; auto.
    assert (E : existsb (Z.eqb d) r = false).
    { destruct (existsb (Z.eqb d) r) eqn:E; auto. apply (zmem_In d r) in E. contradiction. }
    rewrite E. reflexivity.
  Qed.
  Lemma lsum_scale k g l : lsum (fun y => k * g y)%nat l = (k * lsum g l)%nat.
  Proof. unfold lsum. induction l as [|y r IH]; simpl; [lia|]. rewrite IH. lia. Qed.

  (* weighted number of messages in the channels between nodes of U / held by nodes of U *)
  Definition cc (ch : node -> node -> list msg) : nat :=
    lsum (fun s => lsum (fun d => cntl (fw d) (ch s d)) U) U.
  Definition chd (nd : node -> nwrap nstate msg) : nat :=
    lsum (fun d => cntl (fw d) (map snd (w_held (nd d)))) U.

  Lemma cc_upd ch s d q :
    (cc (upd_chan ch s d q) + b2n (inU s && inU d) * cntl (fw d) (ch s d)
     = cc ch + b2n (inU s && inU d) * cntl (fw d) q)%nat.
  Proof.
    set (A := cntl (fw d) (ch s d)). set (B := cntl (fw d) q).
    set (dl := fun x y => b2n ((x =? s) && (y =? d))).
    assert (PW : forall x y, (cntl (fw y) (upd_chan ch s d q x y) + dl x y * A = cntl (fw y) (ch x y) + dl x y * B)%nat).
    { intros x y. unfold upd_chan, dl. destruct (Z.eqb_spec x s), (Z.eqb_spec y d); simpl; subst; unfold A, B; lia. }
    assert (ROW : forall x, (lsum (fun y => cntl (fw y) (upd_chan ch s d q x y)) U + lsum (dl x) U * A
                             = lsum (fun y => cntl (fw y) (ch x y)) U + lsum (dl x) U * B)%nat).
    { intros x. rewrite <- !lsum_lin. apply lsum_ext. intros y _. apply PW. }
    assert (DL : forall x, lsum (dl x) U = (b2n (Z.eqb x s) * b2n (inU d))%nat).
    { intros x. unfold dl, inU. rewrite <- (lsum_delta d U U_NoDup), <- lsum_scale. apply lsum_ext.
      intros y _. destruct (x =? s), (y =? d); reflexivity. }
    assert (TOT : (cc (upd_chan ch s d q) + lsum (fun x => lsum (dl x) U) U * A
                   = cc ch + lsum (fun x => lsum (dl x) U) U * B)%nat).
    { unfold cc. rewrite <- !lsum_lin. apply lsum_ext. intros x _. apply ROW. }
    assert (DD : lsum (fun x => lsum (dl x) U) U = b2n (inU s && inU d)).
    { rewrite (lsum_ext _ (fun x => b2n (inU d) * b2n (Z.eqb x s))%nat) by (intros x _; rewrite DL; lia).
      rewrite lsum_scale, (lsum_delta s U U_NoDup). unfold inU. destruct (zmem s U), (zmem d U); reflexivity. }
    rewrite DD in TOT. exact TOT.
  Qed.

  Lemma chd_upd nd n w :
    (chd (upd_node nd n w) + b2n (inU n) * cntl (fw n) (map snd (w_held (nd n)))
     = chd nd + b2n (inU n) * cntl (fw n) (map snd (w_held w)))%nat.
  Proof.
    set (A := cntl (fw n) (map snd (w_held (nd n)))). set (B := cntl (fw n) (map snd (w_held w))).
    assert (PW : forall y, (cntl (fw y) (map snd (w_held (upd_node nd n w y))) + b2n (Z.eqb y n) * A
                            = cntl (fw y) (map snd (w_held (nd y))) + b2n (Z.eqb y n) * B)%nat).
    { intros y. unfold upd_node. destruct (Z.eqb_spec y n); simpl; subst; unfold A, B; lia. }
    assert (TOT : (chd (upd_node nd n w) + lsum (fun y => b2n (Z.eqb y n)) U * A
                   = chd nd + lsum (fun y => b2n (Z.eqb y n)) U * B)%nat).
    { unfold chd. rewrite <- !lsum_lin. apply lsum_ext. intros y _. apply PW. }
    rewrite (lsum_delta n U U_NoDup) in TOT. exact TOT.
  Qed.

  Definition wsum (outs : list (node * msg)) : nat :=
    list_sum (map (fun tm => b2n (fw (fst tm) (snd tm))) outs).

  Lemma cc_send_all outs : forall ch src, (cc (send_all ch src outs) <= cc ch + wsum outs)%nat.
  Proof.
    induction outs as [|[d m] r IH]; intros ch src; simpl; [unfold wsum; simpl; lia|].
    etransitivity; [apply IH|]. unfold wsum. simpl.
    pose proof (cc_upd ch src d (ch src d ++ [m])) as E. rewrite cntl_app in E.
    unfold cntl at 3 in E. simpl in E. destruct (fw d m); simpl in *; destruct (inU src && inU d); simpl in E; lia.
  Qed.

  Lemma cc_reinject l : forall ch dst,
    (cc (reinject_all ch dst l) <= cc ch + b2n (inU dst) * cntl (fw dst) (map snd l))%nat.
  Proof.
    unfold reinject_all. induction l as [|[s m] r IH]; intros ch dst; simpl; [unfold cntl; simpl; lia|].
    set (c' := fold_right _ ch r).
    pose proof (cc_upd c' s dst (m :: c' s dst)) as E. rewrite cntl_cons in E.
    specialize (IH ch dst). fold c' in IH. rewrite cntl_cons.
    destruct (inU s), (inU dst); simpl in *; lia.
  Qed.

  Lemma cntl_rev f l : cntl f (rev l) = cntl f l.
  Proof. induction l as [|m r IH]; simpl; auto. rewrite cntl_app, IH, cntl_cons. unfold cntl. simpl. destruct (f m); simpl; lia. Qed.

  Lemma reinject_cntl f (l : list (node * msg)) : cntl f (map snd (reinject l)) = cntl f (map snd l).
  Proof. unfold reinject. first [reflexivity | (rewrite map_rev; apply cntl_rev)]. Qed.

  Lemma reinject_In (l : list (node * msg)) x : In x (reinject l) -> In x l.
  Proof. unfold reinject. first [exact (fun H => H) | apply (proj2 (in_rev _ _))]. Qed.

  (* ---- what the handlers post *)
  Lemma wsum_app a b : wsum (a ++ b) = (wsum a + wsum b)%nat.
  Proof. unfold wsum. rewrite map_app, list_sum_app. reflexivity. Qed.

  Lemma is_tok_inj c1 c2 m : is_tok c1 m = true -> is_tok c2 m = (c1 =? c2).
  Proof.
    destruct m; simpl; try discriminate; intros H; apply Z.eqb_eq in H; subst; reflexivity.
  Qed.
  Lemma is_tok_not_rep c1 m : is_tok c1 m = true -> is_rep m = false.
  Proof. destruct m; simpl; auto; discriminate. Qed.

  Lemma conserved_wsum me c1 evs r :
    conserved me c1 evs r -> (wsum (snd (fst (fst r))) <= b2n (Z.eqb c1 c))%nat.
  Proof.
    destruct r as [[[s1 o1] e1] b]. intros (evs1 & _ & D). simpl.
    destruct D as [(_ & (d & m & -> & T) & _)|[(_ & -> & _)|(_ & -> & _)]]; try (unfold wsum; simpl; lia).
    unfold wsum, fw. simpl. rewrite (is_tok_inj _ c _ T), (is_tok_not_rep _ _ T). simpl.
    destruct (c1 =? c); simpl; lia.
  Qed.

  Definition count_c (l : list Z) : nat := List.length (filter (Z.eqb c) l).

  Lemma replicate_loop_wsum me k : forall comps s outs evs,
    (wsum (snd (fst (fst (replicate_loop C me k comps s outs evs)))) <= wsum outs + count_c (map (@comp_name) comps))%nat.
  Proof.
    induction comps as [|x rest IH]; intros s outs evs; simpl; [lia|].
    destruct (psort _) as [|[c0 q0] r0]; [simpl; lia|].
    match goal with |- context [on_request C me s ?b ?sp ?rq ?p ?v ?cc ?fp ?cn ?h ?e] =>
      pose proof (conserved_wsum me cc e _ (on_request_conserved C me s b sp rq p v cc fp cn h e)) as W;
      destruct (on_request C me s b sp rq p v cc fp cn h e) as [[[s1 o1] e1] raised] end.
    simpl in W. unfold count_c. simpl. rewrite (Z.eqb_sym c (comp_name x)).
    destruct raised.
    - simpl. rewrite wsum_app. destruct (comp_name x =? c); simpl in *; lia.
    - etransitivity; [apply IH|]. rewrite wsum_app. unfold count_c.
      destruct (comp_name x =? c); simpl in *; lia.
  Qed.

  Lemma filter_eqb_nil (l : list Z) : ~ In c l -> filter (Z.eqb c) l = [].
  Proof.
    induction l as [|z r IH]; simpl; intros H; auto.
    destruct (Z.eqb_spec c z) as [<-|]; [exfalso; apply H; left; auto|]. apply IH. intro G. apply H. right; auto.
  Qed.

  Lemma count_c_own d : (count_c (own_names C d) <= b2n (Z.eqb d o))%nat.
  Proof.
    destruct (Z.eqb_spec d o) as [->|Hne]; simpl.
    - unfold count_c. clear own_o. induction (own_names C o) as [|y r IH]; simpl; [lia|].
      inversion nodup_o; subst. destruct (Z.eqb_spec c y) as [<-|]; simpl; auto.
      rewrite filter_eqb_nil by auto. simpl. lia.
    - unfold count_c. rewrite filter_eqb_nil; [simpl; lia|].
      intro G. apply Hne. apply own_o. unfold owns. apply zmem_In. auto.
  Qed.

  Lemma recv_wsum d s src m :
    (wsum (snd (fst (ucs_recv C d s src m))) <= b2n (fw d m))%nat.
  Proof.
    unfold ucs_recv. destruct (is_agent C d) eqn:Ea; simpl; [|unfold wsum; simpl; lia].
    destruct m as [k|t|t].
    - unfold fw. simpl. unfold replicate.
      destruct (a_comps (agent C d)) as [|x0 r0] eqn:Ec; [unfold wsum; simpl; lia|].
      destruct (neighbors C d); [unfold wsum; simpl; lia|].
      match goal with |- context [replicate_loop C d k ?cs ?s1 [] []] =>
        pose proof (replicate_loop_wsum d k cs s1 [] []) as W;
        destruct (replicate_loop C d k cs s1 [] []) as [[[s2 o2] e2] b2] end.
      rewrite <- Ec in W. change (map (@comp_name) (a_comps (agent C d))) with (own_names C d) in W.
      pose proof (count_c_own d) as K. simpl. simpl in W. change (wsum []) with 0%nat in W. lia.
    - pose proof (conserved_wsum d (t_comp t) [] _ (on_request_conserved C d s (t_budget t) (t_spent t) (t_path t)
                   (t_paths t) (t_visited t) (t_comp t) (t_fp t) (t_count t) (t_hosts t) [])) as W.
      destruct (on_request _ _ _ _ _ _ _ _ _ _ _ _ _) as [[[s1 o1] e1] b]. simpl in *.
      unfold fw. simpl. destruct (t_comp t =? c); simpl in *; lia.
    - match goal with |- context [on_answer C d ?s0 ?b ?sp ?rq ?p ?v ?cc ?fp ?cn ?h ?e] =>
        pose proof (conserved_wsum d cc e _ (on_answer_conserved C d s0 b sp rq p v cc fp cn h e)) as W;
        destruct (on_answer C d s0 b sp rq p v cc fp cn h e) as [[[s1 o1] e1] bb] end.
      simpl in *. unfold fw. simpl. destruct (t_comp t =? c); simpl in *; lia.
  Qed.

  (* ---- the potential: tokens of c + replicate orders for its owner + "orchestrator not started" *)
  Definition phi (cf : config nstate msg) : nat :=
    (cc (chan cf) + chd (nodes cf) + b2n (negb (w_running (nodes cf ORCH))))%nat.

  (* messages only ever originate from nodes of U *)
  Definition src_ok (cf : config nstate msg) : Prop :=
    (forall s d m, In m (chan cf s d) -> inU s = true) /\
    (forall d s m, In (s, m) (w_held (nodes cf d)) -> inU s = true).

  Lemma start_outs n s : let '(_, outs, _) := ucs_start C n s in
    (outs = [] \/ (n = ORCH /\ outs = map (fun a => (a, MReplicate (c_k C))) (agent_ids C))).
  Proof. unfold ucs_start. destruct (Z.eqb_spec n ORCH); auto. Qed.

  Lemma wsum_triggers : (wsum (map (fun a => (a, MReplicate (c_k C))) (agent_ids C)) <= 1)%nat.
  Proof.
    unfold agent_ids. generalize (zrange_from_NoDup (List.length (c_agents C)) 0).
    induction (zrange_from 0 (List.length (c_agents C))) as [|y r IH]; intros ND; [unfold wsum; simpl; lia|].
    inversion ND; subst. unfold wsum in *. simpl. unfold fw at 1. simpl.
    destruct (Z.eqb_spec y o) as [->|Hne]; simpl; [|apply IH; auto].
    assert (E : list_sum (map (fun tm => b2n (fw (fst tm) (snd tm))) (map (fun a => (a, MReplicate (c_k C))) r)) = 0%nat).
    { clear IH ND H2. induction r as [|z r IH]; simpl; auto. unfold fw at 1. simpl.
      destruct (Z.eqb_spec z o) as [->|]; [exfalso; apply H1; left; auto|]. simpl. apply IH. intro G. apply H1. right; auto. }
    rewrite E. lia.
  Qed.

  Lemma lsum_zero g l : (forall x, g x = 0%nat) -> lsum g l = 0%nat.
  Proof. intros H. unfold lsum. induction l; simpl; auto. rewrite H, IHl. reflexivity. Qed.

  Lemma not_inU_recv d s src m : inU d = false -> snd (fst (ucs_recv C d s src m)) = [].
  Proof.
    intros H. unfold ucs_recv. destruct (is_agent C d) eqn:E; auto. apply agent_inU in E. congruence.
  Qed.

  Lemma recv_outs_agent d s src m x : In x (snd (fst (ucs_recv C d s src m))) -> inU d = true.
  Proof.
    destruct (inU d) eqn:E; auto. rewrite (not_inU_recv d s src m E). intros [].
  Qed.

  Lemma step_phi cf a : src_ok cf ->
    src_ok (fst (step P cf a)) /\ (phi (fst (step P cf a)) <= phi cf)%nat.
  Proof.
    intros [SC SH]. destruct a as [n|s d]; simpl.
    - destruct (w_running (nodes cf n)) eqn:Er; [simpl; split; [split; auto|lia]|].
      change (p_start P n (w_st (nodes cf n))) with (ucs_start C n (w_st (nodes cf n))).
      pose proof (start_outs n (w_st (nodes cf n))) as SO.
      destruct (ucs_start C n (w_st (nodes cf n))) as [[st' outs] evs]. simpl.
      assert (OW : (wsum outs + b2n (negb (w_running (upd_node (nodes cf) n (mkWrap true [] st') ORCH)))
                    <= b2n (negb (w_running (nodes cf ORCH))))%nat /\ (forall x, In x outs -> n = ORCH)).
      { unfold upd_node. destruct SO as [->|[-> ->]].
        - split; [|intros x []]. change (wsum []) with 0%nat.
          destruct (Z.eqb_spec ORCH n) as [<-|]; simpl; [rewrite Er; simpl; lia|lia].
        - split; auto. rewrite Z.eqb_refl. simpl. rewrite Er. simpl. pose proof wsum_triggers. lia. }
      destruct OW as [OW ON]. split.
      + split.
        * intros s d m G. apply In_reinject_all in G as [G|[E G]].
          -- apply In_send_all in G as [G|[E G]]; [eauto|]. subst. rewrite (ON _ G). reflexivity.
          -- apply reinject_In in G. eauto.
        * intros d s m. simpl. unfold upd_node. cbv beta. destruct (d =? n); simpl; intros G; [destruct G|eauto].
      + unfold phi. simpl.
        pose proof (cc_reinject (reinject (w_held (nodes cf n))) (send_all (chan cf) n outs) n) as R.
        rewrite reinject_cntl in R.
        pose proof (cc_send_all outs (chan cf) n) as S1.
        pose proof (chd_upd (nodes cf) n (mkWrap true [] st')) as H1. simpl in H1.
        change (cntl (fw n) []) with 0%nat in H1. lia.
    - destruct (chan cf s d) as [|m q] eqn:Ech; [simpl; split; [split; auto|lia]|].
      assert (Us : inU s = true) by (apply (SC s d m); rewrite Ech; left; auto).
      pose proof (cc_upd (chan cf) s d q) as CU. rewrite Ech, cntl_cons, Us in CU. simpl in CU.
      assert (SUB : forall x y m', In m' (upd_chan (chan cf) s d q x y) -> inU x = true).
      { intros x y m' G. apply In_upd_chan in G as [(E1 & E2 & G)|G]; [subst; auto|eauto]. }
      destruct (w_running (nodes cf d)) eqn:Er.
      + change (p_recv P d (w_st (nodes cf d)) s m) with (ucs_recv C d (w_st (nodes cf d)) s m).
        pose proof (recv_wsum d (w_st (nodes cf d)) s m) as RW.
        pose proof (recv_outs_agent d (w_st (nodes cf d)) s m) as RA.
        destruct (ucs_recv C d (w_st (nodes cf d)) s m) as [[st' outs] evs]. simpl in *. split.
        * split.
          -- intros x y m' G. apply In_send_all in G as [G|[E G]]; [eauto|]. subst. eauto.
          -- intros y x m'. simpl. unfold upd_node. cbv beta. destruct (y =? d) eqn:Ey; simpl; intros G; [|eauto].
             apply Z.eqb_eq in Ey. subst. eauto.
        * unfold phi. simpl.
          pose proof (cc_send_all outs (upd_chan (chan cf) s d q) d) as S1.
          pose proof (chd_upd (nodes cf) d (mkWrap true (w_held (nodes cf d)) st')) as H1. simpl in H1.
          assert (T : w_running (upd_node (nodes cf) d (mkWrap true (w_held (nodes cf d)) st') ORCH)
                      = w_running (nodes cf ORCH)).
          { unfold upd_node. destruct (Z.eqb_spec ORCH d) as [<-|]; simpl; auto. }
          rewrite T.
          assert (W0 : inU d = false -> wsum outs = 0%nat).
          { intros E. destruct outs as [|x r]; [reflexivity|]. rewrite (RA x (or_introl eq_refl)) in E. discriminate. }
          destruct (inU d); simpl in *; [lia|]. rewrite W0 in S1 by auto. lia.
      + simpl. split.
        * split; [eauto|].
          intros y x m'. simpl. unfold upd_node. cbv beta. destruct (y =? d) eqn:Ey; simpl; intros G; [|eauto].
          apply Z.eqb_eq in Ey. subst. apply in_app_or in G as [G|[G|[]]]; [eauto|]. inversion G; subst. auto.
        * unfold phi. simpl.
          pose proof (chd_upd (nodes cf) d (mkWrap false (w_held (nodes cf d) ++ [(s, m)]) (w_st (nodes cf d)))) as H1.
          simpl in H1. rewrite map_app, cntl_app in H1. simpl in H1. rewrite cntl_cons in H1.
          change (cntl (fw d) []) with 0%nat in H1.
          assert (T : w_running (upd_node (nodes cf) d (mkWrap false (w_held (nodes cf d) ++ [(s, m)]) (w_st (nodes cf d))) ORCH)
                      = w_running (nodes cf ORCH)).
          { unfold upd_node. destruct (Z.eqb_spec ORCH d) as [<-|]; simpl; auto. }
          rewrite T. destruct (inU d); simpl in *; lia.
  Qed.

  Lemma reachable_phi cf : reachable P cf -> src_ok cf /\ (phi cf <= 1)%nat.
  Proof.
    induction 1 as [|cf a R [IS IP]].
    - split; [split; [intros s d m []|intros d s m []]|].
      unfold phi, cc, chd. simpl. rewrite !lsum_zero; auto. intros x. apply lsum_zero. auto.
    - destruct (step_phi cf a IS) as [S1 P1]. split; auto. lia.
  Qed.

  (* the number of request/answer tokens of computation c in flight between the nodes that exist *)
  Definition tokens_in_flight (cf : config nstate msg) : nat :=
    (lsum (fun s => lsum (fun d => cntl (is_tok c) (chan cf s d)) U) U
     + lsum (fun d => cntl (is_tok c) (map snd (w_held (nodes cf d)))) U)%nat.

  Lemma cntl_le (f g : msg -> bool) l : (forall m, f m = true -> g m = true) -> (cntl f l <= cntl g l)%nat.
  Proof.
    intros H. unfold cntl. induction l as [|m r IH]; simpl; auto.
    destruct (f m) eqn:E; [rewrite (H m E); simpl; lia|]. destruct (g m); simpl; lia.
  Qed.
  Lemma lsum_le g g' l : (forall x, (g x <= g' x)%nat) -> (lsum g l <= lsum g' l)%nat.
  Proof. intros H. unfold lsum. induction l; simpl; auto. specialize (H a). lia. Qed.

  Lemma token_unique_l cf : reachable P cf -> (tokens_in_flight cf <= 1)%nat.
  Proof.
    intros R. destruct (reachable_phi cf R) as [_ H]. unfold phi in H.
    assert (A : (tokens_in_flight cf <= cc (chan cf) + chd (nodes cf))%nat).
    { unfold tokens_in_flight, cc, chd. apply Nat.add_le_mono.
      - apply lsum_le. intros s. apply lsum_le. intros d. apply cntl_le. intros m E. unfold fw. rewrite E. reflexivity.
      - apply lsum_le. intros d. apply cntl_le. intros m E. unfold fw. rewrite E. reflexivity. }
    lia.
  Qed.
End Unique.
