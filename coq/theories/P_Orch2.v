(* P_Orch2.v -- C22 deepening, part A: more about the model of the orchestrator's management
   computation alone (M_Orch): the value table is a dict (distinct keys), when exactly
   global_metrics reports no cost (solution_cost's ValueError), the run order reaches every
   computation of a distribution that hosts each computation once.
   The composition with the DPOP network model is in P_OrchDpop.v. *)
From PyDcop Require Import Base P_Base M_Orch P_Orch.
From Coq Require Import ZifyBool Permutation.
Open Scope Z_scope.

(* ---------- dict facts ---------- *)
Lemma slookup_filter {V} (p : string -> bool) k (l : list (string * V)) :
  slookup k (filter (fun kv => p (fst kv)) l) = if p k then slookup k l else None.
Proof.
  unfold slookup. induction l as [|[k' v] r IH]; simpl.
  - destruct (p k); auto.
  - destruct (p k') eqn:Ep; simpl.
    + destruct (String.eqb k k') eqn:E; [|exact IH].
      apply String.eqb_eq in E; subst. rewrite Ep. reflexivity.
    + destruct (String.eqb k k') eqn:E; [|exact IH].
      apply String.eqb_eq in E; subst. rewrite Ep in IH. rewrite Ep. exact IH.
Qed.

Lemma filter_keys {V} (p : string -> bool) (l : list (string * V)) :
  map fst (filter (fun kv => p (fst kv)) l) = filter p (map fst l).
Proof.
  induction l as [|[k v] r IH]; simpl; auto. destruct (p k); simpl; rewrite IH; reflexivity.
Qed.

Lemma slookup_none_iff {V} k (l : list (string * V)) : slookup k l = None <-> ~ In k (map fst l).
Proof.
  unfold slookup. induction l as [|[k' v] r IH]; simpl.
  - tauto.
  - destruct (String.eqb k k') eqn:E.
    + apply String.eqb_eq in E; subst. split; [discriminate|]. intros H. exfalso. apply H. left; auto.
    + apply String.eqb_neq in E. rewrite IH. split.
      * intros H [H1|H1]; [congruence|auto].
      * intros H H1. apply H. right; auto.
Qed.

Lemma slookup_none_iff_neg {V} k (l : list (string * V)) : In k (map fst l) -> slookup k l <> None.
Proof. intros H E. apply slookup_none_iff in E. contradiction. Qed.

Lemma mem_key_in {V} k (l : list (string * V)) : mem_key String.eqb k l = true <-> In k (map fst l).
Proof.
  unfold mem_key. pose proof (slookup_none_iff k l) as H. unfold slookup in H.
  destruct (lookup String.eqb k l).
  - split; auto. intros _. destruct (in_dec string_dec k (map fst l)); auto.
    exfalso. assert (Some v = None) by (apply H; auto). discriminate.
  - split; [discriminate|]. intros Hin. exfalso. apply (proj1 H); auto.
Qed.

Lemma forallb_false_ex {A} (f : A -> bool) l : forallb f l = false -> exists x, In x l /\ f x = false.
Proof.
  induction l as [|x r IH]; simpl; [discriminate|]. destruct (f x) eqn:E.
  - simpl. intros H. destruct (IH H) as (y & Hy & Hf). exists y. auto.
  - intros _. exists x. auto.
Qed.

(* a dict with distinct keys that has exactly the given (distinct) names as keys has that many
   entries *)
Lemma keys_length {V} (names : list string) (a : list (string * V)) :
  NoDup names -> NoDup (map fst a) ->
  (forall k, In k (map fst a) -> In k names) -> (forall n, In n names -> In n (map fst a)) ->
  List.length names = List.length a.
Proof.
  intros H1 H2 H3 H4.
  pose proof (NoDup_incl_length H1 H4) as L1. pose proof (NoDup_incl_length H2 H3) as L2.
  rewrite map_length in *. lia.
Qed.

(* ---------- the value table of AgentsMgt is a dict ---------- *)
Lemma values_nodup c tr : NoDup (map fst (m_values (run c tr))).
Proof.
  induction tr as [|[e en] tr IH] using rev_ind.
  - unfold run, run_from; simpl. constructor.
  - rewrite run_snoc, step_values. destruct e; auto. now apply dict_set_nodup.
Qed.

Lemma filter_assignment_nodup names a : NoDup (map fst a) -> NoDup (map fst (filter_assignment names a)).
Proof. intros H. unfold filter_assignment. rewrite (filter_keys (fun x => smem x names)). now apply NoDup_filter. Qed.

Lemma filter_assignment_keys names a k :
  In k (map fst (filter_assignment names a)) <-> In k (map fst a) /\ In k names.
Proof.
  unfold filter_assignment. rewrite (filter_keys (fun x => smem x names)), filter_In, smem_In. tauto.
Qed.

Lemma filter_assignment_lookup names a k :
  slookup k (filter_assignment names a) = if smem k names then slookup k a else None.
Proof. unfold filter_assignment. apply (slookup_filter (fun x => smem x names)). Qed.

(* ---------- when solution_cost raises ValueError ---------- *)
(* every scope variable of every constraint is a variable of the dcop (DCOP.add_constraint adds
   the variables of the constraints it is given) *)
Definition scopes_in_vars (d : dcop) : Prop :=
  forall k x, In k (d_cons d) -> In x (k_scope k) -> In x (var_names d).

Lemma cons_index_some a : forall scope dims acc,
  (forall x, In x scope -> slookup x a <> None) -> exists i, cons_index a scope dims acc = Some i.
Proof.
  induction scope as [|x s IH]; intros dims acc H; simpl; [eauto|].
  destruct dims as [|dm ds]; [eauto|].
  destruct (slookup x a) as [v|] eqn:E.
  - apply IH. intros y Hy. apply H. right; auto.
  - exfalso. apply (H x); auto. left; auto.
Qed.

Lemma account_cons_some inf a : forall ks,
  (forall k x, In k ks -> In x (k_scope k) -> slookup x a <> None) ->
  forall hs, exists r, account_cons inf a ks hs = Some r.
Proof.
  induction ks as [|k r IH]; intros H hs; simpl; [eauto|].
  unfold cons_cost. destruct (cons_index_some a (k_scope k) (k_dims k) 0) as [i ->].
  { intros x Hx. apply (H k x); auto. left; auto. }
  apply IH. intros k' x Hk Hx. apply (H k' x); auto. right; auto.
Qed.

Lemma solution_cost_none_iff d a :
  NoDup (var_names d) -> scopes_in_vars d -> NoDup (map fst a) ->
  (forall k, In k (map fst a) -> In k (var_names d)) ->
  (solution_cost d a = None <-> exists v, In v (var_names d) /\ slookup v a = None).
Proof.
  intros Hnd Hsc Hna Hsub. unfold solution_cost. split.
  - destruct (forallb (fun v => mem_key String.eqb (fst v) a) (d_vars d)) eqn:E.
    + intros H. exfalso. simpl in H. rewrite forallb_forall in E.
      assert (Hall : forall n, In n (var_names d) -> In n (map fst a)).
      { intros n Hn. unfold var_names in Hn. apply in_map_iff in Hn. destruct Hn as (v & <- & Hv).
        apply mem_key_in. apply E. exact Hv. }
      assert (Hlen : List.length (d_vars d) = List.length a).
      { rewrite <- (map_length fst (d_vars d)). apply keys_length; auto. }
      rewrite Hlen, Nat.eqb_refl in H. simpl in H.
      destruct (account_cons_some (d_infinity d) a (d_cons d)) with (hs := (0, 0)) as [r Hr].
      { intros k x Hk Hx. apply slookup_none_iff_neg. apply Hall. eapply Hsc; eauto. }
      rewrite Hr in H. discriminate.
    + intros _. apply forallb_false_ex in E. destruct E as (v & Hv & Hf). exists (fst v). split.
      * unfold var_names. now apply in_map.
      * unfold mem_key in Hf. unfold slookup. destruct (lookup String.eqb (fst v) a); [discriminate|auto].
  - intros (v & Hv & Hn).
    assert (E : forallb (fun v => mem_key String.eqb (fst v) a) (d_vars d) = false).
    { destruct (forallb _ (d_vars d)) eqn:E; auto. exfalso. rewrite forallb_forall in E.
      unfold var_names in Hv. apply in_map_iff in Hv. destruct Hv as (w & <- & Hw).
      specialize (E w Hw). unfold mem_key in E. unfold slookup in Hn. rewrite Hn in E. discriminate. }
    rewrite E. reflexivity.
Qed.

(* ---------- (1) no cost is reported iff some variable never reported a value ---------- *)
Lemma orch_cost_none_iff_incomplete_l : forall c d tr,
  NoDup (var_names d) -> scopes_in_vars d ->
  (reported_cost d (run c tr) = None <->
   exists v, In v (var_names d) /\ last_value v tr = None).
Proof.
  intros c d tr Hnd Hsc. unfold reported_cost.
  rewrite solution_cost_none_iff; auto.
  - split; intros (v & Hv & H); exists v; split; auto.
    + rewrite filter_assignment_lookup in H. apply smem_In in Hv. rewrite Hv in H.
      rewrite <- orch_reports_last_values_l with (c := c). exact H.
    + rewrite filter_assignment_lookup. pose proof Hv as Hv'. apply smem_In in Hv'. rewrite Hv'.
      rewrite <- orch_reports_last_values_l with (c := c) in H. exact H.
  - apply filter_assignment_nodup. apply values_nodup.
  - intros k Hk. apply filter_assignment_keys in Hk. tauto.
Qed.

(* the side condition on the scopes is needed: a constraint over a name that is not a variable of
   the dcop makes solution_cost fail (KeyError -> NameError path) although every variable has a
   value *)
Lemma orch_cost_none_unguarded_refuted_l : exists c d tr,
  NoDup (var_names d) /\ reported_cost d (run c tr) = None /\
  ~ exists v, In v (var_names d) /\ last_value v tr = None.
Proof.
  exists (mkCfg ["v00"]%string [("a00", ["v00"])]%string false),
         (mkDcop [("v00", [])]%string [mkCons ["zz"]%string [2] [0; 1]] 10000),
         [(EValue "a00" "v00" 0, mkEnv ["a00"]%string ["v00"]%string)]%string.
  split; [repeat constructor; intros []|]. split; [vm_compute; reflexivity|].
  intros (v & [<-|[]] & H). vm_compute in H. discriminate.
Qed.

(* ---------- a distribution that hosts every computation exactly once ---------- *)
Definition dist_hosts_once (c : cfg) : Prop :=
  NoDup (dist_agents c) /\ NoDup (dist_computations c) /\
  (forall n, In n (g_nodes c) <-> In n (dist_computations c)).

Lemma slookup_nodup_in {V} (l : list (string * V)) k v :
  NoDup (map fst l) -> In (k, v) l -> slookup k l = Some v.
Proof.
  unfold slookup. induction l as [|[k' v'] r IH]; simpl; intros Hnd Hin; [tauto|]. inversion Hnd; subst.
  destruct Hin as [Hin|Hin].
  - inversion Hin; subst. rewrite String.eqb_refl. reflexivity.
  - destruct (String.eqb k k') eqn:E; [|apply IH; auto].
    apply String.eqb_eq in E. subst. exfalso. apply H1. change k' with (fst (k', v)). now apply in_map.
Qed.

Lemma flat_map_nodup_unique {A B} (f : A -> list B) l x p q :
  NoDup (flat_map f l) -> In p l -> In q l -> In x (f p) -> In x (f q) -> p = q.
Proof.
  induction l as [|a r IH]; simpl; intros Hnd Hp Hq Hxp Hxq; [tauto|].
  assert (Hsplit : NoDup (f a) /\ NoDup (flat_map f r) /\ forall y, In y (f a) -> ~ In y (flat_map f r)).
  { clear -Hnd. induction (f a) as [|y l IH]; simpl in *.
    - split; [constructor|]. split; auto.
    - inversion Hnd; subst. destruct (IH H2) as (A1 & A2 & A3). split; [|split; auto].
      + constructor; auto. intros H. apply H1. apply in_or_app; auto.
      + intros z [->|Hz]; auto. intros H. apply H1. apply in_or_app; auto. }
  destruct Hsplit as (_ & Hr & Hdis).
  destruct Hp as [->|Hp], Hq as [->|Hq]; auto.
  - exfalso. apply (Hdis x Hxp). apply in_flat_map. eauto.
  - exfalso. apply (Hdis x Hxq). apply in_flat_map. eauto.
Qed.

Lemma hosted_spec c a n : NoDup (dist_agents c) ->
  (In n (computations_hosted c a) <-> exists l, In (a, l) (g_dist c) /\ In n l).
Proof.
  intros Hnd. unfold computations_hosted. split.
  - destruct (slookup a (g_dist c)) as [l|] eqn:E; [|intros []]. intros Hn. exists l. split; auto.
    apply (lookup_In String.eqb string_eqb_iff). exact E.
  - intros (l & Hl & Hn). rewrite (slookup_nodup_in _ _ _ Hnd Hl). exact Hn.
Qed.

Lemma hosted_unique c a a' n : NoDup (dist_agents c) -> NoDup (dist_computations c) ->
  In n (computations_hosted c a) -> In n (computations_hosted c a') -> a = a'.
Proof.
  intros H1 H2 Ha Ha'. apply hosted_spec in Ha; auto. apply hosted_spec in Ha'; auto.
  destruct Ha as (l & Hl & Hn), Ha' as (l' & Hl' & Hn').
  assert (E : (a, l) = (a', l')) by (eapply (flat_map_nodup_unique snd); eauto).
  congruence.
Qed.

(* _orchestrator_run_computations: with all the agents of the distribution registered, every
   computation of the graph is in the run order of exactly one agent, its host *)
Lemma orch_run_each_once_l : forall c m en n,
  g_repair_only c = false -> dist_hosts_once c ->
  (forall a, In a (dist_agents c) -> In a (e_agents en)) ->
  In n (g_nodes c) ->
  exists a, In (ORun a (computations_hosted c a)) (snd (step c m en ERun)) /\
            In n (computations_hosted c a) /\
            forall a' cs, In (ORun a' cs) (snd (step c m en ERun)) -> In n cs -> a' = a.
Proof.
  intros c m en n Hro (H1 & H2 & H3) Hreg Hn. simpl. rewrite Hro.
  apply H3 in Hn. unfold dist_computations in Hn. apply in_flat_map in Hn.
  destruct Hn as ([a l] & Hal & Hnl). simpl in Hnl. exists a.
  assert (Hh : In n (computations_hosted c a)) by (apply hosted_spec; eauto).
  split; [|split; auto].
  - apply in_map_iff. exists a. split; auto. apply Hreg. unfold dist_agents.
    change a with (fst (a, l)). now apply in_map.
  - intros a' cs Hin Hcs. apply in_map_iff in Hin. destruct Hin as (a2 & Heq & _).
    inversion Heq; subst. eapply hosted_unique; eauto.
Qed.

(* _orchestrator_deploy_computations: likewise for the deploy orders *)
Lemma orch_deploy_each_once_l : forall c m en n,
  dist_hosts_once c -> (forall a, In a (dist_agents c) -> In a (e_agents en)) ->
  In n (g_nodes c) ->
  exists a, In (ODeploy a n) (snd (step c m en EDeploy)) /\
            forall a', In (ODeploy a' n) (snd (step c m en EDeploy)) -> a' = a.
Proof.
  intros c m en n (H1 & H2 & H3) Hreg Hn. simpl.
  apply H3 in Hn. unfold dist_computations in Hn. apply in_flat_map in Hn.
  destruct Hn as ([a l] & Hal & Hnl). simpl in Hnl. exists a.
  assert (Hh : In n (computations_hosted c a)) by (apply hosted_spec; eauto).
  split.
  - apply in_flat_map. exists a. split; [|now apply in_map].
    apply Hreg. unfold dist_agents. change a with (fst (a, l)). now apply in_map.
  - intros a' Hin. apply in_flat_map in Hin. destruct Hin as (a2 & _ & Hin).
    apply in_map_iff in Hin. destruct Hin as (n2 & Heq & Hn2). inversion Heq; subst.
    eapply hosted_unique; eauto.
Qed.
