(* P_RelKinds3.v -- C11 deepening: which malformed slices / calls raise which exception, as
   equivalences, for the non-conditional kinds (well-formed relation, dict arguments with
   distinct keys).  Proofs only; the model is M_RelKinds. *)
From PyDcop Require Import Base M_RelKinds P_RelKinds P_RelKinds2.
From Coq Require Import Permutation.
Open Scope Z_scope.

(* ================= expressions: the only exception is NameError ================= *)
Lemma eval_err_iff env e :
  (eval env e = Err EName <-> exists n, In n (fv e) /\ env n = None) /\
  (forall er, eval env e = Err er -> er = EName).
Proof.
  assert (Bin : forall (a b : expr) (op : Z -> Z -> Z),
    ((eval env a = Err EName <-> exists n, In n (fv a) /\ env n = None) /\
     (forall er, eval env a = Err er -> er = EName)) ->
    ((eval env b = Err EName <-> exists n, In n (fv b) /\ env n = None) /\
     (forall er, eval env b = Err er -> er = EName)) ->
    ((do x <- eval env a; do y <- eval env b; Ok (op x y)) = Err EName <->
      exists n, In n (fv a ++ fv b) /\ env n = None) /\
    (forall er, (do x <- eval env a; do y <- eval env b; Ok (op x y)) = Err er -> er = EName)).
  { intros a b op [IHa1 IHa2] [IHb1 IHb2].
    destruct (eval env a) as [x|ea] eqn:Ea; simpl.
    - destruct (eval env b) as [y|eb] eqn:Eb; simpl.
      + split; [split; [discriminate|] | discriminate].
        intros [n [Hn Hnone]]. apply in_app_or in Hn as [Hn|Hn].
        * assert (@Ok Z x = Err EName) by (apply IHa1; eauto). discriminate.
        * assert (@Ok Z y = Err EName) by (apply IHb1; eauto). discriminate.
      + pose proof (IHb2 eb eq_refl). subst eb. split; [split; auto|intros er H; now inversion H].
        intros _. destruct (proj1 IHb1 eq_refl) as [n [Hn Hnone]]. exists n. split; auto. apply in_or_app. auto.
    - pose proof (IHa2 ea eq_refl). subst ea. split; [split; auto|intros er H; now inversion H].
      intros _. destruct (proj1 IHa1 eq_refl) as [n [Hn Hnone]]. exists n. split; auto. apply in_or_app. auto. }
  induction e as [z|n|a IHa b IHb|a IHa b IHb|a IHa b IHb|a [IHa1 IHa2]]; simpl.
  - split; [split; [discriminate | intros [n [[] _]]] | discriminate].
  - destruct (env n) eqn:E; split.
    + split; [discriminate | intros [m [[<-|[]] Hm]]; congruence].
    + discriminate.
    + split; auto. intros _. exists n. auto.
    + intros er H. now inversion H.
  - now apply Bin.
  - now apply Bin.
  - now apply Bin.
  - destruct (eval env a) as [x|ea] eqn:Ea; simpl.
    + split; [split; [discriminate|] | discriminate].
      intros H. assert (@Ok Z x = Err EName) by (apply IHa1; auto). discriminate.
    + pose proof (IHa2 ea eq_refl). subst ea. split; [split; auto|intros er H; now inversion H].
      intros _. now apply IHa1.
Qed.

Lemma eval_err env e er :
  eval env e = Err er <-> er = EName /\ exists n, In n (fv e) /\ env n = None.
Proof.
  destruct (eval_err_iff env e) as [H1 H2]. split.
  - intros H. pose proof (H2 _ H). subst. split; auto. now apply H1.
  - intros [-> H]. now apply H1.
Qed.

Lemma unary_f_err par body x er :
  unary_f par body x = Err er <-> er = EName /\ exists n, In n (fv body) /\ n <> par.
Proof.
  unfold unary_f. rewrite eval_err. split; intros [-> [n [Hn H]]]; split; auto; exists n; split; auto.
  - destruct (n =? par) eqn:E; [discriminate|]. now apply Z.eqb_neq.
  - apply Z.eqb_neq in H. now rewrite H.
Qed.

Lemma index_of_none x l : index_of x l = None <-> ~ In x l.
Proof.
  induction l as [|y l IH]; simpl; [tauto|]. destruct (x =? y) eqn:E.
  - apply Z.eqb_eq in E. subst. split; [discriminate | intros H; exfalso; auto].
  - apply Z.eqb_neq in E. destruct (index_of x l).
    + split; [discriminate|]. intros H. exfalso.
      assert (Hx : ~ In x l) by tauto. apply IH in Hx. discriminate.
    + split; auto. intros _ [H|H]; [congruence|]. now apply (proj1 IH eq_refl).
Qed.

(* ================= slices ================= *)
Definition unknown_key (p : asg) (ns : list Z) : Prop := exists k, In k (map fst p) /\ ~ In k ns.
Definition out_of_domain (dims : list (var * nat)) (p : asg) : Prop :=
  exists v s x, In (v, s) dims /\ zlookup (vname v) p = Some x /\ ~ In x (vdom v).
Definition wrong_unary_slice (v : var) (p : asg) : Prop :=
  (exists k x, p = [(k, x)] /\ k <> vname v) \/ (2 <= List.length p)%nat.

(* [slice_raises b p e]: slicing b on the dict p raises e *)
Definition slice_raises (b : brel) (p : asg) (e : err) : Prop :=
  match b with
  | RZero _ => e = EValue /\ p <> []
  | RUnary v par body =>
      (e = EValue /\ wrong_unary_slice v p) \/
      (e = EName /\ (exists x, p = [(vname v, x)]) /\ exists n, In n (fv body) /\ n <> par)
  | RBool v => e = EValue /\ wrong_unary_slice v p
  | RFun _ vars _ _ => e = EValue /\ unknown_key p (map vname vars)
  | RMat dims _ _ =>
      (e = EAttr /\ unknown_key p (mnames dims)) \/
      (e = EValue /\ ~ unknown_key p (mnames dims) /\ out_of_domain dims p)
  | RNeutral _ => False
  end.

Lemma forallb_keys_false (P : Z -> bool) (l : asg) :
  forallb (fun kv => P (fst kv)) l = false <-> exists k, In k (map fst l) /\ P k = false.
Proof.
  split.
  - intros H. induction l as [|[k x] l IH]; simpl in *; [discriminate|].
    destruct (P k) eqn:E; simpl in H.
    + destruct (IH H) as [k' [H1 H2]]. eauto.
    + exists k. auto.
  - intros [k [Hk HP]]. apply not_true_is_false. intros Ht.
    pose proof (proj1 (forallb_keys P l) Ht k (proj2 (has_key_iff k l) Hk)). congruence.
Qed.

Lemma unknown_key_iff p ns :
  forallb (fun kv => zmem (fst kv) ns) p = false <-> unknown_key p ns.
Proof.
  rewrite (forallb_keys_false (fun k => zmem k ns)). unfold unknown_key.
  split; intros [k [H1 H2]]; exists k; split; auto.
  - intros Hin. apply zmem_iff in Hin. congruence.
  - destruct (zmem k ns) eqn:E; auto. apply zmem_iff in E. contradiction.
Qed.

Lemma known_keys_iff p ns :
  forallb (fun kv => zmem (fst kv) ns) p = true <-> ~ unknown_key p ns.
Proof.
  rewrite <- unknown_key_iff. destruct (forallb _ p); split; intros H; auto; try discriminate.
Qed.

Lemma mat_offset_err_iff dims p e :
  mat_offset dims p = Err e <-> e = EValue /\ out_of_domain dims p.
Proof.
  split.
  - intros H. pose proof (mat_offset_err _ _ _ H). subst. split; auto.
    induction dims as [|[v s] r IH]; simpl in H; [discriminate|].
    destruct (zlookup (vname v) p) as [x|] eqn:E.
    + destruct (index_of x (vdom v)) eqn:Ei.
      * destruct (mat_offset r p) eqn:Er; simpl in H; [discriminate|].
        destruct (IH H) as (v' & s' & x' & H1 & H2 & H3).
        exists v', s', x'. simpl. auto.
      * exists v, s, x. simpl. split; auto. split; auto. now apply index_of_none.
    + destruct (IH H) as (v' & s' & x' & H1 & H2 & H3). exists v', s', x'. simpl. auto.
  - intros [-> (v & s & x & Hin & Hl & Hx)].
    induction dims as [|[v' s'] r IH]; simpl in *; [contradiction|].
    destruct Hin as [Hin|Hin].
    + inversion Hin; subst. rewrite Hl. apply index_of_none in Hx. now rewrite Hx.
    + specialize (IH Hin). destruct (zlookup (vname v') p); auto.
      destruct (index_of z (vdom v')); auto. now rewrite IH.
Qed.

Lemma slice_mat_exceptions dims data off p e :
  slice_mat dims data off p = Err e <->
  (e = EAttr /\ unknown_key p (mnames dims)) \/
  (e = EValue /\ ~ unknown_key p (mnames dims) /\ out_of_domain dims p).
Proof.
  unfold slice_mat. fold (mnames dims). destruct p as [|kv p0].
  - simpl. split; [discriminate|]. intros [[_ [k [[] _]]]|[_ [_ (v & s & x & _ & H & _)]]]. discriminate.
  - remember (kv :: p0) as p. assert (is_nil p = false) as -> by (subst; reflexivity).
    destruct (forallb (fun kv0 => zmem (fst kv0) (mnames dims)) p) eqn:E; simpl.
    + apply known_keys_iff in E. destruct (mat_offset dims p) eqn:Eo; simpl.
      * split; [discriminate|]. intros [[_ H]|[_ [_ H]]]; [contradiction|].
        assert (mat_offset dims p = Err EValue) by (apply mat_offset_err_iff; auto). congruence.
      * apply mat_offset_err_iff in Eo as [-> Ho]. split.
        -- intros H. inversion H. auto.
        -- intros [[_ H]|[-> _]]; [contradiction | reflexivity].
    + apply unknown_key_iff in E. split.
      * intros H. inversion H. auto.
      * intros [[-> _]|[_ [H _]]]; [reflexivity | contradiction].
Qed.

(* a well-formed function relation can be sliced on every dict over its own variables *)
Lemma slice_fun_total f vars mapping fkw p :
  wf_fun f vars mapping fkw -> NoDup (map fst p) ->
  (forall k, In k (map fst p) -> In k (map vname vars)) ->
  exists b', slice_fun f vars mapping fkw p = Ok b'.
Proof.
  intros Hwf Hp Hin. pose proof (wf_fun_facts _ _ _ _ Hwf) as (Hfst & Hsnd & Hargs).
  unfold slice_fun. destruct p as [|kv0 p0]; [simpl; eauto|]. remember (kv0 :: p0) as P.
  assert (is_nil P = false) as -> by (subst; reflexivity).
  assert (Hlen : (List.length vars <? List.length P)%nat = false).
  { apply Nat.ltb_ge. rewrite <- (map_length fst P), <- (map_length vname vars).
    apply NoDup_incl_length; auto. }
  rewrite Hlen.
  assert (Eknown : forallb (fun kv => zmem (fst kv) (map vname vars)) P = true).
  { apply (forallb_keys (fun k => zmem k (map vname vars))). intros k Hk. apply zmem_iff, Hin. now apply has_key_iff. }
  rewrite Eknown. simpl.
  assert (Eall : forallb (fun kv => has_key (fst kv) mapping) P = true).
  { apply (forallb_keys (fun k => has_key k mapping)). intros k Hk. apply has_key_iff. rewrite Hfst.
    apply Hin. now apply has_key_iff. }
  rewrite fad_spec, Eall. simpl.
  set (sd := map (gmap mapping) P).
  assert (Hsdnd : NoDup (map fst sd)) by (now apply gmap_keys_nodup).
  assert (Hsd_sub : forall a, has_key a sd = true -> In a (func_args f)).
  { intros a Ha. apply has_key_gmap in Ha as [k [_ Ek]]; auto.
    apply Hargs. apply zlookup_In in Ek. change a with (snd (k, a)). now apply in_map. }
  destruct Hwf as (Hn & Hpar & Hfix & Hkind).
  assert (Hpartial : fn_partial f sd = Ok (mkFn (fk f) (fparams f) (fbody f) (dict_merge (ffixed f) sd))).
  { unfold fn_partial. destruct (fk f); auto.
    assert (forallb (fun kv => zmem (fst kv) (fparams f)) (dict_merge (ffixed f) sd) = true) as ->; auto.
    apply (forallb_keys (fun k => zmem k (fparams f))). intros k Hk. apply zmem_iff.
    rewrite has_key_merge in Hk by auto. apply orb_true_iff in Hk as [Hk|Hk].
    - apply Hfix. now apply has_key_iff.
    - apply Hsd_sub in Hk. unfold func_args in Hk. apply filter_In in Hk. tauto. }
  rewrite Hpartial. simpl.
  set (f' := mkFn (fk f) (fparams f) (fbody f) (dict_merge (ffixed f) sd)).
  unfold mk_fun. destruct fkw; [eauto|].
  destruct Hkind as [-> Hl].
  assert (Hfa : func_args f' = filter (fun a => negb (has_key a sd)) (func_args f))
    by (now apply func_args_partial).
  set (Pn := fun n => negb (has_key n P)). set (Q := fun a => negb (has_key a sd)).
  assert (Hpq : forall n a, In (n, a) (combine (map vname vars) (func_args f)) -> Pn n = Q a).
  { intros n a Hna. unfold Pn, Q. f_equal. apply bool_eq_iff. split.
    - intros Hk. apply has_key_gmap; auto. exists n. split; [now apply has_key_iff|].
      apply In_zlookup; auto. now rewrite Hfst.
    - intros Hk. apply has_key_gmap in Hk as [k [Hk Ek]]; auto.
      apply zlookup_In in Ek. assert (k = n) by (eapply NoDup_snd_inj; eauto). subst.
      now apply has_key_iff. }
  destruct (par_filter Pn Q (map vname vars) (func_args f)) as [_ Hl2]; auto.
  { now rewrite map_length. }
  fold (remaining P vars).
  assert (Hlen' : List.length (remaining P vars) = List.length (func_args f')).
  { rewrite <- (map_length vname), remaining_names, Hfa. exact Hl2. }
  destruct (func_args f') eqn:Efa; [eauto|].
  rewrite map_args_combine by lia. simpl. eauto.
Qed.

Lemma slice_fun_exceptions f vars mapping fkw p e :
  wf_fun f vars mapping fkw -> NoDup (map fst p) ->
  (slice_fun f vars mapping fkw p = Err e <-> e = EValue /\ unknown_key p (map vname vars)).
Proof.
  intros Hwf Hp. split.
  - intros H.
    assert (Hu : unknown_key p (map vname vars)).
    { apply unknown_key_iff. destruct (forallb _ p) eqn:E; auto. exfalso.
      destruct (slice_fun_total f vars mapping fkw p Hwf Hp) as [b' Hb']; [|congruence].
      intros k Hk. apply zmem_iff.
      apply (proj1 (forallb_keys (fun k => zmem k (map vname vars)) p) E). now apply has_key_iff. }
    split; auto. revert H. unfold slice_fun. destruct p as [|kv0 p0].
    + destruct Hu as [k [[] _]].
    + remember (kv0 :: p0) as P. assert (is_nil P = false) as -> by (subst; reflexivity).
      destruct (_ <? _)%nat; [intros H; now inversion H|].
      apply unknown_key_iff in Hu. rewrite Hu. simpl. intros H; now inversion H.
  - intros [-> Hu]. unfold slice_fun. destruct p as [|kv0 p0]; [destruct Hu as [k [[] _]]|].
    remember (kv0 :: p0) as P. assert (is_nil P = false) as -> by (subst; reflexivity).
    destruct (_ <? _)%nat; auto. apply unknown_key_iff in Hu. now rewrite Hu.
Qed.

Lemma wrong_unary_slice_cases v p :
  match p with
  | [] => ~ wrong_unary_slice v p
  | [(k, x)] => wrong_unary_slice v p <-> k <> vname v
  | _ => wrong_unary_slice v p
  end.
Proof.
  unfold wrong_unary_slice. destruct p as [|[k x] [|kv p]]; simpl.
  - intros [[k [x [H _]]]|H]; [discriminate | lia].
  - split.
    + intros [[k' [x' [H H']]]|H]; [now inversion H | lia].
    + intros H. left. eauto.
  - right. lia.
Qed.

(* (4a) which malformed slices raise which exception *)
Lemma slice_exceptions_spec_l b p e :
  wf_b b -> NoDup (map fst p) -> (bslice b p = Err e <-> slice_raises b p e).
Proof.
  intros Hwf Hp. destruct b as [value|v par body|v|f vars mapping fkw|mdims data off|nvars]; simpl.
  - destruct p; simpl; split; try discriminate.
    + intros [_ H]. congruence.
    + intros H; inversion H. split; auto. discriminate.
    + intros [-> _]. reflexivity.
  - pose proof (wrong_unary_slice_cases v p) as W. destruct p as [|[k x] [|kv p]].
    + split; [discriminate|]. intros [[_ H]|[_ [[x H] _]]]; [contradiction | discriminate].
    + destruct (k =? vname v) eqn:E; simpl.
      * apply Z.eqb_eq in E. subst k.
        destruct (unary_f par body x) as [y|er] eqn:Eu; simpl.
        -- split; [discriminate|]. intros [[_ H]|[_ [_ H]]]; [apply W in H; congruence|].
           assert (unary_f par body x = Err EName) by (apply unary_f_err; auto). congruence.
        -- apply unary_f_err in Eu as [-> Hn]. split.
           ++ intros H. inversion H. right. split; auto. split; eauto.
           ++ intros [[_ H]|[-> _]]; [apply W in H; congruence | reflexivity].
      * apply Z.eqb_neq in E. split.
        -- intros H. inversion H. left. split; auto. now apply W.
        -- intros [[-> _]|[_ [[x' H] _]]]; [reflexivity | inversion H; congruence].
    + split.
      * intros H. inversion H. left. auto.
      * intros [[-> _]|[_ [[x' H] _]]]; [reflexivity | discriminate].
  - pose proof (wrong_unary_slice_cases v p) as W. destruct p as [|[k x] [|kv p]].
    + split; [discriminate|]. intros [_ H]. contradiction.
    + destruct (k =? vname v) eqn:E; simpl.
      * apply Z.eqb_eq in E. split; [discriminate|]. intros [_ H]. apply W in H. congruence.
      * apply Z.eqb_neq in E. split.
        -- intros H. inversion H. split; auto. now apply W.
        -- intros [-> _]. reflexivity.
    + split.
      * intros H. inversion H. auto.
      * intros [-> _]. reflexivity.
  - now apply slice_fun_exceptions.
  - apply slice_mat_exceptions.
  - split; [discriminate | contradiction].
Qed.

(* slicing succeeds exactly when nothing of the above applies *)
Lemma slice_succeeds_iff_l b p :
  wf_b b -> NoDup (map fst p) -> ((exists b', bslice b p = Ok b') <-> forall e, ~ slice_raises b p e).
Proof.
  intros Hwf Hp. split.
  - intros [b' H] e He. apply (slice_exceptions_spec_l b p e Hwf Hp) in He. congruence.
  - intros H. destruct (bslice b p) eqn:E; eauto.
    exfalso. apply (H e). now apply slice_exceptions_spec_l.
Qed.
