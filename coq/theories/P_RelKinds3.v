(* P_RelKinds3.v -- C11 deepening: which malformed slices / calls raise which exception, as
   equivalences, for the non-conditional kinds (well-formed relation, dict arguments with
   distinct keys).  Proofs only; the model is M_RelKinds. *)
From PyDcop Require Import Base M_RelKinds P_RelKinds P_RelKinds2.
From Coq Require Import Permutation.
Open Scope Z_scope.

(* ================= expressions: the only exception is NameError ================= *)
Lemma eval_err_iff env e :
  (eval env e = Err EName <-> exists n, In n (fv e) /\ env n = None) /\
  (forall er, eval env e = Err er -> er = EName).
Proof.
  assert (Bin : forall (a b : expr) (op : Z -> Z -> Z),
    ((eval env a = Err EName <-> exists n, In n (fv a) /\ env n = None) /\
     (forall er, eval env a = Err er -> er = EName)) ->
    ((eval env b = Err EName <-> exists n, In n (fv b) /\ env n = None) /\
     (forall er, eval env b = Err er -> er = EName)) ->
    ((do x <- eval env a; do y <- eval env b; Ok (op x y)) = Err EName <->
      exists n, In n (fv a ++ fv b) /\ env n = None) /\
    (forall er, (do x <- eval env a; do y <- eval env b; Ok (op x y)) = Err er -> er = EName)).
  { intros a b op [IHa1 IHa2] [IHb1 IHb2].
    destruct (eval env a) as [x|ea] eqn:Ea; simpl.
    - destruct (eval env b) as [y|eb] eqn:Eb; simpl.
      + split; [split; [discriminate|] | discriminate].
        intros [n [Hn Hnone]]. apply in_app_or in Hn as [Hn|Hn].
        * assert (@Ok Z x = Err EName) by (apply IHa1; eauto). discriminate.
        * assert (@Ok Z y = Err EName) by (apply IHb1; eauto). discriminate.
      + pose proof (IHb2 eb eq_refl). subst eb. split; [split; auto|intros er H; now inversion H].
        intros _. destruct (proj1 IHb1 eq_refl) as [n [Hn Hnone]]. exists n. split; auto. apply in_or_app. auto.
    - pose proof (IHa2 ea eq_refl). subst ea. split; [split; auto|intros er H; now inversion H].
      intros _. destruct (proj1 IHa1 eq_refl) as [n [Hn Hnone]]. exists n. split; auto. apply in_or_app. auto. }
  induction e as [z|n|a IHa b IHb|a IHa b IHb|a IHa b IHb|a [IHa1 IHa2]]; simpl.
  - split; [split; [discriminate | intros [n [[] _]]] | discriminate].
  - destruct (env n) eqn:E; split.
    + split; [discriminate | intros [m [[<-|[]] Hm]]; congruence].
    + discriminate.
    + split; auto. intros _. exists n. auto.
    + intros er H. now inversion H.
  - now apply Bin.
  - now apply Bin.
  - now apply Bin.
  - destruct (eval env a) as [x|ea] eqn:Ea; simpl.
    + split; [split; [discriminate|] | discriminate].
      intros H. assert (@Ok Z x = Err EName) by (apply IHa1; auto). discriminate.
    + pose proof (IHa2 ea eq_refl). subst ea. split; [split; auto|intros er H; now inversion H].
      intros _. now apply IHa1.
Qed.

Lemma eval_err env e er :
  eval env e = Err er <-> er = EName /\ exists n, In n (fv e) /\ env n = None.
Proof.
  destruct (eval_err_iff env e) as [H1 H2]. split.
  - intros H. pose proof (H2 _ H). subst. split; auto. now apply H1.
  - intros [-> H]. now apply H1.
Qed.

Lemma unary_f_err par body x er :
  unary_f par body x = Err er <-> er = EName /\ exists n, In n (fv body) /\ n <> par.
Proof.
  unfold unary_f. rewrite eval_err. split; intros [-> [n [Hn H]]]; split; auto; exists n; split; auto.
  - destruct (n =? par) eqn:E; [discriminate|]. now apply Z.eqb_neq.
  - apply Z.eqb_neq in H. now rewrite H.
Qed.

Lemma index_of_none x l : index_of x l = None <-> ~ In x l.
Proof.
  induction l as [|y l IH]; simpl; [tauto|]. destruct (x =? y) eqn:E.
  - apply Z.eqb_eq in E. subst. split; [discriminate | intros H; exfalso; auto].
  - apply Z.eqb_neq in E. destruct (index_of x l).
    + split; [discriminate|]. intros H. exfalso.
      assert (Hx : ~ In x l) by tauto. apply IH in Hx. discriminate.
    + split; auto. intros _ [H|H]; [congruence|]. now apply (proj1 IH eq_refl).
Qed.

(* ================= slices ================= *)
Definition unknown_key (p : asg) (ns : list Z) : Prop := exists k, In k (map fst p) /\ ~ In k ns.
Definition out_of_domain (dims : list (var * nat)) (p : asg) : Prop :=
  exists v s x, In (v, s) dims /\ zlookup (vname v) p = Some x /\ ~ In x (vdom v).
Definition wrong_unary_slice (v : var) (p : asg) : Prop :=
  (exists k x, p = [(k, x)] /\ k <> vname v) \/ (2 <= List.length p)%nat.

(* [slice_raises b p e]: slicing b on the dict p raises e *)
Definition slice_raises (b : brel) (p : asg) (e : err) : Prop :=
  match b with
  | RZero _ => e = EValue /\ p <> []
  | RUnary v par body =>
      (e = EValue /\ wrong_unary_slice v p) \/
      (e = EName /\ (exists x, p = [(vname v, x)]) /\ exists n, In n (fv body) /\ n <> par)
  | RBool v => e = EValue /\ wrong_unary_slice v p
  | RFun _ vars _ _ => e = EValue /\ unknown_key p (map vname vars)
  | RMat dims _ _ =>
      (e = EAttr /\ unknown_key p (mnames dims)) \/
      (e = EValue /\ ~ unknown_key p (mnames dims) /\ out_of_domain dims p)
  | RNeutral _ => False
  end.

Lemma forallb_keys_false (P : Z -> bool) (l : asg) :
  forallb (fun kv => P (fst kv)) l = false <-> exists k, In k (map fst l) /\ P k = false.
Proof.
  split.
  - intros H. induction l as [|[k x] l IH]; simpl in *; [discriminate|].
    destruct (P k) eqn:E; simpl in H.
    + destruct (IH H) as [k' [H1 H2]]. eauto.
    + exists k. auto.
  - intros [k [Hk HP]]. apply not_true_is_false. intros Ht.
    pose proof (proj1 (forallb_keys P l) Ht k (proj2 (has_key_iff k l) Hk)). congruence.
Qed.

Lemma unknown_key_iff p ns :
  forallb (fun kv => zmem (fst kv) ns) p = false <-> unknown_key p ns.
Proof.
  rewrite (forallb_keys_false (fun k => zmem k ns)). unfold unknown_key.
  split; intros [k [H1 H2]]; exists k; split; auto.
  - intros Hin. apply zmem_iff in Hin. congruence.
  - destruct (zmem k ns) eqn:E; auto. apply zmem_iff in E. contradiction.
Qed.

Lemma known_keys_iff p ns :
  forallb (fun kv => zmem (fst kv) ns) p = true <-> ~ unknown_key p ns.
Proof.
  rewrite <- unknown_key_iff. destruct (forallb _ p); split; intros H; auto; try discriminate.
Qed.

Lemma mat_offset_err_iff dims p e :
  mat_offset dims p = Err e <-> e = EValue /\ out_of_domain dims p.
Proof.
  split.
  - intros H. pose proof (mat_offset_err _ _ _ H). subst. split; auto.
    induction dims as [|[v s] r IH]; simpl in H; [discriminate|].
    destruct (zlookup (vname v) p) as [x|] eqn:E.
    + destruct (index_of x (vdom v)) eqn:Ei.
      * destruct (mat_offset r p) eqn:Er; simpl in H; [discriminate|].
        destruct (IH H) as (v' & s' & x' & H1 & H2 & H3).
        exists v', s', x'. simpl. auto.
      * exists v, s, x. simpl. split; auto. split; auto. now apply index_of_none.
    + destruct (IH H) as (v' & s' & x' & H1 & H2 & H3). exists v', s', x'. simpl. auto.
  - intros [-> (v & s & x & Hin & Hl & Hx)].
    induction dims as [|[v' s'] r IH]; simpl in *; [contradiction|].
    destruct Hin as [Hin|Hin].
    + inversion Hin; subst. rewrite Hl. apply index_of_none in Hx. now rewrite Hx.
    + specialize (IH Hin). destruct (zlookup (vname v') p); auto.
      destruct (index_of z (vdom v')); auto. now rewrite IH.
Qed.

Lemma slice_mat_exceptions dims data off p e :
  slice_mat dims data off p = Err e <->
  (e = EAttr /\ unknown_key p (mnames dims)) \/
  (e = EValue /\ ~ unknown_key p (mnames dims) /\ out_of_domain dims p).
Proof.
  unfold slice_mat. fold (mnames dims). destruct p as [|kv p0].
  - simpl. split; [discriminate|]. intros [[_ [k [[] _]]]|[_ [_ (v & s & x & _ & H & _)]]]. discriminate.
  - remember (kv :: p0) as p. assert (is_nil p = false) as -> by (subst; reflexivity).
    destruct (forallb (fun kv0 => zmem (fst kv0) (mnames dims)) p) eqn:E; simpl.
    + apply known_keys_iff in E. destruct (mat_offset dims p) eqn:Eo; simpl.
      * split; [discriminate|]. intros [[_ H]|[_ [_ H]]]; [contradiction|].
        assert (mat_offset dims p = Err EValue) by (apply mat_offset_err_iff; auto). congruence.
      * apply mat_offset_err_iff in Eo as [-> Ho]. split.
        -- intros H. inversion H. auto.
        -- intros [[_ H]|[-> _]]; [contradiction | reflexivity].
    + apply unknown_key_iff in E. split.
      * intros H. inversion H. auto.
      * intros [[-> _]|[_ [H _]]]; [reflexivity | contradiction].
Qed.

(* a well-formed function relation can be sliced on every dict over its own variables *)
Lemma slice_fun_total f vars mapping fkw p :
  wf_fun f vars mapping fkw -> NoDup (map fst p) ->
  (forall k, In k (map fst p) -> In k (map vname vars)) ->
  exists b', slice_fun f vars mapping fkw p = Ok b'.
Proof.
  intros Hwf Hp Hin. pose proof (wf_fun_facts _ _ _ _ Hwf) as (Hfst & Hsnd & Hargs).
  unfold slice_fun. destruct p as [|kv0 p0]; [simpl; eauto|]. remember (kv0 :: p0) as P.
  assert (is_nil P = false) as -> by (subst; reflexivity).
  assert (Hlen : (List.length vars <? List.length P)%nat = false).
  { apply Nat.ltb_ge. rewrite <- (map_length fst P), <- (map_length vname vars).
    apply NoDup_incl_length; auto. }
  rewrite Hlen.
  assert (Eknown : forallb (fun kv => zmem (fst kv) (map vname vars)) P = true).
  { apply (forallb_keys (fun k => zmem k (map vname vars))). intros k Hk. apply zmem_iff, Hin. now apply has_key_iff. }
  rewrite Eknown. simpl.
  assert (Eall : forallb (fun kv => has_key (fst kv) mapping) P = true).
  { apply (forallb_keys (fun k => has_key k mapping)). intros k Hk. apply has_key_iff. rewrite Hfst.
    apply Hin. now apply has_key_iff. }
  rewrite fad_spec, Eall. simpl.
  set (sd := map (gmap mapping) P).
  assert (Hsdnd : NoDup (map fst sd)) by (now apply gmap_keys_nodup).
  assert (Hsd_sub : forall a, has_key a sd = true -> In a (func_args f)).
  { intros a Ha. apply has_key_gmap in Ha as [k [_ Ek]]; auto.
    apply Hargs. apply zlookup_In in Ek. change a with (snd (k, a)). now apply in_map. }
  destruct Hwf as (Hn & Hpar & Hfix & Hkind).
  assert (Hpartial : fn_partial f sd = Ok (mkFn (fk f) (fparams f) (fbody f) (dict_merge (ffixed f) sd))).
  { unfold fn_partial. destruct (fk f); auto.
    assert (forallb (fun kv => zmem (fst kv) (fparams f)) (dict_merge (ffixed f) sd) = true) as ->; auto.
    apply (forallb_keys (fun k => zmem k (fparams f))). intros k Hk. apply zmem_iff.
    rewrite has_key_merge in Hk by auto. apply orb_true_iff in Hk as [Hk|Hk].
    - apply Hfix. now apply has_key_iff.
    - apply Hsd_sub in Hk. unfold func_args in Hk. apply filter_In in Hk. tauto. }
  rewrite Hpartial. simpl.
  set (f' := mkFn (fk f) (fparams f) (fbody f) (dict_merge (ffixed f) sd)).
  unfold mk_fun. destruct fkw; [eauto|].
  destruct Hkind as [-> Hl].
  assert (Hfa : func_args f' = filter (fun a => negb (has_key a sd)) (func_args f))
    by (now apply func_args_partial).
  set (Pn := fun n => negb (has_key n P)). set (Q := fun a => negb (has_key a sd)).
  assert (Hpq : forall n a, In (n, a) (combine (map vname vars) (func_args f)) -> Pn n = Q a).
  { intros n a Hna. unfold Pn, Q. f_equal. apply bool_eq_iff. split.
    - intros Hk. apply has_key_gmap; auto. exists n. split; [now apply has_key_iff|].
      apply In_zlookup; auto. now rewrite Hfst.
    - intros Hk. apply has_key_gmap in Hk as [k [Hk Ek]]; auto.
      apply zlookup_In in Ek. assert (k = n) by (eapply NoDup_snd_inj; eauto). subst.
      now apply has_key_iff. }
  destruct (par_filter Pn Q (map vname vars) (func_args f)) as [_ Hl2]; auto.
  { now rewrite map_length. }
  fold (remaining P vars).
  assert (Hlen' : List.length (remaining P vars) = List.length (func_args f')).
  { rewrite <- (map_length vname), remaining_names, Hfa. exact Hl2. }
  destruct (func_args f') eqn:Efa; [eauto|].
  rewrite map_args_combine by lia. simpl. eauto.
Qed.

Lemma slice_fun_exceptions f vars mapping fkw p e :
  wf_fun f vars mapping fkw -> NoDup (map fst p) ->
  (slice_fun f vars mapping fkw p = Err e <-> e = EValue /\ unknown_key p (map vname vars)).
Proof.
  intros Hwf Hp. split.
  - intros H.
    assert (Hu : unknown_key p (map vname vars)).
    { apply unknown_key_iff. destruct (forallb _ p) eqn:E; auto. exfalso.
      destruct (slice_fun_total f vars mapping fkw p Hwf Hp) as [b' Hb']; [|congruence].
      intros k Hk. apply zmem_iff.
      apply (proj1 (forallb_keys (fun k => zmem k (map vname vars)) p) E). now apply has_key_iff. }
    split; auto. revert H. unfold slice_fun. destruct p as [|kv0 p0].
    + destruct Hu as [k [[] _]].
    + remember (kv0 :: p0) as P. assert (is_nil P = false) as -> by (subst; reflexivity).
      destruct (_ <? _)%nat; [intros H; now inversion H|].
      apply unknown_key_iff in Hu. rewrite Hu. simpl. intros H; now inversion H.
  - intros [-> Hu]. unfold slice_fun. destruct p as [|kv0 p0]; [destruct Hu as [k [[] _]]|].
    remember (kv0 :: p0) as P. assert (is_nil P = false) as -> by (subst; reflexivity).
    destruct (_ <? _)%nat; auto. apply unknown_key_iff in Hu. now rewrite Hu.
Qed.

Lemma wrong_unary_slice_cases v p :
  match p with
  | [] => ~ wrong_unary_slice v p
  | [(k, x)] => wrong_unary_slice v p <-> k <> vname v
  | _ => wrong_unary_slice v p
  end.
Proof.
  unfold wrong_unary_slice. destruct p as [|[k x] [|kv p]]; simpl.
  - intros [[k [x [H _]]]|H]; [discriminate | lia].
  - split.
    + intros [[k' [x' [H H']]]|H]; [now inversion H | lia].
    + intros H. left. eauto.
  - right. lia.
Qed.

(* (4a) which malformed slices raise which exception *)
Lemma slice_exceptions_spec_l b p e :
  wf_b b -> NoDup (map fst p) -> (bslice b p = Err e <-> slice_raises b p e).
Proof.
  intros Hwf Hp. destruct b as [value|v par body|v|f vars mapping fkw|mdims data off|nvars]; simpl.
  - destruct p; simpl; split; try discriminate.
    + intros [_ H]. congruence.
    + intros H; inversion H. split; auto. discriminate.
    + intros [-> _]. reflexivity.
  - pose proof (wrong_unary_slice_cases v p) as W. destruct p as [|[k x] [|kv p]].
    + split; [discriminate|]. intros [[_ H]|[_ [[x H] _]]]; [contradiction | discriminate].
    + destruct (k =? vname v) eqn:E; simpl.
      * apply Z.eqb_eq in E. subst k.
        destruct (unary_f par body x) as [y|er] eqn:Eu; simpl.
        -- split; [discriminate|]. intros [[_ H]|[_ [_ H]]]; [apply W in H; congruence|].
           assert (unary_f par body x = Err EName) by (apply unary_f_err; auto). congruence.
        -- apply unary_f_err in Eu as [-> Hn]. split.
           ++ intros H. inversion H. right. split; auto. split; eauto.
           ++ intros [[_ H]|[-> _]]; [apply W in H; congruence | reflexivity].
      * apply Z.eqb_neq in E. split.
        -- intros H. inversion H. left. split; auto. now apply W.
        -- intros [[-> _]|[_ [[x' H] _]]]; [reflexivity | inversion H; congruence].
    + split.
      * intros H. inversion H. left. auto.
      * intros [[-> _]|[_ [[x' H] _]]]; [reflexivity | discriminate].
  - pose proof (wrong_unary_slice_cases v p) as W. destruct p as [|[k x] [|kv p]].
    + split; [discriminate|]. intros [_ H]. contradiction.
    + destruct (k =? vname v) eqn:E; simpl.
      * apply Z.eqb_eq in E. split; [discriminate|]. intros [_ H]. apply W in H. congruence.
      * apply Z.eqb_neq in E. split.
        -- intros H. inversion H. split; auto. now apply W.
        -- intros [-> _]. reflexivity.
    + split.
      * intros H. inversion H. auto.
      * intros [-> _]. reflexivity.
  - now apply slice_fun_exceptions.
  - apply slice_mat_exceptions.
  - split; [discriminate | contradiction].
Qed.

(* slicing succeeds exactly when nothing of the above applies *)
Lemma slice_succeeds_iff_l b p :
  wf_b b -> NoDup (map fst p) -> ((exists b', bslice b p = Ok b') <-> forall e, ~ slice_raises b p e).
Proof.
  intros Hwf Hp. split.
  - intros [b' H] e He. apply (slice_exceptions_spec_l b p e Hwf Hp) in He. congruence.
  - intros H. destruct (bslice b p) eqn:E; eauto.
    exfalso. apply (H e). now apply slice_exceptions_spec_l.
Qed.

(* ================= calls ================= *)
Definition missing_key (d : asg) (ns : list Z) : Prop := exists n, In n ns /\ ~ In n (map fst d).
(* a remaining dimension whose domain is not a singleton: ndarray.item() refuses *)
Definition not_single (dims : list (var * nat)) (d : asg) : Prop :=
  exists v s, In (v, s) dims /\ ~ In (vname v) (map fst d) /\ List.length (vdom v) <> 1%nat.
(* the body of the function refers to a name that is not one of its parameters *)
Definition free_name (f : fn) : Prop := exists n, In n (fv (fbody f)) /\ ~ In n (fparams f).

(* [gv_dict_raises b d e]: b.get_value_for_assignment(d) raises e (d a dict) *)
Definition gv_dict_raises (b : brel) (d : asg) (e : err) : Prop :=
  match b with
  | RZero _ => e = EValue /\ d <> []
  | RUnary v par body =>
      (e = EKey /\ ~ In (vname v) (map fst d)) \/
      (e = EName /\ In (vname v) (map fst d) /\ exists n, In n (fv body) /\ n <> par)
  | RBool v => e = EKey /\ ~ In (vname v) (map fst d)
  | RFun f vars _ _ =>
      (e = EKey /\ unknown_key d (map vname vars)) \/
      (e = EType /\ ~ unknown_key d (map vname vars) /\ missing_key d (map vname vars)) \/
      (e = EName /\ ~ unknown_key d (map vname vars) /\ ~ missing_key d (map vname vars) /\ free_name f)
  | RMat dims _ _ =>
      (e = EAttr /\ unknown_key d (mnames dims)) \/
      (e = EValue /\ ~ unknown_key d (mnames dims) /\ (out_of_domain dims d \/ not_single dims d))
  | RNeutral _ => False
  end.

Lemma not_missing_all d ns : ~ missing_key d ns -> forall n, In n ns -> In n (map fst d).
Proof.
  intros H n Hn. destruct (in_dec Z.eq_dec n (map fst d)); auto. exfalso. apply H. exists n. auto.
Qed.

Lemma not_unknown_all d ns : ~ unknown_key d ns -> forall k, In k (map fst d) -> In k ns.
Proof.
  intros H k Hk. destruct (in_dec Z.eq_dec k ns); auto. exfalso. apply H. exists k. auto.
Qed.

Lemma forallb_false_ex {A} (f : A -> bool) l : forallb f l = false <-> exists x, In x l /\ f x = false.
Proof.
  induction l as [|a l IH]; simpl.
  - split; [discriminate | intros [x [[] _]]].
  - destruct (f a) eqn:E; simpl.
    + rewrite IH. split; intros [x [H1 H2]]; exists x; auto. destruct H1; auto. congruence.
    + split; auto. intros _. exists a. auto.
Qed.

(* the function call inside a well-formed function relation *)
Lemma fn_call_exceptions f vars mapping fkw d e :
  wf_fun f vars mapping fkw -> NoDup (map fst d) ->
  (forall k, In k (map fst d) -> In k (map vname vars)) ->
  (fn_call f (map (gmap mapping) d) = Err e <->
   (e = EType /\ missing_key d (map vname vars)) \/
   (e = EName /\ ~ missing_key d (map vname vars) /\ free_name f)).
Proof.
  intros Hwf Hd Hin. pose proof (wf_fun_facts _ _ _ _ Hwf) as (Hfst & Hsnd & Hargs).
  destruct Hwf as (Hn & Hpar & Hfix & _).
  set (a := map (gmap mapping) d).
  assert (Eall : forallb (fun kv => has_key (fst kv) mapping) d = true).
  { apply (forallb_keys (fun k => has_key k mapping)). intros k Hk. apply has_key_iff. rewrite Hfst.
    apply Hin. now apply has_key_iff. }
  assert (Hfa_sub : forall p, In p (func_args f) -> In p (fparams f) /\ has_key p (ffixed f) = false).
  { intros p Hp. unfold func_args in Hp. apply filter_In in Hp as [H1 H2]. split; auto. now apply negb_true_iff. }
  assert (Ha_sub : forall p, has_key p a = true -> In p (func_args f)).
  { intros p Hp. apply has_key_gmap in Hp as [k [_ Ek]]; auto.
    apply Hargs. apply zlookup_In in Ek. change p with (snd (k, p)). now apply in_map. }
  assert (Hfst_nd : NoDup (map fst mapping)) by (now rewrite Hfst).
  (* all arguments received <-> no variable missing *)
  assert (Hcov : forallb (fun p => has_key p a) (func_args f) = false <-> missing_key d (map vname vars)).
  { rewrite forallb_false_ex. split.
    - intros [p [Hp Hk]]. apply Hargs in Hp. apply in_map_iff in Hp as [[n p'] [E Hnp]]. simpl in E; subst p'.
      exists n. split.
      + rewrite <- Hfst. change n with (fst (n, p)). now apply in_map.
      + intros Hnd. assert (has_key p a = true); [|congruence].
        apply has_key_gmap; auto. exists n. split; auto. now apply In_zlookup.
    - intros [n [Hn' Hnd]]. rewrite <- Hfst in Hn'. apply in_map_iff in Hn' as [[n' p] [E Hnp]]. simpl in E; subst n'.
      exists p. split.
      + apply Hargs. change p with (snd (n, p)). now apply in_map.
      + destruct (has_key p a) eqn:Ek; auto. exfalso. apply has_key_gmap in Ek as [k [Hk Ek]]; auto.
        apply zlookup_In in Ek. assert (k = n) by (eapply NoDup_snd_inj; eauto). subst. contradiction. }
  assert (Hcov' : forallb (fun p => has_key p a) (func_args f) = true <-> ~ missing_key d (map vname vars)).
  { rewrite <- Hcov. destruct (forallb _ (func_args f)); split; intros H; auto; try discriminate. }
  (* NameError <-> a free name, once every parameter is bound *)
  assert (Hname : forall env,
            (forall n, env n = None <-> has_key n (ffixed f) = false /\ has_key n a = false) ->
            forallb (fun p => has_key p a) (func_args f) = true ->
            (eval env (fbody f) = Err e <-> e = EName /\ free_name f)).
  { intros env Henv Hall. rewrite eval_err. unfold free_name.
    rewrite forallb_forall in Hall.
    split; intros [-> [n [Hn1 Hn2]]]; split; auto; exists n; split; auto.
    - apply Henv in Hn2 as [H1 H2]. intros Hp.
      assert (In n (func_args f)) by (unfold func_args; apply filter_In; split; auto; now rewrite H1).
      rewrite Hall in H2; auto. discriminate.
    - apply Henv. split.
      + destruct (has_key n (ffixed f)) eqn:E; auto. exfalso. apply Hn2, Hfix. now apply has_key_iff.
      + destruct (has_key n a) eqn:E; auto. exfalso. apply Hn2. apply Ha_sub in E. now apply Hfa_sub. }
  unfold fn_call. destruct (fk f).
  - (* ExpressionFunction *)
    destruct (forallb (fun p => has_key p a) (func_args f)) eqn:E1; simpl.
    + assert (E2 : forallb (fun kv => zmem (fst kv) (func_args f)) a = true).
      { apply (forallb_keys (fun k => zmem k (func_args f))). intros k Hk. apply zmem_iff. auto. }
      rewrite E2. simpl. rewrite Hname; auto.
      * split; [intros H; right; split; [tauto|]; split; [now apply Hcov'|tauto]|].
        intros [[_ H]|[H1 [_ H2]]]; auto. apply Hcov in H. discriminate.
      * intros n. rewrite !has_key_lookup. destruct (zlookup n (ffixed f)), (zlookup n a); split; try tauto; try discriminate; intros [? ?]; discriminate.
    + pose proof (proj1 Hcov eq_refl) as Hmiss. split.
      * intros H. inversion H. auto.
      * intros [[-> _]|[_ [H _]]]; [reflexivity | contradiction].
  - (* python function / functools.partial *)
    assert (E1 : forallb (fun kv => zmem (fst kv) (fparams f)) a = true).
    { apply (forallb_keys (fun k => zmem k (fparams f))). intros k Hk. apply zmem_iff. now apply Hfa_sub, Ha_sub. }
    assert (E2 : forallb (fun kv => zmem (fst kv) (fparams f)) (ffixed f) = true).
    { apply (forallb_keys (fun k => zmem k (fparams f))). intros k Hk. apply zmem_iff, Hfix. now apply has_key_iff. }
    rewrite E1, E2. simpl.
    assert (E3 : forallb (fun p => has_key p a || has_key p (ffixed f)) (fparams f)
                 = forallb (fun p => has_key p a) (func_args f)).
    { unfold func_args. rewrite forallb_filter. apply forallb_ext_in. intros x _.
      rewrite negb_involutive. apply orb_comm. }
    rewrite E3. destruct (forallb (fun p => has_key p a) (func_args f)) eqn:E4; simpl.
    + rewrite Hname; auto.
      * split; [intros H; right; split; [tauto|]; split; [now apply Hcov'|tauto]|].
        intros [[_ H]|[H1 [_ H2]]]; auto. apply Hcov in H. discriminate.
      * intros n. rewrite !has_key_lookup. destruct (zlookup n (ffixed f)), (zlookup n a); split; try tauto; try discriminate; intros [? ?]; discriminate.
    + pose proof (proj1 Hcov eq_refl) as Hmiss. split.
      * intros H. inversion H. auto.
      * intros [[-> _]|[_ [H _]]]; [reflexivity | contradiction].
Qed.

Lemma fun_gv_dict_exceptions f vars mapping fkw d e :
  wf_fun f vars mapping fkw -> NoDup (map fst d) ->
  (fun_gv_dict f mapping d = Err e <-> gv_dict_raises (RFun f vars mapping fkw) d e).
Proof.
  intros Hwf Hd. pose proof (wf_fun_facts _ _ _ _ Hwf) as (Hfst & _ & _).
  unfold fun_gv_dict. rewrite fad_spec. simpl.
  assert (E : forallb (fun kv => has_key (fst kv) mapping) d = forallb (fun kv => zmem (fst kv) (map vname vars)) d).
  { apply forallb_ext_in. intros [k x] _. simpl. apply bool_eq_iff. rewrite has_key_iff, zmem_iff, Hfst. tauto. }
  rewrite E. destruct (forallb (fun kv => zmem (fst kv) (map vname vars)) d) eqn:Ek; simpl.
  - apply known_keys_iff in Ek.
    rewrite (fn_call_exceptions f vars mapping fkw d e Hwf Hd (not_unknown_all _ _ Ek)). tauto.
  - apply unknown_key_iff in Ek. split.
    + intros H. inversion H. auto.
    + intros [[-> _]|[[_ [H _]]|[_ [H _]]]]; [reflexivity | contradiction | contradiction].
Qed.

Lemma mat_item_sliced dims data o d e :
  mat_item (RMat (filter (fun vs => negb (has_key (vname (fst vs)) d)) dims) data o) = Err e <->
  e = EValue /\ not_single dims d.
Proof.
  simpl. destruct (forallb _ (filter _ dims)) eqn:E.
  - split; [discriminate|]. intros [_ (v & s & Hin & Hk & Hl)]. exfalso.
    rewrite forallb_forall in E. specialize (E (v, s)). simpl in E.
    rewrite Nat.eqb_eq in E. apply Hl, E. apply filter_In. split; auto. simpl.
    apply negb_true_iff. now apply has_key_false.
  - apply forallb_false_ex in E as [[v s] [Hin Hl]]. apply filter_In in Hin as [Hin Hk]. simpl in *.
    apply negb_true_iff, has_key_false in Hk. apply Nat.eqb_neq in Hl.
    split; [intros H; inversion H; split; auto; exists v, s; auto | intros [-> _]; reflexivity].
Qed.

Lemma mat_gv_dict_exceptions dims data off d e :
  mat_gv_dict dims data off d = Err e <-> gv_dict_raises (RMat dims data off) d e.
Proof.
  unfold mat_gv_dict. simpl. destruct (slice_mat dims data off d) as [u|es] eqn:Es; simpl.
  - assert (Hnu : ~ unknown_key d (mnames dims)).
    { intros Hu. assert (slice_mat dims data off d = Err EAttr) by (apply slice_mat_exceptions; auto). congruence. }
    assert (Hno : ~ out_of_domain dims d).
    { intros Ho. assert (slice_mat dims data off d = Err EValue) by (apply slice_mat_exceptions; auto). congruence. }
    apply slice_mat_is_mat in Es as [o ->]. rewrite mat_item_sliced. tauto.
  - pose proof (proj1 (slice_mat_exceptions dims data off d es) Es) as H. split.
    + intros H'. inversion H'; subst. tauto.
    + intros [[-> Hu]|[-> [Hnu _]]]; destruct H as [[-> Hu']|[-> [Hnu' _]]]; auto; contradiction.
Qed.

(* (4b) which malformed get_value_for_assignment(dict) raise which exception *)
Lemma gv_dict_exceptions_spec_l b d e :
  wf_b b -> NoDup (map fst d) -> (bgv_dict b d = Err e <-> gv_dict_raises b d e).
Proof.
  intros Hwf Hd. destruct b as [value|v par body|v|f vars mapping fkw|mdims data off|nvars]; simpl.
  - destruct d; simpl; split; try discriminate.
    + intros [_ H]. congruence.
    + intros H; inversion H. split; auto. discriminate.
    + intros [-> _]. reflexivity.
  - destruct (zlookup (vname v) d) as [x|] eqn:E.
    + assert (Hin : In (vname v) (map fst d)) by (apply has_key_iff; now rewrite has_key_lookup, E).
      rewrite unary_f_err. split; [intros [-> H]; auto|]. intros [[_ H]|[-> [_ H]]]; [contradiction | auto].
    + apply zlookup_None_notin in E. split; [intros H; inversion H; auto|].
      intros [[-> _]|[_ [H _]]]; [reflexivity | contradiction].
  - destruct (zlookup (vname v) d) as [x|] eqn:E.
    + assert (Hin : In (vname v) (map fst d)) by (apply has_key_iff; now rewrite has_key_lookup, E).
      split; [discriminate|]. intros [_ H]. contradiction.
    + apply zlookup_None_notin in E. split; [intros H; inversion H; auto | intros [-> _]; reflexivity].
  - exact (fun_gv_dict_exceptions f vars mapping fkw d e Hwf Hd).
  - exact (mat_gv_dict_exceptions mdims data off d e).
  - split; [discriminate | contradiction].
Qed.

(* ----- list form / positional call ----- *)
Definition gv_list_raises (b : brel) (l : list Z) (e : err) : Prop :=
  match b with
  | RZero _ => e = EValue /\ l <> []
  | RUnary v par body =>
      (e = EValue /\ List.length l <> 1%nat) \/
      (e = EName /\ List.length l = 1%nat /\ exists n, In n (fv body) /\ n <> par)
  | RBool v => e = EValue /\ List.length l <> 1%nat
  | RFun _ _ _ _ | RMat _ _ _ =>
      (* more values than variables: IndexError; otherwise the dict form on the zipped prefix *)
      (e = EIndex /\ (List.length (bdims b) < List.length l)%nat) \/
      ((List.length l <= List.length (bdims b))%nat /\ gv_dict_raises b (combine (bnames b) l) e)
  | RNeutral _ => False
  end.

Lemma fal_long vars mapping l :
  (forall n, In n (map vname vars) -> has_key n mapping = true) ->
  (List.length vars < List.length l)%nat -> fun_args_list vars mapping l = Err EIndex.
Proof.
  revert l. induction vars as [|v vs IH]; intros [|x l] Hm Hl; simpl in *; try lia; auto.
  assert (Hk : has_key (vname v) mapping = true) by auto. rewrite has_key_lookup in Hk.
  destruct (zlookup (vname v) mapping); [|discriminate]. rewrite IH; auto. lia.
Qed.

Lemma zip_names_le vars l :
  (List.length l <= List.length vars)%nat -> zip_names vars l = Ok (combine (map vname vars) l).
Proof.
  revert vars; induction l as [|x l IH]; intros [|v vs]; simpl; intros H; try lia; auto.
  rewrite IH by lia. reflexivity.
Qed.

Lemma zip_names_long vars l :
  (List.length vars < List.length l)%nat -> zip_names vars l = Err EIndex.
Proof.
  revert vars; induction l as [|x l IH]; intros [|v vs]; simpl; intros H; try lia; auto.
  rewrite IH by lia. reflexivity.
Qed.

Lemma in_combine_keys (ns l : list Z) n : In n (map fst (combine ns l)) -> In n ns.
Proof.
  revert l. induction ns as [|m ns IH]; intros [|y l]; simpl; auto; try tauto.
  intros [H|H]; eauto.
Qed.

Lemma combine_keys_nodup (ns : list Z) (l : list Z) : NoDup ns -> NoDup (map fst (combine ns l)).
Proof.
  revert l. induction ns as [|n ns IH]; intros [|x l] H; simpl; try constructor.
  - inversion H; subst. intros Hin. apply H2. eapply in_combine_keys; eauto.
  - inversion H; auto.
Qed.

(* (4c) which malformed get_value_for_assignment(list) / r( *args ) raise which exception *)
Lemma gv_list_exceptions_spec_l b l e :
  wf_b b -> (bgv_list b l = Err e <-> gv_list_raises b l e) /\ bcall_pos b l = bgv_list b l.
Proof.
  intros Hwf. split; [|destruct b; reflexivity].
  destruct b as [value|v par body|v|f vars mapping fkw|mdims data off|nvars]; simpl.
  - destruct l; simpl; split; try discriminate.
    + intros [_ H]. congruence.
    + intros H; inversion H. split; auto. discriminate.
    + intros [-> _]. reflexivity.
  - destruct l as [|x [|y l]]; simpl.
    + split; [intros H; inversion H; left; split; auto; lia|]. intros [[-> _]|[_ [H _]]]; [auto | discriminate].
    + rewrite unary_f_err. split; [intros [-> H]; auto|]. intros [[_ H]|[-> [_ H]]]; [lia | auto].
    + split; [intros H; inversion H; left; split; auto; lia|]. intros [[-> _]|[_ [H _]]]; [auto | discriminate].
  - destruct l as [|x [|y l]]; simpl.
    + split; [intros H; inversion H; split; auto; lia|]. intros [-> _]; auto.
    + split; [discriminate|]. intros [_ H]. lia.
    + split; [intros H; inversion H; split; auto; lia|]. intros [-> _]; auto.
  - pose proof (wf_fun_facts _ _ _ _ Hwf) as (Hfst & _ & _).
    unfold fun_gv_list. destruct (Nat.ltb (List.length vars) (List.length l)) eqn:El.
    + apply Nat.ltb_lt in El. rewrite fal_long; auto.
      2:{ intros n Hn. apply has_key_iff. now rewrite Hfst. }
      simpl. split; [intros H; inversion H; auto|]. intros [[-> _]|[H _]]; [reflexivity | lia].
    + apply Nat.ltb_ge in El. rewrite fal_eq by auto. fold (fun_gv_dict f mapping (combine (map vname vars) l)).
      rewrite (fun_gv_dict_exceptions f vars mapping fkw); auto.
      2:{ apply combine_keys_nodup. apply Hwf. }
      unfold bnames. simpl. split; [auto|]. intros [[_ H]|[_ H]]; [lia | auto].
  - unfold mat_gv_list. destruct (Nat.ltb (List.length mdims) (List.length l)) eqn:El.
    + apply Nat.ltb_lt in El. rewrite zip_names_long by (now rewrite map_length).
      simpl. rewrite map_length. split; [intros H; inversion H; auto|]. intros [[-> _]|[H _]]; [reflexivity | lia].
    + apply Nat.ltb_ge in El. rewrite zip_names_le by (now rewrite map_length). simpl.
      rewrite mat_gv_dict_exceptions. unfold bnames. simpl. rewrite map_length.
      split; [auto|]. intros [[_ H]|[_ H]]; [lia | auto].
  - split; [discriminate | contradiction].
Qed.

(* ----- keyword call ----- *)
Definition call_kw_raises (b : brel) (kw : asg) (e : err) : Prop :=
  match b with
  | RUnary _ _ _ | RBool _ =>
      (e = EValue /\ List.length kw <> 1%nat) \/ (List.length kw = 1%nat /\ gv_dict_raises b kw e)
  | _ => gv_dict_raises b kw e
  end.

(* (4d) which malformed r( **kw ) raise which exception *)
Lemma call_kw_exceptions_spec_l b kw e :
  wf_b b -> NoDup (map fst kw) -> (bcall_kw b kw = Err e <-> call_kw_raises b kw e).
Proof.
  intros Hwf Hd. pose proof (gv_dict_exceptions_spec_l b kw e Hwf Hd) as G.
  unfold bcall_kw. destruct b as [value|v par body|v|f vars mapping fkw|mdims data off|nvars]; unfold call_kw_raises.
  - rewrite <- G. destruct kw; simpl; tauto.
  - destruct kw as [|kv [|kv' kw]]; simpl is_nil; cbv iota.
    + simpl. split; [intros H; inversion H; left; split; auto; lia|]. intros [[-> _]|[H _]]; [auto | discriminate].
    + rewrite G. simpl. split; [auto|]. intros [[_ H]|[_ H]]; [lia | auto].
    + simpl List.length. split; [intros H; inversion H; left; split; auto; lia|]. intros [[-> _]|[H _]]; [auto | discriminate].
  - destruct kw as [|kv [|kv' kw]]; simpl is_nil; cbv iota.
    + simpl. split; [intros H; inversion H; left; split; auto; lia|]. intros [[-> _]|[H _]]; [auto | discriminate].
    + rewrite G. simpl. split; [auto|]. intros [[_ H]|[_ H]]; [lia | auto].
    + simpl List.length. split; [intros H; inversion H; left; split; auto; lia|]. intros [[-> _]|[H _]]; [auto | discriminate].
  - rewrite <- G. destruct kw; simpl is_nil; cbv iota; [|tauto].
    unfold bcall_pos, bgv_list, bgv_dict, fun_gv_list, fun_gv_dict. destruct vars; simpl; tauto.
  - rewrite <- G. destruct kw; simpl is_nil; cbv iota; [|tauto].
    unfold bcall_pos, bgv_list, bgv_dict, mat_gv_list. destruct mdims; simpl; tauto.
  - simpl. destruct kw; simpl; split; try discriminate; contradiction.
Qed.
