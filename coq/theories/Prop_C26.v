(* Prop_C26.v -- C26: repair DCOP constraints and candidate info encode the repair rules.
   Only statements; each closed by an exact lemma from P_Repair.  All statements hold for any
   number of agents, computations, replicas, neighbours and any assignment. *)
From PyDcop Require Import Base M_Repair P_Repair M_Repair2 P_Repair2.
From Coq Require Import Permutation.

(* ---- candidate information (removal.py) ---- *)

(* orphaned computations = computations registered on a departed agent, minus the names
   Discovery regards as "technical" (first character '_' or 'B') *)
Theorem orphaned_exact : forall departed d c,
  In c (orphaned departed d) <->
  exists a, In a departed /\ In (c, a) (d_comps d) /\ is_technical c = false.
Proof. exact orphaned_exact_l. Qed.

(* the guard [is_technical c = false] cannot be dropped: a computation called "B1" hosted on
   a departed agent is not orphaned (known finding C26-B-prefixed-computation-not-orphaned) *)
Theorem orphaned_B_prefixed_refuted :
  exists departed d c a, In a departed /\ In (c, a) (d_comps d) /\ ~ In c (orphaned departed d).
Proof. exact orphaned_B_prefixed_refuted_l. Qed.

(* _removal_candidate_agents never fails and returns, without repetition, exactly the
   surviving agents that hold a replica of an orphaned computation *)
Theorem candidates_exact : forall departed d,
  exists l, candidate_agents departed d = Ok l /\ NoDup l /\
    forall a, In a l <->
      (~ In a departed /\ exists o, In o (orphaned departed d) /\ In a (replicas_of d o)).
Proof. exact candidates_exact_l. Qed.

(* _removal_candidate_computation_info: candidate agents of the orphan = its surviving
   replica holders; every entry of candidates_neighbors is an orphaned neighbour with its
   surviving replica holders; fixed neighbours are not orphaned; the two maps cover exactly
   the neighbours (other than the orphan itself) *)
Theorem info_candidates_exact : forall orphan departed g d cand fixed cn,
  computation_info orphan departed g d = Ok (cand, fixed, cn) ->
  (NoDup cand /\ forall a, In a cand <-> In a (replicas_of d orphan) /\ ~ In a departed) /\
  (forall n agts, In (n, agts) cn ->
     In n (orphaned departed d) /\ n <> orphan /\ NoDup agts /\
     forall a, In a agts <-> In a (replicas_of d n) /\ ~ In a departed) /\
  (forall n a, In (n, a) fixed -> ~ In n (orphaned departed d) /\ n <> orphan) /\
  (exists ns, slookup orphan g = Some ns /\
     (forall n, In n (map fst cn) \/ In n (map fst fixed) -> In n ns) /\
     forall n, In n ns -> n <> orphan ->
       (In n (orphaned departed d) -> mem_key String.eqb n cn = true) /\
       (~ In n (orphaned departed d) -> mem_key String.eqb n fixed = true)).
Proof. exact info_candidates_exact_l. Qed.

(* _removal_candidate_agt_info: one entry per orphaned computation the agent holds a replica
   of, each being that computation's info *)
Theorem agt_info_keys_exact : forall agt departed g d l,
  candidate_agt_info agt departed g d = Ok l ->
  (forall c, In c (map fst l) <-> In c (orphaned departed d) /\ In agt (replicas_of d c)) /\
  (forall c i, In (c, i) l -> computation_info c departed g d = Ok i).
Proof. exact agt_info_keys_exact_l. Qed.

(* Full statement of the property: "fixed neighbours are hosted on surviving agents", i.e.
     forall n a, In (n, a) fixed -> slookup n (d_comps d) = Some a /\ ~ In a departed.
   It is false of the code (see the _refuted witness below); it holds with the guard
   [is_technical n = false]. *)
Theorem fixed_neighbours_survive : forall orphan departed g d cand fixed cn,
  computation_info orphan departed g d = Ok (cand, fixed, cn) ->
  forall n a, In (n, a) fixed ->
    slookup n (d_comps d) = Some a /\ (is_technical n = false -> ~ In a departed).
Proof. exact fixed_neighbours_survive_l. Qed.

Theorem fixed_neighbours_technical_refuted :
  exists orphan departed g d cand fixed cn n a,
    computation_info orphan departed g d = Ok (cand, fixed, cn) /\
    In (n, a) fixed /\ In a departed.
Proof. exact fixed_neighbours_technical_refuted_l. Qed.

(* ---- the four constraints (reparation/__init__.py) ---- *)

(* hosted: on any binary keyword assignment over its scope the constraint is 0 if exactly
   one variable is 1 and 10000 otherwise *)
Theorem hosted_zero_iff_exactly_one : forall comp bv a,
  (forall v y, In (v, y) a -> In v (map snd bv)) -> binary_asg a ->
  exists r, rel_call (create_hosted comp bv) a = Ok r /\
            (r = 0 <-> ones a = 1%nat) /\ (r = 0 \/ r = 10000).
Proof. exact hosted_zero_iff_exactly_one_l. Qed.

(* ... i.e. iff exactly one candidate (computation, agent) pair is selected *)
Theorem hosted_exactly_one_candidate : forall comp bv x,
  NoDup (map fst bv) -> (forall k, In k (map fst bv) -> x k = 0 \/ x k = 1) ->
  exists r, rel_call (create_hosted comp bv) (asg_of bv x) = Ok r /\ (r = 0 \/ r = 10000) /\
    (r = 0 <-> exists k, In k (map fst bv) /\ x k = 1 /\
                 forall k', In k' (map fst bv) -> x k' = 1 -> k' = k).
Proof. exact hosted_exactly_one_candidate_l. Qed.

(* capacity: with distinct variable names, on any ordering of the binary assignment x the
   constraint is 0 iff the footprints of the selected computations fit the remaining
   capacity, 10000 otherwise *)
Theorem capacity_zero_iff_fits : forall agt rem fp bv x a,
  NoDup (map snd bv) -> Permutation a (asg_of bv x) ->
  (forall k, In k (map fst bv) -> x k = 0 \/ x k = 1) ->
  exists r, rel_call (create_capacity agt rem fp bv) a = Ok r /\ (r = 0 \/ r = 10000) /\
    (r = 0 <-> zsum (map (fun k => fp (fst k)) (selected bv x)) <= rem).
Proof. exact capacity_zero_iff_fits_l. Qed.

(* hosting: the value is the defining sum  sum_k x_k * hosting(comp_k)  (any integer x), which
   for binary x is the sum of the hosting costs of the selected computations *)
Theorem hosting_is_sum : forall agt h bv x a,
  NoDup (map snd bv) -> Permutation a (asg_of bv x) ->
  rel_call (create_hosting agt h bv) a = Ok (zsum (map (fun k => x k * h (fst k)) (map fst bv))) /\
  ((forall k, In k (map fst bv) -> x k = 0 \/ x k = 1) ->
   rel_call (create_hosting agt h bv) a = Ok (zsum (map (fun k => h (fst k)) (selected bv x)))).
Proof. exact hosting_is_sum_l. Qed.

(* communication: for any assignment over the scope that gives variable (v, a) the value
   x (v, a), the value is
     x(cand,agt) * ( sum_{n fixed} comm(cand, n, host n)
                     + sum_{n orphaned neighbour} sum_{a candidate of n} x(n,a) * comm(cand, n, a) ) *)
Theorem comm_is_sum : forall agt cand cands fixed cn comm bv rel (x : bkey -> Z) a,
  create_comm agt cand (cands, fixed, cn) comm bv = Ok rel ->
  (forall v y, In (v, y) a -> In v (r_scope rel)) ->
  (forall k v, In (k, v) bv -> In v (r_scope rel) -> slookup v a = Some (x k)) ->
  rel_call rel a
  = Ok (x (cand, agt) *
        (zsum (map (fun na => comm cand (fst na) (snd na)) fixed)
         + zsum (map (fun ns => zsum (map (fun va => x (fst ns, va) * comm cand (fst ns) va)
                                         (snd ns))) cn))).
Proof. exact comm_is_sum_l. Qed.

(* its scope: the local variable and one variable per (orphaned neighbour, candidate agent) *)
Theorem comm_scope_exact : forall agt cand cands fixed cn comm bv rel,
  create_comm agt cand (cands, fixed, cn) comm bv = Ok rel ->
  forall n, In n (r_scope rel) <->
    bv_name (cand, agt) bv = Ok n \/
    exists v agts va, In (v, agts) cn /\ In va agts /\ bv_name (v, va) bv = Ok n.
Proof. exact comm_scope_exact. Qed.

(* ---- deepening: the whole repair DCOP, assembled as ResilientAgent.setup_repair does ---- *)

(* The repair DCOP = for every candidate agent a, the constraints setup_repair builds from the
   repair info RI a it received (M_Repair2.setup_repair: hosted_c for each candidate computation,
   capacity_a, hosting_a, comm_{a,c}), over the binary variables x_{c,a} (c orphaned, a candidate
   of c; all_binvars).  For ANY departed set, discovery state, computation graph, agent
   parameters and binary assignment x, provided create_binary_variables gave distinct names:
     * the DCOP can be built and every constraint evaluates without error;
     * the sum h of the HARD constraints (hosted, capacity) is 0 iff x encodes a valid
       rehosting: every orphaned computation that still has a candidate is selected by exactly
       one of its candidates, and on every candidate agent the footprints of the computations
       it selects fit its remaining capacity (otherwise h >= 10000);
     * and then the sum s of the SOFT constraints is the hosting + communication cost of that
       rehosting (rehosting_cost: per receiving agent and received computation, its hosting
       cost plus the communication cost to every neighbour at its old or new host).
   This is the bridge C27 needs between "repair DCOP solved at cost < 10000" and "valid
   rehosting". *)
Theorem repair_dcop_zero_iff_valid :
  forall departed g d (P : string -> aparams) (x : bkey -> Z) agents (RI : string -> list (string * info)),
  let orph := dedup (orphaned departed d) in
  let cand := cand_of departed d in
  candidate_agents departed d = Ok agents ->
  (forall a, In a agents -> candidate_agt_info a departed g d = Ok (RI a)) ->
  NoDup (map snd (all_binvars orph cand)) ->
  binary_on (all_binvars orph cand) x ->
  exists ds h s, repair_dcop agents RI P = Ok ds /\
    hard_cost (all_binvars orph cand) x ds = Ok h /\
    soft_cost (all_binvars orph cand) x ds = Ok s /\
    0 <= h /\ (h = 0 <-> valid agents orph cand RI P x) /\
    (h = 0 -> s = rehosting_cost agents cand RI P x).
Proof. exact repair_dcop_zero_iff_valid_l2. Qed.

(* the same for any family of repair infos that is consistent with a candidate relation (not
   only the one computed by removal.py): what the proof actually uses *)
Theorem repair_dcop_zero_iff_valid_abstract :
  forall agents orph cand (RI : string -> list (string * info)) (P : string -> aparams) (x : bkey -> Z),
  NoDup (map snd (all_binvars orph cand)) ->
  (forall c, In c orph -> NoDup (cand c)) ->
  (forall a, In a agents -> NoDup (map fst (RI a))) ->
  (forall a c, In a agents -> (In c (map fst (RI a)) <-> In c orph /\ In a (cand c))) ->
  (forall a c cs fx cn, In a agents -> In (c, (cs, fx, cn)) (RI a) ->
     cs = cand c /\ forall n l, In (n, l) cn -> In n orph /\ l = cand n) ->
  (forall c a, In c orph -> In a (cand c) -> In a agents) ->
  binary_on (all_binvars orph cand) x ->
  exists ds h s, repair_dcop agents RI P = Ok ds /\
    hard_cost (all_binvars orph cand) x ds = Ok h /\
    soft_cost (all_binvars orph cand) x ds = Ok s /\
    0 <= h /\ (h = 0 <-> valid agents orph cand RI P x) /\
    (h = 0 -> s = rehosting_cost agents cand RI P x).
Proof. exact repair_dcop_cost_of_rehosting_l. Qed.

(* the soft part is, for every binary x (valid or not), the sum of the defining sums *)
Theorem repair_dcop_soft_is_sum :
  forall agents orph cand (RI : string -> list (string * info)) (P : string -> aparams) (x : bkey -> Z),
  NoDup (map snd (all_binvars orph cand)) ->
  (forall c, In c orph -> NoDup (cand c)) ->
  (forall a, In a agents -> NoDup (map fst (RI a))) ->
  (forall a c, In a agents -> (In c (map fst (RI a)) <-> In c orph /\ In a (cand c))) ->
  (forall a c cs fx cn, In a agents -> In (c, (cs, fx, cn)) (RI a) ->
     cs = cand c /\ forall n l, In (n, l) cn -> In n orph /\ l = cand n) ->
  (forall c a, In c orph -> In a (cand c) -> In a agents) ->
  binary_on (all_binvars orph cand) x ->
  exists ds h, repair_dcop agents RI P = Ok ds /\
    hard_cost (all_binvars orph cand) x ds = Ok h /\
    soft_cost (all_binvars orph cand) x ds = Ok (soft_total agents RI P x) /\
    0 <= h /\ (h = 0 <-> valid agents orph cand RI P x).
Proof. exact repair_dcop_zero_iff_valid_l. Qed.

(* non-vacuity of the bridge on the same 3x2 grid: c1 -> a2, c4 -> a5 is valid (hard 0, soft
   = 10 + 3 hosting + 7 + 7 communication); both on a2 overflows a2's capacity *)
Example c26_repair_dcop_nonvacuous :
  let gb := all_binvars ["c1"; "c4"]%string (cand_of ["a1"; "a4"]%string ex_d) in
  candidate_agents ["a1"; "a4"]%string ex_d = Ok ["a2"; "a5"]%string /\
  NoDup (map snd gb) /\
  exists ds, repair_dcop ["a2"; "a5"]%string ex_RI ex_P = Ok ds /\
    hard_cost gb ex_x ds = Ok 0 /\ soft_cost gb ex_x ds = Ok 27 /\
    rehosting_cost ["a2"; "a5"]%string (cand_of ["a1"; "a4"]%string ex_d) ex_RI ex_P ex_x = 27 /\
    hard_cost gb ex_bad ds = Ok 10000.
Proof.
  vm_compute. split; [reflexivity|]. split.
  - repeat constructor; simpl; intuition discriminate.
  - eexists. split; [reflexivity|]. repeat split; reflexivity.
Qed.

(* non-vacuity: the 3x2 grid of tests/unit/test_reparation_removal.py, agents a1 and a4 leave *)
Open Scope string_scope.
Example c26_nonvacuous :
  let d := mkDisc [("c1", "a1"); ("c2", "a2"); ("c3", "a3"); ("c4", "a4"); ("c5", "a5"); ("c6", "a8")]
                  [("c1", ["a2"; "a5"]); ("c2", ["a3"; "a6"]); ("c3", ["a1"; "a4"]);
                   ("c4", ["a2"; "a5"]); ("c5", ["a3"; "a6"]); ("c6", ["a1"; "a4"])] in
  let g := [("c1", ["c2"; "c4"]); ("c2", ["c1"; "c3"; "c5"]); ("c3", ["c2"; "c6"]);
            ("c4", ["c1"; "c5"]); ("c5", ["c2"; "c4"; "c6"]); ("c6", ["c3"; "c5"])] in
  let dep := ["a1"; "a4"] in
  let bv := [(("c1", "a2"), "Bc1_a2"); (("c4", "a2"), "Bc4_a2")] in
  orphaned dep d = ["c1"; "c4"] /\
  candidate_agents dep d = Ok ["a2"; "a5"] /\
  computation_info "c1" dep g d = Ok (["a2"; "a5"], [("c2", "a2")], [("c4", ["a2"; "a5"])]) /\
  rel_call (create_hosted "c1" [(("c1", "a2"), "Bc1_a2"); (("c1", "a5"), "Bc1_a5")])
           [("Bc1_a2", 1); ("Bc1_a5", 0)] = Ok 0 /\
  rel_call (create_hosted "c1" [(("c1", "a2"), "Bc1_a2"); (("c1", "a5"), "Bc1_a5")])
           [("Bc1_a2", 1); ("Bc1_a5", 1)] = Ok 10000 /\
  rel_call (create_capacity "a2" 30 (fun _ => 25) bv) [("Bc1_a2", 1); ("Bc4_a2", 1)] = Ok 10000 /\
  rel_call (create_capacity "a2" 30 (fun _ => 25) bv) [("Bc1_a2", 0); ("Bc4_a2", 1)] = Ok 0 /\
  rel_call (create_hosting "a2" (fun c => if String.eqb c "c1" then 10 else 3) bv)
           [("Bc1_a2", 1); ("Bc4_a2", 1)] = Ok 13.
Proof. vm_compute. repeat split; reflexivity. Qed.
