(* P_PseudoTree2.v -- DFS correctness of the token-passing builder model (one tree):
   a Hoare-style contract for handle / prop_loop of M_PseudoTree, proved for all graphs
   and all sizes by induction on the recursion fuel.

   Vocabulary.  A node is "white" while it has neither a parent nor the root flag,
   "discovered" (disc) afterwards.  The token is the path root .. current node (the gray
   nodes); a discovered node that is not on the token is black and [done]: each of its
   graph edges has carried the token in one direction or the other. *)
From Coq Require Import ZArith List Bool Lia Permutation.
From PyDcop Require Import Base P_Base M_PseudoTree P_PseudoTree.
Import ListNotations.
Open Scope Z_scope.

(* ---------- sorting keeps NoDup ---------- *)
Lemma insert_sorted_NoDup {A} (leb : A -> A -> bool) x l :
  ~ In x l -> NoDup l -> NoDup (insert_sorted leb x l).
Proof.
  induction l as [|y r IH]; simpl; intros Hx Hnd.
  - constructor; auto.
  - destruct (leb x y).
    + constructor; auto.
    + inversion Hnd; subst. constructor.
      * rewrite insert_sorted_In. intros [->|H]; auto.
      * apply IH; auto.
Qed.

Lemma isort_NoDup {A} (leb : A -> A -> bool) l : NoDup l -> NoDup (isort leb l).
Proof.
  induction l as [|y r IH]; simpl; intros H; [constructor|].
  inversion H; subst. apply insert_sorted_NoDup; auto. now rewrite isort_In.
Qed.

Lemma NoDup_app_snoc {A} (l : list A) x : NoDup l -> ~ In x l -> NoDup (l ++ [x]).
Proof.
  induction l as [|y r IH]; simpl; intros Hnd Hx.
  - constructor; auto.
  - inversion Hnd; subst. constructor.
    + rewrite in_app_iff. simpl. intuition.
    + apply IH; auto.
Qed.

(* ---------- fields of the building state ---------- *)
Definition fP (st : bstate) (a : Z) := b_parent (getb st a).
Definition fR (st : bstate) (a : Z) := b_root (getb st a).
Definition fCh (st : bstate) (a : Z) := b_children (getb st a).
Definition fPp (st : bstate) (a : Z) := b_pps (getb st a).
Definition fPc (st : bstate) (a : Z) := b_pcs (getb st a).
Definition fVi (st : bstate) (a : Z) := b_visited (getb st a).
Definition fNb (st : bstate) (a : Z) := b_neighbors (getb st a).

Definition disc (st : bstate) (a : Z) : Prop := fP st a <> None \/ fR st a = true.
Definition white (st : bstate) (a : Z) : Prop := fP st a = None /\ fR st a = false.

Lemma disc_or_white st a : disc st a \/ white st a.
Proof.
  unfold disc, white. destruct (fP st a); destruct (fR st a); auto; left; left; discriminate.
Qed.

Lemma white_not_disc st a : white st a -> ~ disc st a.
Proof. intros [H1 H2] [H|H]; congruence. Qed.

Lemma not_disc_white st a : ~ disc st a -> white st a.
Proof. intros H. destruct (disc_or_white st a); tauto. Qed.

(* [banc st a b] : a is a proper ancestor of b through the parent fields of the state *)
Inductive banc (st : bstate) : Z -> Z -> Prop :=
| banc_parent : forall a b, fP st b = Some a -> banc st a b
| banc_up : forall a b c, fP st c = Some b -> banc st a b -> banc st a c.

Lemma banc_mono st st' :
  (forall a p, fP st a = Some p -> fP st' a = Some p) ->
  forall a b, banc st a b -> banc st' a b.
Proof.
  intros H a b Hb. induction Hb.
  - apply banc_parent; auto.
  - eapply banc_up; eauto.
Qed.

Lemma banc_depth st (d : Z -> nat) :
  (forall a p, fP st a = Some p -> d a = S (d p)) ->
  forall a b, banc st a b -> (d a < d b)%nat.
Proof.
  intros Hd a b Hb. induction Hb.
  - apply Hd in H. lia.
  - apply Hd in H. lia.
Qed.

Lemma banc_has_child st a b : banc st a b -> exists c, fP st c = Some a.
Proof. intros H. induction H; eauto. Qed.

(* every graph edge of x has carried the token *)
Definition done (nb : Z -> list Z) (st : bstate) (x : Z) : Prop :=
  forall y, In y (nb x) -> In y (fVi st x) \/ In x (fVi st y).

(* what never changes once a node is discovered; received tokens only accumulate *)
Definition mono (st0 st : bstate) : Prop :=
  (forall a, disc st0 a -> fP st a = fP st0 a /\ fR st a = fR st0 a /\ fPp st a = fPp st0 a) /\
  (forall a, incl (fVi st0 a) (fVi st a)).

(* tokens received since st0 were sent by nodes that were white in st0 (or are the
   explicitly exempted pair) *)
Definition FR (E : Z -> Z -> Prop) (st0 st : bstate) : Prop :=
  forall a b, In a (fVi st b) -> In a (fVi st0 b) \/ white st0 a \/ E a b.

Lemma mono_refl st : mono st st.
Proof. split; intros; auto. intros y; auto. Qed.

Lemma mono_disc st0 st a : mono st0 st -> disc st0 a -> disc st a.
Proof.
  intros [H _] Hd. destruct (H a Hd) as [H1 [H2 _]]. unfold disc in *. rewrite H1, H2. exact Hd.
Qed.

Lemma mono_trans st0 st1 st2 : mono st0 st1 -> mono st1 st2 -> mono st0 st2.
Proof.
  intros H01 H12. split.
  - intros a Hd. pose proof (mono_disc _ _ _ H01 Hd) as Hd1.
    destruct H01 as [H01 _]. destruct H12 as [H12 _].
    destruct (H01 a Hd) as [A1 [A2 A3]]. destruct (H12 a Hd1) as [B1 [B2 B3]].
    repeat split; congruence.
  - intros a y Hy. apply (proj2 H12). apply (proj2 H01). exact Hy.
Qed.

Lemma mono_white st0 st a : mono st0 st -> white st a -> white st0 a.
Proof.
  intros Hm Hw. apply not_disc_white. intros Hd.
  eapply white_not_disc; eauto. eapply mono_disc; eauto.
Qed.

Lemma mono_parent st0 st : mono st0 st ->
  forall a p, fP st0 a = Some p -> fP st a = Some p.
Proof.
  intros [H _] a p Hp. assert (Hd : disc st0 a) by (left; congruence).
  destruct (H a Hd) as [H1 _]. congruence.
Qed.

(* ---------- what handle computes, case by case ---------- *)
Definition nondisc_state (st : bstate) (s n : Z) : bstate :=
  let st1 := setb st n (add_visited (getb st n) s) in
  setb st1 n (add_pc (getb st1 n) s).

Lemma handle_nondisc f st s n token :
  disc st n -> ~ In s (fCh st n) ->
  handle (S f) st (Some s) n token = Some (nondisc_state st s n).
Proof.
  intros Hd Hc. unfold nondisc_state. simpl.
  rewrite !getb_setb_same. simpl.
  assert (Hz : zmem s (b_children (getb st n)) = false).
  { destruct (zmem s (b_children (getb st n))) eqn:Ez; auto. apply zmem_In in Ez. contradiction. }
  rewrite Hz. destruct (b_parent (getb st n)) eqn:Ep; auto.
  destruct (b_root (getb st n)) eqn:Er; auto.
  exfalso. destruct Hd as [H|H]; unfold fP, fR in H; congruence.
Qed.

Lemma nondisc_state_other st s n a : a <> n -> getb (nondisc_state st s n) a = getb st a.
Proof. intros H. unfold nondisc_state. now rewrite !getb_setb_other. Qed.

Lemma nondisc_state_same st s n :
  getb (nondisc_state st s n) n = add_pc (add_visited (getb st n) s) s.
Proof. unfold nondisc_state. now rewrite !getb_setb_same. Qed.

Definition disc_state (st : bstate) (s x : Z) (token : list Z) : bstate :=
  let st1 := setb st x (add_visited (getb st x) s) in
  let b := getb st1 x in
  let pps := filter (fun n => zmem n token && negb (Z.eqb n s)) (b_neighbors b) in
  let st2 := setb st1 x (set_parent b s pps) in
  resort (resort st2 x token) x (token ++ [x]).

Lemma handle_disc f st s x token :
  white st x ->
  handle (S f) st (Some s) x token =
  prop_loop (fun st n => handle f st (Some x) n (token ++ [x])) x
    (b_neighbors (getb (disc_state st s x token) x)) (disc_state st s x token).
Proof.
  intros [Hp Hr]. unfold fP, fR in *. unfold disc_state. simpl.
  rewrite !getb_setb_same. simpl. rewrite Hp, Hr. reflexivity.
Qed.

Lemma resort_other st x token a : a <> x -> getb (resort st x token) a = getb st a.
Proof. intros H. unfold resort. now rewrite getb_setb_other. Qed.

Lemma resort_same st x token :
  exists l, (forall y, In y l <-> In y (b_neighbors (getb st x))) /\
            (NoDup (b_neighbors (getb st x)) -> NoDup l) /\
            getb (resort st x token) x = set_neighbors (getb st x) l.
Proof.
  unfold resort. rewrite getb_setb_same. eexists. split; [|split; [|reflexivity]].
  - intros y. unfold sort_neighbors. apply isort_In.
  - unfold sort_neighbors. apply isort_NoDup.
Qed.

Lemma disc_state_other st s x token a : a <> x -> getb (disc_state st s x token) a = getb st a.
Proof.
  intros H. unfold disc_state. cbv zeta. rewrite !resort_other by auto.
  now rewrite !getb_setb_other by auto.
Qed.

Lemma disc_state_same st s x token :
  let b0 := getb st x in
  exists l, (forall y, In y l <-> In y (b_neighbors b0)) /\
            (NoDup (b_neighbors b0) -> NoDup l) /\
            getb (disc_state st s x token) x =
            mkB l (Some s) (filter (fun n => zmem n token && negb (Z.eqb n s)) (b_neighbors b0))
                (b_pcs b0) (b_children b0) (b_visited b0 ++ [s]) (b_root b0).
Proof.
  intros b0. unfold disc_state. cbv zeta.
  match goal with |- context [resort (resort ?S x token) x (token ++ [x])] => set (st2 := S) end.
  destruct (resort_same st2 x token) as [l1 [A1 [A2 A3]]].
  destruct (resort_same (resort st2 x token) x (token ++ [x])) as [l2 [B1 [B2 B3]]].
  exists l2. rewrite B3, A3 in *. simpl in *.
  assert (E2 : getb st2 x = set_parent (add_visited b0 s) s
            (filter (fun n => zmem n token && negb (Z.eqb n s)) (b_neighbors b0))).
  { unfold st2. rewrite !getb_setb_same. reflexivity. }
  rewrite E2 in *. simpl in *. split; [|split].
  - intros y. rewrite B1. apply A1.
  - intros H. apply B2. apply A2. exact H.
  - reflexivity.
Qed.

Definition root_state (st : bstate) (x : Z) : bstate :=
  resort (setb st x (set_root (getb st x))) x ([] ++ [x]).

Lemma handle_root f st x :
  handle (S f) st None x [] =
  prop_loop (fun st n => handle f st (Some x) n ([] ++ [x])) x
    (b_neighbors (getb (root_state st x) x)) (root_state st x).
Proof. reflexivity. Qed.

Lemma root_state_other st x a : a <> x -> getb (root_state st x) a = getb st a.
Proof. intros H. unfold root_state. rewrite resort_other by auto. now rewrite getb_setb_other. Qed.

Lemma root_state_same st x :
  exists l, (forall y, In y l <-> In y (b_neighbors (getb st x))) /\
            (NoDup (b_neighbors (getb st x)) -> NoDup l) /\
            getb (root_state st x) x = set_neighbors (set_root (getb st x)) l.
Proof.
  unfold root_state.
  destruct (resort_same (setb st x (set_root (getb st x))) x ([] ++ [x])) as [l [A1 [A2 A3]]].
  rewrite getb_setb_same in *. simpl in *. exists l. auto.
Qed.

Section DFS.
  Variable nb : Z -> list Z.
  Variable vars : list Z.
  Variable root : Z.
  Hypothesis nb_sym : forall x y, In y (nb x) -> In x (nb y).
  Hypothesis nb_irrefl : forall x, ~ In x (nb x).
  Hypothesis nb_nodup : forall x, NoDup (nb x).

  (* the global invariant, true whenever the token is at rest between two steps of a
     _propagate loop *)
  Record G (st : bstate) : Prop := {
    g_nb : forall x y, In y (fNb st x) <-> In y (nb x);
    g_nb_nd : forall x, NoDup (fNb st x);
    g_white : forall x, white st x ->
       fVi st x = [] /\ fCh st x = [] /\ fPc st x = [] /\ fPp st x = [];
    g_vi_disc : forall a b, In a (fVi st b) -> disc st a /\ disc st b;
    g_par_disc : forall a p, fP st a = Some p -> disc st p;
    g_vi : forall a b, In a (fVi st b) -> fP st b = Some a \/ In a (fPc st b);
    g_pc_pp : forall a b, In a (fPc st b) -> In b (fPp st a);
    g_ch : forall a p, In a (fCh st p) <-> fP st a = Some p;
    g_par_vi : forall a p, fP st a = Some p -> In p (fVi st a);
    g_nd_ch : forall a, NoDup (fCh st a);
    g_nd_pp : forall a, NoDup (fPp st a);
    g_nd_pc : forall a, NoDup (fPc st a);
    g_pc_vi : forall a b, In a (fPc st b) -> In a (fVi st b);
    g_pp_anc : forall a b, In b (fPp st a) -> banc st b a;
    g_ranked : exists d : Z -> nat, forall a p, fP st a = Some p -> d a = S (d p);
    g_par_pp : forall a p, fP st a = Some p -> ~ In p (fPp st a);
    g_root : forall a, fR st a = true -> a = root /\ fP st a = None
  }.

  Notation done := (done nb).

  (* ---------- step 1: a discovered node n receives the token from x, one of whose
     pseudo-parents it is: it records x as pseudo-child ---------- *)
  Lemma G_send_pc st st2 n x :
    G st -> disc st n -> disc st x -> In n (fPp st x) -> ~ In x (fVi st n) ->
    (forall a, a <> n -> getb st2 a = getb st a) ->
    getb st2 n = add_pc (add_visited (getb st n) x) x ->
    G st2.
  Proof.
    intros HG Hdn Hdx Hpp Hns Ho Hn.
    assert (EP : forall a, fP st2 a = fP st a).
    { intros a. unfold fP. destruct (Z.eq_dec a n) as [->|Hne]; [rewrite Hn|rewrite Ho]; auto. }
    assert (ER : forall a, fR st2 a = fR st a).
    { intros a. unfold fR. destruct (Z.eq_dec a n) as [->|Hne]; [rewrite Hn|rewrite Ho]; auto. }
    assert (ECh : forall a, fCh st2 a = fCh st a).
    { intros a. unfold fCh. destruct (Z.eq_dec a n) as [->|Hne]; [rewrite Hn|rewrite Ho]; auto. }
    assert (EPp : forall a, fPp st2 a = fPp st a).
    { intros a. unfold fPp. destruct (Z.eq_dec a n) as [->|Hne]; [rewrite Hn|rewrite Ho]; auto. }
    assert (ENb : forall a, fNb st2 a = fNb st a).
    { intros a. unfold fNb. destruct (Z.eq_dec a n) as [->|Hne]; [rewrite Hn|rewrite Ho]; auto. }
    assert (EVi : forall a, fVi st2 a = if Z.eq_dec a n then fVi st n ++ [x] else fVi st a).
    { intros a. unfold fVi. destruct (Z.eq_dec a n) as [->|Hne]; [rewrite Hn|rewrite Ho]; auto. }
    assert (EPc : forall a, fPc st2 a = if Z.eq_dec a n then fPc st n ++ [x] else fPc st a).
    { intros a. unfold fPc. destruct (Z.eq_dec a n) as [->|Hne]; [rewrite Hn|rewrite Ho]; auto. }
    assert (ED : forall a, disc st2 a <-> disc st a).
    { intros a. unfold disc. rewrite EP, ER. tauto. }
    assert (EW : forall a, white st2 a <-> white st a).
    { intros a. unfold white. rewrite EP, ER. tauto. }
    assert (EB : forall a b, banc st a b -> banc st2 a b).
    { apply banc_mono. intros a p. now rewrite EP. }
    constructor.
    - intros a y. rewrite ENb. apply (g_nb _ HG).
    - intros a. rewrite ENb. apply (g_nb_nd _ HG).
    - intros a Hw. apply EW in Hw. rewrite EVi, EPc, ECh, EPp.
      destruct (Z.eq_dec a n) as [->|Hne]; [exfalso; eapply white_not_disc; eauto|].
      apply (g_white _ HG); auto.
    - intros a b. rewrite EVi, !ED. destruct (Z.eq_dec b n) as [->|Hne].
      + intros H. apply in_app_iff in H as [H|[<-|[]]]; auto. apply (g_vi_disc _ HG) in H. tauto.
      + apply (g_vi_disc _ HG).
    - intros a p. rewrite EP, ED. apply (g_par_disc _ HG).
    - intros a b. rewrite EVi, EPc, EP. destruct (Z.eq_dec b n) as [->|Hne].
      + intros H. apply in_app_iff in H as [H|[<-|[]]].
        * apply (g_vi _ HG) in H as [H|H]; auto. right. apply in_app_iff; auto.
        * right. apply in_app_iff. right. now left.
      + apply (g_vi _ HG).
    - intros a b. rewrite EPc, EPp. destruct (Z.eq_dec b n) as [->|Hne].
      + intros H. apply in_app_iff in H as [H|[<-|[]]]; auto. apply (g_pc_pp _ HG); auto.
      + apply (g_pc_pp _ HG).
    - intros a p. rewrite ECh, EP. apply (g_ch _ HG).
    - intros a p. rewrite EP, EVi. intros H. apply (g_par_vi _ HG) in H.
      destruct (Z.eq_dec a n) as [->|Hne]; auto. apply in_app_iff; auto.
    - intros a. rewrite ECh. apply (g_nd_ch _ HG).
    - intros a. rewrite EPp. apply (g_nd_pp _ HG).
    - intros a. rewrite EPc. destruct (Z.eq_dec a n) as [->|Hne]; [|apply (g_nd_pc _ HG)].
      apply NoDup_app_snoc; [apply (g_nd_pc _ HG)|].
      intros H. apply Hns. apply (g_pc_vi _ HG); auto.
    - intros a b. rewrite EPc, EVi. destruct (Z.eq_dec b n) as [->|Hne]; [|apply (g_pc_vi _ HG)].
      intros H. apply in_app_iff in H as [H|H]; apply in_app_iff; auto.
      left. apply (g_pc_vi _ HG); auto.
    - intros a b. rewrite EPp. intros H. apply EB. apply (g_pp_anc _ HG); auto.
    - destruct (g_ranked _ HG) as [d Hd]. exists d. intros a p. rewrite EP. apply Hd.
    - intros a p. rewrite EP, EPp. apply (g_par_pp _ HG).
    - intros a. rewrite ER, EP. apply (g_root _ HG).
  Qed.
  (* ---------- step 2: a white node x is discovered from s (s has already appended x to
     its children): parent, pseudo-parents, first received token ---------- *)
  Lemma G_discover st st4 s x token :
    G st -> white st x -> disc st s ->
    (forall y, In y token -> y = s \/ banc st y s) ->
    (forall a, a <> s -> a <> x -> getb st4 a = getb st a) ->
    getb st4 s = add_child (getb st s) x ->
    (forall y, In y (fNb st4 x) <-> In y (nb x)) -> NoDup (fNb st4 x) ->
    fP st4 x = Some s -> fR st4 x = false -> fCh st4 x = [] -> fPc st4 x = [] ->
    fVi st4 x = [s] ->
    (forall n, In n (fPp st4 x) <-> In n token /\ n <> s /\ In n (nb x)) ->
    NoDup (fPp st4 x) ->
    G st4.
  Proof.
    intros HG Hw Hds Htok Ho Hs HNb HNbnd HP HR HCh HPc HVi HPp HPpnd.
    assert (Hsx : s <> x) by (intros ->; eapply white_not_disc; eauto).
    assert (EO : forall a, a <> x ->
      fP st4 a = fP st a /\ fR st4 a = fR st a /\ fPp st4 a = fPp st a /\ fPc st4 a = fPc st a /\
      fVi st4 a = fVi st a /\ fNb st4 a = fNb st a /\
      fCh st4 a = if Z.eq_dec a s then fCh st s ++ [x] else fCh st a).
    { intros a Ha. unfold fP, fR, fPp, fPc, fVi, fNb, fCh.
      destruct (Z.eq_dec a s) as [->|Hne]; [rewrite Hs|rewrite Ho by auto]; simpl; repeat split; auto. }
    assert (ED1 : forall a, disc st a -> disc st4 a).
    { intros a Hd. assert (a <> x) by (intros ->; eapply white_not_disc; eauto).
      destruct (EO a H) as [E1 [E2 _]]. unfold disc. now rewrite E1, E2. }
    assert (ED2 : forall a, disc st4 a -> a = x \/ disc st a).
    { intros a Hd. destruct (Z.eq_dec a x) as [->|Hne]; auto. right.
      destruct (EO a Hne) as [E1 [E2 _]]. unfold disc in *. now rewrite <- E1, <- E2. }
    assert (Hdx : disc st4 x) by (left; congruence).
    assert (EB : forall a b, banc st a b -> banc st4 a b).
    { apply banc_mono. intros a p Hp. assert (a <> x) by (intros ->; destruct Hw; congruence).
      destruct (EO a H) as [E1 _]. congruence. }
    assert (Hvd : forall a b, In a (fVi st b) -> a <> x /\ b <> x).
    { intros a b H. apply (g_vi_disc _ HG) in H as [H1 H2].
      split; intros ->; eapply white_not_disc; eauto. }
    constructor.
    - intros a y. destruct (Z.eq_dec a x) as [->|Hne]; auto.
      destruct (EO a Hne) as [_ [_ [_ [_ [_ [E _]]]]]]. rewrite E. apply (g_nb _ HG).
    - intros a. destruct (Z.eq_dec a x) as [->|Hne]; auto.
      destruct (EO a Hne) as [_ [_ [_ [_ [_ [E _]]]]]]. rewrite E. apply (g_nb_nd _ HG).
    - intros a Haw. assert (Hne : a <> x) by (intros ->; eapply white_not_disc; eauto).
      destruct (EO a Hne) as [E1 [E2 [E3 [E4 [E5 [E6 E7]]]]]].
      assert (Hw0 : white st a) by (unfold white in *; now rewrite <- E1, <- E2).
      destruct (Z.eq_dec a s) as [->|Hns]; [exfalso; eapply white_not_disc; eauto|].
      rewrite E3, E4, E5, E7. apply (g_white _ HG); auto.
    - intros a b Hin. destruct (Z.eq_dec b x) as [->|Hne].
      + rewrite HVi in Hin. destruct Hin as [<-|[]]. auto.
      + destruct (EO b Hne) as [_ [_ [_ [_ [E5 _]]]]]. rewrite E5 in Hin.
        apply (g_vi_disc _ HG) in Hin as [H1 H2]. auto.
    - intros a p Hp. destruct (Z.eq_dec a x) as [->|Hne].
      + rewrite HP in Hp. inversion Hp; subst. auto.
      + destruct (EO a Hne) as [E1 _]. rewrite E1 in Hp. apply ED1. apply (g_par_disc _ HG) in Hp; auto.
    - intros a b Hin. destruct (Z.eq_dec b x) as [->|Hne].
      + rewrite HVi in Hin. destruct Hin as [<-|[]]. auto.
      + destruct (EO b Hne) as [E1 [_ [_ [E4 [E5 _]]]]]. rewrite E5 in Hin. rewrite E1, E4.
        apply (g_vi _ HG); auto.
    - intros a b Hin. destruct (Z.eq_dec b x) as [->|Hne].
      + rewrite HPc in Hin. destruct Hin.
      + destruct (EO b Hne) as [_ [_ [_ [E4 _]]]]. rewrite E4 in Hin.
        assert (Ha : a <> x) by (apply (g_pc_vi _ HG) in Hin; apply Hvd in Hin; tauto).
        destruct (EO a Ha) as [_ [_ [E3 _]]]. rewrite E3. apply (g_pc_pp _ HG); auto.
    - intros a p. destruct (Z.eq_dec p x) as [->|Hpx].
      + rewrite HCh. split; [intros []|]. intros Hp. exfalso.
        destruct (Z.eq_dec a x) as [->|Hne]; [congruence|].
        destruct (EO a Hne) as [E1 _]. rewrite E1 in Hp.
        apply (g_par_disc _ HG) in Hp. eapply white_not_disc; eauto.
      + destruct (EO p Hpx) as [_ [_ [_ [_ [_ [_ E7]]]]]]. rewrite E7.
        destruct (Z.eq_dec a x) as [->|Hne].
        * rewrite HP. destruct (Z.eq_dec p s) as [->|Hps].
          -- split; auto. intros _. apply in_app_iff. right. now left.
          -- split; [|intros H; congruence]. intros H. apply (g_ch _ HG) in H.
             destruct Hw; congruence.
        * destruct (EO a Hne) as [E1 _]. rewrite E1.
          destruct (Z.eq_dec p s) as [->|Hps]; [|apply (g_ch _ HG)].
          rewrite in_app_iff, (g_ch _ HG). simpl.
          split; [intros [H|[H|[]]]; [auto|congruence]|auto].
    - intros a p Hp. destruct (Z.eq_dec a x) as [->|Hne].
      + rewrite HP in Hp. inversion Hp; subst. rewrite HVi. now left.
      + destruct (EO a Hne) as [E1 [_ [_ [_ [E5 _]]]]]. rewrite E1 in Hp. rewrite E5.
        apply (g_par_vi _ HG); auto.
    - intros a. destruct (Z.eq_dec a x) as [->|Hne]; [rewrite HCh; constructor|].
      destruct (EO a Hne) as [_ [_ [_ [_ [_ [_ E7]]]]]]. rewrite E7.
      destruct (Z.eq_dec a s) as [->|Hns]; [|apply (g_nd_ch _ HG)].
      apply NoDup_app_snoc; [apply (g_nd_ch _ HG)|]. intros H. apply (g_ch _ HG) in H.
      destruct Hw; congruence.
    - intros a. destruct (Z.eq_dec a x) as [->|Hne]; auto.
      destruct (EO a Hne) as [_ [_ [E3 _]]]. rewrite E3. apply (g_nd_pp _ HG).
    - intros a. destruct (Z.eq_dec a x) as [->|Hne]; [rewrite HPc; constructor|].
      destruct (EO a Hne) as [_ [_ [_ [E4 _]]]]. rewrite E4. apply (g_nd_pc _ HG).
    - intros a b Hin. destruct (Z.eq_dec b x) as [->|Hne].
      + rewrite HPc in Hin. destruct Hin.
      + destruct (EO b Hne) as [_ [_ [_ [E4 [E5 _]]]]]. rewrite E4 in Hin. rewrite E5.
        apply (g_pc_vi _ HG); auto.
    - intros a b Hin. destruct (Z.eq_dec a x) as [->|Hne].
      + apply HPp in Hin as [H1 [H2 H3]]. destruct (Htok b H1) as [->|Hb]; [congruence|].
        eapply banc_up; [exact HP|]. apply EB; auto.
      + destruct (EO a Hne) as [_ [_ [E3 _]]]. rewrite E3 in Hin. apply EB.
        apply (g_pp_anc _ HG); auto.
    - destruct (g_ranked _ HG) as [d Hd].
      exists (fun a => if Z.eq_dec a x then S (d s) else d a).
      intros a p Hp. destruct (Z.eq_dec a x) as [->|Hne].
      + rewrite HP in Hp. inversion Hp; subst. destruct (Z.eq_dec p x); [congruence|]. reflexivity.
      + destruct (EO a Hne) as [E1 _]. rewrite E1 in Hp.
        destruct (Z.eq_dec p x) as [->|Hpx]; [|auto].
        apply (g_par_disc _ HG) in Hp. exfalso. eapply white_not_disc; eauto.
    - intros a p Hp. destruct (Z.eq_dec a x) as [->|Hne].
      + rewrite HP in Hp. inversion Hp; subst. intros H. apply HPp in H. tauto.
      + destruct (EO a Hne) as [E1 [_ [E3 _]]]. rewrite E1 in Hp. rewrite E3.
        apply (g_par_pp _ HG); auto.
    - intros a Ha. destruct (Z.eq_dec a x) as [->|Hne]; [congruence|].
      destruct (EO a Hne) as [E1 [E2 _]]. rewrite E2 in Ha. rewrite E1. apply (g_root _ HG); auto.
  Qed.

  (* ---------- step 0: the root receives the token from nobody ---------- *)
  Lemma G_setroot st st1 :
    G st -> white st root ->
    (forall a, a <> root -> getb st1 a = getb st a) ->
    (forall y, In y (fNb st1 root) <-> In y (nb root)) -> NoDup (fNb st1 root) ->
    fP st1 root = None -> fR st1 root = true -> fCh st1 root = [] -> fPc st1 root = [] ->
    fVi st1 root = [] -> fPp st1 root = [] ->
    G st1.
  Proof.
    intros HG Hw Ho HNb HNbnd HP HR HCh HPc HVi HPp.
    destruct (g_white _ HG _ Hw) as [W1 [W2 [W3 W4]]].
    assert (EP : forall a, fP st1 a = fP st a).
    { intros a. destruct (Z.eq_dec a root) as [->|Hne]; [destruct Hw; congruence|].
      unfold fP. now rewrite Ho. }
    assert (ECh : forall a, fCh st1 a = fCh st a).
    { intros a. destruct (Z.eq_dec a root) as [->|Hne]; [congruence|]. unfold fCh. now rewrite Ho. }
    assert (EPp : forall a, fPp st1 a = fPp st a).
    { intros a. destruct (Z.eq_dec a root) as [->|Hne]; [congruence|]. unfold fPp. now rewrite Ho. }
    assert (EPc : forall a, fPc st1 a = fPc st a).
    { intros a. destruct (Z.eq_dec a root) as [->|Hne]; [congruence|]. unfold fPc. now rewrite Ho. }
    assert (EVi : forall a, fVi st1 a = fVi st a).
    { intros a. destruct (Z.eq_dec a root) as [->|Hne]; [congruence|]. unfold fVi. now rewrite Ho. }
    assert (ER : forall a, a <> root -> fR st1 a = fR st a).
    { intros a Hne. unfold fR. now rewrite Ho. }
    assert (ED1 : forall a, disc st a -> disc st1 a).
    { intros a Hd. assert (a <> root) by (intros ->; eapply white_not_disc; eauto).
      unfold disc in *. now rewrite EP, ER. }
    assert (EB : forall a b, banc st a b -> banc st1 a b).
    { apply banc_mono. intros a p. now rewrite EP. }
    constructor.
    - intros a y. destruct (Z.eq_dec a root) as [->|Hne]; auto.
      unfold fNb. rewrite Ho by auto. apply (g_nb _ HG).
    - intros a. destruct (Z.eq_dec a root) as [->|Hne]; auto.
      unfold fNb. rewrite Ho by auto. apply (g_nb_nd _ HG).
    - intros a Haw. rewrite EVi, ECh, EPc, EPp. apply (g_white _ HG).
      destruct (Z.eq_dec a root) as [->|Hne]; auto.
      unfold white in *. now rewrite <- EP, <- ER.
    - intros a b. rewrite EVi. intros H. apply (g_vi_disc _ HG) in H as [H1 H2]. auto.
    - intros a p. rewrite EP. intros H. apply ED1. apply (g_par_disc _ HG) in H; auto.
    - intros a b. rewrite EVi, EP, EPc. apply (g_vi _ HG).
    - intros a b. rewrite EPc, EPp. apply (g_pc_pp _ HG).
    - intros a p. rewrite ECh, EP. apply (g_ch _ HG).
    - intros a p. rewrite EP, EVi. apply (g_par_vi _ HG).
    - intros a. rewrite ECh. apply (g_nd_ch _ HG).
    - intros a. rewrite EPp. apply (g_nd_pp _ HG).
    - intros a. rewrite EPc. apply (g_nd_pc _ HG).
    - intros a b. rewrite EPc, EVi. apply (g_pc_vi _ HG).
    - intros a b. rewrite EPp. intros H. apply EB. apply (g_pp_anc _ HG); auto.
    - destruct (g_ranked _ HG) as [d Hd]. exists d. intros a p. rewrite EP. apply Hd.
    - intros a p. rewrite EP, EPp. apply (g_par_pp _ HG).
    - intros a Ha. destruct (Z.eq_dec a root) as [->|Hne]; auto.
      rewrite ER in Ha by auto. rewrite EP. apply (g_root _ HG); auto.
  Qed.
  Lemma done_mono st st' a :
    (forall b, incl (fVi st b) (fVi st' b)) -> done st a -> done st' a.
  Proof.
    intros H Hd y Hy. destruct (Hd y Hy) as [H1|H1]; [left|right]; eapply H; eauto.
  Qed.

  (* ---------- the _propagate loop of node x, token = path root .. parent of x ---------- *)
  Section Loop.
    Variables (x : Z) (token : list Z) (st0 : bstate) (E : Z -> Z -> Prop) (px : option Z).

    Record LI (st : bstate) (ns : list Z) : Prop := {
      li_G : G st;
      li_black : forall a, disc st a -> ~ In a (token ++ [x]) -> done st a;
      li_anc : forall y, In y token -> banc st y x;
      li_gray : forall n, In n token -> In n (nb x) -> In n (fPp st x) \/ In n (fVi st x);
      li_disc_x : disc st x;
      li_tok_disc : forall y, In y token -> disc st y;
      li_unsent : forall n, In n ns -> ~ In x (fVi st n);
      li_sent : forall y, In y (nb x) -> ~ In y ns -> In y (fVi st x) \/ In x (fVi st y);
      li_ns_nd : NoDup ns;
      li_ns_nb : incl ns (nb x);
      li_mono : mono st0 st;
      li_fr : FR E st0 st;
      li_px : fP st x = px
    }.

    Hypothesis Hwx0 : white st0 x.

    Lemma LI_skip st n ns : LI st (n :: ns) -> In n (fVi st x) -> LI st ns.
    Proof.
      intros L Hv. destruct L. constructor; auto.
      - intros m Hm. apply li_unsent0. now right.
      - intros y Hy Hns. destruct (Z.eq_dec y n) as [->|Hne]; auto.
        apply li_sent0; auto. intros [H|H]; auto.
      - now inversion li_ns_nd0.
      - intros y Hy. apply li_ns_nb0. now right.
    Qed.

    (* one step of the loop: x passes the token to n and gets the state st2 back *)
    Lemma LI_step st n ns st2 : LI st (n :: ns) ->
      G st2 -> mono st st2 -> FR (fun a b => a = x /\ b = n) st st2 ->
      (forall a, disc st2 a -> ~ In a (token ++ [x]) -> done st2 a) ->
      In x (fVi st2 n) ->
      LI st2 ns.
    Proof.
      intros L HG2 Hm Hfr Hbl Hxn. destruct L.
      assert (Hnd : ~ In n ns /\ NoDup ns) by (inversion li_ns_nd0; auto).
      destruct Hnd as [Hnn Hnd].
      constructor; auto.
      - intros y Hy. eapply banc_mono; [apply mono_parent; exact Hm|]. auto.
      - intros m Hm1 Hm2. destruct Hm as [Hm3 Hm4]. destruct (Hm3 x li_disc_x0) as [_ [_ Epp]].
        rewrite Epp. destruct (li_gray0 m Hm1 Hm2); auto. right. apply (Hm4 x). auto.
      - eapply mono_disc; eauto.
      - intros y Hy. eapply mono_disc; eauto.
      - intros m Hm1 Hin. destruct (Hfr _ _ Hin) as [H|[H|[_ H]]].
        + apply (li_unsent0 m); auto. now right.
        + eapply white_not_disc; eauto.
        + subst m. contradiction.
      - intros y Hy Hns. destruct (Z.eq_dec y n) as [->|Hne]; auto.
        destruct (li_sent0 y Hy) as [H|H].
        + intros [H|H]; auto.
        + left. apply (proj2 Hm x). auto.
        + right. apply (proj2 Hm y). auto.
      - intros y Hy. apply li_ns_nb0. now right.
      - eapply mono_trans; eauto.
      - intros a b Hin. destruct (Hfr _ _ Hin) as [H|[H|[H _]]].
        + apply li_fr0; auto.
        + right; left. eapply mono_white; eauto.
        + subst a. auto.
      - destruct Hm as [Hm3 _]. destruct (Hm3 x li_disc_x0) as [Ep _]. congruence.
    Qed.
  End Loop.
  Hypothesis nb_vars : forall x y, In y (nb x) -> In y vars.

  (* contract of handle_token on a white node x that s has just appended to its children *)
  Definition Dspec (f : nat) : Prop := forall st s x token,
    G st -> (forall a, disc st a -> ~ In a token -> done st a) ->
    (forall y, In y token -> y = s \/ banc st y s) -> In s token ->
    (forall y, In y token -> disc st y) -> white st x -> In x (nb s) ->
    NoDup token -> incl token vars -> (List.length vars + 2 <= f + List.length token)%nat ->
    exists st', handle f (setb st s (add_child (getb st s) x)) (Some s) x token = Some st' /\
      G st' /\ (forall a, disc st' a -> ~ In a token -> done st' a) /\
      mono st st' /\ FR (fun a b => a = s /\ b = x) st st' /\ fP st' x = Some s.

  Section LoopOk.
    Variables (f : nat) (x : Z) (token : list Z) (st0 : bstate) (E : Z -> Z -> Prop) (px : option Z).
    Hypothesis HD : Dspec f.
    Hypothesis Hwx0 : white st0 x.
    Hypothesis Hnd : NoDup (token ++ [x]).
    Hypothesis Hincl : incl (token ++ [x]) vars.
    Hypothesis Hfuel : (List.length vars + 2 <= f + List.length (token ++ [x]))%nat.

    Lemma loop_ok : forall ns st, LI x token st0 E px st ns ->
      exists st', prop_loop (fun st n => handle f st (Some x) n (token ++ [x])) x ns st = Some st'
                  /\ LI x token st0 E px st' [].
    Proof.
      induction ns as [|n ns IH]; intros st L.
      - exists st. split; auto.
      - simpl.
        assert (Hnx : In n (nb x)) by (apply (li_ns_nb _ _ _ _ _ _ _ L); now left).
        assert (Hne : n <> x) by (intros ->; eapply nb_irrefl; eauto).
        pose proof (li_G _ _ _ _ _ _ _ L) as HG.
        pose proof (li_disc_x _ _ _ _ _ _ _ L) as Hdx.
        destruct (zmem n (b_visited (getb st x))) eqn:Ev.
        + apply zmem_In in Ev. apply IH. eapply LI_skip; eauto.
        + assert (Hnv : ~ In n (fVi st x)).
          { intros H. apply zmem_In in H. unfold fVi in H. congruence. }
          assert (Hxn : ~ In x (fVi st n)) by (apply (li_unsent _ _ _ _ _ _ _ L); now left).
          destruct (zmem n (b_pps (getb st x))) eqn:Epp.
          * (* n is a pseudo-parent of x *)
            apply zmem_In in Epp.
            assert (Hdn : disc st n).
            { apply (g_pp_anc _ HG) in Epp. destruct (banc_has_child _ _ _ Epp) as [c Hc].
              eapply g_par_disc; eauto. }
            assert (Hch : ~ In x (fCh st n)).
            { intros H. apply (g_ch _ HG) in H. eapply (g_par_pp _ HG); eauto. }
            assert (Hf : exists f', f = S f').
            { pose proof (NoDup_incl_length Hnd Hincl). destruct f; [lia|eauto]. }
            destruct Hf as [f' ->]. rewrite handle_nondisc by auto.
            apply IH. set (st2 := nondisc_state st x n).
            assert (Ho : forall a, a <> n -> getb st2 a = getb st a)
              by (intros; apply nondisc_state_other; auto).
            assert (Hs : getb st2 n = add_pc (add_visited (getb st n) x) x)
              by apply nondisc_state_same.
            assert (Hvi : forall b, incl (fVi st b) (fVi st2 b)).
            { intros b y Hy. unfold fVi in *. destruct (Z.eq_dec b n) as [->|Hb].
              - rewrite Hs. simpl. apply in_app_iff; auto.
              - rewrite Ho; auto. }
            eapply LI_step; eauto.
            -- exact (G_send_pc st st2 n x HG Hdn Hdx Epp Hxn Ho Hs).
            -- split; auto. intros a _. unfold fP, fR, fPp.
               destruct (Z.eq_dec a n) as [->|Ha]; [rewrite Hs|rewrite Ho by auto]; auto.
            -- intros a b Hin. unfold fVi in *. destruct (Z.eq_dec b n) as [->|Hb].
               ++ rewrite Hs in Hin. simpl in Hin. apply in_app_iff in Hin as [H|[<-|[]]]; auto.
               ++ rewrite Ho in Hin; auto.
            -- intros a Ha Hna. eapply done_mono; [exact Hvi|].
               apply (li_black _ _ _ _ _ _ _ L); auto.
               unfold disc, fP, fR in *.
               destruct (Z.eq_dec a n) as [->|Ha']; [rewrite Hs in Ha|rewrite Ho in Ha by auto]; auto.
            -- unfold fVi. rewrite Hs. simpl. apply in_app_iff. right. now left.
          * (* n must be white: it becomes a child of x *)
            assert (Hnpp : ~ In n (fPp st x)).
            { intros H. apply zmem_In in H. unfold fPp in H. congruence. }
            assert (Hwn : white st n).
            { destruct (disc_or_white st n) as [Hdn|Hwn]; auto. exfalso.
              destruct (in_dec Z.eq_dec n (token ++ [x])) as [Hin|Hnin].
              - apply in_app_iff in Hin as [Hin|[Hin|[]]]; [|congruence].
                destruct (li_gray _ _ _ _ _ _ _ L n Hin Hnx); contradiction.
              - pose proof (li_black _ _ _ _ _ _ _ L n Hdn Hnin) as Hdone.
                destruct (Hdone x (nb_sym _ _ Hnx)); contradiction. }
            destruct (HD st x n (token ++ [x])) as [st' [He [HG' [Hbl' [Hm' [Hfr' Hp']]]]]]; auto.
            -- apply (li_black _ _ _ _ _ _ _ L).
            -- intros y Hy. apply in_app_iff in Hy as [Hy|[Hy|[]]]; auto.
               right. apply (li_anc _ _ _ _ _ _ _ L); auto.
            -- apply in_app_iff. right. now left.
            -- intros y Hy. apply in_app_iff in Hy as [Hy|[Hy|[]]]; [|congruence].
               apply (li_tok_disc _ _ _ _ _ _ _ L); auto.
            -- rewrite He. apply IH. eapply LI_step; eauto.
               apply (g_par_vi _ HG'); auto.
    Qed.
  End LoopOk.

  Lemma D_all : forall f, Dspec f.
  Proof.
    induction f as [|f IHf]; intros st s x token HG Hbl Htok Hs Htd Hw Hxs Hnd Hincl Hfuel.
    - exfalso. pose proof (NoDup_incl_length Hnd Hincl). simpl in Hfuel. lia.
    - assert (Hds : disc st s) by auto.
      assert (Hsx : s <> x) by (intros ->; eapply white_not_disc; eauto).
      assert (Hxt : ~ In x token) by (intros H; eapply white_not_disc; eauto).
      set (sta := setb st s (add_child (getb st s) x)).
      assert (Ea : getb sta x = getb st x) by (unfold sta; rewrite getb_setb_other; auto).
      assert (Hwa : white sta x) by (unfold white, fP, fR in *; rewrite Ea; auto).
      rewrite handle_disc by exact Hwa.
      set (st4 := disc_state sta s x token).
      assert (Ho : forall a, a <> s -> a <> x -> getb st4 a = getb st a).
      { intros a H1 H2. unfold st4. rewrite disc_state_other by auto.
        unfold sta. now rewrite getb_setb_other. }
      assert (Hss : getb st4 s = add_child (getb st s) x).
      { unfold st4. rewrite disc_state_other by auto. unfold sta. now rewrite getb_setb_same. }
      destruct (disc_state_same sta s x token) as [l [L1 [L2 L3]]]. fold st4 in L3.
      rewrite Ea in L1, L2, L3.
      destruct (g_white _ HG _ Hw) as [W1 [W2 [W3 W4]]]. destruct Hw as [Wp Wr].
      unfold fVi, fCh, fPc, fPp, fP, fR in W1, W2, W3, W4, Wp, Wr.
      rewrite W1, W2, W3, Wr in L3. simpl in L3.
      assert (HNb : forall y, In y (fNb st4 x) <-> In y (nb x)).
      { intros y. unfold fNb. rewrite L3. simpl. rewrite L1. apply (g_nb _ HG). }
      assert (HNbnd : NoDup (fNb st4 x)).
      { unfold fNb. rewrite L3. simpl. apply L2. apply (g_nb_nd _ HG). }
      assert (HP : fP st4 x = Some s) by (unfold fP; rewrite L3; reflexivity).
      assert (HVi : fVi st4 x = [s]) by (unfold fVi; rewrite L3; reflexivity).
      assert (HPp : forall n, In n (fPp st4 x) <-> In n token /\ n <> s /\ In n (nb x)).
      { intros n. unfold fPp. rewrite L3. simpl. rewrite filter_In, andb_true_iff, negb_true_iff.
        rewrite zmem_In, Z.eqb_neq. pose proof (g_nb _ HG x n) as Hg. unfold fNb in Hg. tauto. }
      assert (Hw : white st x) by (split; auto).
      assert (HG4 : G st4).
      { eapply (G_discover st st4 s x token); eauto.
        - unfold fR. rewrite L3. reflexivity.
        - unfold fCh. rewrite L3. reflexivity.
        - unfold fPc. rewrite L3. reflexivity.
        - unfold fPp. rewrite L3. simpl. apply NoDup_filter. apply (g_nb_nd _ HG). }
      assert (EO : forall a, a <> x -> fP st4 a = fP st a /\ fR st4 a = fR st a /\
                                      fPp st4 a = fPp st a /\ fVi st4 a = fVi st a).
      { intros a Ha. unfold fP, fR, fPp, fVi.
        destruct (Z.eq_dec a s) as [->|Has]; [rewrite Hss|rewrite Ho by auto]; auto. }
      assert (Hvi : forall b, incl (fVi st b) (fVi st4 b)).
      { intros b y Hy. destruct (Z.eq_dec b x) as [->|Hb].
        - unfold fVi in Hy. rewrite W1 in Hy. destruct Hy.
        - destruct (EO b Hb) as [_ [_ [_ E4]]]. now rewrite E4. }
      assert (Hm4 : mono st st4).
      { split; auto. intros a Ha.
        assert (a <> x) by (intros ->; eapply white_not_disc; eauto).
        destruct (EO a H) as [E1 [E2 [E3 _]]]. auto. }
      assert (L : LI x token st (fun a b => a = s /\ b = x) (Some s) st4 (fNb st4 x)).
      { constructor; auto.
        - intros a Ha Hna. assert (Hax : a <> x) by (intros ->; apply Hna; apply in_app_iff; right; now left).
          eapply done_mono; [exact Hvi|]. apply Hbl.
          + destruct (EO a Hax) as [E1 [E2 _]]. unfold disc in *. now rewrite <- E1, <- E2.
          + intros H. apply Hna. apply in_app_iff; auto.
        - intros y Hy. destruct (Htok y Hy) as [->|Hb]; [now apply banc_parent|].
          eapply banc_up; [exact HP|]. eapply banc_mono; [apply mono_parent; exact Hm4|]. exact Hb.
        - intros n Hn Hnn. destruct (Z.eq_dec n s) as [->|Hns].
          + right. rewrite HVi. now left.
          + left. apply HPp. auto.
        - left. congruence.
        - intros y Hy. eapply mono_disc; eauto.
        - intros n _ Hin. destruct (Z.eq_dec n x) as [->|Hn].
          + rewrite HVi in Hin. destruct Hin as [H|[]]. congruence.
          + destruct (EO n Hn) as [_ [_ [_ E4]]]. rewrite E4 in Hin.
            apply (g_vi_disc _ HG) in Hin as [Hin _]. eapply white_not_disc; eauto.
        - intros y Hy Hny. exfalso. apply Hny. now apply HNb.
        - intros y Hy. now apply HNb.
        - intros a b Hin. destruct (Z.eq_dec b x) as [->|Hb].
          + rewrite HVi in Hin. destruct Hin as [<-|[]]. auto.
          + destruct (EO b Hb) as [_ [_ [_ E4]]]. rewrite E4 in Hin. auto. }
      assert (Hnd' : NoDup (token ++ [x])) by (apply NoDup_app_snoc; auto).
      assert (Hincl' : incl (token ++ [x]) vars).
      { intros y Hy. apply in_app_iff in Hy as [Hy|[<-|[]]]; auto. eapply nb_vars; eauto. }
      assert (Hfuel' : (List.length vars + 2 <= f + List.length (token ++ [x]))%nat).
      { rewrite app_length. simpl. lia. }
      destruct (loop_ok f x token st _ (Some s) IHf Hw Hnd' Hincl' Hfuel' _ _ L) as [st' [He L']].
      exists st'. unfold fNb in He. split; [exact He|].
      split; [apply (li_G _ _ _ _ _ _ _ L')|]. split; [|split; [|split]].
      + intros a Ha Hna. destruct (Z.eq_dec a x) as [->|Hax].
        * intros y Hy. apply (li_sent _ _ _ _ _ _ _ L'); auto.
        * apply (li_black _ _ _ _ _ _ _ L'); auto.
          intros H. apply in_app_iff in H as [H|[H|[]]]; auto.
      + apply (li_mono _ _ _ _ _ _ _ L').
      + apply (li_fr _ _ _ _ _ _ _ L').
      + apply (li_px _ _ _ _ _ _ _ L').
  Qed.

  (* contract of _generate_dfs_tree's call root.handle_token(None, []) *)
  Lemma root_ok f st :
    G st -> (forall a, white st a) -> In root vars -> (List.length vars + 1 <= f)%nat ->
    exists st', handle (S f) st None root [] = Some st' /\
      G st' /\ (forall a, disc st' a -> done st' a) /\ fR st' root = true.
  Proof.
    intros HG Hall Hrv Hfuel. rewrite handle_root.
    set (st1 := root_state st root).
    assert (Ho : forall a, a <> root -> getb st1 a = getb st a)
      by (intros; apply root_state_other; auto).
    destruct (root_state_same st root) as [l [L1 [L2 L3]]]. fold st1 in L3.
    pose proof (Hall root) as Hw.
    destruct (g_white _ HG _ Hw) as [W1 [W2 [W3 W4]]]. destruct (Hw) as [Wp Wr].
    unfold fVi, fCh, fPc, fPp, fP, fR in W1, W2, W3, W4, Wp, Wr.
    assert (HNb : forall y, In y (fNb st1 root) <-> In y (nb root)).
    { intros y. unfold fNb. rewrite L3. simpl. rewrite L1. apply (g_nb _ HG). }
    assert (HNbnd : NoDup (fNb st1 root)).
    { unfold fNb. rewrite L3. simpl. apply L2. apply (g_nb_nd _ HG). }
    assert (HG1 : G st1).
    { apply (G_setroot st st1); auto; unfold fP, fR, fCh, fPc, fVi, fPp; rewrite L3; simpl; auto. }
    assert (EO : forall a, fP st1 a = fP st a /\ fPp st1 a = fPp st a /\ fVi st1 a = fVi st a).
    { intros a. unfold fP, fPp, fVi.
      destruct (Z.eq_dec a root) as [->|Ha]; [rewrite L3|rewrite Ho by auto]; auto. }
    assert (HR1 : fR st1 root = true) by (unfold fR; rewrite L3; reflexivity).
    assert (Hnodisc : forall a, ~ disc st a) by (intros a; apply white_not_disc; auto).
    assert (L : LI root [] st (fun _ _ => False) None st1 (fNb st1 root)).
    { constructor; auto.
      - intros a Ha Hna. exfalso. destruct (Z.eq_dec a root) as [->|Hne].
        + apply Hna. now left.
        + apply (Hnodisc a). unfold disc, fP, fR in *. now rewrite Ho in Ha.
      - intros y [].
      - intros n [].
      - right. exact HR1.
      - intros y [].
      - intros n _ Hin. destruct (EO n) as [_ [_ E3]]. rewrite E3 in Hin.
        apply (g_vi_disc _ HG) in Hin as [H _]. eapply Hnodisc; eauto.
      - intros y Hy Hny. exfalso. apply Hny. now apply HNb.
      - intros y Hy. now apply HNb.
      - split.
        + intros a Ha. exfalso. eapply Hnodisc; eauto.
        + intros a. destruct (EO a) as [_ [_ E3]]. rewrite E3. intros y; auto.
      - intros a b Hin. destruct (EO b) as [_ [_ E3]]. rewrite E3 in Hin. auto.
      - destruct (EO root) as [E1 _]. rewrite E1. exact Wp. }
    assert (Hnd' : NoDup ([] ++ [root])) by (simpl; constructor; [intros []|constructor]).
    assert (Hincl' : incl ([] ++ [root]) vars) by (intros y [<-|[]]; auto).
    assert (Hfuel' : (List.length vars + 2 <= f + List.length ([] ++ [root]))%nat) by (simpl; lia).
    destruct (loop_ok f root [] st _ None (D_all f) Hw Hnd' Hincl' Hfuel' _ _ L) as [st' [He L']].
    exists st'. unfold fNb in He. split; [exact He|].
    pose proof (li_G _ _ _ _ _ _ _ L') as HG'.
    split; [exact HG'|]. split.
    - intros a Ha. destruct (Z.eq_dec a root) as [->|Hne].
      + intros y Hy. apply (li_sent _ _ _ _ _ _ _ L'); auto.
      + apply (li_black _ _ _ _ _ _ _ L'); auto. intros [H|[]]. congruence.
    - destruct (li_disc_x _ _ _ _ _ _ _ L') as [H|H]; auto.
      rewrite (li_px _ _ _ _ _ _ _ L') in H. congruence.
  Qed.
End DFS.
