(* P_PseudoTree2.v -- DFS correctness of the token-passing builder model (one tree):
   a Hoare-style contract for handle / prop_loop of M_PseudoTree, proved for all graphs
   and all sizes by induction on the recursion fuel.

   Vocabulary.  A node is "white" while it has neither a parent nor the root flag,
   "discovered" (disc) afterwards.  The token is the path root .. current node (the gray
   nodes); a discovered node that is not on the token is black and [done]: each of its
   graph edges has carried the token in one direction or the other. *)
From Coq Require Import ZArith List Bool Lia Permutation.
From PyDcop Require Import Base P_Base M_PseudoTree P_PseudoTree.
Import ListNotations.
Open Scope Z_scope.

(* ---------- sorting keeps NoDup ---------- *)
Lemma insert_sorted_NoDup {A} (leb : A -> A -> bool) x l :
  ~ In x l -> NoDup l -> NoDup (insert_sorted leb x l).
Proof.
  induction l as [|y r IH]; simpl; intros Hx Hnd.
  - constructor; auto.
  - destruct (leb x y).
    + constructor; auto.
    + inversion Hnd; subst. constructor.
      * rewrite insert_sorted_In. intros [->|H]; auto.
      * apply IH; auto.
Qed.

Lemma isort_NoDup {A} (leb : A -> A -> bool) l : NoDup l -> NoDup (isort leb l).
Proof.
  induction l as [|y r IH]; simpl; intros H; [constructor|].
  inversion H; subst. apply insert_sorted_NoDup; auto. now rewrite isort_In.
Qed.

(* ---------- fields of the building state ---------- *)
Definition fP (st : bstate) (a : Z) := b_parent (getb st a).
Definition fR (st : bstate) (a : Z) := b_root (getb st a).
Definition fCh (st : bstate) (a : Z) := b_children (getb st a).
Definition fPp (st : bstate) (a : Z) := b_pps (getb st a).
Definition fPc (st : bstate) (a : Z) := b_pcs (getb st a).
Definition fVi (st : bstate) (a : Z) := b_visited (getb st a).
Definition fNb (st : bstate) (a : Z) := b_neighbors (getb st a).

Definition disc (st : bstate) (a : Z) : Prop := fP st a <> None \/ fR st a = true.
Definition white (st : bstate) (a : Z) : Prop := fP st a = None /\ fR st a = false.

Lemma disc_or_white st a : disc st a \/ white st a.
Proof.
  unfold disc, white. destruct (fP st a); destruct (fR st a); auto; left; left; discriminate.
Qed.

Lemma white_not_disc st a : white st a -> ~ disc st a.
Proof. intros [H1 H2] [H|H]; congruence. Qed.

Lemma not_disc_white st a : ~ disc st a -> white st a.
Proof. intros H. destruct (disc_or_white st a); tauto. Qed.

(* [banc st a b] : a is a proper ancestor of b through the parent fields of the state *)
Inductive banc (st : bstate) : Z -> Z -> Prop :=
| banc_parent : forall a b, fP st b = Some a -> banc st a b
| banc_up : forall a b c, fP st c = Some b -> banc st a b -> banc st a c.

Lemma banc_mono st st' :
  (forall a p, fP st a = Some p -> fP st' a = Some p) ->
  forall a b, banc st a b -> banc st' a b.
Proof.
  intros H a b Hb. induction Hb.
  - apply banc_parent; auto.
  - eapply banc_up; eauto.
Qed.

Lemma banc_depth st (d : Z -> nat) :
  (forall a p, fP st a = Some p -> d a = S (d p)) ->
  forall a b, banc st a b -> (d a < d b)%nat.
Proof.
  intros Hd a b Hb. induction Hb.
  - apply Hd in H. lia.
  - apply Hd in H. lia.
Qed.

Lemma banc_has_child st a b : banc st a b -> exists c, fP st c = Some a.
Proof. intros H. induction H; eauto. Qed.

(* every graph edge of x has carried the token *)
Definition done (nb : Z -> list Z) (st : bstate) (x : Z) : Prop :=
  forall y, In y (nb x) -> In y (fVi st x) \/ In x (fVi st y).

(* what never changes once a node is discovered; received tokens only accumulate *)
Definition mono (st0 st : bstate) : Prop :=
  (forall a, disc st0 a -> fP st a = fP st0 a /\ fR st a = fR st0 a /\ fPp st a = fPp st0 a) /\
  (forall a, incl (fVi st0 a) (fVi st a)).

(* tokens received since st0 were sent by nodes that were white in st0 (or are the
   explicitly exempted pair) *)
Definition FR (E : Z -> Z -> Prop) (st0 st : bstate) : Prop :=
  forall a b, In a (fVi st b) -> In a (fVi st0 b) \/ white st0 a \/ E a b.

Lemma mono_refl st : mono st st.
Proof. split; intros; auto. intros y; auto. Qed.

Lemma mono_disc st0 st a : mono st0 st -> disc st0 a -> disc st a.
Proof.
  intros [H _] Hd. destruct (H a Hd) as [H1 [H2 _]]. unfold disc in *. rewrite H1, H2. exact Hd.
Qed.

Lemma mono_trans st0 st1 st2 : mono st0 st1 -> mono st1 st2 -> mono st0 st2.
Proof.
  intros H01 H12. split.
  - intros a Hd. pose proof (mono_disc _ _ _ H01 Hd) as Hd1.
    destruct H01 as [H01 _]. destruct H12 as [H12 _].
    destruct (H01 a Hd) as [A1 [A2 A3]]. destruct (H12 a Hd1) as [B1 [B2 B3]].
    repeat split; congruence.
  - intros a y Hy. apply (proj2 H12). apply (proj2 H01). exact Hy.
Qed.

Lemma mono_white st0 st a : mono st0 st -> white st a -> white st0 a.
Proof.
  intros Hm Hw. apply not_disc_white. intros Hd.
  eapply white_not_disc; eauto. eapply mono_disc; eauto.
Qed.

Lemma mono_parent st0 st : mono st0 st ->
  forall a p, fP st0 a = Some p -> fP st a = Some p.
Proof.
  intros [H _] a p Hp. assert (Hd : disc st0 a) by (left; congruence).
  destruct (H a Hd) as [H1 _]. congruence.
Qed.

Section DFS.
  Variable nb : Z -> list Z.
  Variable vars : list Z.
  Variable root : Z.
  Hypothesis nb_sym : forall x y, In y (nb x) -> In x (nb y).
  Hypothesis nb_irrefl : forall x, ~ In x (nb x).
  Hypothesis nb_nodup : forall x, NoDup (nb x).

  (* the global invariant, true whenever the token is at rest between two steps of a
     _propagate loop *)
  Record G (st : bstate) : Prop := {
    g_nb : forall x y, In y (fNb st x) <-> In y (nb x);
    g_nb_nd : forall x, NoDup (fNb st x);
    g_white : forall x, white st x ->
       fVi st x = [] /\ fCh st x = [] /\ fPc st x = [] /\ fPp st x = [];
    g_vi_disc : forall a b, In a (fVi st b) -> disc st a /\ disc st b;
    g_par_disc : forall a p, fP st a = Some p -> disc st p;
    g_vi : forall a b, In a (fVi st b) -> fP st b = Some a \/ In a (fPc st b);
    g_pc_pp : forall a b, In a (fPc st b) -> In b (fPp st a);
    g_ch : forall a p, In a (fCh st p) <-> fP st a = Some p;
    g_par_vi : forall a p, fP st a = Some p -> In p (fVi st a);
    g_nd_ch : forall a, NoDup (fCh st a);
    g_nd_pp : forall a, NoDup (fPp st a);
    g_nd_pc : forall a, NoDup (fPc st a);
    g_pc_vi : forall a b, In a (fPc st b) -> In a (fVi st b);
    g_pp_anc : forall a b, In b (fPp st a) -> banc st b a;
    g_ranked : exists d : Z -> nat, forall a p, fP st a = Some p -> d a = S (d p);
    g_par_pp : forall a p, fP st a = Some p -> ~ In p (fPp st a);
    g_root : forall a, fR st a = true -> a = root /\ fP st a = None
  }.

  Notation done := (done nb).

  (* ---------- step 1: a discovered node n receives the token from x, one of whose
     pseudo-parents it is: it records x as pseudo-child ---------- *)
  Lemma G_send_pc st st2 n x :
    G st -> disc st n -> disc st x -> In n (fPp st x) -> ~ In x (fVi st n) ->
    (forall a, a <> n -> getb st2 a = getb st a) ->
    getb st2 n = add_pc (add_visited (getb st n) x) x ->
    G st2.
  Proof.
    intros HG Hdn Hdx Hpp Hns Ho Hn.
    assert (EP : forall a, fP st2 a = fP st a).
    { intros a. unfold fP. destruct (Z.eq_dec a n) as [->|Hne]; [rewrite Hn|rewrite Ho]; auto. }
    assert (ER : forall a, fR st2 a = fR st a).
    { intros a. unfold fR. destruct (Z.eq_dec a n) as [->|Hne]; [rewrite Hn|rewrite Ho]; auto. }
    assert (ECh : forall a, fCh st2 a = fCh st a).
    { intros a. unfold fCh. destruct (Z.eq_dec a n) as [->|Hne]; [rewrite Hn|rewrite Ho]; auto. }
    assert (EPp : forall a, fPp st2 a = fPp st a).
    { intros a. unfold fPp. destruct (Z.eq_dec a n) as [->|Hne]; [rewrite Hn|rewrite Ho]; auto. }
    assert (ENb : forall a, fNb st2 a = fNb st a).
    { intros a. unfold fNb. destruct (Z.eq_dec a n) as [->|Hne]; [rewrite Hn|rewrite Ho]; auto. }
    assert (EVi : forall a, fVi st2 a = if Z.eq_dec a n then fVi st n ++ [x] else fVi st a).
    { intros a. unfold fVi. destruct (Z.eq_dec a n) as [->|Hne]; [rewrite Hn|rewrite Ho]; auto. }
    assert (EPc : forall a, fPc st2 a = if Z.eq_dec a n then fPc st n ++ [x] else fPc st a).
    { intros a. unfold fPc. destruct (Z.eq_dec a n) as [->|Hne]; [rewrite Hn|rewrite Ho]; auto. }
    assert (ED : forall a, disc st2 a <-> disc st a).
    { intros a. unfold disc. rewrite EP, ER. tauto. }
    assert (EW : forall a, white st2 a <-> white st a).
    { intros a. unfold white. rewrite EP, ER. tauto. }
    assert (EB : forall a b, banc st a b -> banc st2 a b).
    { apply banc_mono. intros a p. now rewrite EP. }
    constructor.
    - intros a y. rewrite ENb. apply (g_nb _ HG).
    - intros a. rewrite ENb. apply (g_nb_nd _ HG).
    - intros a Hw. apply EW in Hw. rewrite EVi, EPc, ECh, EPp.
      destruct (Z.eq_dec a n) as [->|Hne]; [exfalso; eapply white_not_disc; eauto|].
      apply (g_white _ HG); auto.
    - intros a b. rewrite EVi, !ED. destruct (Z.eq_dec b n) as [->|Hne].
      + intros H. apply in_app_iff in H as [H|[<-|[]]]; auto. apply (g_vi_disc _ HG) in H. tauto.
      + apply (g_vi_disc _ HG).
    - intros a p. rewrite EP, ED. apply (g_par_disc _ HG).
    - intros a b. rewrite EVi, EPc, EP. destruct (Z.eq_dec b n) as [->|Hne].
      + intros H. apply in_app_iff in H as [H|[<-|[]]].
        * apply (g_vi _ HG) in H as [H|H]; auto. right. apply in_app_iff; auto.
        * right. apply in_app_iff. right. now left.
      + apply (g_vi _ HG).
    - intros a b. rewrite EPc, EPp. destruct (Z.eq_dec b n) as [->|Hne].
      + intros H. apply in_app_iff in H as [H|[<-|[]]]; auto. apply (g_pc_pp _ HG); auto.
      + apply (g_pc_pp _ HG).
    - intros a p. rewrite ECh, EP. apply (g_ch _ HG).
    - intros a p. rewrite EP, EVi. intros H. apply (g_par_vi _ HG) in H.
      destruct (Z.eq_dec a n) as [->|Hne]; auto. apply in_app_iff; auto.
    - intros a. rewrite ECh. apply (g_nd_ch _ HG).
    - intros a. rewrite EPp. apply (g_nd_pp _ HG).
    - intros a. rewrite EPc. destruct (Z.eq_dec a n) as [->|Hne]; [|apply (g_nd_pc _ HG)].
      apply NoDup_app_snoc; [apply (g_nd_pc _ HG)|].
      intros H. apply Hns. apply (g_pc_vi _ HG); auto.
    - intros a b. rewrite EPc, EVi. destruct (Z.eq_dec b n) as [->|Hne]; [|apply (g_pc_vi _ HG)].
      intros H. apply in_app_iff in H as [H|H]; apply in_app_iff; auto.
      left. apply (g_pc_vi _ HG); auto.
    - intros a b. rewrite EPp. intros H. apply EB. apply (g_pp_anc _ HG); auto.
    - destruct (g_ranked _ HG) as [d Hd]. exists d. intros a p. rewrite EP. apply Hd.
    - intros a p. rewrite EP, EPp. apply (g_par_pp _ HG).
    - intros a. rewrite ER, EP. apply (g_root _ HG).
  Qed.
End DFS.
