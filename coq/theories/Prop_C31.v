(* Prop_C31.v -- C31: agent definitions honour their cost model, also when mass-created.
   Only statements; each closed by an exact lemma from P_AgentDef. *)
From PyDcop Require Import Base M_AgentDef P_AgentDef.
Open Scope string_scope.

Theorem route_self_zero : forall a, route a (a_name a) = 0.
Proof. exact route_self_zero_l. Qed.

Theorem route_specific_else_default : forall a o, a_name a <> o ->
  route a o = match slookup o (a_routes a) with Some c => c | None => a_default_route a end.
Proof. exact route_specific_else_default_l. Qed.

Theorem hosting_specific_else_default : forall a c,
  hosting_cost a c = match slookup c (a_hosting a) with Some x => x | None => a_default_hosting a end.
Proof. exact hosting_specific_else_default_l. Qed.

Theorem attrs_readable : forall name dr r dh h attrs k,
  getattr (mkAgent name dr r dh h attrs) k = slookup k attrs.
Proof. exact attrs_readable_l. Qed.

(* create_agents: every returned agent IS the individually built agent with the same
   arguments (same routes, hosting costs, defaults, attributes), and every requested
   index has an entry. *)
Theorem create_agents_equals_individual : forall prefix idx dr r dh h sep attrs,
  (forall k a, In (k, a) (create_agents prefix idx dr r dh h sep attrs) ->
     exists name, In (k, name) (agent_keys prefix sep idx) /\
       a = mkAgent name dr r dh h attrs /\
       (forall o, route a o = route (mkAgent name dr r dh h attrs) o) /\
       (forall c, hosting_cost a c = hosting_cost (mkAgent name dr r dh h attrs) c) /\
       (forall x, getattr a x = slookup x attrs)) /\
  (forall k name, In (k, name) (agent_keys prefix sep idx) ->
     exists a, lookup key_eqb k (create_agents prefix idx dr r dh h sep attrs) = Some a).
Proof. exact create_agents_equals_individual_l. Qed.

Theorem create_agents_tuple_keys : forall ls c,
  In c (product ls) <-> Forall2 (fun x l => In x l) c ls.
Proof. exact product_spec. Qed.

(* non-vacuity: a concrete agent with a specific route, default and attribute *)
Example c31_nonvacuous :
  let a := mkAgent "a1" 5 [("a2", 8)] 3 [("c2", 6)] [("capacity", 100)] in
  route a "a1" = 0 /\ route a "a2" = 8 /\ route a "a3" = 5 /\
  hosting_cost a "c2" = 6 /\ hosting_cost a "c9" = 3 /\ getattr a "capacity" = Some 100 /\
  map fst (create_agents "a" (IdxRange 8 11) 1 [] 7 [] "_" []) = [KName "a08"; KName "a09"; KName "a10"].
Proof. vm_compute. repeat split; reflexivity. Qed.
