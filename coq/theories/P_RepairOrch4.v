(* P_RepairOrch4.v -- C27 deepening, part 3: the orchestrator's handling of the repair_done
   messages of one repair (any arrival order), the directory side of re-hosting, and the
   composition: a repair DCOP outcome without violated hard constraint is reported OK and
   leaves every orphaned computation on exactly one surviving replica holder, in the
   orchestrator's bookkeeping, on the agents and in the directory. *)
From PyDcop Require Import Base P_Base M_Repair P_Repair M_RepairOrch2 P_RepairOrch2 P_RepairOrch3.
From PyDcop Require Import M_RepairOrch P_RepairOrch.
From Coq Require Import Permutation.

(* ---------- association lists with distinct keys ---------- *)
Lemma In_slookup {V} k (v : V) l : NoDup (map fst l) -> In (k, v) l -> slookup k l = Some v.
Proof.
  unfold slookup. induction l as [|[k' v'] r IH]; simpl; intros Hnd Hin; [contradiction|].
  inversion Hnd; subst. destruct Hin as [E|Hin].
  - inversion E; subst. now rewrite String.eqb_refl.
  - destruct (String.eqb k k') eqn:E; auto. apply String.eqb_eq in E; subst.
    exfalso. apply H1. change k' with (fst (k', v)). now apply in_map.
Qed.

Lemma slookup_In {V} k (v : V) l : slookup k l = Some v -> In (k, v) l.
Proof. apply (lookup_In String.eqb string_eqb_iff). Qed.

Lemma slookup_set_same {V} k (v : V) l : slookup k (dict_set String.eqb k v l) = Some v.
Proof. apply lookup_dict_set_same, string_eqb_iff. Qed.
Lemma slookup_set_other {V} k k2 (v : V) l : k2 <> k -> slookup k2 (dict_set String.eqb k v l) = slookup k2 l.
Proof. apply lookup_dict_set_other, string_eqb_iff. Qed.

Lemma fold_set_other {V} (v : V) (l : list string) : forall d c,
  ~ In c l -> slookup c (fold_left (fun d x => dict_set String.eqb x v d) l d) = slookup c d.
Proof.
  induction l as [|x r IH]; simpl; intros d c H; auto.
  rewrite IH by tauto. apply slookup_set_other. intros ->. tauto.
Qed.

Lemma fold_set_keys_nodup {V} (v : V) (l : list string) : forall d,
  NoDup (map fst d) -> NoDup (map fst (fold_left (fun d x => dict_set String.eqb x v d) l d)).
Proof.
  induction l as [|x r IH]; simpl; intros d H; auto.
  apply IH. apply dict_set_keys_nodup; auto. apply string_eqb_iff.
Qed.

Lemma with_state_nil s agts : NoDup (map fst agts) ->
  (with_state s agts = [] <-> forall a, slookup a agts <> Some s).
Proof.
  intros Hnd. unfold with_state. split.
  - intros H a Ha. apply slookup_In in Ha.
    assert (Hf : filter (fun kv : string * astate => astate_eqb (snd kv) s) agts = []).
    { destruct (filter _ agts); [reflexivity|discriminate]. }
    rewrite filter_nil_iff in Hf. specialize (Hf _ Ha). simpl in Hf. destruct s; discriminate.
  - intros H. assert (Hf : filter (fun kv : string * astate => astate_eqb (snd kv) s) agts = []); [|now rewrite Hf].
    apply filter_nil_iff. intros [a s'] Hin. simpl. destruct (astate_eqb s' s) eqn:E; auto.
    exfalso. apply (H a). assert (s' = s) by (destruct s', s; try discriminate; reflexivity). subst.
    now apply In_slookup.
Qed.

(* ---------- one repair_done ---------- *)
Definition mark (a : string) (sel : list string) (comps : list (string * option string)) :=
  fold_left (fun d c => dict_set String.eqb c (Some a) d) sel comps.
Definition marks (dones : list (string * list string)) (comps : list (string * option string)) :=
  fold_left (fun d asel => mark (fst asel) (snd asel) d) dones comps.

Lemma done_step_wait ro st a sel ags :
  NoDup (map fst (r_agts st)) -> slookup a (r_agts st) = Some SRepairRun ->
  (exists b, b <> a /\ slookup b (r_agts st) = Some SRepairRun) ->
  rstep ro st (RvRepairDone a sel ags)
  = (mkR (dict_set String.eqb a SRepairDone (r_agts st)) (mark a sel (r_comps st)) (r_dist_count st), []).
Proof.
  intros Hnd Ha [b [Hba Hb]]. simpl. rewrite Ha.
  destruct (with_state SRepairRun (dict_set String.eqb a SRepairDone (r_agts st))) eqn:E; auto.
  exfalso. rewrite with_state_nil in E by (apply dict_set_keys_nodup; auto; apply string_eqb_iff).
  apply (E b). now rewrite slookup_set_other.
Qed.

Lemma done_step_last ro st a sel ags :
  NoDup (map fst (r_agts st)) -> slookup a (r_agts st) = Some SRepairRun ->
  (forall b, slookup b (r_agts st) = Some SRepairRun -> b = a) ->
  rstep ro st (RvRepairDone a sel ags)
  = finish_repair (negb ro) (retag SRepairDone SRunning (dict_set String.eqb a SRepairDone (r_agts st)))
                  (mark a sel (r_comps st)) (r_dist_count st) ags.
Proof.
  intros Hnd Ha Hu. simpl. rewrite Ha.
  assert (E : with_state SRepairRun (dict_set String.eqb a SRepairDone (r_agts st)) = []).
  { apply with_state_nil; [apply dict_set_keys_nodup; auto; apply string_eqb_iff|].
    intros b Hb. destruct (string_dec b a) as [->|Hne].
    - rewrite slookup_set_same in Hb. discriminate.
    - rewrite slookup_set_other in Hb by auto. auto. }
  now rewrite E.
Qed.

(* ---------- all the repair_done messages of one repair, in any order ---------- *)
Lemma run_dones_cons ro st a sel r ags :
  run_dones ro st ((a, sel) :: r) ags
  = let '(st1, o1) := rstep ro st (RvRepairDone a sel ags) in
    let '(st2, o2) := run_dones ro st1 r ags in (st2, o1 ++ o2).
Proof. reflexivity. Qed.

Lemma run_dones_spec ro ags : forall dones st,
  NoDup (map fst (r_agts st)) -> NoDup (map fst dones) -> dones <> [] ->
  (forall a, slookup a (r_agts st) = Some SRepairRun <-> In a (map fst dones)) ->
  exists agts', run_dones ro st dones ags
                = finish_repair (negb ro) agts' (marks dones (r_comps st)) (r_dist_count st) ags.
Proof.
  induction dones as [|[a sel] rest IH]; intros st Hnd Hd Hne Hrun; [congruence|].
  inversion Hd as [|? ? Hnotin Hd']; subst. rewrite run_dones_cons.
  assert (Ha : slookup a (r_agts st) = Some SRepairRun) by (apply Hrun; simpl; auto).
  destruct rest as [|[b selb] rest'].
  - rewrite done_step_last; auto.
    + cbn [run_dones marks fold_left fst snd]. destruct (finish_repair _ _ _ _ _) as [st2 o2] eqn:Ef.
      rewrite app_nil_r. eexists. symmetry. exact Ef.
    + intros b Hb. apply Hrun in Hb. simpl in Hb. destruct Hb as [->|[]]. reflexivity.
  - rewrite done_step_wait; auto.
    + set (st1 := mkR _ _ _).
      destruct (IH st1) as [agts' E]; auto.
      * unfold st1; simpl. apply dict_set_keys_nodup; auto. apply string_eqb_iff.
      * discriminate.
      * intros c. unfold st1; simpl. destruct (string_dec c a) as [->|Hne'].
        -- rewrite slookup_set_same. split; [discriminate|]. intros Hin. exfalso. apply Hnotin. exact Hin.
        -- rewrite slookup_set_other by auto. rewrite Hrun. simpl. split; [intros [?|?]; [congruence|auto]|auto].
      * rewrite E. exists agts'. reflexivity.
    + exists b. split.
      * intros ->. apply Hnotin. simpl; auto.
      * apply Hrun. simpl; auto.
Qed.

(* ---------- the marks ---------- *)
Lemma marks_keys_nodup dones : forall comps, NoDup (map fst comps) -> NoDup (map fst (marks dones comps)).
Proof.
  induction dones as [|[a sel] r IH]; simpl; intros comps H; auto.
  apply IH. now apply fold_set_keys_nodup.
Qed.

Lemma marks_lookup c a : forall dones comps,
  (forall a' sel', In (a', sel') dones -> In c sel' -> a' = a) ->
  (exists sel, In (a, sel) dones /\ In c sel) \/ slookup c comps = Some (Some a) ->
  slookup c (marks dones comps) = Some (Some a).
Proof.
  induction dones as [|[a1 sel1] r IH]; simpl; intros comps Hu H.
  - destruct H as [[sel [[] _]]|H]; auto.
  - apply IH; [intros; eapply Hu; eauto|].
    destruct (in_dec string_dec c sel1) as [Hc|Hc].
    + right. assert (a1 = a) by (eapply Hu; eauto). subst. now apply fold_set_lookup_in.
    + destruct H as [[sel [[E|Hin] Hcs]]|H].
      * inversion E; subst. contradiction.
      * left. eauto.
      * right. unfold mark. rewrite fold_set_other; auto.
Qed.

Lemma marks_In c s : forall dones comps,
  In (c, s) (marks dones comps) ->
  In (c, s) comps \/ exists a sel, In (a, sel) dones /\ In c sel /\ s = Some a.
Proof.
  induction dones as [|[a1 sel1] r IH]; simpl; intros comps H; auto.
  apply IH in H as [H|[a [sel [H1 [H2 H3]]]]].
  - apply fold_set_In in H as [H|[H1 H2]]; auto. right. exists a1, sel1. auto.
  - right. exists a, sel. auto.
Qed.

(* ---------- hosts after the repair ---------- *)
Lemma filter_unique {A} (p : A -> bool) l y : NoDup l -> In y l -> p y = true ->
  (forall z, In z l -> p z = true -> z = y) -> filter p l = [y].
Proof.
  intros Hnd Hy Hp Hu.
  assert (Hl : List.length (filter p l) = 1%nat) by (apply filter_length_one; eauto).
  assert (Hin : In y (filter p l)) by (apply filter_In; auto).
  destruct (filter p l) as [|z [|z' t]]; simpl in Hl; try discriminate.
  destruct Hin as [->|[]]. reflexivity.
Qed.

Lemma hosts_after_unique hosting leaving sels c a sel :
  NoDup (map fst sels) -> (forall h, In (c, h) hosting -> In h leaving) ->
  In (a, sel) sels -> In c sel ->
  (forall a' sel', In (a', sel') sels -> In c sel' -> a' = a) ->
  hosts_after hosting leaving sels c = [a].
Proof.
  intros Hnd Hh Hin Hc Hu. rewrite orphan_hosts_are_selectors_l by auto.
  assert (Hnd' : NoDup sels) by (eapply NoDup_map_inv; eauto).
  rewrite (filter_unique _ sels (a, sel)); auto.
  - simpl. now apply smem_In.
  - intros [a' sel'] Hin' Hp. simpl in Hp. apply smem_In in Hp.
    assert (a' = a) by (eapply Hu; eauto). subst. f_equal.
    clear - Hnd Hin Hin'. induction sels as [|[b sb] r IH]; [contradiction|].
    simpl in Hnd. inversion Hnd; subst. destruct Hin as [E|Hin], Hin' as [E'|Hin'].
    + congruence.
    + inversion E; subst. exfalso. apply H1. change a with (fst (a, sel')). now apply in_map.
    + inversion E'; subst. exfalso. apply H1. change a with (fst (a, sel)). now apply in_map.
    + auto.
Qed.

(* ---------- the directory ---------- *)
Definition touches (o : dirop) (c : string) : Prop :=
  match o with DReg c' _ => c' = c | DUnreg c' _ => c' = c end.

Lemma slookup_dir_del_other c c' t : c' <> c -> slookup c' (dir_del c t) = slookup c' t.
Proof.
  intros Hne. unfold dir_del, slookup. induction t as [|[k v] r IH]; simpl; auto.
  destruct (String.eqb k c) eqn:E; simpl.
  - apply String.eqb_eq in E; subst. destruct (String.eqb c' c) eqn:E'; auto.
    apply String.eqb_eq in E'. contradiction.
  - destruct (String.eqb c' k); auto.
Qed.

Lemma dir_step_other t o c : ~ touches o c -> slookup c (dir_step t o) = slookup c t.
Proof.
  destruct o as [c' a|c' ag]; simpl; intros H.
  - apply slookup_set_other. auto.
  - destruct ag as [g|]; [destruct (slookup c' t) as [h|]; [destruct (String.eqb h g)|]|];
      auto; apply slookup_dir_del_other; auto.
Qed.

(* the new host's registration survives every un-publication made in the name of another
   agent, wherever those fall in the sequence; before it, they only remove the old entry *)
Lemma dir_final c a : forall ops t,
  In (DReg c a) ops ->
  (forall o, In o ops -> touches o c -> o = DReg c a \/ exists d, o = DUnreg c (Some d) /\ d <> a) ->
  slookup c (dir_run t ops) = Some a.
Proof.
  intros ops. induction ops as [|o r IH] using List.rev_ind; intros t Hin Hall; [contradiction|].
  unfold dir_run in *. rewrite fold_left_app. simpl.
  assert (Hall' : forall o', In o' r -> touches o' c ->
            o' = DReg c a \/ exists d, o' = DUnreg c (Some d) /\ d <> a)
    by (intros; apply Hall; auto; apply in_or_app; auto).
  assert (Ho : touches o c -> o = DReg c a \/ exists d, o = DUnreg c (Some d) /\ d <> a)
    by (apply Hall; apply in_or_app; right; left; reflexivity).
  destruct o as [c' a'|c' ag].
  - destruct (string_dec c' c) as [->|Hne].
    + destruct (Ho eq_refl) as [E|[d [E _]]]; [|discriminate]. inversion E; subst.
      simpl. apply slookup_set_same.
    + rewrite dir_step_other by (simpl; auto). apply IH; auto.
      apply in_app_or in Hin as [Hin|[E|[]]]; auto. inversion E; subst. contradiction.
  - assert (Hin' : In (DReg c a) r) by (apply in_app_or in Hin as [Hin|[E|[]]]; [auto|discriminate]).
    specialize (IH t Hin' Hall').
    destruct (string_dec c' c) as [->|Hne].
    + destruct (Ho eq_refl) as [E|[d [E Hd]]]; [discriminate|]. inversion E; subst.
      simpl. rewrite IH. destruct (String.eqb a d) eqn:Ead; auto.
      apply String.eqb_eq in Ead. congruence.
    + rewrite dir_step_other by (simpl; auto). exact IH.
Qed.

(* every op generated by the repair for computation c *)
Lemma rehost_ops_In sels c a : In (DReg c a) (rehost_ops sels) <-> exists sel, In (a, sel) sels /\ In c sel.
Proof.
  unfold rehost_ops. rewrite in_flat_map. split.
  - intros [[a' sel] [Hin H]]. simpl in H. apply in_map_iff in H as [c' [E Hc]]. inversion E; subst. eauto.
  - intros [sel [Hin Hc]]. exists (a, sel). split; auto. simpl. apply in_map_iff. eauto.
Qed.

Lemma rehost_ops_shape sels o : In o (rehost_ops sels) -> exists c a sel, o = DReg c a /\ In (a, sel) sels /\ In c sel.
Proof.
  unfold rehost_ops. rewrite in_flat_map. intros [[a sel] [Hin H]]. simpl in H.
  apply in_map_iff in H as [c [E Hc]]. subst. exists c, a, sel. auto.
Qed.

Lemma departure_ops_shape hosting departed o : In o (departure_ops hosting departed) ->
  exists c h, o = DUnreg c (Some h) /\ In (c, h) hosting /\ In h departed.
Proof.
  unfold departure_ops. intros H. apply in_map_iff in H as [[c h] [E H]]. subst.
  apply filter_In in H as [H1 H2]. simpl in H2. apply smem_In in H2. exists c, h. auto.
Qed.

Lemma rehost_directory_consistent_l hosting departed sels ops t c a sel :
  Permutation ops (departure_ops hosting departed ++ rehost_ops sels) ->
  In (a, sel) sels -> In c sel -> ~ In a departed ->
  (forall a' sel', In (a', sel') sels -> In c sel' -> a' = a) ->
  slookup c (dir_run t ops) = Some a.
Proof.
  intros Hp Hin Hc Hna Hu. apply dir_final.
  - apply (Permutation_in _ (Permutation_sym Hp)). apply in_or_app. right. apply rehost_ops_In. eauto.
  - intros o Ho Ht. apply (Permutation_in _ Hp) in Ho. apply in_app_or in Ho as [Ho|Ho].
    + apply departure_ops_shape in Ho as [c' [h [-> [_ Hh]]]]. simpl in Ht. subst c'.
      right. exists h. split; auto. intros ->. contradiction.
    + apply rehost_ops_shape in Ho as [c' [a' [sel' [-> [Hin' Hc']]]]]. simpl in Ht. subst c'.
      left. f_equal. eapply Hu; eauto.
Qed.

(* ---------- which repairs are reported OK ---------- *)
Definition selected_in (dones : list (string * list string)) (c : string) : Prop :=
  exists a sel, In (a, sel) dones /\ In c sel.

Lemma selected_in_dec dones c : {selected_in dones c} + {~ selected_in dones c}.
Proof.
  destruct (existsb (fun asel : string * list string => smem c (snd asel)) dones) eqn:E.
  - left. apply existsb_exists in E as [[a sel] [Hin H]]. simpl in H. apply smem_In in H. exists a, sel. auto.
  - right. intros [a [sel [Hin Hc]]].
    assert (existsb (fun asel : string * list string => smem c (snd asel)) dones = true); [|congruence].
    apply existsb_exists. exists (a, sel). split; auto. simpl. now apply smem_In.
Qed.

Lemma marks_other c : forall dones comps,
  ~ selected_in dones c -> slookup c (marks dones comps) = slookup c comps.
Proof.
  induction dones as [|[a1 sel1] r IH]; simpl; intros comps H; auto.
  rewrite IH.
  - unfold mark. apply fold_set_other. intros Hc. apply H. exists a1, sel1. simpl; auto.
  - intros [a [sel [Hin Hc]]]. apply H. exists a, sel. simpl; auto.
Qed.

Lemma marks_lookup_some c : forall dones comps,
  selected_in dones c \/ (exists a, slookup c comps = Some (Some a)) ->
  exists a, slookup c (marks dones comps) = Some (Some a).
Proof.
  induction dones as [|[a1 sel1] r IH]; simpl; intros comps H.
  - destruct H as [[a [sel [[] _]]]|H]; auto.
  - apply IH. destruct (in_dec string_dec c sel1) as [Hc|Hc].
    + right. exists a1. now apply fold_set_lookup_in.
    + destruct H as [[a [sel [[E|Hin] Hcs]]]|[a H]].
      * inversion E; subst. contradiction.
      * left. exists a, sel. auto.
      * right. exists a. unfold mark. rewrite fold_set_other; auto.
Qed.

(* after the last repair_done the status is OK iff every computation still recorded as
   orphaned was selected by AT LEAST one agent: a computation selected by several agents
   (hosted several times) does not prevent OK, a computation selected by nobody does *)
Lemma repair_reported_ok_iff_l ro ags dones st b :
  NoDup (map fst (r_agts st)) -> NoDup (map fst (r_comps st)) ->
  NoDup (map fst dones) -> dones <> [] ->
  (forall a, slookup a (r_agts st) = Some SRepairRun <-> In a (map fst dones)) ->
  In (ROStatus b) (snd (run_dones ro st dones ags)) ->
  (b = true <-> forall c, In (c, None) (r_comps st) -> selected_in dones c).
Proof.
  intros Hna Hnc Hnd Hne Hrun Hin.
  destruct (run_dones_spec ro ags dones st Hna Hnd Hne Hrun) as [agts' E]. rewrite E in Hin.
  rewrite (finish_status _ _ _ _ _ _ Hin).
  assert (Hnm : NoDup (map fst (marks dones (r_comps st)))) by now apply marks_keys_nodup.
  split.
  - intros Hall c Hc. destruct (selected_in_dec dones c) as [Hs|Hs]; auto. exfalso.
    apply (Hall c None); auto. apply slookup_In. rewrite marks_other by auto. now apply In_slookup.
  - intros Hall c s Hcs ->. apply In_slookup in Hcs; auto.
    destruct (selected_in_dec dones c) as [Hs|Hs].
    + destruct (marks_lookup_some c dones (r_comps st)) as [a Ha]; [left; auto|]. congruence.
    + apply Hs, Hall. apply slookup_In. now rewrite <- (marks_other c dones) by auto.
Qed.

Lemma finish_snd resume agts comps dc agents :
  snd (finish_repair resume agts comps dc agents)
  = ROStatus (match filter (fun kv : string * option string =>
                              match snd kv with None => true | Some _ => false end) comps with
              | [] => true | _ => false end)
    :: (if resume then map ROResume agents else []).
Proof. reflexivity. Qed.

(* ---------- composition ---------- *)
Lemma repair_valid_outcome_exactly_one_l s cands ds x ro st dones ags hosting ops t :
  is_candidates s cands -> NoDup cands -> cands <> [] -> binary_outcome s x ->
  all_dcops s cands = Ok ds ->
  total_hard ds x = Ok 0 ->
  (forall c, In c (orph s) -> exists a, holder s c a) ->
  NoDup (map fst (r_agts st)) -> NoDup (map fst (r_comps st)) ->
  (forall a, slookup a (r_agts st) = Some SRepairRun <-> In a cands) ->
  (forall c, In (c, None) (r_comps st) -> In c (orph s)) ->
  Permutation dones (selections ds x) ->
  (forall c h, In (c, h) hosting -> In c (orph s) -> In h (s_departed s)) ->
  Permutation ops (departure_ops hosting (s_departed s) ++ rehost_ops (selections ds x)) ->
  snd (run_dones ro st dones ags) = ROStatus true :: (if negb ro then map ROResume ags else []) /\
  forall c, In c (orph s) ->
    exists a, holder s c a /\ x (c, a) = 1 /\
      slookup c (r_comps (fst (run_dones ro st dones ags))) = Some (Some a) /\
      hosts_after hosting (s_departed s) (selections ds x) c = [a] /\
      slookup c (dir_run t ops) = Some a.
Proof.
  intros Hc Hndc Hne Hb Hds Hzero Hrep Hna Hnc Hrun Hpend Hperm Hhost Hops.
  assert (Hvalid : valid_rehosting s cands x) by (eapply repair_zero_hard_cost_iff_valid_l; eauto).
  destruct (selections_spec s cands ds x Hc Hds) as [Hags Hsel].
  set (sels := selections ds x) in *.
  assert (Hnds : NoDup (map fst sels)) by now rewrite Hags.
  assert (Hndd : NoDup (map fst dones)).
  { eapply Permutation_NoDup; [|exact Hnds]. apply Permutation_sym. now apply Permutation_map. }
  assert (Hned : dones <> []).
  { intros ->. apply Permutation_nil in Hperm. apply (f_equal (map fst)) in Hperm.
    rewrite Hags in Hperm. simpl in Hperm. auto. }
  assert (Hrund : forall a, slookup a (r_agts st) = Some SRepairRun <-> In a (map fst dones)).
  { intros a. rewrite Hrun, <- Hags. split; apply Permutation_in.
    - apply Permutation_sym. now apply Permutation_map.
    - now apply Permutation_map. }
  assert (Hone : forall c, In c (orph s) ->
            exists a sel, In (a, sel) dones /\ In c sel /\ holder s c a /\ x (c, a) = 1 /\
              In (a, sel) sels /\
              (forall a' sel', In (a', sel') sels -> In c sel' -> a' = a) /\
              (forall a' sel', In (a', sel') dones -> In c sel' -> a' = a)).
  { intros c Hco. destruct (valid_selected_once s cands ds x Hc Hds Hvalid c Hco (Hrep c Hco))
      as [a [sel [Hin [Hcs [Hh Hu]]]]]. exists a, sel.
    split; [apply (Permutation_in _ (Permutation_sym Hperm)); auto|]. split; auto. split; auto.
    split; [apply (Hsel a sel c Hin); auto|]. split; auto. split; auto.
    intros a' sel' Hin' Hc'. apply (Hu a' sel'); auto. apply (Permutation_in _ Hperm); auto. }
  destruct (run_dones_spec ro ags dones st Hna Hndd Hned Hrund) as [agts' E]. rewrite E.
  split.
  - rewrite finish_snd. f_equal. f_equal.
    assert (Hf : filter (fun kv : string * option string =>
                   match snd kv with None => true | Some _ => false end) (marks dones (r_comps st)) = []);
      [|now rewrite Hf].
    apply filter_nil_iff. intros [c [a|]] Hin; simpl; auto. exfalso.
    assert (Hnm : NoDup (map fst (marks dones (r_comps st)))) by now apply marks_keys_nodup.
    pose proof (In_slookup _ _ _ Hnm Hin) as Hl.
    assert (Hco : In c (orph s)).
    { apply Hpend. destruct (selected_in_dec dones c) as [Hs|Hs].
      - destruct (marks_lookup_some c dones (r_comps st)) as [a Ha]; [left; auto|]. congruence.
      - apply slookup_In. now rewrite <- (marks_other c dones) by auto. }
    destruct (Hone c Hco) as [a [sel [Hind [Hcs [_ [_ [_ [_ Hud]]]]]]]].
    rewrite (marks_lookup c a dones (r_comps st)) in Hl; [discriminate|auto|left; eauto].
  - intros c Hco. destruct (Hone c Hco) as [a [sel [Hind [Hcs [Hh [Hx [Hins [Hus Hud]]]]]]]].
    exists a. split; auto. split; auto. split; [|split].
    + unfold finish_repair. simpl. apply marks_lookup; auto. left. eauto.
    + eapply hosts_after_unique; eauto.
    + eapply rehost_directory_consistent_l; eauto. apply Hh.
Qed.

(* an OK report never hides a computation hosted nowhere: every computation that was recorded
   as orphaned has at least one agent that selected (and deployed) it *)
Lemma repair_ok_never_lost_l ro ags dones st hosting leaving c :
  NoDup (map fst (r_agts st)) -> NoDup (map fst (r_comps st)) ->
  NoDup (map fst dones) -> dones <> [] ->
  (forall a, slookup a (r_agts st) = Some SRepairRun <-> In a (map fst dones)) ->
  In (ROStatus true) (snd (run_dones ro st dones ags)) ->
  In (c, None) (r_comps st) -> hosts_after hosting leaving dones c <> [].
Proof.
  intros Hna Hnc Hnd Hne Hrun Hin Hc.
  destruct (proj1 (repair_reported_ok_iff_l ro ags dones st true Hna Hnc Hnd Hne Hrun Hin) eq_refl c Hc)
    as [a [sel [Hin' Hcs]]].
  unfold hosts_after. intros E. apply app_eq_nil in E as [_ E].
  assert (Hf : In (a, sel) (filter (fun asel : string * list string => smem c (snd asel)) dones)).
  { apply filter_In. split; auto. simpl. now apply smem_In. }
  destruct (filter _ dones); [contradiction|discriminate].
Qed.

(* ---------- reachable orchestrator states have distinct keys ---------- *)
Definition keys_ok (st : rst) : Prop := NoDup (map fst (r_agts st)) /\ NoDup (map fst (r_comps st)).

Lemma set_all_nodup s ags agts : NoDup (map fst agts) -> NoDup (map fst (set_all s ags agts)).
Proof. unfold set_all. apply fold_set_keys_nodup. Qed.

Lemma retag_keys f t agts : map fst (retag f t agts) = map fst agts.
Proof.
  unfold retag. rewrite map_map. apply map_ext. intros [a s]. simpl. destruct (astate_eqb s f); reflexivity.
Qed.

Lemma dset_nodup {V} k (v : V) l : NoDup (map fst l) -> NoDup (map fst (dict_set String.eqb k v l)).
Proof. apply dict_set_keys_nodup, string_eqb_iff. Qed.

Lemma rstep_keys_ok ro st e : keys_ok st -> keys_ok (fst (rstep ro st e)).
Proof.
  intros [Ha Hc]. unfold keys_ok.
  destruct e as [ags|ags|x|lv ags orp cands|x|x sel ags]; simpl.
  - split; auto using set_all_nodup.
  - split; auto using set_all_nodup.
  - destruct (slookup x (r_agts st)) as [[]|]; simpl; auto using dset_nodup.
  - destruct orp as [|o r]; simpl.
    + destruct ro; split; auto using set_all_nodup.
    + split; auto using set_all_nodup.
      change (fold_left (fun d c => dict_set String.eqb c None d) r (dict_set String.eqb o None (r_comps st)))
        with (fold_left (fun d c => dict_set String.eqb c (@None string) d) (o :: r) (r_comps st)).
      now apply fold_set_keys_nodup.
  - destruct (slookup x (r_agts st)) as [[]|]; simpl; auto.
    destruct (with_state SRepairSetup _); simpl; auto using dset_nodup, set_all_nodup.
  - destruct (slookup x (r_agts st)) as [[]|]; simpl; auto.
    assert (Hm : NoDup (map fst (fold_left (fun d c => dict_set String.eqb c (Some x) d) sel (r_comps st))))
      by now apply fold_set_keys_nodup.
    destruct (with_state SRepairRun _); simpl; auto using dset_nodup.
    destruct ro; simpl; split; auto.
    + rewrite retag_keys. auto using dset_nodup.
    + apply set_all_nodup. rewrite retag_keys. auto using dset_nodup.
Qed.

Lemma rrun_keys_ok_l ro tr : keys_ok (rrun ro rinit tr).
Proof.
  induction tr as [|e tr IH] using List.rev_ind.
  - split; constructor.
  - rewrite rrun_snoc. now apply rstep_keys_ok.
Qed.
