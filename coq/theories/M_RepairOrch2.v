(* M_RepairOrch2.v -- the repair pipeline end to end (C27, deepening): composes
     M_Repair     (C26: what the orchestrator tells every candidate agent, the hard constraints)
     M_RepairOrch (C27: orchestrator bookkeeping, the agents' activation rule)
   with models of
     agents.py     ResilientAgent.setup_repair (the part that assembles binary variables, the
                   'hosted' constraint of every candidate computation and the agent's capacity
                   constraint; _repair_computations) and _on_repair_computation_finished
                   (which candidates are deployed / reported),
     discovery.py  Directory.register_computation / unregister_computation, table
                   _computations_data only (with the stale un-publication test of e9e3188).
   The outcome of the repair DCOP (value of every binary variable, MGM2) is an input.
   Models only; proofs in P_RepairOrch2.v. *)
From PyDcop Require Import Base M_Repair.
From PyDcop Require M_RepairOrch.
Module RO := M_RepairOrch.

(* ---------- setup_repair ---------- *)
(* create_binary_variables('B', ([c], agts)): name = 'B' + '_'.join((c, a)) *)
Definition bvname (c a : string) : string := ("B" ++ c ++ "_" ++ a)%string.
Definition mk_binvars (c : string) (agts : list string) : binvars :=
  fold_left (fun d a => dict_set bkey_eqb (c, a) (bvname c a) d) agts [].

Record repair_dcop := mkRD {
  rd_cbv : binvars;                                   (* candidate_binvars *)
  rd_hosted : list (string * (binvars * relation));   (* hosted_cs: comp -> (v_binvar, constraint) *)
  rd_capacity : relation
}.

(* for candidate_comp, candidate_info in repair_info.items(): ... *)
Fixpoint setup_loop (own : string) (inf : list (string * info)) (cbv : binvars)
  (hs : list (string * (binvars * relation))) : res (binvars * list (string * (binvars * relation))) :=
  match inf with
  | [] => Ok (cbv, hs)
  | (c, (agts, _, _)) :: r =>
      let vb := mk_binvars c agts in
      match lookup bkey_eqb (c, own) vb with
      | None => Err EKey                               (* v_binvar[(candidate_comp, own_name)] *)
      | Some v => setup_loop own r (dict_set bkey_eqb (c, own) v cbv)
                             (dict_set String.eqb c (vb, create_hosted c vb) hs)
      end
  end.

Definition setup_repair (own : string) (remaining : Z) (fp : string -> Z) (inf : list (string * info))
  : res repair_dcop :=
  bind (setup_loop own inf [] []) (fun ch =>
    Ok (mkRD (fst ch) (snd ch) (create_capacity own remaining fp (fst ch)))).

(* _repair_computations: one entry per candidate_binvars item, keyed by the computation's name
   (= the variable's name), value = the candidate computation *)
Definition repair_comps (cbv : binvars) : list (string * string) :=
  fold_left (fun d kv => dict_set String.eqb (snd kv) (fst (fst kv)) d) cbv [].

(* outcome of the repair DCOP: x (c, a) = final value of the binary variable of (c, a) *)
Definition asg_x (bv : binvars) (x : bkey -> Z) : asg := map (fun kv => (snd kv, x (fst kv))) bv.

(* _on_repair_computation_finished: candidates whose variable ended at 1 are deployed from the
   replica and reported (M_RepairOrch.agent_selected on the agent's own variables) *)
Definition agent_values (own : string) (cbv : binvars) (x : bkey -> Z) : list (string * Z) :=
  map (fun nc => (snd nc, x (snd nc, own))) (repair_comps cbv).
Definition agent_outcome (own : string) (cbv : binvars) (x : bkey -> Z) : list string :=
  RO.agent_selected (agent_values own cbv x).

(* value of the agent's hard constraints on the outcome *)
Fixpoint sum_res (l : list (res Z)) : res Z :=
  match l with
  | [] => Ok 0
  | r :: t => bind r (fun a => bind (sum_res t) (fun b => Ok (a + b)))
  end.
Definition hosted_values (rd : repair_dcop) (x : bkey -> Z) : list (res Z) :=
  map (fun h => rel_call (snd (snd h)) (asg_x (fst (snd h)) x)) (rd_hosted rd).
Definition capacity_value (rd : repair_dcop) (x : bkey -> Z) : res Z :=
  rel_call (rd_capacity rd) (asg_x (rd_cbv rd) x).
Definition agent_hard (rd : repair_dcop) (x : bkey -> Z) : res Z :=
  sum_res (capacity_value rd x :: hosted_values rd x).

(* ---------- the whole repair DCOP, from what Discovery holds ---------- *)
Record scen := mkScen {
  s_disc : discovery;                 (* orchestrator's Discovery at the event *)
  s_graph : graph;
  s_departed : list string;
  s_remaining : list (string * Z);    (* agent -> capacity - sum of hosted footprints *)
  s_fp : list (string * Z)            (* computation -> footprint recorded with its replicas *)
}.

Fixpoint mapM {A B} (f : A -> res B) (l : list A) : res (list B) :=
  match l with
  | [] => Ok []
  | a :: r => bind (f a) (fun b => bind (mapM f r) (fun t => Ok (b :: t)))
  end.

Definition agent_dcop (s : scen) (a : string) : res repair_dcop :=
  bind (candidate_agt_info a (s_departed s) (s_graph s) (s_disc s)) (fun l =>
    setup_repair a (tbl_fun (s_remaining s) a) (tbl_fun (s_fp s)) l).

(* candidates: the agents the orchestrator sends setup_repair to (iteration order of the set) *)
Definition all_dcops (s : scen) (cands : list string) : res (list (string * repair_dcop)) :=
  mapM (fun a => bind (agent_dcop s a) (fun rd => Ok (a, rd))) cands.

Definition total_hard (ds : list (string * repair_dcop)) (x : bkey -> Z) : res Z :=
  sum_res (map (fun ard => agent_hard (snd ard) x) ds).

Definition selections (ds : list (string * repair_dcop)) (x : bkey -> Z) : list (string * list string) :=
  map (fun ard => (fst ard, agent_outcome (fst ard) (rd_cbv (snd ard)) x)) ds.

(* ---------- orchestrator: the repair_done messages of one repair ---------- *)
Fixpoint run_dones (ro : bool) (st : RO.rst) (dones : list (string * list string)) (agents : list string)
  : RO.rst * list RO.rout :=
  match dones with
  | [] => (st, [])
  | (a, sel) :: r =>
      let '(st1, o1) := RO.rstep ro st (RO.RvRepairDone a sel agents) in
      let '(st2, o2) := run_dones ro st1 r agents in (st2, o1 ++ o2)
  end.

(* ---------- Directory._computations_data ---------- *)
Inductive dirop :=
| DReg (c a : string)                     (* register_computation(c, a) *)
| DUnreg (c : string) (a : option string). (* unregister_computation(c, a) *)

Definition dir_del (c : string) (t : list (string * string)) : list (string * string) :=
  filter (fun p => negb (String.eqb (fst p) c)) t.

Definition dir_step (t : list (string * string)) (o : dirop) : list (string * string) :=
  match o with
  | DReg c a => dict_set String.eqb c a t
  | DUnreg c ag =>
      match ag, slookup c t with
      | Some g, Some h => if String.eqb h g then dir_del c t else t     (* stale: ignored *)
      | _, _ => dir_del c t                                             (* pop; KeyError swallowed *)
      end
  end.
Definition dir_run (t : list (string * string)) (ops : list dirop) : list (string * string) :=
  fold_left dir_step ops t.

(* what the repair makes the agents publish: every departed agent un-publishes the computations
   it hosted, naming itself (Agent._on_stop); every candidate publishes what it deploys *)
Definition departure_ops (hosting : list (string * string)) (departed : list string) : list dirop :=
  map (fun ca => DUnreg (fst ca) (Some (snd ca)))
      (filter (fun ca => smem (snd ca) departed) hosting).
Definition rehost_ops (sels : list (string * list string)) : list dirop :=
  flat_map (fun asel => map (fun c => DReg c (fst asel)) (snd asel)) sels.

(* ---------- correspondence ---------- *)
Definition x_of (xt : list (bkey * Z)) (k : bkey) : Z :=
  match lookup bkey_eqb k xt with Some v => v | None => 0 end.

(* what one candidate agent was seen to do *)
Record agent_obs := mkAO {
  ao_agent : string;
  ao_cbv : list (bkey * string);                         (* candidate_binvars items *)
  ao_hosted : list (string * list bkey * list string * Z);
      (* per create_computation_hosted_constraint call: computation, keys of its bin_vars,
         scope (variable names), value of the constraint on the outcome *)
  ao_cap_keys : list bkey; ao_cap_scope : list string; ao_cap_value : Z;
  ao_selected : list string                              (* reported in repair_done *)
}.

Definition bkeys_eqb := list_eqb bkey_eqb.
Fixpoint forall2b {A B} (f : A -> B -> bool) (a : list A) (b : list B) : bool :=
  match a, b with
  | [], [] => true
  | x :: a', y :: b' => f x y && forall2b f a' b'
  | _, _ => false
  end.
Definition check_agent (s : scen) (x : bkey -> Z) (o : agent_obs) : bool :=
  match agent_dcop s (ao_agent o) with
  | Err _ => false
  | Ok rd =>
      list_eqb (pair_eqb bkey_eqb String.eqb) (rd_cbv rd) (ao_cbv o)
      && forall2b (fun (h : string * (binvars * relation)) (ob : string * list bkey * list string * Z) =>
                     let '(c, ks, sc, v) := ob in
                     String.eqb (fst h) c && bkeys_eqb (map fst (fst (snd h))) ks
                     && slist_eqb (r_scope (snd (snd h))) sc
                     && res_eqb Z.eqb (rel_call (snd (snd h)) (asg_x (fst (snd h)) x)) (Ok v))
                  (rd_hosted rd) (ao_hosted o)
      && bkeys_eqb (map fst (rd_cbv rd)) (ao_cap_keys o)
      && slist_eqb (r_scope (rd_capacity rd)) (ao_cap_scope o)
      && res_eqb Z.eqb (capacity_value rd x) (Ok (ao_cap_value o))
      && slist_eqb (agent_outcome (ao_agent o) (rd_cbv rd) x) (ao_selected o)
  end.

Inductive atom2 :=
| KOrch (c : RO.case)                 (* orchestrator bookkeeping trace (M_RepairOrch) *)
| KRepair (s : scen) (cands : list string) (xt : list (bkey * Z))
          (obs : list agent_obs) (total : Z)
     (* one repair, agent side: every candidate's setup_repair and activation; total = sum of
        the observed hard constraint values *)
| KDir (init : list (string * string)) (ops : list dirop) (final : list (string * string)).
     (* calls on the real Directory and its final _computations_data.items() *)

Definition check_atom2 (k : atom2) : bool :=
  match k with
  | KOrch c => RO.check_case c
  | KRepair s cands xt obs total =>
      let x := x_of xt in
      slist_eqb (map ao_agent obs) cands
      && forallb (check_agent s x) obs
      && match all_dcops s cands with
         | Ok ds => res_eqb Z.eqb (total_hard ds x) (Ok total)
                    && list_eqb (pair_eqb String.eqb slist_eqb) (selections ds x)
                                (map (fun o => (ao_agent o, ao_selected o)) obs)
         | Err _ => false
         end
  | KDir init ops final =>
      list_eqb (pair_eqb String.eqb String.eqb) (dir_run init ops) final
  end.

(* one generated case = everything observed on it: orchestrator trace, and for the composed
   repair runs also the agent side and the directory *)
Definition case2 := list atom2.
Definition check_case2 (c : case2) : bool := forallb check_atom2 c.
