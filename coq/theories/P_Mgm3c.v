(* P_Mgm3c.v -- continuation of P_Mgm3.v (Part 4): what one delivery does at the receiving
   computation, case by case (store, postpone, one phase switch, two phase switches). *)
From Coq Require Import ZArith List Bool Lia ZifyBool Arith.
From PyDcop Require Import Base Net M_Mgm P_Mgm P_Mgm3.
Import ListNotations.
Open Scope Z_scope.

Local Notation length := List.length.

Section Global.
  Variable d : dcop.
  Variable stop : Z.
  Variable orc : node -> list Z.
  Hypothesis Hstop : 0 <= stop.
  Notation P := (mgm_proto d stop orc).
  Notation config := (config mst mmsg).
  Notation nbr := (nbrs d).
  Notation RA := (RA d orc).
  Notation RO := (RO d orc).
  Notation RG := (RG d orc).
  Notation RNV := (RNV d orc).
  Notation msg_at := (msg_at d orc).
  Notation msgs_from := (msgs_from d orc).
  Notation good := (good d stop orc).
  Notation finb := (finb stop).
  Notation fb := (fb stop).
  Notation finb_spec := (P_Mgm3.finb_spec stop orc).
  Notation g_state := (P_Mgm3.g_state d stop orc).
  Notation g_cyc := (P_Mgm3.g_cyc d stop orc).
  Notation g_stop := (P_Mgm3.g_stop d stop orc).
  Notation g_fin := (P_Mgm3.g_fin d stop orc).
  Notation g_finst := (P_Mgm3.g_finst d stop orc).
  Notation g_V := (P_Mgm3.g_V d stop orc).
  Notation g_G := (P_Mgm3.g_G d stop orc).
  Notation g_tab := (P_Mgm3.g_tab d stop orc).
  Notation g_post := (P_Mgm3.g_post d stop orc).
  Notation g_val := (P_Mgm3.g_val d stop orc).
  Notation g_orcV := (P_Mgm3.g_orcV d stop orc).
  Notation g_orcG := (P_Mgm3.g_orcG d stop orc).
  Notation g_tabP := (P_Mgm3.g_tabP d stop orc).
  Notation g_postP := (P_Mgm3.g_postP d stop orc).

  (* ---------------------------------------------------------------- events *)
  Fixpoint count_fin (x : node) (evs : list mev) : nat :=
    match evs with
    | [] => 0%nat
    | EvFinished n _ :: r => ((if Z.eqb n x then 1 else 0) + count_fin x r)%nat
    | _ :: r => count_fin x r
    end.
  Definition fin_cycle (n : node) : Z := match nbr n with [] => 0 | _ => stop end.
  Definition ev_ok (evs : list mev) : Prop :=
    (forall n k, ~ In (EvErr n k) evs) /\
    (forall n v c k, In (EvValue n v c k) evs -> 0 <= k /\ v = RA (Z.to_nat k) n) /\
    (forall n k, In (EvFinished n k) evs -> k = fin_cycle n).

  Lemma ev_ok_nil : ev_ok [].
  Proof. split; [|split]; [intros n k []|intros n v c k []|intros n k []]. Qed.

  Lemma ev_ok_app e1 e2 : ev_ok e1 -> ev_ok e2 -> ev_ok (e1 ++ e2).
  Proof.
    intros (A1 & A2 & A3) (B1 & B2 & B3). split; [|split].
    - intros n k H. apply in_app_or in H as [H|H]; [eapply A1|eapply B1]; eauto.
    - intros n v c k H. apply in_app_or in H as [H|H]; [eapply A2|eapply B2]; eauto.
    - intros n k H. apply in_app_or in H as [H|H]; [eapply A3|eapply B3]; eauto.
  Qed.

  Lemma count_fin_app x e1 e2 : count_fin x (e1 ++ e2) = (count_fin x e1 + count_fin x e2)%nat.
  Proof. induction e1 as [|[] r IH]; simpl; auto. rewrite IH. lia. Qed.

  (* what one delivery must establish at the receiving node b0 *)
  Record step_ok (b0 a0 : node) (s s' : mst) (L : list mmsg) (evs : list mev) : Prop := {
    so_good : good b0 s';
    so_acc : forall a, In a (nbr b0) ->
       (ph s' + kb a (tab s') + kb a (post s') = ph s + kb a (tab s) + kb a (post s) + (if Z.eqb a a0 then 1 else 0))%nat;
    so_ns : (ph s' + 1 - fb s' = ph s + 1 - fb s + length L)%nat;
    so_L : L = msgs_from b0 (ph s + 1 - fb s) (length L);
    so_ev : ev_ok evs;
    so_fin : m_fin s' = m_fin s + Z.of_nat (count_fin b0 evs);
    so_fin2 : forall x, x <> b0 -> count_fin x evs = 0%nat
  }.

  Lemma good_sv b s : good b s -> sg s = false -> m_state s = SValues.
  Proof. intros G H. pose proof (g_state b s G). unfold sg in H. destruct (m_state s); congruence. Qed.
  Lemma sg_true s : sg s = true -> m_state s = SGain.
  Proof. unfold sg. destruct (m_state s); congruence. Qed.

  (* a message of the next phase is postponed *)
  Lemma case_post_V b0 a0 s x :
    good b0 s -> finb s = false -> sg s = true -> kin a0 (m_ng s) = true -> kin a0 (m_pv s) = false ->
    x = pl (msg_at a0 (S (ph s))) ->
    step_ok b0 a0 s (set_pv s (m_pv s ++ [(a0, x)])) [] [].
  Proof.
    intros G Hf Hsg Ht Hp Hx.
    destruct G as [G1 G2 G3 G4 G5 G6 G7 G8 G9 G10 G11 G12 G13 G14].
    unfold tab, post in *. rewrite Hsg in *.
    set (s' := set_pv s (m_pv s ++ [(a0, x)])).
    assert (E1 : sg s' = true) by exact Hsg.
    assert (E2 : cyc s' = cyc s) by reflexivity.
    assert (E3 : ph s' = ph s) by reflexivity.
    assert (E4 : finb s' = finb s) by reflexivity.
    assert (E5 : fb s' = fb s) by reflexivity.
    constructor.
    - constructor; unfold tab, post; rewrite ?E1, ?E2, ?E3, ?E4, ?E5; try assumption; try (intros; congruence).
      + simpl. split.
        * unfold keys. rewrite map_app. apply NoDup_snoc; [apply G9|]. now apply kin_false.
        * unfold keys. rewrite map_app. intros y Hy. apply in_app_or in Hy as [Hy|[<-|[]]]; [now apply G9|now apply kin_In].
      + simpl. intros a v Hin. apply in_app_or in Hin as [Hin|[Hin|[]]]; [now apply G14|].
        inversion Hin; subst. reflexivity.
    - intros a Ha. rewrite E3. unfold tab, post. rewrite E1, Hsg. simpl.
      rewrite kb_snoc by exact Hp. lia.
    - rewrite E3, E5. simpl. lia.
    - reflexivity.
    - apply ev_ok_nil.
    - simpl. lia.
    - reflexivity.
  Qed.

  Lemma case_post_G b0 a0 s x :
    good b0 s -> finb s = false -> sg s = false -> kin a0 (m_nv s) = true -> kin a0 (m_pg s) = false ->
    x = pl (msg_at a0 (S (ph s))) ->
    step_ok b0 a0 s (set_pg s (m_pg s ++ [(a0, x)])) [] [].
  Proof.
    intros G Hf Hsg Ht Hp Hx.
    destruct G as [G1 G2 G3 G4 G5 G6 G7 G8 G9 G10 G11 G12 G13 G14].
    unfold tab, post in *. rewrite Hsg in *.
    set (s' := set_pg s (m_pg s ++ [(a0, x)])).
    assert (E1 : sg s' = false) by exact Hsg.
    assert (E2 : cyc s' = cyc s) by reflexivity.
    assert (E3 : ph s' = ph s) by reflexivity.
    assert (E4 : finb s' = finb s) by reflexivity.
    assert (E5 : fb s' = fb s) by reflexivity.
    constructor.
    - constructor; unfold tab, post; rewrite ?E1, ?E2, ?E3, ?E4, ?E5; try assumption; try (intros; congruence).
      + simpl. split.
        * unfold keys. rewrite map_app. apply NoDup_snoc; [apply G9|]. now apply kin_false.
        * unfold keys. rewrite map_app. intros y Hy. apply in_app_or in Hy as [Hy|[<-|[]]]; [now apply G9|now apply kin_In].
      + simpl. intros a v Hin. apply in_app_or in Hin as [Hin|[Hin|[]]]; [now apply G14|].
        inversion Hin; subst. reflexivity.
    - intros a Ha. rewrite E3. unfold tab, post. rewrite E1, Hsg. simpl.
      rewrite kb_snoc by exact Hp. lia.
    - rewrite E3, E5. simpl. lia.
    - reflexivity.
    - apply ev_ok_nil.
    - simpl. lia.
    - reflexivity.
  Qed.

  (* a message of the current phase enters the table, which stays incomplete *)
  Lemma case_store_V b0 a0 s x :
    good b0 s -> finb s = false -> sg s = false -> In a0 (nbr b0) -> kin a0 (m_nv s) = false ->
    (length (m_nv s) + 1 <> length (nbr b0))%nat ->
    x = pl (msg_at a0 (ph s)) ->
    step_ok b0 a0 s (set_nv s (m_nv s ++ [(a0, x)])) [] [].
  Proof.
    intros G Hf Hsg Hnb Ht Hlen Hx.
    destruct G as [G1 G2 G3 G4 G5 G6 G7 G8 G9 G10 G11 G12 G13 G14].
    unfold tab, post in *. rewrite Hsg in *.
    set (s' := set_nv s (m_nv s ++ [(a0, x)])).
    assert (E1 : sg s' = false) by exact Hsg.
    assert (E2 : cyc s' = cyc s) by reflexivity.
    assert (E3 : ph s' = ph s) by reflexivity.
    assert (E4 : finb s' = finb s) by reflexivity.
    assert (E5 : fb s' = fb s) by reflexivity.
    assert (Hnd : NoDup (keys (m_nv s ++ [(a0, x)]))).
    { unfold keys. rewrite map_app. apply NoDup_snoc; [apply G8|]. now apply kin_false. }
    assert (Hincl : incl (keys (m_nv s ++ [(a0, x)])) (nbr b0)).
    { unfold keys. rewrite map_app. intros y Hy. apply in_app_or in Hy as [Hy|[<-|[]]]; [now apply G8|exact Hnb]. }
    constructor.
    - constructor; unfold tab, post; rewrite ?E1, ?E2, ?E3, ?E4, ?E5; try assumption; try (intros; congruence).
      + simpl. split; [exact Hnd|]. split; [exact Hincl|].
        pose proof (keys_length_le _ _ Hnd Hincl) as Hle. rewrite app_length in *. simpl in *. lia.
      + simpl. split; [apply G9|]. unfold keys. rewrite map_app. intros y Hy. apply in_or_app. left. now apply G9.
      + simpl. intros a v Hin. apply in_app_or in Hin as [Hin|[Hin|[]]]; [now apply G13|].
        inversion Hin; subst. reflexivity.
    - intros a Ha. rewrite E3. unfold tab, post. rewrite E1, Hsg. simpl.
      rewrite kb_snoc by exact Ht. lia.
    - rewrite E3, E5. simpl. lia.
    - reflexivity.
    - apply ev_ok_nil.
    - simpl. lia.
    - reflexivity.
  Qed.

  (* a message of the current phase enters the table, which stays incomplete *)
  Lemma case_store_G b0 a0 s x :
    good b0 s -> finb s = false -> sg s = true -> In a0 (nbr b0) -> kin a0 (m_ng s) = false ->
    (length (m_ng s) + 1 <> length (nbr b0))%nat ->
    x = pl (msg_at a0 (ph s)) ->
    step_ok b0 a0 s (set_ng s (m_ng s ++ [(a0, x)])) [] [].
  Proof.
    intros G Hf Hsg Hnb Ht Hlen Hx.
    destruct G as [G1 G2 G3 G4 G5 G6 G7 G8 G9 G10 G11 G12 G13 G14].
    unfold tab, post in *. rewrite Hsg in *.
    set (s' := set_ng s (m_ng s ++ [(a0, x)])).
    assert (E1 : sg s' = true) by exact Hsg.
    assert (E2 : cyc s' = cyc s) by reflexivity.
    assert (E3 : ph s' = ph s) by reflexivity.
    assert (E4 : finb s' = finb s) by reflexivity.
    assert (E5 : fb s' = fb s) by reflexivity.
    assert (Hnd : NoDup (keys (m_ng s ++ [(a0, x)]))).
    { unfold keys. rewrite map_app. apply NoDup_snoc; [apply G8|]. now apply kin_false. }
    assert (Hincl : incl (keys (m_ng s ++ [(a0, x)])) (nbr b0)).
    { unfold keys. rewrite map_app. intros y Hy. apply in_app_or in Hy as [Hy|[<-|[]]]; [now apply G8|exact Hnb]. }
    constructor.
    - constructor; unfold tab, post; rewrite ?E1, ?E2, ?E3, ?E4, ?E5; try assumption; try (intros; congruence).
      + simpl. split; [exact Hnd|]. split; [exact Hincl|].
        pose proof (keys_length_le _ _ Hnd Hincl) as Hle. rewrite app_length in *. simpl in *. lia.
      + simpl. split; [apply G9|]. unfold keys. rewrite map_app. intros y Hy. apply in_or_app. left. now apply G9.
      + simpl. intros a v Hin. apply in_app_or in Hin as [Hin|[Hin|[]]]; [now apply G13|].
        inversion Hin; subst. reflexivity.
    - intros a Ha. rewrite E3. unfold tab, post. rewrite E1, Hsg. simpl.
      rewrite kb_snoc by exact Ht. lia.
    - rewrite E3, E5. simpl. lia.
    - reflexivity.
    - apply ev_ok_nil.
    - simpl. lia.
    - reflexivity.
  Qed.

  Lemma fb_false s : finb s = false -> fb s = 0%nat.
  Proof. unfold fb. intros ->. reflexivity. Qed.

  Lemma kb_full a (l : list (Z * Z)) (nb : list Z) :
    NoDup (keys l) -> incl (keys l) nb -> length l = length nb -> In a nb -> kb a l = 1%nat.
  Proof.
    intros H1 H2 H3 H4. unfold kb. assert (kin a l = true) as ->; [|reflexivity].
    apply kin_In. eapply full_keys; eauto.
  Qed.

  (* the last value of the cycle arrives; some gains of this cycle are still missing *)
  Lemma case_switch_V1 b0 a0 s x :
    good b0 s -> finb s = false -> sg s = false -> In a0 (nbr b0) -> kin a0 (m_nv s) = false ->
    (length (m_nv s) + 1 = length (nbr b0))%nat -> (length (m_pg s) < length (nbr b0))%nat ->
    x = pl (msg_at a0 (ph s)) ->
    let s1 := set_nv s (m_nv s ++ [(a0, x)]) in
    step_ok b0 a0 s (set_pg (fill_g (vdone d b0 s1)) []) [MGain (vgain d b0 s1)] [].
  Proof.
    intros G Hf Hsg Hnb Ht Hlen Hlp Hx s1.
    destruct G as [G1 G2 G3 G4 G5 G6 G7 G8 G9 G10 G11 G12 G13 G14].
    unfold tab, post in *. rewrite Hsg in *.
    assert (Hact : nbr b0 <> []) by (intros Hc; rewrite Hc in Hnb; contradiction).
    assert (Hph : ph s = (2 * cyc s)%nat) by (unfold ph; rewrite Hsg; lia).
    assert (Hnd : NoDup (keys (m_nv s ++ [(a0, x)]))).
    { unfold keys. rewrite map_app. apply NoDup_snoc; [apply G8|]. now apply kin_false. }
    assert (Hincl : incl (keys (m_nv s ++ [(a0, x)])) (nbr b0)).
    { unfold keys. rewrite map_app. intros y Hy. apply in_app_or in Hy as [Hy|[<-|[]]]; [now apply G8|exact Hnb]. }
    assert (Hfull : length (m_nv s ++ [(a0, x)]) = length (nbr b0)) by (rewrite app_length; simpl; lia).
    assert (Hval : forall a v, In (a, v) (m_nv s ++ [(a0, x)]) -> v = RA (cyc s) a).
    { intros a v Hin. apply in_app_or in Hin as [Hin|[Hin|[]]].
      - rewrite (G13 a v Hin), Hph, msg_at_even. reflexivity.
      - inversion Hin; subst. rewrite Hph, msg_at_even. reflexivity. }
    destruct (vdone_ref d orc b0 (cyc s) Hact s1 Hnd Hfull Hincl Hval G10 (G11 eq_refl)) as (Hg & Hnv & Ho).
    set (s' := set_pg (fill_g (vdone d b0 s1)) []).
    assert (E1 : sg s' = true) by reflexivity.
    assert (E2 : cyc s' = cyc s) by reflexivity.
    assert (E3 : ph s' = S (ph s)) by (unfold ph; rewrite E1, E2, Hsg; lia).
    assert (E4 : finb s' = finb s) by reflexivity.
    assert (E5 : fb s' = fb s) by reflexivity.
    destruct (G6 eq_refl) as [Hpv Hng].
    constructor.
    - constructor; unfold tab, post; rewrite ?E1, ?E2, ?E3, ?E4, ?E5; try assumption; try (intros; congruence).
      + discriminate.
      + reflexivity.
      + change (m_ng s') with (m_pg s). split; [apply G9|]. split; [|exact Hlp].
        intros y Hy. apply G8. now apply G9.
      + change (m_pv s') with (m_pv s). rewrite Hpv. split; [constructor|intros y []].
      + intros _. split; [exact Ho|]. split; [exact Hg|exact Hnv].
      + change (m_pv s') with (m_pv s). rewrite Hpv. intros a v [].
    - intros a Ha. rewrite E3. unfold tab, post. rewrite E1, Hsg.
      change (m_ng s') with (m_pg s). change (m_pv s') with (m_pv s). rewrite Hpv, kb_nil.
      pose proof (kb_full a _ _ Hnd Hincl Hfull Ha) as Hk. rewrite kb_snoc in Hk by exact Ht. lia.
    - rewrite E3, E5. simpl. rewrite (fb_false s Hf). lia.
    - rewrite (fb_false s Hf). simpl. unfold msgs_from, P_Mgm3.msgs_from. simpl.
      replace (ph s + 1 - 0)%nat with (S (2 * cyc s)) by lia. rewrite msg_at_odd, Hg. reflexivity.
    - apply ev_ok_nil.
    - simpl. lia.
    - reflexivity.
  Qed.

  (* all gains of cycle c+1 known: the decision is the one of the round function *)
  Lemma gfin_ref b0 t1 c : nbr b0 <> [] ->
    NoDup (keys (m_ng t1)) -> length (m_ng t1) = length (nbr b0) -> incl (keys (m_ng t1)) (nbr b0) ->
    (forall a g, In (a, g) (m_ng t1) -> g = RG c a) ->
    m_gain t1 = RG c b0 -> m_newv t1 = RNV c b0 -> m_value t1 = Some (RA c b0) ->
    m_value (gd_state d b0 t1) = Some (RA (S c) b0) /\ (gwins d b0 t1 = true -> m_newv t1 = RA (S c) b0).
  Proof.
    intros Hact Hnd Hlen Hincl Hval Hg Hnv Hv.
    pose proof (gwins_ref d orc b0 c Hact t1 Hnd Hlen Hincl Hval Hg) as Hw.
    assert (E : RA (S c) b0 = if r_moves d (RA c) b0 then RNV c b0 else RA c b0).
    { unfold RA at 1, P_Mgm3.RA. simpl. unfold mgm_next. reflexivity. }
    split.
    - simpl. rewrite Hw, E. destruct (r_moves d (RA c) b0); congruence.
    - intros Hgw. rewrite Hgw in Hw. rewrite E, <- Hw. exact Hnv.
  Qed.

  Lemma gd_evs_ok b0 t1 :
    0 <= m_cycle t1 -> (gwins d b0 t1 = true -> m_newv t1 = RA (Z.to_nat (m_cycle t1)) b0) ->
    ev_ok (gd_evs d b0 t1) /\ forall x, count_fin x (gd_evs d b0 t1) = 0%nat.
  Proof.
    intros Hc Hw. unfold gd_evs. destruct (gwins d b0 t1); [|split; [apply ev_ok_nil|reflexivity]].
    destruct (option_eqb Z.eqb (m_value t1) (Some (m_newv t1))); [split; [apply ev_ok_nil|reflexivity]|].
    split; [|reflexivity]. split; [|split].
    - intros n k [H|[]]. discriminate.
    - intros n v c k [H|[]]. inversion H; subst. split; [exact Hc|]. now apply Hw.
    - intros n k [H|[]]. discriminate.
  Qed.

  Lemma sv_evs_ok b0 t3 :
    (sv_fin stop t3 = true -> m_cycle t3 + 1 = fin_cycle b0) ->
    ev_ok (sv_evs stop b0 t3) /\ count_fin b0 (sv_evs stop b0 t3) = (if sv_fin stop t3 then 1 else 0)%nat /\
    forall x, x <> b0 -> count_fin x (sv_evs stop b0 t3) = 0%nat.
  Proof.
    intros Hf. unfold sv_evs. destruct (sv_fin stop t3).
    - split; [|split].
      + split; [|split].
        * intros n k [H|[H|[]]]; discriminate.
        * intros n v c k [H|[H|[]]]; discriminate.
        * intros n k [H|[H|[]]]; [discriminate|]. inversion H; subst. now apply Hf.
      + simpl. rewrite Z.eqb_refl. reflexivity.
      + intros x Hx. simpl. destruct (Z.eqb_spec b0 x); [congruence|reflexivity].
    - split; [|split; [reflexivity|reflexivity]].
      split; [|split].
      + intros n k [H|[]]; discriminate.
      + intros n v c k [H|[]]; discriminate.
      + intros n k [H|[]]; discriminate.
  Qed.

  Lemma fin_cycle_active b : nbr b <> [] -> fin_cycle b = stop.
  Proof. unfold fin_cycle. destruct (nbr b); [congruence|reflexivity]. Qed.

  (* the last value of the cycle arrives and all gains of this cycle were already postponed:
     value phase and gain phase complete in one handler; the next cycle starts *)
  Lemma case_switch_V2 b0 a0 s x :
    good b0 s -> finb s = false -> sg s = false -> In a0 (nbr b0) -> kin a0 (m_nv s) = false ->
    (length (m_nv s) + 1 = length (nbr b0))%nat -> length (m_pg s) = length (nbr b0) ->
    x = pl (msg_at a0 (ph s)) ->
    let s1 := set_nv s (m_nv s ++ [(a0, x)]) in
    let t1 := fill_g (vdone d b0 s1) in
    let t3 := set_state (gclear (gd_state d b0 t1)) SValues in
    step_ok b0 a0 s (set_pg (sv_state stop t3) [])
            (MGain (vgain d b0 s1) :: (if sv_fin stop t3 then [] else [MValue (cur_value t3)]))
            (gd_evs d b0 t1 ++ sv_evs stop b0 t3).
  Proof.
    intros G Hf Hsg Hnb Ht Hlen Hlp Hx s1 t1 t3.
    destruct G as [G1 G2 G3 G4 G5 G6 G7 G8 G9 G10 G11 G12 G13 G14].
    unfold tab, post in *. rewrite Hsg in *.
    assert (Hact : nbr b0 <> []) by (intros Hc; rewrite Hc in Hnb; contradiction).
    assert (Hph : ph s = (2 * cyc s)%nat) by (unfold ph; rewrite Hsg; lia).
    assert (Hnd : NoDup (keys (m_nv s ++ [(a0, x)]))).
    { unfold keys. rewrite map_app. apply NoDup_snoc; [apply G8|]. now apply kin_false. }
    assert (Hincl : incl (keys (m_nv s ++ [(a0, x)])) (nbr b0)).
    { unfold keys. rewrite map_app. intros y Hy. apply in_app_or in Hy as [Hy|[<-|[]]]; [now apply G8|exact Hnb]. }
    assert (Hfull : length (m_nv s ++ [(a0, x)]) = length (nbr b0)) by (rewrite app_length; simpl; lia).
    assert (Hval : forall a v, In (a, v) (m_nv s ++ [(a0, x)]) -> v = RA (cyc s) a).
    { intros a v Hin. apply in_app_or in Hin as [Hin|[Hin|[]]].
      - rewrite (G13 a v Hin), Hph, msg_at_even. reflexivity.
      - inversion Hin; subst. rewrite Hph, msg_at_even. reflexivity. }
    destruct (vdone_ref d orc b0 (cyc s) Hact s1 Hnd Hfull Hincl Hval G10 (G11 eq_refl)) as (Hg & Hnv & Ho).
    destruct (G6 eq_refl) as [Hpv Hng].
    assert (Hpgincl : incl (keys (m_pg s)) (nbr b0)) by (intros y Hy; apply G8; now apply G9).
    assert (Hgval : forall a g, In (a, g) (m_pg s) -> g = RG (cyc s) a).
    { intros a g Hin. rewrite (G14 a g Hin), Hph, msg_at_odd. reflexivity. }
    destruct (gfin_ref b0 t1 (cyc s) Hact (proj1 G9) Hlp Hpgincl Hgval Hg Hnv G10) as [Hvalue Hwin].
    assert (Hlt : stop <> 0 -> m_cycle s < stop).
    { intros Hs. destruct (Z.lt_ge_cases (m_cycle s) stop); auto.
      assert (finb s = true) by (apply finb_spec; lia). congruence. }
    set (s' := set_pg (sv_state stop t3) []).
    assert (E0 : m_cycle s' = m_cycle s + 1) by reflexivity.
    assert (E1 : sg s' = false) by reflexivity.
    assert (E2 : cyc s' = S (cyc s)) by (unfold cyc; rewrite E0; lia).
    assert (E3 : ph s' = (ph s + 2)%nat) by (unfold ph; rewrite E1, E2, Hsg; lia).
    assert (E4 : finb s' = sv_fin stop t3) by reflexivity.
    assert (Hfs : sv_fin stop t3 = true -> m_cycle s + 1 = stop).
    { intros H. unfold sv_fin in H. change (m_cycle t3) with (m_cycle s) in H.
      apply andb_true_iff in H as [H1 H2]. apply negb_true_iff, Z.eqb_neq in H1. apply Z.leb_le in H2.
      specialize (Hlt H1). lia. }
    assert (Hcv : cur_value t3 = RA (S (cyc s)) b0).
    { unfold cur_value. change (m_value t3) with (m_value (gd_state d b0 t1)). rewrite Hvalue. reflexivity. }
    assert (Hcs : Z.to_nat (m_cycle s) = S (cyc s)) by (unfold cyc; lia).
    destruct (gd_evs_ok b0 t1) as [Ev1 Cf1].
    { change (m_cycle t1) with (m_cycle s). lia. }
    { change (m_cycle t1) with (m_cycle s). rewrite Hcs. exact Hwin. }
    destruct (sv_evs_ok b0 t3) as (Ev2 & Cf2 & Cf3).
    { intros H. rewrite (fin_cycle_active b0 Hact). change (m_cycle t3) with (m_cycle s). now apply Hfs. }
    constructor.
    - constructor; unfold tab, post; rewrite ?E1, ?E2; try (intros; congruence).
      + discriminate.
      + rewrite E0. lia.
      + rewrite E0. intros Hs. specialize (Hlt Hs). lia.
      + unfold fb. rewrite E4. change (m_fin s') with (if sv_fin stop t3 then m_fin s + 1 else m_fin s).
        rewrite G4, (fb_false s Hf). destruct (sv_fin stop t3); reflexivity.
      + intros _. repeat split.
      + intros _. split; [exact Hpv|reflexivity].
      + split; [constructor|]. split; [intros y []|]. simpl. destruct (nbr b0); [congruence|simpl; lia].
      + split; [constructor|intros y []].
      + exact Hvalue.
      + intros _. exact Ho.
      + intros a v [].
      + intros a v [].
    - intros a Ha. rewrite E3. unfold tab, post. rewrite E1, Hsg.
      change (m_nv s') with (@nil (Z * Z)). change (m_pg s') with (@nil (Z * Z)). rewrite !kb_nil.
      pose proof (kb_full a _ _ Hnd Hincl Hfull Ha) as Hk. rewrite kb_snoc in Hk by exact Ht.
      pose proof (kb_full a _ _ (proj1 G9) Hpgincl Hlp Ha) as Hk2. lia.
    - rewrite E3. unfold fb at 1. rewrite E4, (fb_false s Hf). destruct (sv_fin stop t3); simpl; lia.
    - rewrite (fb_false s Hf). unfold msgs_from, P_Mgm3.msgs_from.
      replace (ph s + 1 - 0)%nat with (S (2 * cyc s)) by lia.
      destruct (sv_fin stop t3); cbn [length map seq].
      + rewrite msg_at_odd, Hg. reflexivity.
      + rewrite msg_at_odd, Hg. replace (S (S (2 * cyc s))) with (2 * S (cyc s))%nat by lia.
        rewrite msg_at_even, Hcv. reflexivity.
    - apply ev_ok_app; assumption.
    - rewrite count_fin_app, Cf1, Cf2. change (m_fin s') with (if sv_fin stop t3 then m_fin s + 1 else m_fin s).
      destruct (sv_fin stop t3); simpl; lia.
    - intros y Hy. rewrite count_fin_app, Cf1, (Cf3 y Hy). reflexivity.
  Qed.

  (* the last gain of the cycle arrives: decision, next cycle; some values of the next cycle
     are still missing *)
  Lemma case_switch_G1 b0 a0 s x :
    good b0 s -> finb s = false -> sg s = true -> In a0 (nbr b0) -> kin a0 (m_ng s) = false ->
    (length (m_ng s) + 1 = length (nbr b0))%nat -> (length (m_pv s) < length (nbr b0))%nat ->
    x = pl (msg_at a0 (ph s)) ->
    (stop <> 0 -> stop <= m_cycle s + 1 -> m_pv s = []) ->
    let s1 := set_ng s (m_ng s ++ [(a0, x)]) in
    let t3 := set_state (gclear (gd_state d b0 s1)) SValues in
    step_ok b0 a0 s (set_pv (set_nv (sv_state stop t3) (m_pv s)) [])
            (if sv_fin stop t3 then [] else [MValue (cur_value t3)])
            (gd_evs d b0 s1 ++ sv_evs stop b0 t3).
  Proof.
    intros G Hf Hsg Hnb Ht Hlen Hlp Hx Hfinpv s1 t3.
    destruct G as [G1 G2 G3 G4 G5 G6 G7 G8 G9 G10 G11 G12 G13 G14].
    unfold tab, post in *. rewrite Hsg in *.
    assert (Hact : nbr b0 <> []) by (intros Hc; rewrite Hc in Hnb; contradiction).
    assert (Hph : ph s = S (2 * cyc s)) by (unfold ph; rewrite Hsg; lia).
    assert (Hnd : NoDup (keys (m_ng s ++ [(a0, x)]))).
    { unfold keys. rewrite map_app. apply NoDup_snoc; [apply G8|]. now apply kin_false. }
    assert (Hincl : incl (keys (m_ng s ++ [(a0, x)])) (nbr b0)).
    { unfold keys. rewrite map_app. intros y Hy. apply in_app_or in Hy as [Hy|[<-|[]]]; [now apply G8|exact Hnb]. }
    assert (Hfull : length (m_ng s ++ [(a0, x)]) = length (nbr b0)) by (rewrite app_length; simpl; lia).
    assert (Hval : forall a v, In (a, v) (m_ng s ++ [(a0, x)]) -> v = RG (cyc s) a).
    { intros a v Hin. apply in_app_or in Hin as [Hin|[Hin|[]]].
      - rewrite (G13 a v Hin), Hph, msg_at_odd. reflexivity.
      - inversion Hin; subst. rewrite Hph, msg_at_odd. reflexivity. }
    destruct (G12 eq_refl) as (Ho & Hg & Hnv).
    pose proof (G7 eq_refl) as Hpg.
    destruct (gfin_ref b0 s1 (cyc s) Hact Hnd Hfull Hincl Hval Hg Hnv G10) as [Hvalue Hwin].
    assert (Hlt : stop <> 0 -> m_cycle s < stop).
    { intros Hs. destruct (Z.lt_ge_cases (m_cycle s) stop); auto.
      assert (finb s = true) by (apply finb_spec; lia). congruence. }
    assert (Hfs : sv_fin stop t3 = true -> m_cycle s + 1 = stop).
    { intros H. unfold sv_fin in H. change (m_cycle t3) with (m_cycle s) in H.
      apply andb_true_iff in H as [H1 H2]. apply negb_true_iff, Z.eqb_neq in H1. apply Z.leb_le in H2.
      specialize (Hlt H1). lia. }
    assert (Hcv : cur_value t3 = RA (S (cyc s)) b0).
    { unfold cur_value. change (m_value t3) with (m_value (gd_state d b0 s1)). rewrite Hvalue. reflexivity. }
    assert (Hcs : Z.to_nat (m_cycle s) = S (cyc s)) by (unfold cyc; lia).
    destruct (gd_evs_ok b0 s1) as [Ev1 Cf1].
    { change (m_cycle s1) with (m_cycle s). lia. }
    { change (m_cycle s1) with (m_cycle s). rewrite Hcs. exact Hwin. }
    destruct (sv_evs_ok b0 t3) as (Ev2 & Cf2 & Cf3).
    { intros H. rewrite (fin_cycle_active b0 Hact). change (m_cycle t3) with (m_cycle s). now apply Hfs. }
    assert (Hpvincl : incl (keys (m_pv s)) (nbr b0)) by (intros y Hy; apply G8; now apply G9).
    set (s' := set_pv (set_nv (sv_state stop t3) (m_pv s)) []).
    assert (E0 : m_cycle s' = m_cycle s + 1) by reflexivity.
    assert (E1 : sg s' = false) by reflexivity.
    assert (E2 : cyc s' = S (cyc s)) by (unfold cyc; rewrite E0; lia).
    assert (E3 : ph s' = S (ph s)) by (unfold ph; rewrite E1, E2, Hsg; lia).
    assert (E4 : finb s' = sv_fin stop t3) by reflexivity.
    constructor.
    - constructor; unfold tab, post; rewrite ?E1, ?E2; try (intros; congruence).
      + discriminate.
      + rewrite E0. lia.
      + rewrite E0. intros Hs. specialize (Hlt Hs). lia.
      + unfold fb. rewrite E4. change (m_fin s') with (if sv_fin stop t3 then m_fin s + 1 else m_fin s).
        rewrite G4, (fb_false s Hf). destruct (sv_fin stop t3); reflexivity.
      + rewrite E4. intros Hsf. split; [reflexivity|]. split; [|exact Hpg].
        change (m_nv s') with (m_pv s). apply Hfinpv.
        * unfold sv_fin in Hsf. apply andb_true_iff in Hsf as [H1 _]. now apply negb_true_iff, Z.eqb_neq in H1.
        * specialize (Hfs Hsf). lia.
      + intros _. split; reflexivity.
      + change (m_nv s') with (m_pv s). split; [apply G9|]. split; [exact Hpvincl|exact Hlp].
      + change (m_pg s') with (m_pg s). rewrite Hpg. split; [constructor|intros y []].
      + exact Hvalue.
      + intros _. exact Ho.
      + rewrite E3. exact G14.
      + change (m_pg s') with (m_pg s). rewrite Hpg. intros a v [].
    - intros a Ha. rewrite E3. unfold tab, post. rewrite E1, Hsg.
      change (m_nv s') with (m_pv s). change (m_pg s') with (m_pg s). rewrite Hpg, kb_nil.
      pose proof (kb_full a _ _ Hnd Hincl Hfull Ha) as Hk. rewrite kb_snoc in Hk by exact Ht. lia.
    - rewrite E3. unfold fb at 1. rewrite E4, (fb_false s Hf). destruct (sv_fin stop t3); simpl; lia.
    - rewrite (fb_false s Hf). unfold msgs_from, P_Mgm3.msgs_from.
      replace (ph s + 1 - 0)%nat with (2 * S (cyc s))%nat by lia.
      destruct (sv_fin stop t3); cbn [length map seq]; [reflexivity|].
      rewrite msg_at_even, Hcv. reflexivity.
    - apply ev_ok_app; assumption.
    - rewrite count_fin_app, Cf1, Cf2. change (m_fin s') with (if sv_fin stop t3 then m_fin s + 1 else m_fin s).
      destruct (sv_fin stop t3); simpl; lia.
    - intros y Hy. rewrite count_fin_app, Cf1, (Cf3 y Hy). reflexivity.
  Qed.

  (* the last gain of the cycle arrives and all values of the next cycle were already postponed:
     gain phase and the next value phase complete in one handler *)
  Lemma case_switch_G2 b0 a0 s x :
    good b0 s -> finb s = false -> sg s = true -> In a0 (nbr b0) -> kin a0 (m_ng s) = false ->
    (length (m_ng s) + 1 = length (nbr b0))%nat -> length (m_pv s) = length (nbr b0) ->
    x = pl (msg_at a0 (ph s)) ->
    (stop <> 0 -> stop <= m_cycle s + 1 -> m_pv s = []) ->
    let s1 := set_ng s (m_ng s ++ [(a0, x)]) in
    let t3 := set_state (gclear (gd_state d b0 s1)) SValues in
    let u1 := set_nv (sv_state stop t3) (m_pv s) in
    sv_fin stop t3 = false /\
    step_ok b0 a0 s (set_pv (set_state (vdone d b0 u1) SGain) [])
            [MValue (cur_value t3); MGain (vgain d b0 u1)]
            (gd_evs d b0 s1 ++ sv_evs stop b0 t3).
  Proof.
    intros G Hf Hsg Hnb Ht Hlen Hlp Hx Hfinpv s1 t3 u1.
    destruct G as [G1 G2 G3 G4 G5 G6 G7 G8 G9 G10 G11 G12 G13 G14].
    unfold tab, post in *. rewrite Hsg in *.
    assert (Hact : nbr b0 <> []) by (intros Hc; rewrite Hc in Hnb; contradiction).
    assert (Hph : ph s = S (2 * cyc s)) by (unfold ph; rewrite Hsg; lia).
    assert (Hnd : NoDup (keys (m_ng s ++ [(a0, x)]))).
    { unfold keys. rewrite map_app. apply NoDup_snoc; [apply G8|]. now apply kin_false. }
    assert (Hincl : incl (keys (m_ng s ++ [(a0, x)])) (nbr b0)).
    { unfold keys. rewrite map_app. intros y Hy. apply in_app_or in Hy as [Hy|[<-|[]]]; [now apply G8|exact Hnb]. }
    assert (Hfull : length (m_ng s ++ [(a0, x)]) = length (nbr b0)) by (rewrite app_length; simpl; lia).
    assert (Hval : forall a v, In (a, v) (m_ng s ++ [(a0, x)]) -> v = RG (cyc s) a).
    { intros a v Hin. apply in_app_or in Hin as [Hin|[Hin|[]]].
      - rewrite (G13 a v Hin), Hph, msg_at_odd. reflexivity.
      - inversion Hin; subst. rewrite Hph, msg_at_odd. reflexivity. }
    destruct (G12 eq_refl) as (Ho & Hg & Hnv).
    pose proof (G7 eq_refl) as Hpg.
    destruct (gfin_ref b0 s1 (cyc s) Hact Hnd Hfull Hincl Hval Hg Hnv G10) as [Hvalue Hwin].
    assert (Hlt : stop <> 0 -> m_cycle s < stop).
    { intros Hs. destruct (Z.lt_ge_cases (m_cycle s) stop); auto.
      assert (finb s = true) by (apply finb_spec; lia). congruence. }
    assert (Hfs : sv_fin stop t3 = true -> m_cycle s + 1 = stop).
    { intros H. unfold sv_fin in H. change (m_cycle t3) with (m_cycle s) in H.
      apply andb_true_iff in H as [H1 H2]. apply negb_true_iff, Z.eqb_neq in H1. apply Z.leb_le in H2.
      specialize (Hlt H1). lia. }
    assert (Hcv : cur_value t3 = RA (S (cyc s)) b0).
    { unfold cur_value. change (m_value t3) with (m_value (gd_state d b0 s1)). rewrite Hvalue. reflexivity. }
    assert (Hcs : Z.to_nat (m_cycle s) = S (cyc s)) by (unfold cyc; lia).
    destruct (gd_evs_ok b0 s1) as [Ev1 Cf1].
    { change (m_cycle s1) with (m_cycle s). lia. }
    { change (m_cycle s1) with (m_cycle s). rewrite Hcs. exact Hwin. }
    destruct (sv_evs_ok b0 t3) as (Ev2 & Cf2 & Cf3).
    { intros H. rewrite (fin_cycle_active b0 Hact). change (m_cycle t3) with (m_cycle s). now apply Hfs. }
    assert (Hpvincl : incl (keys (m_pv s)) (nbr b0)) by (intros y Hy; apply G8; now apply G9).
    assert (Hsf : sv_fin stop t3 = false).
    { destruct (sv_fin stop t3) eqn:E; auto. exfalso.
      assert (Hpv0 : m_pv s = []).
      { apply Hfinpv.
        - unfold sv_fin in E. apply andb_true_iff in E as [H1 _]. now apply negb_true_iff, Z.eqb_neq in H1.
        - specialize (Hfs eq_refl). lia. }
      rewrite Hpv0 in Hlp. destruct (nbr b0); [congruence|discriminate]. }
    split; [exact Hsf|].
    assert (Hpval : forall a v, In (a, v) (m_pv s) -> v = RA (S (cyc s)) a).
    { intros a v Hin. rewrite (G14 a v Hin), Hph.
      replace (S (S (2 * cyc s))) with (2 * S (cyc s))%nat by lia. rewrite msg_at_even. reflexivity. }
    destruct (vdone_ref d orc b0 (S (cyc s)) Hact u1 (proj1 G9) Hlp Hpvincl Hpval Hvalue Ho) as (Hg2 & Hnv2 & Ho2).
    set (s' := set_pv (set_state (vdone d b0 u1) SGain) []).
    assert (E0 : m_cycle s' = m_cycle s + 1) by reflexivity.
    assert (E1 : sg s' = true) by reflexivity.
    assert (E2 : cyc s' = S (cyc s)) by (unfold cyc; rewrite E0; lia).
    assert (E3 : ph s' = (ph s + 2)%nat) by (unfold ph; rewrite E1, E2, Hsg; lia).
    assert (E4 : finb s' = sv_fin stop t3) by reflexivity.
    constructor.
    - constructor; unfold tab, post; rewrite ?E1, ?E2; try (intros; congruence).
      + discriminate.
      + rewrite E0. lia.
      + rewrite E0. intros Hs. specialize (Hlt Hs). lia.
      + unfold fb. rewrite E4. change (m_fin s') with (if sv_fin stop t3 then m_fin s + 1 else m_fin s).
        rewrite G4, (fb_false s Hf), Hsf. reflexivity.
      + intros _. exact Hpg.
      + change (m_ng s') with (@nil (Z * Z)). split; [constructor|]. split; [intros y []|].
        simpl. destruct (nbr b0); [congruence|simpl; lia].
      + change (m_pv s') with (@nil (Z * Z)). split; [constructor|intros y []].
      + exact Hvalue.
      + intros _. split; [exact Ho2|]. split; [exact Hg2|exact Hnv2].
      + intros a v [].
      + intros a v [].
    - intros a Ha. rewrite E3. unfold tab, post. rewrite E1, Hsg.
      change (m_ng s') with (@nil (Z * Z)). change (m_pv s') with (@nil (Z * Z)). rewrite !kb_nil.
      pose proof (kb_full a _ _ Hnd Hincl Hfull Ha) as Hk. rewrite kb_snoc in Hk by exact Ht.
      pose proof (kb_full a _ _ (proj1 G9) Hpvincl Hlp Ha) as Hk2. lia.
    - rewrite E3. unfold fb at 1. rewrite E4, Hsf, (fb_false s Hf). simpl. lia.
    - rewrite (fb_false s Hf). unfold msgs_from, P_Mgm3.msgs_from.
      replace (ph s + 1 - 0)%nat with (2 * S (cyc s))%nat by lia. cbn [length map seq].
      rewrite msg_at_even, msg_at_odd, Hcv, Hg2. reflexivity.
    - apply ev_ok_app; assumption.
    - rewrite count_fin_app, Cf1, Cf2. change (m_fin s') with (if sv_fin stop t3 then m_fin s + 1 else m_fin s).
      rewrite Hsf. simpl. lia.
    - intros y Hy. rewrite count_fin_app, Cf1, (Cf3 y Hy). reflexivity.
  Qed.

End Global.
