(* P_Mgm2.v -- what is established about M_Mgm2.v: the two refutation witnesses for C03 / C04 on
   the code as it is (both are executions of the asynchronous model, replayed on the real code by
   the known-finding witnesses of harness/props/C03.py, C04.py), and the start behaviour of a
   variable without neighbour (C07). *)
From Coq Require Import ZArith List Bool Lia.
From PyDcop Require Import Base Net M_Mgm M_Mgm2.
Import ListNotations.
Open Scope Z_scope.

(* value held by n once the cycles <= k are over: last value selected while cycle_count <= k *)
Definition val_at (evs : list mev) (k : Z) (n : Z) : Z :=
  fold_left (fun acc e => match e with
                          | EvValue n' v _ c => if (n' =? n) && (c <=? k) then v else acc
                          | _ => acc end) evs 0.
Definition cycles_reached (evs : list mev) (n : Z) : Z :=
  fold_left (fun acc e => match e with EvCycle n' k => if n' =? n then Z.max acc k else acc | _ => acc end) evs 0.

Definition w03_d : dcop := (mkD [(0%Z, mkV [0%Z; 1%Z] (Some 0%Z) []); (1%Z, mkV [0%Z; 1%Z] (Some 0%Z) [])] [mkC [0%Z; 1%Z] [([0%Z; 0%Z], 2%Z); ([0%Z; 1%Z], 8%Z); ([1%Z; 0%Z], 4%Z); ([1%Z; 1%Z], 1%Z)]; mkC [0%Z] [([0%Z], 3%Z); ([1%Z], 5%Z)]] false).
Definition w03_orc : list (Z * list Z) := [(0%Z, [786%Z; 0%Z]); (1%Z, [366%Z; 0%Z])].
Definition w03_sched : list (@action) := [Start 1%Z; Start 0%Z; Deliver 1%Z 0%Z; Deliver 0%Z 1%Z; Deliver 0%Z 1%Z; Deliver 1%Z 0%Z; Deliver 0%Z 1%Z; Deliver 0%Z 1%Z; Deliver 1%Z 0%Z; Deliver 1%Z 0%Z; Deliver 0%Z 1%Z].
Definition w03_proto := mgm2_proto w03_d 2%Z 500%Z 0%Z (orc_of w03_orc).
Definition w04_d : dcop := (mkD [(0%Z, mkV [0%Z; 1%Z] (Some 0%Z) []); (1%Z, mkV [3%Z; 5%Z] (Some 3%Z) []); (2%Z, mkV [1%Z; 5%Z] (Some 1%Z) [])] [mkC [1%Z; 0%Z] [([3%Z; 0%Z], 0%Z); ([3%Z; 1%Z], 1%Z); ([5%Z; 0%Z], 1%Z); ([5%Z; 1%Z], 0%Z)]; mkC [1%Z; 2%Z] [([3%Z; 1%Z], 1%Z); ([3%Z; 5%Z], 0%Z); ([5%Z; 1%Z], 0%Z); ([5%Z; 5%Z], 0%Z)]] false).
Definition w04_orc : list (Z * list Z) := [(0%Z, [756%Z; 0%Z]); (1%Z, [262%Z; 0%Z]); (2%Z, [115%Z; 0%Z; 0%Z])].
Definition w04_sched : list (@action) := [Start 2%Z; Start 1%Z; Deliver 1%Z 0%Z; Deliver 1%Z 2%Z; Start 0%Z; Deliver 0%Z 1%Z; Deliver 1%Z 0%Z; Deliver 2%Z 1%Z; Deliver 1%Z 0%Z; Deliver 2%Z 1%Z; Deliver 1%Z 2%Z; Deliver 0%Z 1%Z; Deliver 0%Z 1%Z; Deliver 1%Z 2%Z; Deliver 0%Z 1%Z; Deliver 2%Z 1%Z; Deliver 1%Z 0%Z; Deliver 1%Z 0%Z; Deliver 0%Z 1%Z; Deliver 1%Z 2%Z].
Definition w04_proto := mgm2_proto w04_d 2%Z 500%Z 0%Z (orc_of w04_orc).

(* C03 refuted for MGM2 (min mode, no variable cost, two variables): v0 accepts v1's offer because
   _find_best_offer adds its FULL current cost (5, shared constraint included) instead of the cost
   of the non-shared constraints; both move, the global cost goes from 5 to 6. *)
Lemma mgm2_monotone_refuted_l :
  let evs := snd (run w03_proto w03_sched) in
  d_max w03_d = false
  /\ (forall n, In n [0; 1] -> 2 <= cycles_reached evs n)
  /\ map (val_at evs 0) [0; 1] = [0; 0] /\ map (val_at evs 1) [0; 1] = [1; 1]
  /\ gcost w03_d (val_at evs 0) = 5 /\ gcost w03_d (val_at evs 1) = 6.
Proof. vm_compute. repeat split; try reflexivity. intros n [<-|[<-|[]]]; discriminate. Qed.

(* C04 refuted for MGM2: v1 (offerer) is committed with v0 for a pair gain 1, its other neighbour
   v2 announces gain 1 as well: v1 gets NO-GO (needs strictly more) and v2 loses the lexical
   tie-break against v1; nobody moves although v2 := 5 alone improves the cost from 1 to 0. *)
Lemma mgm2_no_move_1opt_refuted_l :
  let evs := snd (run w04_proto w04_sched) in
  d_max w04_d = false
  /\ (forall n, In n [0; 1; 2] -> 2 <= cycles_reached evs n)
  /\ map (val_at evs 0) [0; 1; 2] = map (val_at evs 1) [0; 1; 2]
  /\ gcost w04_d (val_at evs 1) = 1 /\ In 5 (dom_of w04_d 2)
  /\ gcost w04_d (fupd (val_at evs 1) 2 5) = 0.
Proof. vm_compute. repeat split; try reflexivity; auto. intros n [<-|[<-|[<-|[]]]]; discriminate. Qed.

(* C07, local part: a variable without neighbour selects a value and reports finished at start,
   sends nothing *)
Lemma mgm2_isolated_finishes_l d stop thr favor orc n :
  nbrs d n = [] ->
  exists s v c, mgm2_start d stop thr favor n (mgm2_init orc n) = (s, [], [EvValue n v c 0; EvFinished n 0])
                /\ t_fin s = 1.
Proof.
  intros H. unfold mgm2_start. rewrite H.
  destruct (compute_best_value2 d n []) as [vals cost]. unfold mgm2_init. simpl.
  destruct (draw (orc n)) as [x o]. simpl. eexists _, _, _. split; reflexivity.
Qed.
