(* M_Select.v -- C10 "every value an algorithm selects lies in the variable's domain".
   Models only; proofs are in P_Select*.v.

   1. The funnel: VariableComputation.value_selection / random_value_selection / current_value
      (pydcop/infrastructure/computations.py), through which every algorithm reports a value.
   2. Selection-only models, as protocols of Net.v, of the three shipped algorithms nobody else
      models: dsatuto (hosted by the synchronous mixin of M_SyncMixin.v), adsa and gdba.
      "Selection-only": the control flow that leads to a value_selection call, the registers that
      hold candidate values (_new_value, current value), the randomness, the message counting and
      postponed-message replay are modelled as the code has them; the COST side is abstracted:
      whenever the code evaluates its constraints over the whole domain, the model reads the next
      record of a per-node stream [evs] (an explicit argument, like the random draws): the sign
      information the code branches on and the MASK over the domain of the values that reached
      the best cost (best values = the masked sub-list of the domain, in domain order, exactly
      how find_optimal / find_best_values / _compute_best_improvement build their lists by
      iterating over the domain).  Theorems quantify over all such streams.
      [iso n] is what relations.optimal_cost_value returns for an isolated variable (None = it
      raised); C06 (Prop_C06.optimal_cost_value_spec) proves it is a domain value.
   Values are integers (the harness maps each domain value to its index in the domain, and any
   selected object that is == to no domain element to -1). *)
From PyDcop Require Import Base Net M_SyncMixin.

(* ------------------------------------------------------------------ 1. the funnel *)
Record fun_st := mkFun { f_prev : option Z; f_value : option Z }.   (* _previous_val, __value__ *)
Definition fun_init : fun_st := mkFun None None.

(* value_selection(val, cost): fires _on_value_selection iff val != _previous_val *)
Definition fun_call (s : fun_st) (val : option Z) : fun_st * bool :=
  if option_eqb Z.eqb val (f_prev s) then (s, false) else (mkFun val val, true).

(* one observed call: argument, did _on_value_selection fire, current_value afterwards *)
Definition fcall := (option Z * bool * option Z)%type.
Fixpoint fun_replay (s : fun_st) (l : list fcall) : bool :=
  match l with
  | [] => true
  | (v, fired, after) :: r =>
      let '(s', f) := fun_call s v in
      Bool.eqb f fired && option_eqb Z.eqb (f_value s') after && fun_replay s' r
  end.

(* the same as a function: the values _on_value_selection is called with, in order *)
Fixpoint fun_exec (s : fun_st) (args : list (option Z)) : fun_st * list (option Z) :=
  match args with
  | [] => (s, [])
  | v :: r =>
      let '(s1, f) := fun_call s v in
      let '(s2, e) := fun_exec s1 r in
      (s2, if f then v :: e else e)
  end.

(* random_value_selection(): domain[randint(len(domain))] then value_selection; None = empty domain *)
Definition fun_random (s : fun_st) (dom : list Z) (i : Z) : option (fun_st * bool) :=
  match dom with
  | [] => None
  | _ => match nth_error dom (Z.to_nat (i mod Z.of_nat (List.length dom))) with
         | Some v => Some (fun_call s (Some v))
         | None => None
         end
  end.

(* ------------------------------------------------------------------ helpers *)
Definition draw (o : list Z) : Z * list Z := match o with [] => (0, []) | x :: r => (x, r) end.

(* random.choice(l) / domain[randint(len)] with the drawn index supplied; None = empty sequence *)
Definition pick (l : list Z) (i : Z) : option Z :=
  match l with
  | [] => None
  | _ => nth_error l (Z.to_nat (i mod Z.of_nat (List.length l)))
  end.

Fixpoint masked (dom : list Z) (m : list bool) : list Z :=
  match dom, m with
  | d :: r, b :: mr => if b then d :: masked r mr else masked r mr
  | _, _ => []
  end.

(* list.remove(x): first occurrence; ValueError (ignored by the callers) when absent *)
Fixpoint remove_first (x : Z) (l : list Z) : list Z :=
  match l with [] => [] | y :: r => if x =? y then r else y :: remove_first x r end.

Definition set_add (x : node) (l : list node) : list node := if zmem x l then l else l ++ [x].

Inductive sev :=
| SSel (n : node) (v : option Z)     (* _on_value_selection(v, ...) ; None = Python None *)
| SFin (n : node)                    (* finished() *)
| SErr (n : node) (k : Z).           (* 1 IndexError/ValueError of a choice in an empty sequence,
                                        2 evaluation stream exhausted (model input too short),
                                        3 optimal_cost_value raised,
                                        9 nested replay of a non-empty postponed list (not modelled) *)

(* value_selection on the pair (current value, event list) *)
Definition vsel (n : node) (cur : option Z) (v : option Z) : option Z * list sev :=
  if option_eqb Z.eqb v cur then (cur, []) else (v, [SSel n v]).

Section Problem.
  Variable dom : node -> list Z.
  Variable init : node -> option Z.          (* variable.initial_value *)
  Variable nbrs : node -> list node.         (* the computation's neighbours *)
  Variable iso : node -> option Z.           (* optimal_cost_value(variable, mode)[0] *)
  Variable mx : bool.                        (* mode == "max" *)

  Definition to_all {M} (n : node) (m : M) : list (node * M) := map (fun t => (t, m)) (nbrs n).

  (* ---------------------------------------------------------------- 2a. dsatuto
     hosted algorithm of the synchronous mixin: state, payload = DsaMessage.value *)
  Record tst := mkT {
    t_val : option Z;                (* current_value *)
    t_orc : list Z;                  (* draws of this node *)
    t_evs : list (bool * list bool); (* per on_new_cycle: current_cost - min_cost > 0, mask of arg_min *)
    t_log : list sev                 (* ghost: events, in order *)
  }.

  (* on_start: random_value_selection(); post_to_all_neighbors(DsaMessage(current_value)) *)
  Definition tuto_start (n : node) (s : tst) : tst * list (node * option Z) :=
    let '(i, o) := draw (t_orc s) in
    match pick (dom n) i with
    | None => (mkT (t_val s) o (t_evs s) (t_log s ++ [SErr n 1]), [])
    | Some v =>
        let '(cur, e) := vsel n (t_val s) (Some v) in
        (mkT cur o (t_evs s) (t_log s ++ e), to_all n cur)
    end.

  (* on_new_cycle: find_optimal; if current_cost - min_cost > 0 and 0.5 > random.random():
     value_selection(arg_min[0]); post_to_all_neighbors(DsaMessage(current_value)); return None *)
  Definition tuto_cycle (n : node) (s : tst) (k : nat) (msgs : list (node * option Z))
    : tst * list (node * option Z) * list (node * option Z) :=
    match t_evs s with
    | [] => (mkT (t_val s) (t_orc s) [] (t_log s ++ [SErr n 2]), [], [])
    | (improving, mask) :: evs' =>
        if improving then
          let '(r, o) := draw (t_orc s) in
          if r <? 500 then
            match masked (dom n) mask with
            | [] => (mkT (t_val s) o evs' (t_log s ++ [SErr n 1]), [], [])
            | v :: _ =>
                let '(cur, e) := vsel n (t_val s) (Some v) in
                (mkT cur o evs' (t_log s ++ e), to_all n cur, [])
            end
          else (mkT (t_val s) o evs' (t_log s), to_all n (t_val s), [])
        else (mkT (t_val s) (t_orc s) evs' (t_log s), to_all n (t_val s), [])
    end.

  Variable orc : node -> list Z.
  Variable tevs : node -> list (bool * list bool).

  Definition tuto_algo : algo tst (option Z) :=
    mkAlgo (fun n => mkT None (orc n) (tevs n) []) tuto_start tuto_cycle.
  Definition dsatuto_proto : proto (sst tst (option Z)) (wmsg (option Z)) (ev (option Z)) :=
    sync_proto nbrs tuto_algo.

  (* ---------------------------------------------------------------- 2b. adsa
     periodic actions are self-messages: on_start arms the delayed start, every ATick handled
     by a started, running computation re-arms itself. *)
  Inductive amsg := AVal (v : option Z) | ATick.

  Record ast_ := mkA {
    a_started : bool;               (* delayed_start has run *)
    a_stopped : bool;               (* finished() + stop() (isolated variable) *)
    a_val : option Z;
    a_keys : list node;             (* keys of current_assignment *)
    a_orc : list Z;
    a_evs : list (bool * bool * list bool)   (* per full tick: delta > 0, violated constraint, mask *)
  }.

  Variable variant : Z.             (* 0 A, 1 B, 2 C *)
  Variable prob : Z.                (* probability * 1000 *)
  Variable aevs : node -> list (bool * bool * list bool).

  (* probabilistic_change(best_cost, best_values) *)
  Definition prob_change (n : node) (s : ast_) (evs' : list (bool * bool * list bool)) (vals : list Z)
    : ast_ * list sev :=
    let '(r, o1) := draw (a_orc s) in
    if r <? prob then
      let '(i, o2) := draw o1 in
      match pick vals i with
      | None => (mkA (a_started s) (a_stopped s) (a_val s) (a_keys s) o2 evs', [SErr n 1])
      | Some v =>
          let '(cur, e) := vsel n (a_val s) (Some v) in
          (mkA (a_started s) (a_stopped s) cur (a_keys s) o2 evs', e)
      end
    else (mkA (a_started s) (a_stopped s) (a_val s) (a_keys s) o1 evs', []).

  (* if len(best_values) > 1: try: best_values.remove(current_value) *)
  Definition without_cur (cur : option Z) (vals : list Z) : list Z :=
    match cur with
    | Some c => if (1 <? Z.of_nat (List.length vals)) then remove_first c vals else vals
    | None => vals
    end.

  Definition adsa_tick (n : node) (s : ast_) : ast_ * list (node * amsg) * list sev :=
    let '(s1, e1) :=
      if Nat.eqb (List.length (a_keys s)) (List.length (nbrs n)) then
        match a_evs s with
        | [] => (s, [SErr n 2])
        | (dpos, viol, mask) :: evs' =>
            let bests := masked (dom n) mask in
            let keep := mkA (a_started s) (a_stopped s) (a_val s) (a_keys s) (a_orc s) evs' in
            if dpos then prob_change n s evs' bests
            else if variant =? 0 then (keep, [])
            else if variant =? 1 then
              if viol then prob_change n s evs' (without_cur (a_val s) bests) else (keep, [])
            else prob_change n s evs' (without_cur (a_val s) bests)
        end
      else (s, []) in
    (s1, to_all n (AVal (a_val s1)) ++ [(n, ATick)], e1).

  Definition adsa_delayed_start (n : node) (s : ast_) : ast_ * list (node * amsg) * list sev :=
    match nbrs n with
    | [] =>
        match iso n with
        | None => (mkA true (a_stopped s) (a_val s) (a_keys s) (a_orc s) (a_evs s), [], [SErr n 3])
        | Some v =>
            let '(cur, e) := vsel n (a_val s) (Some v) in
            (mkA true true cur (a_keys s) (a_orc s) (a_evs s), [], e ++ [SFin n])
        end
    | _ =>
        let '(i, o) := draw (a_orc s) in
        match pick (dom n) i with
        | None => (mkA true (a_stopped s) (a_val s) (a_keys s) o (a_evs s), [(n, ATick)], [SErr n 1])
        | Some v =>
            let '(cur, e) := vsel n (a_val s) (Some v) in
            (mkA true (a_stopped s) cur (a_keys s) o (a_evs s), to_all n (AVal cur) ++ [(n, ATick)], e)
        end
    end.

  (* on_start: delay = random.random() * period; add_periodic_action(delay, delayed_start) *)
  Definition adsa_start (n : node) (s : ast_) : ast_ * list (node * amsg) * list sev :=
    let '(_, o) := draw (a_orc s) in
    (mkA (a_started s) (a_stopped s) (a_val s) (a_keys s) o (a_evs s), [(n, ATick)], []).

  Definition adsa_recv (n : node) (s : ast_) (src : node) (m : amsg) : ast_ * list (node * amsg) * list sev :=
    match m with
    | ATick =>
        if a_stopped s then (s, [], [])
        else if a_started s then adsa_tick n s else adsa_delayed_start n s
    | AVal _ =>
        (mkA (a_started s) (a_stopped s) (a_val s) (set_add src (a_keys s)) (a_orc s) (a_evs s), [], [])
    end.

  Definition adsa_init (n : node) : ast_ := mkA false false None [] (orc n) (aevs n).
  Definition adsa_proto : proto ast_ amsg sev := mkProto adsa_init adsa_start adsa_recv.

  (* ---------------------------------------------------------------- 2c. gdba *)
  Inductive gmode := GStarting | GOkM | GImpM.
  Inductive gmsg := GOk (v : option Z) | GImp (i : Z).

  Record gst := mkG {
    g_mode : gmode;                  (* _waiting_mode *)
    g_val : option Z;                (* current_value *)
    g_new : option Z;                (* _new_value *)
    g_imp : Z;                       (* _my_improve *)
    g_nvals : list node;             (* keys of _neighbors_values *)
    g_nimps : list (node * Z);       (* _neighbors_improvements (improve field) *)
    g_pok : list (node * option Z);  (* __postponed_ok_messages__ *)
    g_pimp : list (node * Z);        (* __postponed_improve_messages__ *)
    g_orc : list Z;
    g_evs : list (Z * list bool)     (* per completed ok phase: cost - best_eval, mask of bests *)
  }.
  Variable gevs : node -> list (Z * list bool).

  Definition g_set_mode m s := mkG m (g_val s) (g_new s) (g_imp s) (g_nvals s) (g_nimps s) (g_pok s) (g_pimp s) (g_orc s) (g_evs s).
  Definition g_set_pok x s := mkG (g_mode s) (g_val s) (g_new s) (g_imp s) (g_nvals s) (g_nimps s) x (g_pimp s) (g_orc s) (g_evs s).
  Definition g_set_pimp x s := mkG (g_mode s) (g_val s) (g_new s) (g_imp s) (g_nvals s) (g_nimps s) (g_pok s) x (g_orc s) (g_evs s).

  (* state, sent, events, raised (Python stack unwound) *)
  Definition gres := (gst * list (node * gmsg) * list sev * bool)%type.

  Definition improving (i : Z) : bool := if mx then i <? 0 else 0 <? i.

  Definition g_guard_pok (n : node) (s : gst) : gres :=
    match g_pok s with [] => (s, [], [], false) | _ => (s, [], [SErr n 9], true) end.
  Definition g_guard_pimp (n : node) (s : gst) : gres :=
    match g_pimp s with [] => (s, [], [], false) | _ => (s, [], [SErr n 9], true) end.

  (* _handle_ok_message ; [nested] = the loop of _go_to_wait_improve_mode *)
  Definition g_ok_step (n : node) (nested : gst -> gres) (s : gst) (src : node) (v : option Z) : gres :=
    let nv := set_add src (g_nvals s) in
    let s1 := mkG (g_mode s) (g_val s) (g_new s) (g_imp s) nv (g_nimps s) (g_pok s) (g_pimp s) (g_orc s) (g_evs s) in
    if Nat.eqb (List.length nv) (List.length (nbrs n)) then
      match g_evs s with
      | [] => (s1, [], [SErr n 2], true)
      | (imp, mask) :: evs' =>
          if improving imp then
            let '(i, o) := draw (g_orc s) in
            match pick (masked (dom n) mask) i with
            | None => (mkG (g_mode s) (g_val s) (g_new s) imp nv (g_nimps s) (g_pok s) (g_pimp s) o evs',
                       [], [SErr n 1], true)
            | Some w =>
                let s2 := mkG GImpM (g_val s) (Some w) imp nv (g_nimps s) (g_pok s) (g_pimp s) o evs' in
                let '(s3, o3, e3, r3) := nested s2 in
                (s3, to_all n (GImp imp) ++ o3, e3, r3)
            end
          else
            let s2 := mkG GImpM (g_val s) (g_val s) imp nv (g_nimps s) (g_pok s) (g_pimp s) (g_orc s) evs' in
            let '(s3, o3, e3, r3) := nested s2 in
            (s3, to_all n (GImp imp) ++ o3, e3, r3)
      end
    else (s1, [], [], false).

  (* the loop over _neighbors_improvements.items(): (maxi, max_list) *)
  Definition g_max_list (n : node) (mine : Z) (l : list (node * Z)) : Z * list node :=
    fold_left (fun acc p => let '(maxi, ml) := acc in
                 if maxi <? snd p then (snd p, [fst p])
                 else if snd p =? maxi then (maxi, ml ++ [fst p]) else acc)
              l (mine, [n]).
  (* break_ties(max_list) == self.name : names sort like their ids *)
  Definition g_wins (n : node) (ml : list node) : bool :=
    zmem n ml && forallb (fun m => n <=? m) ml.

  (* _handle_improve_message ; [nested] = the loop of _go_to_wait_ok_mode *)
  Definition g_imp_step (n : node) (nested : gst -> gres) (s : gst) (src : node) (i : Z) : gres :=
    let ni := dict_set Z.eqb src i (g_nimps s) in
    if Nat.eqb (List.length ni) (List.length (nbrs n)) then
      let '(maxi, ml) := g_max_list n (g_imp s) ni in
      let '(cur, e) := if improving (g_imp s) && g_wins n ml then vsel n (g_val s) (g_new s)
                       else (g_val s, []) in
      let s2 := mkG GOkM cur (g_new s) (g_imp s) [] [] (g_pok s) (g_pimp s) (g_orc s) (g_evs s) in
      let '(s3, o3, e3, r3) := nested s2 in
      (s3, to_all n (GOk cur) ++ o3, e ++ e3, r3)
    else (mkG (g_mode s) (g_val s) (g_new s) (g_imp s) (g_nvals s) ni (g_pok s) (g_pimp s) (g_orc s) (g_evs s),
          [], [], false).

  Fixpoint g_replay {M : Type} (h : gst -> node -> M -> gres) (s : gst) (l : list (node * M)) : gres :=
    match l with
    | [] => (s, [], [], false)
    | (src, m) :: r =>
        let '(s1, o1, e1, r1) := h s src m in
        if r1 then (s1, o1, e1, true)
        else let '(s2, o2, e2, r2) := g_replay h s1 r in (s2, o1 ++ o2, e1 ++ e2, r2)
    end.

  (* _go_to_wait_improve_mode (mode already set) / _go_to_wait_ok_mode *)
  Definition g_go_imp (n : node) (s : gst) : gres :=
    let '(s1, o, e, r) := g_replay (g_imp_step n (g_guard_pok n)) s (g_pimp s) in
    if r then (s1, o, e, true) else (g_set_pimp [] s1, o, e, false).
  Definition g_go_ok (n : node) (s : gst) : gres :=
    let '(s1, o, e, r) := g_replay (g_ok_step n (g_guard_pimp n)) s (g_pok s) in
    if r then (s1, o, e, true) else (g_set_pok [] s1, o, e, false).

  Definition g_strip (r : gres) : gst * list (node * gmsg) * list sev :=
    let '(s, o, e, _) := r in (s, o, e).

  Definition gdba_recv (n : node) (s : gst) (src : node) (m : gmsg) : gst * list (node * gmsg) * list sev :=
    match m with
    | GOk v =>
        match g_mode s with
        | GOkM => g_strip (g_ok_step n (g_go_imp n) s src v)
        | _ => (g_set_pok (g_pok s ++ [(src, v)]) s, [], [])
        end
    | GImp i =>
        match g_mode s with
        | GImpM => g_strip (g_imp_step n (g_go_ok n) s src i)
        | _ => (g_set_pimp (g_pimp s ++ [(src, i)]) s, [], [])
        end
    end.

  Definition gdba_start (n : node) (s : gst) : gst * list (node * gmsg) * list sev :=
    match nbrs n with
    | [] =>
        match iso n with
        | None => (s, [], [SErr n 3])
        | Some v =>
            let '(cur, e) := vsel n (g_val s) (Some v) in
            (mkG (g_mode s) cur (g_new s) (g_imp s) (g_nvals s) (g_nimps s) (g_pok s) (g_pimp s) (g_orc s) (g_evs s),
             [], e ++ [SFin n])
        end
    | _ =>
        let first :=
          match init n with
          | Some v => Some (Some v, g_orc s)
          | None => let '(i, o) := draw (g_orc s) in
                    match pick (dom n) i with Some v => Some (Some v, o) | None => None end
          end in
        match first with
        | None => (s, [], [SErr n 1])
        | Some (v, o) =>
            let '(cur, e) := vsel n (g_val s) v in
            let s1 := mkG GOkM cur (g_new s) (g_imp s) (g_nvals s) (g_nimps s) (g_pok s) (g_pimp s) o (g_evs s) in
            let '(s2, o2, e2, _) := g_go_ok n s1 in
            (s2, to_all n (GOk cur) ++ o2, e ++ e2)
        end
    end.

  Definition gdba_init (n : node) : gst := mkG GStarting None None 0 [] [] [] [] (orc n) (gevs n).
  Definition gdba_proto : proto gst gmsg sev := mkProto gdba_init gdba_start gdba_recv.
End Problem.

(* ------------------------------------------------------------------ 3. correspondence *)
Definition oz_eqb := option_eqb Z.eqb.
Definition sev_eqb (a b : sev) : bool :=
  match a, b with
  | SSel n v, SSel n' v' => (n =? n') && oz_eqb v v'
  | SFin n, SFin n' => n =? n'
  | SErr n k, SErr n' k' => (n =? n') && (k =? k')
  | _, _ => false
  end.

Definition assoc {V} (dflt : V) (l : list (node * V)) (n : node) : V :=
  match zlookup n l with Some x => x | None => dflt end.

(* one problem + one recorded run *)
Record srun := mkRun {
  r_dom : list (node * list Z);
  r_init : list (node * option Z);
  r_nbrs : list (node * list node);
  r_iso : list (node * option Z);
  r_max : bool;
  r_orc : list (node * list Z);
  r_sched : list (@action);
  r_events : list sev;                    (* observed SSel / SFin / SErr, in order *)
  r_final : list (node * option Z)        (* observed current_value of every variable computation *)
}.

Inductive amodel :=
| ANone                                                          (* funnel only *)
| ATuto (r : srun) (evs : list (node * list (bool * list bool)))
| AAdsa (r : srun) (variant prob : Z) (evs : list (node * list (bool * bool * list bool)))
| AGdba (r : srun) (evs : list (node * list (Z * list bool))).

(* one run of one algorithm: the value_selection calls of every variable computation (any
   algorithm), and for dsatuto / adsa / gdba the whole run against the selection-only model *)
Record case := mkCase { c_funnel : list (list fcall); c_model : amodel }.

Definition final_ok {St} (val : St -> option Z) (st : node -> St) (l : list (node * option Z)) : bool :=
  forallb (fun q => oz_eqb (val (st (fst q))) (snd q)) l.

Definition ev_node (e : sev) : node := match e with SSel n _ => n | SFin n => n | SErr n _ => n end.

Definition check_model (m : amodel) : bool :=
  match m with
  | ANone => true
  | ATuto r evs =>
      let P := dsatuto_proto (assoc [] (r_dom r)) (assoc [] (r_nbrs r)) (assoc [] (r_orc r)) (assoc [] evs) in
      let '(cf, _) := run P (r_sched r) in
      (* the mixin's own events are C08's; the selections are in the ghost logs, per node *)
      forallb (fun q => list_eqb sev_eqb (t_log (ast (w_st (nodes cf (fst q)))))
                                         (filter (fun e => ev_node e =? fst q) (r_events r)))
              (r_final r)
      && final_ok (fun s => t_val (ast s)) (fun n => w_st (nodes cf n)) (r_final r)
  | AAdsa r variant prob evs =>
      let P := adsa_proto (assoc [] (r_dom r)) (assoc [] (r_nbrs r)) (assoc None (r_iso r))
                          (assoc [] (r_orc r)) variant prob (assoc [] evs) in
      let '(cf, e) := run P (r_sched r) in
      list_eqb sev_eqb e (r_events r) && final_ok a_val (fun n => w_st (nodes cf n)) (r_final r)
  | AGdba r evs =>
      let P := gdba_proto (assoc [] (r_dom r)) (assoc None (r_init r)) (assoc [] (r_nbrs r)) (assoc None (r_iso r))
                          (r_max r) (assoc [] (r_orc r)) (assoc [] evs) in
      let '(cf, e) := run P (r_sched r) in
      list_eqb sev_eqb e (r_events r) && final_ok g_val (fun n => w_st (nodes cf n)) (r_final r)
  end.

Definition check_case (c : case) : bool :=
  forallb (fun_replay fun_init) (c_funnel c) && check_model (c_model c).
