(* M_Ilp.v -- cost models, hard rules and ILP objectives of pydcop.distribution.oilp_cgdp and
   ilp_fgdp (property C24).  Models only; proofs are in P_Ilp.v.

   The ILPs are modelled at the level of their integral points: a 0/1 assignment of the x (and
   f) variables satisfying the "hosted once" rows IS a distribution D (computation -> agent);
   every auxiliary linearisation variable is forced by its rows to the product of its two x
   variables, so feasibility and objective value are functions of D.  The correspondence run
   checks exactly this against the PuLP problem the real code builds (captured before solve and
   evaluated at every distribution of the instance). *)
From PyDcop Require Import Base M_Dist.

Record ginst := mkG { g_inst : inst; g_links : list (list Z) (* cg.links, nodes in iteration order *) }.

Definition agent_of (I : inst) (a : Z) : option agent := find (fun g => g_id g =? a) (i_agents I).
Definition dget (D : list (Z * Z)) (c : Z) : Z := match zlookup c D with Some a => a | None => -1 end.

(* itertools.combinations(l, 2) *)
Fixpoint pairs (l : list Z) : list (Z * Z) :=
  match l with [] => [] | x :: r => map (pair x) r ++ pairs r end.

(* oilp_cgdp.msg_load_func / route_fonc / hosting_cost_func *)
Definition msg_load (I : inst) (c1 c2 : Z) : Z :=
  match node_of I c1 with
  | Some nd => zsum (map (fun l => if zmem c2 l then load I c1 c2 else 0) (n_links nd))
  | None => 0
  end.
Definition route_f (I : inst) (a1 a2 : Z) : Z :=
  match agent_of I a1 with Some g => route g a2 | None => 0 end.
Definition hosting_f (I : inst) (a c : Z) : Z :=
  match agent_of I a with Some g => hosting_cost g c | None => 0 end.

Definition link_pairs (G : ginst) : list (Z * Z) := flat_map pairs (g_links G).

Definition comm_term (I : inst) (D : list (Z * Z)) (p : Z * Z) : Z :=
  route_f I (dget D (fst p)) (dget D (snd p)) * msg_load I (fst p) (snd p).
Definition hosting_sum (I : inst) (D : list (Z * Z)) : Z :=
  zsum (map (fun nd => hosting_f I (dget D (n_id nd)) (n_id nd)) (i_nodes I)).

(* oilp_cgdp.distribution_cost -> (comm, hosting); cost = 0.8 comm + 0.2 hosting *)
Definition oilp_cost (G : ginst) (D : list (Z * Z)) : Z * Z :=
  (zsum (map (comm_term (g_inst G) D) (link_pairs G)), hosting_sum (g_inst G) D).

(* objective of ilp_cgdp at D: one pair of beta variables per DISTINCT ordered pair (c1,c2)
   (`if (c1, a1, c2, a2) in betas: continue`) *)
Fixpoint dedup_pairs (l : list (Z * Z)) (seen : list (Z * Z)) : list (Z * Z) :=
  match l with
  | [] => []
  | p :: r => if existsb (zz_eqb p) seen then dedup_pairs r seen else p :: dedup_pairs r (p :: seen)
  end.
Definition oilp_obj (G : ginst) (D : list (Z * Z)) : Z * Z :=
  (zsum (map (comm_term (g_inst G) D) (dedup_pairs (link_pairs G) [])), hosting_sum (g_inst G) D).

(* hard rules *)
Definition hosted_on (I : inst) (D : list (Z * Z)) (a : Z) : Z :=
  zsum (map (fun nd => if dget D (n_id nd) =? a then n_fp nd else 0) (i_nodes I)).
Definition cap_ok (I : inst) (D : list (Z * Z)) : bool :=
  forallb (fun g => hosted_on I D (g_id g) <=? g_cap g) (i_agents I).
Definition pin_ok (I : inst) (D : list (Z * Z)) : bool :=
  forallb (fun g => forallb (fun nd =>
    if hosting_cost g (n_id nd) =? 0 then dget D (n_id nd) =? g_id g else true) (i_nodes I)) (i_agents I).
Definition all_host (I : inst) (D : list (Z * Z)) : bool :=
  forallb (fun g => existsb (fun nd => dget D (n_id nd) =? g_id g) (i_nodes I)) (i_agents I).

Definition oilp_feasible (G : ginst) (D : list (Z * Z)) : bool :=
  cap_ok (g_inst G) D && pin_ok (g_inst G) D.
Definition fgdp_feasible (G : ginst) (D : list (Z * Z)) : bool :=
  cap_ok (g_inst G) D && pin_ok (g_inst G) D && all_host (g_inst G) D.

(* ilp_fgdp.  A link of a factor graph has two ends; link.variable_node is the variable *)
Definition is_var (I : inst) (c : Z) : bool :=
  match node_of I c with Some nd => n_kind nd =? 0 | None => false end.
Definition orient (I : inst) (l : list Z) : Z * Z :=
  match l with
  | [x; y] => if is_var I x then (x, y) else (y, x)
  | _ => (0, 0)
  end.
(* ilp_fgdp.distribution_cost -> (comm, 0) *)
Definition fgdp_cost (G : ginst) (D : list (Z * Z)) : Z * Z :=
  (zsum (map (fun p => if dget D (fst p) =? dget D (snd p) then 0
                       else load (g_inst G) (fst p) (snd p)) (link_pairs G)), 0).
(* _objective_function: - sum load(variable, factor) * alpha, alpha = both on the same agent *)
Definition fgdp_obj (G : ginst) (D : list (Z * Z)) : Z * Z :=
  (- zsum (map (fun l => let '(v, f) := orient (g_inst G) l in
                         if dget D v =? dget D f then load (g_inst G) v f else 0) (g_links G)), 0).

(* ------------------------------------------------------------------ correspondence *)
Inductive ilp_method := MOilp | MFgdp.
Record row := mkRow { r_D : list (Z * Z); r_cost : Z * Z; r_feas : option bool; r_obj : option (Z * Z) }.
Record case := mkCase { c_method : ilp_method; c_G : ginst; c_rows : list row }.

Definition check_row (m : ilp_method) (G : ginst) (r : row) : bool :=
  let cost := match m with MOilp => oilp_cost G (r_D r) | MFgdp => fgdp_cost G (r_D r) end in
  let feas := match m with MOilp => oilp_feasible G (r_D r) | MFgdp => fgdp_feasible G (r_D r) end in
  let obj := match m with MOilp => oilp_obj G (r_D r) | MFgdp => fgdp_obj G (r_D r) end in
  zz_eqb cost (r_cost r)
  && match r_feas r with None => true | Some b => Bool.eqb b feas end
  && match r_obj r with None => true | Some o => zz_eqb o obj end.

Definition check_case (c : case) : bool := forallb (check_row (c_method c) (c_G c)) (c_rows c).
