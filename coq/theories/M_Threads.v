(* M_Threads.v -- which thread executes a computation callback (C21).
   Executable model of the DISPATCH logic of the thread-mode runtime:
     pydcop/infrastructure/agents.py        Agent.start/_run/_on_start/_handle_message/
                                            _process_periodic_action/_on_stop, run,
                                            pause_computations, unpause_computations,
                                            add_computation, remove_computation, stop,
                                            clean_shutdown
     pydcop/infrastructure/communication.py Messaging.post_msg, InProcessCommunicationLayer
                                            .send_msg -> receive_msg -> post_msg (enqueue only)
     pydcop/infrastructure/orchestrator.py  Orchestrator.start/deploy_computations/
                                            start_replication/run/stop_agents/stop/_mgt_method/
                                            _on_timeout/_process_event
     pydcop/infrastructure/orchestratedagents.py  OrchestrationComputation._handlers
   A real run is a set of "items": one outermost entry into the runtime on some thread (a root)
   together with the computation callbacks executed synchronously inside it.  The model says,
   for every root the code has, on which thread it runs and which callback kinds it can reach
   inline; [exec] returns the callback events with their thread, or None when the code has no
   such call chain.  OS preemption is not modelled: a thread is sequential by definition.
   Models only; proofs are in P_Threads.v. *)
From PyDcop Require Import Base.

Inductive thread := TMain | TTimer | TAgent (a : string).
Definition thread_eqb (x y : thread) : bool :=
  match x, y with
  | TMain, TMain | TTimer, TTimer => true
  | TAgent a, TAgent b => String.eqb a b
  | _, _ => false
  end.

(* callback kinds of C21 *)
Inductive kind := KStart | KOnMessage | KPause | KPeriodic | KDiscCb
                | KHandler.   (* a message-handler method of a management computation: AgentsMgt._on_* /
                                 _orchestrator_*, OrchestrationComputation._on_* (reached from on_message) *)
Definition kind_eqb (x y : kind) : bool :=
  match x, y with
  | KStart, KStart | KOnMessage, KOnMessage | KPause, KPause | KPeriodic, KPeriodic
  | KDiscCb, KDiscCb | KHandler, KHandler => true
  | _, _ => false
  end.
Definition kmem (k : kind) (l : list kind) : bool := existsb (kind_eqb k) l.

(* ---- entry points an arbitrary thread can call ---- *)
Inductive api :=
| ApiAgentStart        (* Agent.start: Thread(target=_run).start() *)
| ApiStop              (* Agent.stop: sets _stopping *)
| ApiCleanShutdown     (* Agent.clean_shutdown: sets _shutdown, messaging.shutdown() *)
| ApiPostMsg           (* Messaging.post_msg / receive_msg: queue.put, or forward to the peer's
                          receive_msg -> its post_msg; discovery lookup / subscription only *)
| ApiRun               (* Agent.run: c.start() for each computation, INLINE *)
| ApiPause             (* Agent.pause_computations: c.pause(True) INLINE *)
| ApiUnpause           (* Agent.unpause_computations: c.pause(False) INLINE *)
| ApiAddComputation    (* Agent.add_computation: discovery.register_computation fires the local
                          discovery callbacks INLINE *)
| ApiRemoveComputation (* Agent.remove_computation: comp.stop(), unregister: callbacks INLINE *)
| ApiOrchStart | ApiOrchDeploy | ApiOrchStartReplication | ApiOrchRun | ApiOrchStopAgents
| ApiOrchStop | ApiOrchMgtMethod | ApiOrchOnTimeout | ApiOrchProcessEvent
| ApiOrchRead          (* end_metrics / current_solution / current_global_cost / replication_metrics:
                          read the management computation's tables on the caller's thread, no handler *)
| ApiOrchWaitReady.    (* wait_ready: waits on an Event *)

(* Orchestrator methods in terms of the agent-level entry points they call on the
   orchestrator's own agent (orchestrator.py) *)
Definition orch_expand (f : api) : list api :=
  match f with
  | ApiOrchStart => [ApiAgentStart; ApiRun; ApiAddComputation; ApiRun]
      (* _own_agt.start(); _own_agt.run(directory); _own_agt.add_computation(mgt); _own_agt.run(mgt) *)
  | ApiOrchDeploy | ApiOrchStartReplication | ApiOrchMgtMethod => [ApiPostMsg]
  | ApiOrchProcessEvent => [ApiPostMsg]
      (* _process_event (caller of run() or a threading.Timer): a scenario event is handed to the
         management computation ONLY as a posted '_orchestrator_scenario_event' message *)
  | ApiOrchRun => [ApiPostMsg; ApiPostMsg; ApiCleanShutdown]
      (* posts the run request; with a scenario calls _process_event, which posts the first
         non-delay events through _mgt_method; + Timer creation, waits, join *)
  | ApiOrchStopAgents | ApiOrchOnTimeout => [ApiPostMsg]
  | ApiOrchStop => [ApiStop]
  | g => [g]
  end.

(* callback kinds an agent-level entry point executes on the CALLER's thread *)
Definition base_inline (f : api) : list kind :=
  match f with
  | ApiRun => [KStart]
  | ApiPause | ApiUnpause => [KPause]
  | ApiAddComputation | ApiRemoveComputation => [KDiscCb]
  | _ => []
  end.
Definition inline_kinds (f : api) : list kind := flat_map base_inline (orch_expand f).

(* ---- the agent's own loop (Agent._run, on Thread 'thread_<name>') ---- *)
(* management messages and what OrchestrationComputation._handlers does with them *)
Inductive mgtmsg := MgMetricsMode | MgDeploy | MgReplication | MgRun | MgPause | MgResume
                  | MgSetupRepair | MgRepairRun | MgStop | MgAgentRemoved.
Definition mgt_handler (m : mgtmsg) : list api :=
  match m with
  | MgMetricsMode => []                       (* may call set_periodic_action *)
  | MgDeploy => [ApiAddComputation]           (* build_computation; agent.add_computation *)
  | MgReplication => [ApiPostMsg]             (* replication_comp.replicate(k) *)
  | MgRun => [ApiRun]                         (* agent.run(computations) *)
  | MgPause => [ApiPause]
  | MgResume => [ApiUnpause]
  | MgSetupRepair => [ApiRemoveComputation; ApiAddComputation; ApiPostMsg]
                                              (* setup_repair: unregister, add repair comps, answer *)
  | MgRepairRun => [ApiRun]                   (* c.computation.start() for the repair computations *)
  | MgStop | MgAgentRemoved => [ApiPostMsg; ApiStop]
  end.

Inductive root :=
| RLoopOnStart                 (* _run -> _on_start: discovery, mgt, replication computations start *)
| RLoopMgt (m : mgtmsg)        (* _run -> _handle_message -> OrchestrationComputation.on_message *)
| RLoopMsg                     (* _run -> _handle_message -> any other computation's on_message *)
| RLoopPeriodic                (* _run -> _process_periodic_action *)
| RLoopOnStop                  (* _run -> _on_stop *)
| RApi (f : api).

(* callback kinds reachable inside a root *)
Definition root_kinds (r : root) : list kind :=
  match r with
  | RLoopOnStart => [KStart; KDiscCb]
  | RLoopMgt m => KOnMessage :: KHandler :: KDiscCb :: flat_map inline_kinds (mgt_handler m)
  | RLoopMsg => [KOnMessage; KHandler; KDiscCb; KStart; KPause]
      (* algorithm / discovery / replication handlers: discovery callbacks; a finished repair
         computation makes ResilientAgent start + pause the re-hosted computation, add and
         remove computations *)
  | RLoopPeriodic => [KPeriodic; KDiscCb]
  | RLoopOnStop => [KDiscCb]
  | RApi f => inline_kinds f
  end.
Definition is_loop (r : root) : bool := match r with RApi _ => false | _ => true end.

Record item := mkItem {
  i_root : root;
  i_thread : thread;                         (* the thread that made this outermost call *)
  i_target : string;                         (* the agent whose object is entered *)
  i_calls : list (string * string * kind)    (* (agent, computation, kind) reached inside *)
}.
Record cbev := mkEv { ce_agent : string; ce_comp : string; ce_kind : kind; ce_thread : thread }.

(* None = the runtime has no such call chain *)
Definition exec (it : item) : option (list cbev) :=
  if is_loop (i_root it) && negb (thread_eqb (i_thread it) (TAgent (i_target it))) then None
  else if forallb (fun c => String.eqb (fst (fst c)) (i_target it)
                            && kmem (snd c) (root_kinds (i_root it))) (i_calls it)
  then Some (map (fun c => mkEv (fst (fst c)) (snd (fst c)) (snd c) (i_thread it)) (i_calls it))
  else None.

(* ---- correspondence ---- *)
Definition cbev_eqb (x y : cbev) : bool :=
  String.eqb (ce_agent x) (ce_agent y) && String.eqb (ce_comp x) (ce_comp y)
  && kind_eqb (ce_kind x) (ce_kind y) && thread_eqb (ce_thread x) (ce_thread y).

(* a case = the distinct items observed in one real run, each with the observed callback
   events (agent, computation, kind, executing thread) *)
Record case := mkCase { c_items : list (item * list cbev) }.
Definition check_item (io : item * list cbev) : bool :=
  match exec (fst io) with
  | Some evs => list_eqb cbev_eqb evs (snd io)
  | None => false
  end.
Definition check_case (c : case) : bool := forallb check_item (c_items c).

(* owner-thread predicate used by the statements *)
Definition on_owner_thread (e : cbev) : bool := thread_eqb (ce_thread e) (TAgent (ce_agent e)).
