(* Prop_C02.v -- C02: SyncBB finds the optimum of every binary-constraint DCOP, for any start
   order and any per-channel-FIFO delivery order.  Only statements; each is closed by a lemma
   of P_SyncBB.

   Vocabulary (P_SyncBB.v): a *path* is the list of (variable, value, cost) triples SyncBB sends,
   kept reversed; [wfp] = labels are 0..k-1, values are in their domains and every cost is the
   exact cost against the earlier variables; [full f] = a well-formed path over all n variables,
   i.e. a total in-domain assignment, and [path_bound f] is its total cost ([path_bound_total]:
   equal to the sum of the constraint tables).  [WF] = at least one variable, every domain
   non-empty and duplicate-free, and -- in min mode only -- non-negative pair costs.
   [P] is the SyncBB protocol plugged into the asynchronous network of Net.v; a schedule is any
   list of Start / Deliver actions. *)
From PyDcop Require Import Base Net M_SyncBB P_SyncBB.

(* get_next_assignment returns the first value after the current one that no prefix of the
   path prunes, with its exact cost against the path; None iff all later values are pruned *)
Theorem next_assignment_spec : forall is_min dom pc j cur rp u,
  match next_assignment is_min dom pc j cur rp u with
  | Some (v, c) =>
      exists mid suf, candidates dom j cur = mid ++ v :: suf
        /\ (forall x, In x mid -> scan is_min pc rp j x u = None)
        /\ scan is_min pc rp j v u = Some c /\ c = ccost pc rp j v
  | None => forall x, In x (candidates dom j cur) -> scan is_min pc rp j x u = None
  end.
Proof. exact next_assignment_spec_l. Qed.

(* pruning is sound: a pruned value cannot lead to a total assignment better than the bound
   (only min mode prunes; needs non-negative costs) *)
Theorem scan_prune_sound : forall is_min dom pc rest u B f,
  pc_ok is_min pc -> wfp dom pc rest ->
  scan is_min pc rest (Z.of_nat (List.length rest)) u B = None ->
  wfp dom pc f -> through f rest u ->
  exists b, B = Some b /\ nworse is_min b (path_bound f).
Proof. exact pruned_covered. Qed.

(* at most one message exists in the whole network (channels and pre-start buffers) *)
Theorem syncbb_one_token : forall is_min n dom pc sched,
  WF is_min n dom pc -> one_message (fst (run (P is_min n dom pc) sched)).
Proof. exact syncbb_one_token_l. Qed.

(* the branch-and-bound invariant (DESIGN: bb_inv), for every schedule: the network is in one of
   four phases -- nothing sent yet / one token in a channel / one token buffered by a computation
   that has not started / all finished -- and the token satisfies [TokInv]: its path is
   well-formed with exact costs, every total assignment lexicographically before the path (and,
   for a backward message, below it) costs no less than the bound, the bound is the cost of a
   total assignment g, and every computation either holds (bound, g's value) or holds a worse
   bound while the path still carries g's value for it. *)
Theorem bb_inv : forall is_min n dom pc sched,
  WF is_min n dom pc -> exists phi, Inv is_min n dom pc (fst (run (P is_min n dom pc) sched)) phi.
Proof. exact bb_inv_l. Qed.

(* C02, safety part: for EVERY schedule, once the first computation has called finished() the
   values held by the computations are a total in-domain assignment g whose cost is optimal
   among all total assignments (<= all in min mode, >= all in max mode) *)
Theorem syncbb_optimal : forall is_min n dom pc sched,
  WF is_min n dom pc ->
  let cf := fst (run (P is_min n dom pc) sched) in
  (1 <= fin (w_st (nodes cf 0%Z)))%nat ->
  exists g, full n dom pc g
    /\ (forall f, full n dom pc f -> nworse is_min (path_bound g) (path_bound f))
    /\ forall j, 0 <= j < n -> value (w_st (nodes cf j)) = pval g j.
Proof. exact syncbb_optimal_l. Qed.

(* the same in the DCOP's own terms: domains as lists, constraints as cost tables, objective =
   sum of the tables *)
Theorem syncbb_optimal_total_cost : forall is_min doms cons sched,
  WFc is_min doms cons ->
  let cf := fst (run (proto_of is_min doms cons) sched) in
  let n := Z.of_nat (List.length doms) in
  (1 <= fin (w_st (nodes cf 0%Z)))%nat ->
  exists a : Z -> Z,
    (forall j, 0 <= j < n -> value (w_st (nodes cf j)) = Some (a j) /\ In (a j) (dom_of doms j))
    /\ forall a', (forall j, 0 <= j < n -> In (a' j) (dom_of doms j)) ->
         if is_min then total_cost cons a <= total_cost cons a'
         else total_cost cons a' <= total_cost cons a.
Proof. exact syncbb_optimal_total_cost_l. Qed.

(* C02, no deadlock: if a schedule ends in a configuration where nothing can happen any more
   (every computation started, every channel empty) then the terminate message has reached
   every computation -- each has finished exactly once -- and the held assignment is optimal *)
Theorem syncbb_quiescent_all_finished : forall is_min n dom pc sched,
  WF is_min n dom pc ->
  let cf := fst (run (P is_min n dom pc) sched) in
  quiescent n cf ->
  (forall j, 0 <= j < n -> fin (w_st (nodes cf j)) = 1%nat)
  /\ FinalInv is_min n dom pc (sts cf).
Proof. exact syncbb_quiescent_l. Qed.

Theorem syncbb_finished_at_most_once : forall is_min n dom pc sched j,
  WF is_min n dom pc -> 0 <= j < n ->
  (fin (w_st (nodes (fst (run (P is_min n dom pc) sched)) j)) <= 1)%nat.
Proof. exact syncbb_fin_once_l. Qed.

(* C02, termination: along ANY schedule the number of effective actions -- the start of a
   computation of the problem that has not started yet, or the delivery of a message -- is at
   most [step_bound], a number that depends on the problem only (domain sizes): no schedule makes
   SyncBB run for ever.  With the two theorems above: a schedule that keeps executing enabled
   actions reaches, within that many actions, the quiescent configuration in which every
   computation has finished on the optimum. *)
Theorem syncbb_terminates : forall is_min n dom pc sched,
  WF is_min n dom pc ->
  (eff_count is_min n dom pc (init (P is_min n dom pc)) sched <= step_bound n dom)%nat.
Proof. exact syncbb_terminates_l. Qed.

(* min mode WITHOUT the non-negativity guard is false of the code: a schedule of a 3-variable
   DCOP with one negative cost ends, everything finished, on an assignment that is not optimal *)
Theorem syncbb_min_negative_costs_refuted :
  exists doms cons sched,
    doms <> [] /\ (forall d, In d doms -> d <> [] /\ NoDup d) /\ scopes_ok doms cons /\
    let cf := fst (run (proto_of true doms cons) sched) in
    let n := Z.of_nat (List.length doms) in
    exists a a' : Z -> Z,
      (forall j, 0 <= j < n -> fin (w_st (nodes cf j)) = 1%nat /\ value (w_st (nodes cf j)) = Some (a j))
      /\ (forall j, 0 <= j < n -> In (a' j) (dom_of doms j))
      /\ total_cost cons a' < total_cost cons a.
Proof. exact syncbb_min_negative_costs_refuted_l. Qed.

(* non-vacuity: a 3-variable min problem satisfying WFc; a complete schedule (late start of the
   last computation, so the token waits in its pre-start buffer) ends with every computation
   finished once, no message left, on the assignment (1, 0, 1) of cost 2 = the optimum, after
   having first selected the worse assignment (0, 0, 0) of cost 9 *)
Definition ex_doms : list (list Z) := [[0; 1]; [0; 1]; [0; 1]].
Definition ex_cons : list con := [(0, 1, [[4; 3]; [1; 6]]); (2, 1, [[2; 5]; [1; 7]]); (0, 2, [[3; 8]; [9; 0]])].
Definition ex_sched : list (@action) :=
  [Start 1; Start 0; Deliver 0 1; Deliver 1 2; Start 2] ++
  flat_map (fun _ => [Deliver 2 1; Deliver 1 2; Deliver 1 0; Deliver 0 1]) (seq 0 12).

Example c02_nonvacuous :
  WFc true ex_doms ex_cons /\
  let '(cf, evs) := run (proto_of true ex_doms ex_cons) ex_sched in
  map (fun j => (value (w_st (nodes cf j)), fin (w_st (nodes cf j)))) [0; 1; 2]
    = [(Some 1, 1%nat); (Some 0, 1%nat); (Some 1, 1%nat)]
  /\ total_cost ex_cons (fun j => nth (Z.to_nat j) [1; 0; 1] 0) = 2
  /\ forallb (fun a => forallb (fun b => forallb (fun c =>
        2 <=? total_cost ex_cons (fun j => nth (Z.to_nat j) [a; b; c] 0)) [0; 1]) [0; 1]) [0; 1] = true
  /\ existsb (fun e => match e with EvSel 2 0 (Some 9) => true | _ => false end) evs = true
  /\ forallb (fun s => forallb (fun d => match chan cf s d with [] => true | _ => false end) [0; 1; 2]) [0; 1; 2] = true.
Proof.
  split.
  - split; [discriminate|]. split; [|split].
    + intros d [<-|[<-|[<-|[]]]]; (split; [discriminate|]); repeat constructor; simpl; intuition lia.
    + intros a b m [H|[H|[H|[]]]]; inversion H; simpl; lia.
    + intros _ a b m row x [H|[H|[H|[]]]]; inversion H; subst; simpl; intuition (subst; simpl in *; intuition lia).
  - vm_compute. repeat split; reflexivity.
Qed.
