(* P_Discovery2T.v -- C20 deepening, part 5: callbacks along a TRACE.
   For every configuration (hence every configuration of every trace) and every action: if the step
   makes node n's entry for computation c become g (it was not g before), then the events of the step
   that are computation_added callbacks about c are exactly one invocation per registration in n's
   callback table before the step, in registration order, with value g, and after the step the table
   holds the same registrations minus the one-shot ones.  The only steps that do this are the delivery
   of publish_computation(c, g, _) and the operation register_computation(c, ...). *)
From PyDcop Require Import Base Net M_Discovery P_Discovery P_Discovery2 P_Discovery2C.
From Coq Require Import Lia.

Local Arguments bind : simpl never.

Definition iscb3 (c : Z) (e : ev) : bool :=
  match e with EvCb _ _ 3 c' _ => c' =? c | _ => false end.

Lemma fire_filter3 own c v l : filter (iscb3 c) (fire own 3 c v l) = fire own 3 c v l.
Proof. unfold fire. induction l as [|p r IH]; simpl; auto. now rewrite Z.eqb_refl, IH. Qed.
Lemma fire_filter_other own k c' v l c : k <> 3 -> filter (iscb3 c) (fire own k c' v l) = [].
Proof.
  intros Hk. unfold fire. induction l as [|p r IH]; simpl; auto.
  destruct k as [|k|k]; try exact IH. do 2 (destruct k; try exact IH). congruence.
Qed.
Lemma fire_all_filter_other own k c' v l c : k <> 3 -> filter (iscb3 c) (fire_all own k c' v l) = [].
Proof.
  intros Hk. unfold fire_all. induction l as [|p r IH]; simpl; auto.
  destruct k as [|k|k]; try exact IH. do 2 (destruct k; try exact IH). congruence.
Qed.

Lemma reg_agent_E3 s a ad p c : filter (iscb3 c) (rE (d_register_agent s a ad p)) = [].
Proof.
  unfold d_register_agent. dm; simpl; auto; rewrite ?filter_app, ?fire_filter_other, ?fire_all_filter_other by discriminate; auto.
Qed.

(* ---- which messages can make the entry of c become g *)
Lemma unreg_comp_vc s c' ag p c :
  vc (rS (d_unregister_computation s c' ag p)) c = vc s c \/ vc (rS (d_unregister_computation s c' ag p)) c = None.
Proof.
  destruct (Z.eq_dec c c') as [->|Hne]; [|left; now apply unreg_comp_other].
  unfold d_unregister_computation, vc. dm; simpl; auto.
  - right. rewrite !bind_S. simpl. dm; simpl; rewrite ?unsub_comp_comps; simpl; apply zlookup_zdel_same.
  - right. apply zlookup_zdel_same.
Qed.

Lemma unregister_all_vc l a c : forall s,
  vc (rS (unregister_all s l a)) c = vc s c \/ vc (rS (unregister_all s l a)) c = None.
Proof.
  induction l as [|c' r IH]; intros s; simpl; auto.
  rewrite bind_S. destruct (rX (d_unregister_computation s c' (Some a) false)); [apply unreg_comp_vc|].
  destruct (IH (rS (d_unregister_computation s c' (Some a) false))) as [H|H]; auto.
  rewrite H. apply unreg_comp_vc.
Qed.

Lemma unreg_agent_vc s a p c :
  vc (rS (d_unregister_agent s a p)) c = vc s c \/ vc (rS (d_unregister_agent s a p)) c = None.
Proof.
  unfold d_unregister_agent.
  match goal with |- context[bind ?r _] => set (r1 := r) end.
  assert (H1 : vc (rS r1) c = vc s c \/ vc (rS r1) c = None).
  { subst r1. dm; auto. apply unregister_all_vc. }
  rewrite bind_S. destruct (rX r1); auto.
  assert (E : forall x, vc x c = zlookup c (d_comps x)) by reflexivity.
  dm; simpl; rewrite ?E in *; simpl; exact H1.
Qed.

Definition registers (s : dstate) (c g : Z) (m : msg) : Prop :=
  (exists addr, m = MPubComp c g addr) \/
  (exists ag addr, m = MOp (OpRegComp c ag addr) /\ g = match ag with Some x => x | None => d_own s end).

Lemma comp_becomes s m c g :
  vc (rS (disc_recv s m)) c = Some g -> vc s c <> Some g -> registers s c g m.
Proof.
  intros H1 H0.
  assert (Same : vc (rS (disc_recv s m)) c = vc s c \/ vc (rS (disc_recv s m)) c = None -> registers s c g m).
  { intros [E|E]; rewrite E in H1; [contradiction|discriminate]. }
  assert (RC : forall ag addr p, vc (rS (d_register_computation s c ag addr p)) c = Some g ->
               g = match ag with Some x => x | None => d_own s end).
  { intros ag addr p Hv. pose proof (reg_comp_gen s c ag addr p) as H. simpl in H.
    destruct H as [(_ & E & _)|(_ & _ & E & _)].
    - rewrite E in Hv. contradiction.
    - unfold vc in Hv. rewrite E, zlookup_zset_same in Hv. congruence. }
  assert (RCo : forall c' ag addr p, c' <> c -> vc (rS (d_register_computation s c' ag addr p)) c = vc s c).
  { intros c' ag addr p Hne. pose proof (reg_comp_gen s c' ag addr p) as H. simpl in H.
    destruct H as [(_ & E & _)|(_ & _ & E & _)]; [now rewrite E|].
    unfold vc. rewrite E. apply zlookup_zset_other. congruence. }
  destruct m as [o|y ad|l|y|y b|c' g' addr|c' ag|c' b|r' g0 b|r' b]; cbn [disc_recv] in *.
  - destruct (is_subop o) eqn:Es; [apply Same; left; unfold vc; now rewrite subop_comps|].
    destruct o as [y ad|y|c' g' addr|c' g'|r' g'|r' g'| | | | | | |]; simpl in *; try discriminate.
    + apply Same. left. unfold vc. now rewrite reg_agent_comps.
    + apply Same. apply unreg_agent_vc.
    + destruct (Z.eq_dec c' c) as [->|Hne]; [|apply Same; left; now apply RCo].
      right. exists g', addr. split; auto. eapply RC; eauto.
    + apply Same. apply unreg_comp_vc.
    + apply Same. left. unfold vc. now rewrite reg_rep_comps.
    + apply Same. left. unfold vc. now rewrite unreg_rep_comps.
  - apply Same. left. unfold vc. now rewrite reg_agent_comps.
  - apply Same. left. unfold vc. now rewrite register_agents_comps.
  - apply Same. apply unreg_agent_vc.
  - apply Same. left; reflexivity.
  - destruct (Z.eq_dec c' c) as [->|Hne]; [|apply Same; left; now apply RCo].
    left. exists addr. f_equal. symmetry. apply (RC (Some g') addr false H1).
  - apply Same. apply unreg_comp_vc.
  - apply Same. left; reflexivity.
  - apply Same. left. destruct b; cbn [disc_recv]; unfold vc; [now rewrite reg_rep_comps|now rewrite unreg_rep_comps].
  - apply Same. left; reflexivity.
Qed.

(* ---- the registration fires each registered callback exactly once and discards the one-shot ones *)
Lemma reg_comp_events s c ag addr p g :
  vc (rS (d_register_computation s c ag addr p)) c = Some g -> vc s c <> Some g ->
  filter (iscb3 c) (rE (d_register_computation s c ag addr p))
    = fire (d_own s) 3 c (Some g) (get_or_nil c (d_ccbs s)) /\
  zlookup c (d_ccbs (rS (d_register_computation s c ag addr p)))
    = option_map drop_oneshot (zlookup c (d_ccbs s)).
Proof.
  intros H1 H0.
  assert (Eg : g = match ag with Some x => x | None => d_own s end).
  { pose proof (reg_comp_gen s c ag addr p) as H. simpl in H.
    destruct H as [(_ & E & _)|(_ & _ & E & _)].
    - rewrite E in H1. contradiction.
    - unfold vc in H1. rewrite E, zlookup_zset_same in H1. congruence. }
  revert H1. unfold d_register_computation.
  destruct (is_none addr && _); [intros H1; simpl in H1; contradiction|]. intros _.
  rewrite <- Eg. unfold vc in H0. rewrite (neq_change _ _ H0).
  rewrite bind_E, bind_S.
  match goal with |- context[rX ?r] => set (r2 := r) end.
  assert (H2 : rX r2 = None /\ filter (iscb3 c) (rE r2) = [] /\ d_ccbs (rS r2) = d_ccbs s).
  { subst r2. destruct addr as [ad|]; simpl; auto. destruct (zmemk _ _); simpl; auto.
    rewrite reg_agent_X, reg_agent_E3, reg_agent_ccbs. auto. }
  destruct H2 as (HX & HE & HC). rewrite HX, filter_app, HE, HC. simpl.
  unfold get_or_nil. destruct (zlookup c (d_ccbs s)) as [l|] eqn:El; simpl.
  - rewrite fire_filter3. split; [unfold cbl in *; now rewrite ?El|]. rewrite ?HC. apply zlookup_zset_same.
  - split; [unfold cbl in *; now rewrite ?El|]. rewrite ?HC. exact El.
Qed.

Lemma callbacks_computation_added_exact s m c g :
  vc (rS (disc_recv s m)) c = Some g -> vc s c <> Some g ->
  filter (iscb3 c) (rE (disc_recv s m)) = fire (d_own s) 3 c (Some g) (get_or_nil c (d_ccbs s)) /\
  zlookup c (d_ccbs (rS (disc_recv s m))) = option_map drop_oneshot (zlookup c (d_ccbs s)).
Proof.
  intros H1 H0. destruct (comp_becomes s m c g H1 H0) as [(addr & ->)|(ag & addr & -> & _)]; simpl in *.
  - now apply reg_comp_events.
  - now apply reg_comp_events.
Qed.

(* ---- lifted to the steps of the network: every configuration, every action *)
Lemma exc_filter (c : Z) (n : node) (x : option Z) : filter (iscb3 c) (exc_ev n x) = [].
Proof. destruct x; reflexivity. Qed.

Lemma callbacks_trace_computation_added_l : forall (h : hist_t) (cf : config nst msg) (act : action) (n c g : Z),
  0 < n ->
  let P := disc_proto h in
  let cf' := fst (step P cf act) in
  let d := n_disc (w_st (nodes cf n)) in
  let d' := n_disc (w_st (nodes cf' n)) in
  zlookup c (d_comps d') = Some g -> zlookup c (d_comps d) <> Some g ->
  (* exactly one invocation per registration, in order *)
  filter (iscb3 c) (snd (step P cf act))
    = fire (d_own d) 3 c (Some g) (get_or_nil c (d_ccbs d)) /\
  (* one-shot callbacks are discarded, the others kept *)
  zlookup c (d_ccbs d') = option_map drop_oneshot (zlookup c (d_ccbs d)).
Proof.
  intros h cf act n c g Hn P cf' d d'. subst cf' d d'.
  destruct act as [k|s dst]; unfold step; cbn [p_recv p_start disc_proto].
  - intros H1 H0. exfalso. apply H0. revert H1.
    destruct (w_running (nodes cf k)); simpl; auto.
    unfold disc_start. destruct (k <? 0); simpl; unfold upd_node; destruct (n =? k) eqn:E; simpl; auto;
      apply Z.eqb_eq in E; subst; auto.
  - destruct (chan cf s dst) as [|m q] eqn:Ec; simpl; [intros H1 H0; contradiction|].
    destruct (w_running (nodes cf dst)) eqn:Er.
    + unfold node_recv. destruct (Z.eq_dec n dst) as [<-|Hne].
      * assert (E0 : (n =? 0) = false) by (apply Z.eqb_neq; lia). rewrite E0.
        assert (E1 : (0 <? n) = true) by (apply Z.ltb_lt; lia). rewrite E1.
        pose proof (callbacks_computation_added_exact (n_disc (w_st (nodes cf n))) m c g) as HC.
        destruct (disc_recv (n_disc (w_st (nodes cf n))) m) as [[[d1 o1] e1] x1] eqn:Ed. simpl in *.
        rewrite upd_node_same. simpl. intros H1 H0. destruct (HC H1 H0) as [HC1 HC2]. split; auto.
        rewrite filter_app, exc_filter, app_nil_r. exact HC1.
      * intros H1 H0. exfalso. apply H0. revert H1.
        destruct (dst =? 0); [destruct (dir_recv _ _ _) as [[[? ?] ?] ?]|destruct (0 <? dst); [destruct (disc_recv _ _) as [[[? ?] ?] ?]|]];
          simpl; rewrite upd_node_other by auto; auto.
    + simpl. intros H1 H0. exfalso. apply H0. revert H1. unfold upd_node. destruct (n =? dst) eqn:E; simpl; auto.
      apply Z.eqb_eq in E; subst; auto.
Qed.
