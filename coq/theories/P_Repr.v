(* P_Repr.v -- proofs about the wire-format model M_Repr.v (C15). *)
From PyDcop Require Import Base P_Base M_AgentDef M_Repr.
From Coq Require Import DecimalString Decimal DecimalZ.
Open Scope string_scope.
Arguments MOD : simpl never.
Arguments QUAL : simpl never.

(* ---------- induction principle for the nested type ---------- *)
Section PyInd.
  Variable P : py -> Prop.
  Hypothesis HNone : P PNone.
  Hypothesis HMissing : P PMissing.
  Hypothesis HBool : forall b, P (PBool b).
  Hypothesis HInt : forall z, P (PInt z).
  Hypothesis HFloat : forall r, P (PFloat r).
  Hypothesis HStr : forall s, P (PStr s).
  Hypothesis HList : forall l, Forall P l -> P (PList l).
  Hypothesis HTuple : forall l, Forall P l -> P (PTuple l).
  Hypothesis HSet : forall l, Forall P l -> P (PSet l).
  Hypothesis HDict : forall d, Forall (fun kv => P (snd kv)) d -> P (PDict d).
  Hypothesis HNamed : forall m q f, Forall (fun nv => P (snd nv)) f -> P (PNamed m q f).
  Hypothesis HObj : forall m q f, Forall (fun nv => P (snd nv)) f -> P (PObj m q f).
  Hypothesis HMsg : forall t f, Forall (fun nv => P (snd nv)) f -> P (PMsg t f).

  Fixpoint py_ind' (v : py) : P v :=
    let fix go (l : list py) : Forall P l :=
      match l with [] => Forall_nil _ | x :: r => Forall_cons _ (py_ind' x) (go r) end in
    let fix god (l : list (py * py)) : Forall (fun kv => P (snd kv)) l :=
      match l with [] => Forall_nil _ | x :: r => Forall_cons _ (py_ind' (snd x)) (god r) end in
    let fix gof (l : list (string * py)) : Forall (fun kv => P (snd kv)) l :=
      match l with [] => Forall_nil _ | x :: r => Forall_cons _ (py_ind' (snd x)) (gof r) end in
    match v with
    | PNone => HNone | PMissing => HMissing | PBool b => HBool b | PInt z => HInt z
    | PFloat r => HFloat r | PStr s => HStr s
    | PList l => HList l (go l) | PTuple l => HTuple l (go l) | PSet l => HSet l (go l)
    | PDict d => HDict d (god d)
    | PNamed m q f => HNamed m q f (gof f)
    | PObj m q f => HObj m q f (gof f)
    | PMsg t f => HMsg t f (gof f)
    end.
End PyInd.

(* ---------- which values are wire-safe ---------- *)
Definition key_string (k : py) : string := match k with PStr s => s | _ => "" end.
Definition is_str (k : py) : bool := match k with PStr _ => true | _ => false end.
Definition float_ok (nan : bool) (r : string) : bool := nan || negb (special_float r).
Definition scalar_ok (nan : bool) (v : py) : bool :=
  match v with
  | PNone | PBool _ | PInt _ | PStr _ => true
  | PFloat r => float_ok nan r
  | _ => false
  end.
Definition names_ok (names : list string) : bool :=
  nodupb String.eqb names && forallb (fun n => negb (reserved n)) names.
Definition norm_free (q : string) : bool :=
  negb (String.eqb q "Domain" || String.eqb q "Link" || String.eqb q "ConstraintLink" || String.eqb q "tuple").

Fixpoint safe (nan : bool) (v : py) : bool :=
  match v with
  | PNone | PBool _ | PInt _ | PStr _ => true
  | PFloat r => float_ok nan r
  | PList l => forallb (safe nan) l
  | PDict d =>
      forallb (fun kv => is_str (fst kv)) d
      && nodupb String.eqb (map (fun kv => key_string (fst kv)) d)
      && negb (existsb (String.eqb QUAL) (map (fun kv => key_string (fst kv)) d)
               && existsb (String.eqb MOD) (map (fun kv => key_string (fst kv)) d))
      && forallb (fun kv => safe nan (snd kv)) d
  | PObj m q f =>
      match kind_of m q with KGeneric => true | _ => false end
      && norm_free q && names_ok (map fst f)
      && forallb (fun nv => negb (is_hidden (fst nv))) f
      && forallb (fun nv => safe nan (snd nv)) f
  | PMsg t f =>
      names_ok (map fst f) && forallb (fun n => negb (String.eqb n "__type__")) (map fst f)
      && forallb (fun nv => safe nan (snd nv)) f
  | PTuple _ | PNamed _ _ _       (* not covered by the proof yet: see generic_roundtrip_partial *)
  | PSet _ | PMissing => false
  end.

(* ---------- small facts ---------- *)
Lemma mapM_nil {A B} (f : A -> res B) : mapM f [] = Ok [].
Proof. reflexivity. Qed.
Lemma mapM_cons {A B} (f : A -> res B) x r :
  mapM f (x :: r) = bind (f x) (fun y => bind (mapM f r) (fun ys => Ok (y :: ys))).
Proof. reflexivity. Qed.
Global Opaque mapM.

Lemma mapM_ok {A} (xs : list A) : mapM (fun x : res A => x) (map Ok xs) = Ok xs.
Proof.
  induction xs as [|x r IH]; simpl; [apply mapM_nil|]. rewrite mapM_cons, IH. reflexivity.
Qed.

Lemma mapM_snd_ok {K A} (d : list (K * A)) :
  mapM (fun kv : K * res A => bind (snd kv) (fun r => Ok (fst kv, r)))
       (map (fun ks => (fst ks, Ok (snd ks))) d) = Ok d.
Proof.
  induction d as [|[k a] r IH]; simpl; [apply mapM_nil|]. rewrite mapM_cons, IH. reflexivity.
Qed.

Lemma entries_ok (f : list (string * py)) :
  entries (map (fun ns => (fst ns, Ok (snd ns))) f) = Ok (map (fun ns => (PStr (fst ns), snd ns)) f).
Proof.
  unfold entries. induction f as [|[n a] r IH]; simpl; [apply mapM_nil|].
  rewrite mapM_cons, IH. reflexivity.
Qed.

Definition T (nan : bool) (v s r : py) : Prop :=
  simple_repr v = Ok s /\ json_rt nan s = Ok r /\ from_repr r = Ok v.

Lemma list_T nan l :
  Forall (fun v => safe nan v = true -> exists s r, T nan v s r) l ->
  forallb (safe nan) l = true ->
  exists ss rs, map simple_repr l = map Ok ss /\ map (json_rt nan) ss = map Ok rs
                /\ map from_repr rs = map Ok l.
Proof.
  induction 1 as [|v l Hv Hl IH]; simpl; intros Hs.
  - exists [], []. auto.
  - apply andb_true_iff in Hs as [H1 H2]. destruct (Hv H1) as (s & r & Hs1 & Hs2 & Hs3).
    destruct (IH H2) as (ss & rs & E1 & E2 & E3).
    exists (s :: ss), (r :: rs). simpl. rewrite Hs1, Hs2, Hs3, E1, E2, E3. auto.
Qed.

Lemma fields_T {K} nan (f : list (K * py)) :
  Forall (fun nv => safe nan (snd nv) = true -> exists s r, T nan (snd nv) s r) f ->
  forallb (fun nv => safe nan (snd nv)) f = true ->
  exists fs fr : list (K * py),
    map (fun nv => (fst nv, simple_repr (snd nv))) f = map (fun ns => (fst ns, Ok (snd ns))) fs
    /\ map fst fs = map fst f
    /\ map (fun ns => (fst ns, json_rt nan (snd ns))) fs = map (fun nr => (fst nr, Ok (snd nr))) fr
    /\ map fst fr = map fst f
    /\ map (fun nr => (fst nr, from_repr (snd nr))) fr = map (fun nv => (fst nv, Ok (snd nv))) f.
Proof.
  induction 1 as [|[n v] l Hv Hl IH]; simpl; intros Hs.
  - exists [], []. auto.
  - apply andb_true_iff in Hs as [H1 H2]. destruct (Hv H1) as (s & r & Hs1 & Hs2 & Hs3).
    destruct (IH H2) as (fs & fr & E1 & E2 & E3 & E4 & E5). simpl in *.
    exists ((n, s) :: fs), ((n, r) :: fr). simpl. rewrite Hs1, Hs2, Hs3, E1, E2, E3, E4, E5. auto.
Qed.

(* ---------- dictionaries with string keys ---------- *)
Definition skeys (f : list (string * py)) : list (py * py) := map (fun ns => (PStr (fst ns), snd ns)) f.

Lemma json_entries_ok (fr : list (string * py)) :
  mapM (fun kv : py * res py => bind (json_key (fst kv)) (fun k => bind (snd kv) (fun r => Ok (k, r))))
       (map (fun nr => (PStr (fst nr), Ok (snd nr))) fr) = Ok fr.
Proof.
  induction fr as [|[n a] r IH]; simpl; [apply mapM_nil|]. rewrite mapM_cons, IH. reflexivity.
Qed.

Lemma skeys_id (fr : list (string * py)) :
  map (fun kr : string * py => (PStr (fst kr), snd kr)) fr = skeys fr.
Proof. reflexivity. Qed.

(* json on a dict whose keys are strings and whose values are already handled *)
Lemma json_dict nan (e e' : list (string * py)) :
  map (fun ns => (fst ns, json_rt nan (snd ns))) e = map (fun nr => (fst nr, Ok (snd nr))) e' ->
  nodupb String.eqb (map fst e) = true ->
  json_rt nan (PDict (skeys e)) = Ok (PDict (skeys e')).
Proof.
  intros E N. simpl. unfold skeys. rewrite map_map. simpl.
  assert (map (fun x : string * py => (PStr (fst x), json_rt nan (snd x))) e
          = map (fun nr : string * py => (PStr (fst nr), Ok (snd nr))) e') as ->.
  { revert e' E. induction e as [|[n a] r IH]; intros [|[n' a'] r']; simpl; intros E; try discriminate; auto.
    inversion E; subst. f_equal. apply IH; auto.
    simpl in N. apply andb_true_iff in N as [_ N]. exact N. }
  rewrite json_entries_ok. simpl.
  assert (map fst e' = map fst e) as ->.
  { revert e' E. clear N. induction e as [|[n a] r IH]; intros [|[n' a'] r']; simpl; intros E; try discriminate; auto.
    inversion E; subst. f_equal. apply IH; auto. }
  rewrite N. reflexivity.
Qed.

Lemma dget_skeys_notin {V} k (f : list (string * V)) (g : string * V -> V) rest :
  forallb (fun n => negb (String.eqb k n)) (map fst f) = true ->
  dget k (map (fun ns => (PStr (fst ns), g ns)) f ++ rest) = dget k rest.
Proof.
  induction f as [|[n a] r IH]; simpl; auto. intros H. apply andb_true_iff in H as [H1 H2].
  apply negb_true_iff in H1. rewrite H1. auto.
Qed.

Lemma not_reserved_neq n : negb (reserved n) = true ->
  String.eqb QUAL n = false /\ String.eqb MOD n = false.
Proof.
  unfold reserved. intros H. apply negb_true_iff in H. apply orb_false_iff in H as [H1 H2].
  rewrite String.eqb_sym in H1. rewrite String.eqb_sym in H2. auto.
Qed.

Lemma names_not k names :
  (forall n, negb (reserved n) = true -> String.eqb k n = false) ->
  forallb (fun n => negb (reserved n)) names = true ->
  forallb (fun n => negb (String.eqb k n)) names = true.
Proof.
  intros Hk. induction names as [|n r IH]; simpl; auto. intros H.
  apply andb_true_iff in H as [H1 H2]. rewrite (Hk n H1). simpl. auto.
Qed.

Definition not_res_key (kv : py * res py) : bool :=
  match fst kv with PStr s => negb (reserved s) | _ => true end.

Lemma kwargs_fields (f : list (string * py)) :
  forallb (fun n => negb (reserved n)) (map fst f) = true ->
  kwargs (map (fun nv => (PStr (fst nv), Ok (snd nv))) f) = Ok f.
Proof.
  unfold kwargs. induction f as [|[n a] r IH]; simpl; intros H; [apply mapM_nil|].
  apply andb_true_iff in H as [H1 H2]. rewrite H1. rewrite mapM_cons. simpl. rewrite (IH H2). reflexivity.
Qed.

(* ---------- scalars ---------- *)
Lemma scalar_T nan v : scalar_ok nan v = true -> T nan v v v.
Proof.
  destruct v; simpl; try discriminate; intros H; repeat split; auto.
  unfold float_ok in H. destruct nan; simpl in *.
  - now rewrite andb_false_r.
  - apply negb_true_iff in H. now rewrite H.
Qed.

Lemma scalar_fields nan (f : list (string * py)) :
  forallb (fun nv => scalar_ok nan (snd nv)) f = true ->
  map (fun ns => (fst ns, json_rt nan (snd ns))) f = map (fun nr => (fst nr, Ok (snd nr))) f
  /\ map (fun kv : py * py => (fst kv, from_repr (snd kv))) (skeys f)
     = map (fun nv => (PStr (fst nv), Ok (snd nv))) f.
Proof.
  induction f as [|[n a] r IH]; simpl; intros H; auto.
  apply andb_true_iff in H as [H1 H2]. destruct (IH H2) as [E1 E2].
  destruct (scalar_T nan a H1) as (_ & J & F). simpl. rewrite J, F, E1. split; auto. f_equal. exact E2.
Qed.

Lemma dec_skeys (fr f : list (string * py)) :
  map (fun nr => (fst nr, from_repr (snd nr))) fr = map (fun nv => (fst nv, Ok (snd nv))) f ->
  map (fun kv : py * py => (fst kv, from_repr (snd kv))) (skeys fr)
  = map (fun nv => (PStr (fst nv), Ok (snd nv))) f.
Proof.
  revert f. induction fr as [|[n a] r IH]; intros [|[n' a'] f]; simpl; intros E; try discriminate; auto.
  inversion E; subst. f_equal. auto.
Qed.

Lemma map_fst_eq {A B C D} (l1 : list (A * B)) (l2 : list (A * C)) (g1 : B -> D) (g2 : C -> D) :
  map (fun x => (fst x, g1 (snd x))) l1 = map (fun x => (fst x, g2 (snd x))) l2 -> map fst l1 = map fst l2.
Proof.
  revert l2. induction l1 as [|[a b] r IH]; intros [|[a' c] r']; simpl; intros E; try discriminate; auto.
  inversion E; subst. f_equal. eauto.
Qed.

Lemma dget_hdr_qual {V} (a b : V) rest : dget QUAL ((PStr MOD, a) :: (PStr QUAL, b) :: rest) = Some b.
Proof. reflexivity. Qed.
Lemma dget_hdr_mod {V} (a b : V) rest : dget MOD ((PStr MOD, a) :: (PStr QUAL, b) :: rest) = Some a.
Proof. reflexivity. Qed.

Lemma dget_some_exists k (d : list (py * py)) v :
  dget k d = Some v -> existsb (String.eqb k) (map (fun kv => key_string (fst kv)) d) = true.
Proof.
  induction d as [|[kk a] r IH]; simpl; [discriminate|].
  destruct kk; simpl; auto; try (intros H; rewrite (IH H); apply orb_true_r).
  destruct (String.eqb k s); simpl; auto.
Qed.

Lemma str_keys_skeys (d : list (py * py)) :
  forallb (fun kv => is_str (fst kv)) d = true ->
  d = skeys (map (fun kv => (key_string (fst kv), snd kv)) d).
Proof.
  induction d as [|[k a] r IH]; simpl; auto. intros H. apply andb_true_iff in H as [H1 H2].
  destruct k; try discriminate. simpl. f_equal. auto.
Qed.

Lemma lift_keys {A B} (g : A -> res B) (fr : list (string * A)) (f : list (string * B)) :
  map (fun nr => (fst nr, g (snd nr))) fr = map (fun nv => (fst nv, Ok (snd nv))) f ->
  map (fun nr => (PStr (fst nr), g (snd nr))) fr = map (fun nv => (PStr (fst nv), Ok (snd nv))) f.
Proof.
  revert f. induction fr as [|[n a] r IH]; intros [|[n' a'] f]; simpl; intros E; try discriminate; auto.
  inversion E; subst. f_equal. auto.
Qed.

Lemma mapM_skeys_ok (fs : list (string * py)) :
  mapM (fun kv : py * res py => bind (snd kv) (fun r => Ok (fst kv, r)))
       (map (fun ns => (PStr (fst ns), Ok (snd ns))) fs) = Ok (skeys fs).
Proof.
  induction fs as [|[n a] r IH]; simpl; [apply mapM_nil|]. rewrite mapM_cons, IH. reflexivity.
Qed.

(* simple_repr / from_repr on a dict with string keys, one unfolding step *)
Lemma simple_repr_dict (e : list (string * py)) :
  simple_repr (PDict (skeys e)) =
  bind (mapM (fun kv : py * res py => bind (snd kv) (fun r => Ok (fst kv, r)))
             (map (fun ns => (PStr (fst ns), simple_repr (snd ns))) e))
       (fun x => Ok (PDict x)).
Proof. simpl. unfold skeys. rewrite map_map. reflexivity. Qed.

Lemma from_repr_dict (e : list (string * py)) :
  from_repr (PDict (skeys e)) =
  decode_dict (skeys e) (map (fun ns => (PStr (fst ns), from_repr (snd ns))) e).
Proof. simpl. unfold skeys. rewrite map_map. reflexivity. Qed.

Lemma plain_dict_T nan (e : list (string * py)) :
  Forall (fun nv => safe nan (snd nv) = true -> exists s r, T nan (snd nv) s r) e ->
  forallb (fun nv => safe nan (snd nv)) e = true ->
  nodupb String.eqb (map fst e) = true ->
  negb (existsb (String.eqb QUAL) (map fst e) && existsb (String.eqb MOD) (map fst e)) = true ->
  exists s r, T nan (PDict (skeys e)) s r.
Proof.
  intros HF HS HN HR.
  destruct (fields_T nan e HF HS) as (fs & fr & E1 & K1 & E2 & K2 & E3).
  exists (PDict (skeys fs)), (PDict (skeys fr)). repeat split.
  - rewrite simple_repr_dict, (lift_keys _ _ _ E1), mapM_skeys_ok. reflexivity.
  - apply json_dict; auto. now rewrite K1.
  - rewrite from_repr_dict, (lift_keys _ _ _ E3). unfold decode_dict.
    assert (Hk : map (fun kv : py * py => key_string (fst kv)) (skeys fr) = map fst e).
    { rewrite <- K2. unfold skeys. rewrite map_map. reflexivity. }
    destruct (dget QUAL (skeys fr)) eqn:DQ; [destruct (dget MOD (skeys fr)) eqn:DM|].
    + apply dget_some_exists in DQ. apply dget_some_exists in DM. rewrite Hk in DQ, DM.
      rewrite DQ, DM in HR. discriminate.
    + rewrite mapM_skeys_ok. reflexivity.
    + rewrite mapM_skeys_ok. reflexivity.
Qed.

Lemma names_ok_split names : names_ok names = true ->
  nodupb String.eqb names = true /\ forallb (fun n => negb (reserved n)) names = true.
Proof. unfold names_ok. intros H. now apply andb_true_iff in H. Qed.

Lemma nodup_hdr names :
  names_ok names = true -> nodupb String.eqb (MOD :: QUAL :: names) = true.
Proof.
  intros H. apply names_ok_split in H as [N R].
  assert (existsb (String.eqb MOD) names = false /\ existsb (String.eqb QUAL) names = false) as [A B].
  { clear N. induction names as [|n r IH]; cbn [existsb forallb] in *; auto.
    apply andb_true_iff in R as [R1 R2]. destruct (IH R2) as [A B].
    destruct (not_reserved_neq n R1) as [Q M]. rewrite Q, M, A, B. auto. }
  cbn [nodupb existsb]. rewrite A, B, N.
  change (String.eqb MOD QUAL) with false. reflexivity.
Qed.

Lemma no_missing_safe nan (f : list (string * py)) :
  forallb (fun nv => safe nan (snd nv)) f = true ->
  existsb (fun nv : string * py => match snd nv with PMissing => true | _ => false end) f = false.
Proof.
  induction f as [|[n a] r IH]; simpl; auto. intros H. apply andb_true_iff in H as [H1 H2].
  rewrite (IH H2). destruct a; simpl in *; auto; discriminate.
Qed.

Lemma hidden_nil {V} (f : list (string * V)) :
  forallb (fun nv => negb (is_hidden (fst nv))) f = true -> hidden f = [].
Proof.
  unfold hidden. induction f as [|[n a] r IH]; simpl; auto. intros H. apply andb_true_iff in H as [H1 H2].
  apply negb_true_iff in H1. rewrite H1. auto.
Qed.

Lemma hidden_map {A B} (f : list (string * A)) (g : A -> B) :
  hidden (map (fun nv => (fst nv, g (snd nv))) f) = map (fun nv => (fst nv, g (snd nv))) (hidden f).
Proof.
  unfold hidden. induction f as [|[n a] r IH]; simpl; auto. destruct (is_hidden n); simpl; now rewrite IH.
Qed.

Lemma obj_T nan m q (f : list (string * py)) :
  kind_of m q = KGeneric -> norm_free q = true -> names_ok (map fst f) = true ->
  forallb (fun nv => negb (is_hidden (fst nv))) f = true ->
  Forall (fun nv => safe nan (snd nv) = true -> exists s r, T nan (snd nv) s r) f ->
  forallb (fun nv => safe nan (snd nv)) f = true ->
  exists s r, T nan (PObj m q f) s r.
Proof.
  intros HK HNF HN HH HF HS.
  destruct (fields_T nan f HF HS) as (fs & fr & E1 & K1 & E2 & K2 & E3).
  exists (PDict (skeys ((MOD, PStr m) :: (QUAL, PStr q) :: fs))),
         (PDict (skeys ((MOD, PStr m) :: (QUAL, PStr q) :: fr))).
  repeat split.
  - simpl. unfold repr_obj. rewrite HK, (hidden_nil f HH), (no_missing_safe nan f HS), E1, entries_ok.
    reflexivity.
  - apply json_dict.
    + simpl. rewrite E2. reflexivity.
    + simpl map. rewrite K1. now apply nodup_hdr.
  - rewrite from_repr_dict. simpl map. rewrite (lift_keys _ _ _ E3).
    unfold decode_dict. simpl skeys. rewrite dget_hdr_qual, dget_hdr_mod.
    assert (String.eqb q "tuple" = false) as ->.
    { unfold norm_free in HNF. apply negb_true_iff in HNF. repeat (apply orb_false_iff in HNF as [HNF ?]). auto. }
    unfold decode_obj. rewrite HK. unfold kwargs. simpl filter.
    apply names_ok_split in HN as [N R].
    assert (filter (fun kv : py * res py => match fst kv with PStr s => negb (reserved s) | _ => true end)
                   (map (fun nv : string * py => (PStr (fst nv), Ok (snd nv))) f)
            = map (fun nv : string * py => (PStr (fst nv), Ok (snd nv))) f) as ->.
    { clear -R. induction f as [|[n a] r IH]; simpl; auto. simpl in R. apply andb_true_iff in R as [R1 R2].
      rewrite R1. f_equal. auto. }
    pose proof (kwargs_fields f R) as KW. unfold kwargs in KW.
    assert (filter (fun kv : py * res py => match fst kv with PStr s => negb (reserved s) | _ => true end)
                   (map (fun nv : string * py => (PStr (fst nv), Ok (snd nv))) f)
            = map (fun nv : string * py => (PStr (fst nv), Ok (snd nv))) f) as FE.
    { clear -R. induction f as [|[n a] r IH]; simpl; auto. simpl in R. apply andb_true_iff in R as [R1 R2].
      rewrite R1. f_equal. auto. }
    rewrite FE in KW. rewrite KW. simpl.
    unfold ctor_norm. unfold norm_free in HNF. apply negb_true_iff in HNF.
    repeat (apply orb_false_iff in HNF as [HNF ?]). rewrite HNF. simpl.
    match goal with H : String.eqb q "Link" = false |- _ => rewrite H end.
    match goal with H : String.eqb q "ConstraintLink" = false |- _ => rewrite H end.
    reflexivity.
Qed.

Lemma filter_fields_keep (P : string -> bool) (f : list (string * py)) :
  forallb P (map fst f) = true ->
  filter (fun kv : py * res py => match fst kv with PStr s => P s | _ => true end)
         (map (fun nv : string * py => (PStr (fst nv), Ok (snd nv))) f)
  = map (fun nv : string * py => (PStr (fst nv), Ok (snd nv))) f.
Proof.
  induction f as [|[n a] r IH]; cbn [map filter forallb fst snd]; auto. intros H.
  apply andb_true_iff in H as [H1 H2]. rewrite H1. f_equal. auto.
Qed.

Lemma msg_T nan t (f : list (string * py)) :
  names_ok (map fst f) = true ->
  forallb (fun n => negb (String.eqb n "__type__")) (map fst f) = true ->
  Forall (fun nv => safe nan (snd nv) = true -> exists s r, T nan (snd nv) s r) f ->
  forallb (fun nv => safe nan (snd nv)) f = true ->
  exists s r, T nan (PMsg t f) s r.
Proof.
  intros HN HT HF HS.
  destruct (fields_T nan f HF HS) as (fs & fr & E1 & K1 & E2 & K2 & E3).
  exists (PDict (skeys ((MOD, PStr COMPUTATIONS) :: (QUAL, PStr "message_type") :: ("__type__", PStr t) :: fs))),
         (PDict (skeys ((MOD, PStr COMPUTATIONS) :: (QUAL, PStr "message_type") :: ("__type__", PStr t) :: fr))).
  assert (HT' : forallb (fun n => negb (String.eqb "__type__" n)) (map fst f) = true).
  { clear -HT. induction (map fst f) as [|n r IH]; cbn [forallb] in *; auto.
    apply andb_true_iff in HT as [H1 H2]. rewrite String.eqb_sym, H1. auto. }
  repeat split.
  - cbn [simple_repr]. rewrite (no_missing_safe nan f HS), E1, entries_ok. reflexivity.
  - apply json_dict.
    + cbn [map fst snd json_rt]. rewrite E2. reflexivity.
    + cbn [map fst]. rewrite K1.
      assert (names_ok ("__type__" :: map fst f) = true) as HN2.
      { apply names_ok_split in HN as [N R]. unfold names_ok. cbn [nodupb forallb].
        rewrite N, R.
        assert (existsb (String.eqb "__type__") (map fst f) = false) as ->.
        { clear -HT'. induction (map fst f) as [|n r IH]; cbn [existsb forallb] in *; auto.
          apply andb_true_iff in HT' as [H1 H2]. apply negb_true_iff in H1. rewrite H1. auto. }
        reflexivity. }
      now apply nodup_hdr.
  - rewrite from_repr_dict. cbn [map fst snd from_repr]. rewrite (lift_keys _ _ _ E3).
    unfold decode_dict. cbn [skeys map fst snd]. rewrite dget_hdr_qual, dget_hdr_mod.
    change (String.eqb "message_type" "tuple") with false. cbv iota.
    unfold decode_obj. change (kind_of COMPUTATIONS "message_type") with KMsgFactory. cbv iota.
    change (dget "__type__" ((PStr MOD, PStr COMPUTATIONS) :: (PStr QUAL, PStr "message_type")
              :: (PStr "__type__", PStr t) :: map (fun ns : string * py => (PStr (fst ns), snd ns)) fr))
      with (Some (PStr t)).
    cbn [need bind].
    cbn [filter fst].
    change (negb (String.eqb MOD "__type__")) with true.
    change (negb (String.eqb QUAL "__type__")) with true.
    change (negb (String.eqb "__type__" "__type__")) with false. cbv iota.
    rewrite (filter_fields_keep (fun s => negb (String.eqb s "__type__")) f HT).
    unfold kwargs. cbn [filter fst].
    change (negb (reserved MOD)) with false. change (negb (reserved QUAL)) with false. cbv iota.
    apply names_ok_split in HN as [N R].
    rewrite (filter_fields_keep (fun s => negb (reserved s)) f R).
    pose proof (kwargs_fields f R) as KW. unfold kwargs in KW.
    rewrite (filter_fields_keep (fun s => negb (reserved s)) f R) in KW. rewrite KW. reflexivity.
Qed.

Lemma safe_T nan v : safe nan v = true -> exists s r, T nan v s r.
Proof.
  induction v using py_ind'; intros HS; try discriminate.
  - exists PNone, PNone. repeat split.
  - exists (PBool b), (PBool b). repeat split.
  - exists (PInt z), (PInt z). repeat split.
  - exists (PFloat r), (PFloat r). apply (scalar_T nan (PFloat r)). exact HS.
  - exists (PStr s), (PStr s). repeat split.
  - (* list *)
    cbn [safe] in HS. destruct (list_T nan l H HS) as (ss & rs & E1 & E2 & E3).
    exists (PList ss), (PList rs). repeat split; cbn [simple_repr json_rt from_repr].
    + rewrite E1, mapM_ok. reflexivity.
    + rewrite E2, mapM_ok. reflexivity.
    + rewrite E3, mapM_ok. reflexivity.
  - (* dict *)
    cbn [safe] in HS. repeat (apply andb_true_iff in HS as [HS ?]).
    rewrite (str_keys_skeys d HS).
    set (e := map (fun kv : py * py => (key_string (fst kv), snd kv)) d).
    assert (Hk : map fst e = map (fun kv : py * py => key_string (fst kv)) d).
    { unfold e. rewrite map_map. reflexivity. }
    apply plain_dict_T.
    + unfold e. apply Forall_map. exact H.
    + unfold e.
      match goal with H' : forallb (fun kv => safe nan (snd kv)) d = true |- _ => revert H' end.
      clear. induction d as [|[k a] r IH]; cbn [map forallb snd]; auto. intros H'.
      apply andb_true_iff in H' as [? ?]. apply andb_true_iff; auto.
    + now rewrite Hk.
    + now rewrite Hk.
  - (* object *)
    cbn [safe] in HS. repeat (apply andb_true_iff in HS as [HS ?]).
    destruct (kind_of m q) eqn:HK; try discriminate.
    apply obj_T; auto; try (unfold names_ok; apply andb_true_iff; split; assumption).
  - (* message *)
    cbn [safe] in HS. repeat (apply andb_true_iff in HS as [HS ?]).
    apply msg_T; auto; unfold names_ok; apply andb_true_iff; split; assumption.
Qed.

Theorem generic_roundtrip_partial_l : forall nan v, safe nan v = true -> wire nan v = Ok v.
Proof.
  intros nan v H. destruct (safe_T nan v H) as (s & r & E1 & E2 & E3).
  unfold wire. rewrite E1. cbn [bind]. rewrite E2. cbn [bind]. exact E3.
Qed.

(* ---------- hand-written reprs of the link classes ---------- *)
Definition pt_link (t s g : string) : py :=
  PObj "pydcop.computations_graph.pseudotree" "PseudoTreeLink"
       [("link_type", PStr t); ("source", PStr s); ("target", PStr g)].
Definition order_link (t s g : string) : py :=
  PObj "pydcop.computations_graph.ordered_graph" "OrderLink"
       [("link_type", PStr t); ("source", PStr s); ("target", PStr g)].
Definition fg_link (s g : string) : py :=
  PObj "pydcop.computations_graph.factor_graph" "FactorGraphLink"
       [("factor_node", PStr s); ("variable_node", PStr g)].

Lemma roundtrip_pseudotree_link_l : forall nan t s g,
  In t PT_TYPES -> wire nan (pt_link t s g) = Ok (pt_link t s g).
Proof.
  intros nan t s g H. unfold PT_TYPES in H. cbn [In] in H.
  destruct H as [<-|[<-|[<-|[<-|[]]]]]; destruct nan; vm_compute; reflexivity.
Qed.

Lemma pseudotree_link_bad_type_l : forall nan s g,
  wire nan (pt_link "neighbor" s g) = Err "ValueError".
Proof. intros [] s g; vm_compute; reflexivity. Qed.

Lemma roundtrip_order_link_l : forall nan t s g,
  In t ORDER_TYPES -> wire nan (order_link t s g) = Ok (order_link t s g).
Proof.
  intros nan t s g H. unfold ORDER_TYPES in H. cbn [In] in H.
  destruct H as [<-|[<-|[]]]; destruct nan; vm_compute; reflexivity.
Qed.

Lemma roundtrip_factor_graph_link_l : forall nan s g, wire nan (fg_link s g) = Ok (fg_link s g).
Proof. intros [] s g; vm_compute; reflexivity. Qed.

(* ---------- AgentDef: pickling ---------- *)
Definition zdict (d : list (string * Z)) : py := PDict (map (fun kv => (PStr (fst kv), PInt (snd kv))) d).
Definition py_of_agent (a : agentdef) : py :=
  PObj "pydcop.dcop.objects" "AgentDef"
    [("name", PStr (a_name a)); ("default_route", PInt (a_default_route a)); ("routes", zdict (a_routes a));
     ("default_hosting_cost", PInt (a_default_hosting a)); ("hosting_costs", zdict (a_hosting a));
     ("*attr", zdict (a_attrs a))].

Lemma agentdef_pickle_roundtrip_l : forall a, pickle_rt (py_of_agent a) = Ok (py_of_agent a).
Proof. intros a. reflexivity. Qed.

(* any state of the six attributes survives, whatever the values are *)
Lemma agentdef_pickle_any_l : forall n dr r dh h at_,
  let o := PObj "pydcop.dcop.objects" "AgentDef"
             [("name", n); ("default_route", dr); ("routes", r); ("default_hosting_cost", dh);
              ("hosting_costs", h); ("*attr", at_)] in
  pickle_rt o = Ok o.
Proof. intros. reflexivity. Qed.

Lemma zdict_inj : forall d d', zdict d = zdict d' -> d = d'.
Proof.
  unfold zdict. intros d d' H. injection H as H. revert d' H.
  induction d as [|[k v] r IH]; intros [|[k' v'] r']; cbn [map]; intros H; try discriminate; auto.
  injection H as -> -> H. f_equal. auto.
Qed.

Lemma py_of_agent_inj : forall a b, py_of_agent a = py_of_agent b -> a = b.
Proof.
  intros [n dr r dh h at_] [n' dr' r' dh' h' at_']. unfold py_of_agent. cbn [a_name a_default_route a_routes a_default_hosting a_hosting a_attrs].
  intros H. injection H as -> -> Hr -> Hh Ha.
  assert (r = r') by (apply zdict_inj; unfold zdict; now f_equal).
  assert (h = h') by (apply zdict_inj; unfold zdict; now f_equal).
  assert (at_ = at_') by (apply zdict_inj; unfold zdict; now f_equal).
  now subst.
Qed.

Lemma Ok_inj {A} (x y : A) : Ok x = Ok y -> x = y.
Proof. intros H. now injection H. Qed.

(* the agent rebuilt in the spawned process answers route / hosting_cost / attributes alike *)
Lemma agentdef_pickle_keeps_costs_l : forall a b,
  pickle_rt (py_of_agent a) = Ok (py_of_agent b) ->
  (forall o, route b o = route a o) /\ (forall c, hosting_cost b c = hosting_cost a c)
  /\ (forall k, getattr b k = getattr a k).
Proof.
  intros a b H. rewrite agentdef_pickle_roundtrip_l in H. apply Ok_inj in H.
  apply py_of_agent_inj in H. subst. auto.
Qed.

(* ---------- shapes that do NOT survive (witnesses) ---------- *)
Lemma int_keyed_dict_refuted_l : exists v, wire false v = Ok (PDict [(PStr "1", PFloat "0.5")]) /\ v = PDict [(PInt 1, PFloat "0.5")].
Proof. eexists. split; [|reflexivity]. vm_compute. reflexivity. Qed.

Lemma set_refuted_l : wire false (PSet [PInt 1; PInt 2]) = Ok (PList [PInt 1; PInt 2]).
Proof. vm_compute. reflexivity. Qed.

Lemma namedtuple_nested_refuted_l :
  wire false (PNamed "harness.props.C15" "NTOne" [("v", PTuple [PInt 1])])
  = Ok (PNamed "harness.props.C15" "NTOne" [("v", PList [PInt 1])]).
Proof. vm_compute. reflexivity. Qed.

Definition mgm2_offer (offers : list (py * py)) (b : bool) : py :=
  PObj "pydcop.algorithms.mgm2" "Mgm2OfferMessage" [("offers", PDict offers); ("is_offering", PBool b)].

Lemma mgm2_fake_offer_drops_offers_refuted_l :
  wire false (mgm2_offer [(PTuple [PInt 0; PInt 1], PInt 5)] false) = Ok (mgm2_offer [] false).
Proof. vm_compute. reflexivity. Qed.

Lemma nonfinite_float_refuted_l : forall v, In v [PFloat "inf"; PFloat "-inf"; PFloat "nan"] ->
  wire false (PList [v]) = Err "ValueError" /\ wire true (PList [v]) = Ok (PList [v]).
Proof. intros v H. cbn [In] in H. destruct H as [<-|[<-|[<-|[]]]]; split; vm_compute; reflexivity. Qed.

(* ---------- concrete instances of the remaining hand-written reprs ---------- *)
Definition maxsum_msg (costs : list (py * py)) : py :=
  PObj "pydcop.algorithms.maxsum" "MaxSumMessage" [("costs", PDict costs)].

Lemma maxsum_int_keys_survive_l :
  let m := maxsum_msg [(PInt 0, PFloat "1.5"); (PInt 1, PInt 3); (PStr "R", PFloat "0.0")] in
  wire false m = Ok m.
Proof. vm_compute. reflexivity. Qed.

Lemma maxsum_empty_raises_l : wire false (maxsum_msg []) = Err "ValueError".
Proof. vm_compute. reflexivity. Qed.

Lemma mgm2_offer_survives_l :
  let m := mgm2_offer [(PTuple [PInt 0; PStr "R"], PFloat "2.5"); (PTuple [PInt 1; PInt 1], PInt 4)] true in
  wire false m = Ok m.
Proof. vm_compute. reflexivity. Qed.

Lemma tuple_and_namedtuple_survive_l :
  let v := PList [PTuple [PInt 3; PTuple [PStr "a"; PNone]; PFloat "0.5"];
                  PNamed "harness.props.C15" "NTPair" [("x", PInt 1); ("y", PStr "b")]] in
  wire false v = Ok v.
Proof. vm_compute. reflexivity. Qed.
