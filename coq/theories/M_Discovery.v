(* M_Discovery.v -- executable model of pydcop/infrastructure/discovery.py (C20), plugged into
   the generic network of Net.v.  Models only (no proofs).

   Nodes:   0          = the computation "_directory" (Directory + DirectoryComputation + the
                         Discovery object of the agent hosting it, "orchestrator"; the
                         computation "_discovery_orchestrator" only ever sends to "_directory",
                         this is the self channel 0 -> 0)
            k >= 1     = "_discovery_a<k>": Discovery + DiscoveryComputation of agent k
            -k         = the environment of agent k: when started it queues the operations the
                         application calls on agent k's Discovery object (hist k); delivering
                         the head of channel (-k, k) executes the next operation.
   Ids:     agents 0 = "orchestrator", k = "a<k>"; "*" = -1.
            computations c >= 0 are DCOP computations; technical ones ("_..." / "B...") are < 0;
            -1 = "_directory", -(100+k) = "_discovery_<agent k>".
   Addresses are integers; the address of agent k is 1000 + k.
   Python sets of names are kept as sorted duplicate-free lists; dicts as association lists in
   insertion order (Base.dict_set / dict_remove); the directory's subscription maps
   (defaultdict(set), key presence never matters) are kept sorted by key without empty entries. *)
From PyDcop Require Import Base Net.

Definition STAR : Z := -1.
Definition is_technical (c : Z) : bool := c <? 0.

Inductive op :=
| OpRegAgent (a addr : Z)
| OpUnregAgent (a : Z)
| OpRegComp (c : Z) (ag : option Z) (addr : option Z)
| OpUnregComp (c : Z) (ag : option Z)
| OpRegRep (r ag : Z)
| OpUnregRep (r ag : Z)
| OpSubAgent (a : Z) (cb : option Z) (oneshot : bool)
| OpUnsubAgent (a : Z) (cb : option Z)
| OpSubAll (cb : option Z)
| OpSubComp (c : Z) (cb : option Z) (oneshot : bool)
| OpUnsubComp (c : Z) (cb : option Z)
| OpSubRep (r : Z) (cb : option Z) (oneshot : bool)
| OpUnsubRep (r : Z) (cb : option Z).

Inductive msg :=
| MOp (o : op)
| MPubAgent (a addr : Z)                       (* publish_agent, one agent *)
| MPubAgents (l : list (Z * Z))                (* publish_agent with lists (answer to '*') *)
| MUnpubAgent (a : Z)
| MSubAgent (a : Z) (b : bool)
| MPubComp (c ag : Z) (addr : option Z)
| MUnpubComp (c : Z) (ag : option Z)
| MSubComp (c : Z) (b : bool)
| MPubRep (r ag : Z) (b : bool)
| MSubRep (r : Z) (b : bool).

(* callback kinds: 1 agent_added 2 agent_removed 3 computation_added 4 computation_removed
   5 replica_added 6 replica_removed.
   exception kinds: 1 DiscoveryException 2 UnknownAgent 3 UnknownComputation 4 ValueError
   5 KeyError 0 = outside the model (message type the node has no handler for) *)
Inductive ev :=
| EvCb (n : node) (cb kind name : Z) (val : option Z)
| EvRaise (n : node) (kind : Z).

Definition cbl := list (Z * bool).      (* [(callback id, one_shot)] *)

Record dstate := mkD {
  d_own : Z;
  d_agents : list (Z * Z);              (* _agents_data *)
  d_comps : list (Z * Z);               (* _computations_data *)
  d_reps : list (Z * list Z);           (* _replicas_data (defaultdict(set)) *)
  d_acbs : list (Z * cbl);              (* _agent_cbs *)
  d_ccbs : list (Z * cbl);              (* _computation_cbs *)
  d_rcbs : list (Z * cbl);              (* _replicas_cbs *)
  d_allcbs : list Z                     (* _all_agents_cbs *)
}.

Definition set_agents s x := mkD (d_own s) x (d_comps s) (d_reps s) (d_acbs s) (d_ccbs s) (d_rcbs s) (d_allcbs s).
Definition set_comps s x := mkD (d_own s) (d_agents s) x (d_reps s) (d_acbs s) (d_ccbs s) (d_rcbs s) (d_allcbs s).
Definition set_reps s x := mkD (d_own s) (d_agents s) (d_comps s) x (d_acbs s) (d_ccbs s) (d_rcbs s) (d_allcbs s).
Definition set_acbs s x := mkD (d_own s) (d_agents s) (d_comps s) (d_reps s) x (d_ccbs s) (d_rcbs s) (d_allcbs s).
Definition set_ccbs s x := mkD (d_own s) (d_agents s) (d_comps s) (d_reps s) (d_acbs s) x (d_rcbs s) (d_allcbs s).
Definition set_rcbs s x := mkD (d_own s) (d_agents s) (d_comps s) (d_reps s) (d_acbs s) (d_ccbs s) x (d_allcbs s).
Definition set_allcbs s x := mkD (d_own s) (d_agents s) (d_comps s) (d_reps s) (d_acbs s) (d_ccbs s) (d_rcbs s) x.

(* ---- small helpers *)
Definition zset {V} := @dict_set Z V Z.eqb.
(* del d[k]: keys are unique in a dict, every entry with key k is dropped *)
Definition zdel {V} (k : Z) (l : list (Z * V)) : list (Z * V) := filter (fun p => negb (fst p =? k)) l.
Definition zmemk {V} (k : Z) (l : list (Z * V)) : bool := mem_key Z.eqb k l.
Definition get_or_nil {V} (k : Z) (l : list (Z * list V)) : list V :=
  match zlookup k l with Some x => x | None => [] end.
Definition is_none {A} (o : option A) : bool := match o with None => true | Some _ => false end.

Fixpoint set_add (x : Z) (l : list Z) : list Z :=
  match l with
  | [] => [x]
  | y :: r => if x =? y then l else if x <? y then x :: l else y :: set_add x r
  end.
Fixpoint set_remove (x : Z) (l : list Z) : list Z :=
  match l with
  | [] => []
  | y :: r => if x =? y then r else y :: set_remove x r
  end.
Definition set_union (a b : list Z) : list Z := fold_right set_add b a.

(* sorted map key -> non-empty sorted set *)
Fixpoint sm_ins (k : Z) (v : list Z) (m : list (Z * list Z)) : list (Z * list Z) :=
  match m with
  | [] => [(k, v)]
  | (k', v') :: r =>
      if k =? k' then (k, v) :: r
      else if k <? k' then (k, v) :: m
      else (k', v') :: sm_ins k v r
  end.
Definition sm_put (k : Z) (v : list Z) (m : list (Z * list Z)) : list (Z * list Z) :=
  match v with
  | [] => zdel k m
  | _ => sm_ins k v m
  end.
Definition sm_get (k : Z) (m : list (Z * list Z)) : list Z := get_or_nil k m.
Definition sm_add (k x : Z) m := sm_put k (set_add x (sm_get k m)) m.
Definition sm_del (k x : Z) m := sm_put k (set_remove x (sm_get k m)) m.
(* remove x from every set *)
Definition sm_purge (x : Z) (m : list (Z * list Z)) : list (Z * list Z) :=
  filter (fun p => negb (match snd p with [] => true | _ => false end))
         (map (fun p => (fst p, set_remove x (snd p))) m).

(* ---- results of a Discovery method: state, messages for the directory, callback events,
        exception that escaped (None = returned normally) *)
Definition R := (dstate * list msg * list ev * option Z)%type.
Definition ret (s : dstate) : R := (s, [], [], None).
Definition raise (s : dstate) (k : Z) : R := (s, [], [], Some k).
Definition bind (r : R) (f : dstate -> R) : R :=
  let '(s, o, e, x) := r in
  match x with
  | Some _ => r
  | None => let '(s', o', e', x') := f s in (s', o ++ o', e ++ e', x')
  end.

Definition fire (own kind name : Z) (val : option Z) (l : cbl) : list ev :=
  map (fun p => EvCb own (fst p) kind name val) l.
Definition fire_all (own kind name : Z) (val : option Z) (l : list Z) : list ev :=
  map (fun cb => EvCb own cb kind name val) l.
Definition drop_oneshot (l : cbl) : cbl := filter (fun p => negb (snd p)) l.

(* ================================================================ Discovery *)

(* Discovery.register_agent *)
Definition d_register_agent (s : dstate) (a addr : Z) (publish : bool) : R :=
  let is_change := negb (option_eqb Z.eqb (zlookup a (d_agents s)) (Some addr)) in
  let s1 := set_agents s (zset a addr (d_agents s)) in
  let outs := if publish then [MPubAgent a addr] else [] in
  if is_change then
    match zlookup a (d_acbs s1) with
    | Some l => (set_acbs s1 (zset a (drop_oneshot l) (d_acbs s1)), outs,
                 fire (d_own s) 1 a (Some addr) l ++ fire_all (d_own s) 1 a (Some addr) (d_allcbs s), None)
    | None => (s1, outs, fire_all (d_own s) 1 a (Some addr) (d_allcbs s), None)
    end
  else (s1, outs, [], None).

(* generic subscribe: (new callback table, send a subscription message?) *)
Definition sub_cbs (cbs : list (Z * cbl)) (k : Z) (cb : option Z) (oneshot : bool) : list (Z * cbl) * bool :=
  let already := zmemk k cbs in
  let cbs' := match cb with
              | Some f => zset k (get_or_nil k cbs ++ [(f, oneshot)]) cbs
              | None => cbs
              end in
  (cbs', negb already || is_none cb).

(* generic unsubscribe: (new table, send an un-subscription?, raise ValueError?) *)
Definition cb_match (cb : option Z) (p : Z * bool) : bool :=
  match cb with None => true | Some f => fst p =? f end.
Definition unsub_cbs (cbs : list (Z * cbl)) (k : Z) (cb : option Z) : list (Z * cbl) * bool * bool :=
  match zlookup k cbs with
  | Some l =>
      let keep := filter (fun p => negb (cb_match cb p)) l in
      if existsb (cb_match cb) l then
        match keep with
        | [] => (zdel k cbs, true, false)
        | _ => (zset k keep cbs, false, false)
        end
      else (cbs, false, negb (is_none cb))
  | None => (cbs, true, false)
  end.

Definition d_subscribe_agent s a cb oneshot : R :=
  let '(t, send) := sub_cbs (d_acbs s) a cb oneshot in
  (set_acbs s t, if send then [MSubAgent a true] else [], [], None).
Definition d_subscribe_comp s c cb oneshot : R :=
  let '(t, send) := sub_cbs (d_ccbs s) c cb oneshot in
  (set_ccbs s t, if send then [MSubComp c true] else [], [], None).
Definition d_subscribe_rep s r cb oneshot : R :=
  let '(t, send) := sub_cbs (d_rcbs s) r cb oneshot in
  (set_rcbs s t, if send then [MSubRep r true] else [], [], None).
Definition d_subscribe_all s (cb : option Z) : R :=
  let outs := match d_allcbs s with [] => [MSubAgent STAR true] | _ => [] end in
  (match cb with Some f => set_allcbs s (d_allcbs s ++ [f]) | None => s end, outs, [], None).

Definition d_unsubscribe_agent s a cb : R :=
  let '(t, send, err) := unsub_cbs (d_acbs s) a cb in
  (set_acbs s t, if send then [MSubAgent a false] else [], [], if err then Some 4 else None).
Definition d_unsubscribe_comp s c cb : R :=
  let '(t, send, err) := unsub_cbs (d_ccbs s) c cb in
  (set_ccbs s t, if send then [MSubComp c false] else [], [], if err then Some 4 else None).
(* unsubscribe_replica also forgets the replicas: _replicas_data.pop(replica) raises KeyError
   (after the message has been sent) when nothing was known *)
Definition d_unsubscribe_rep s r cb : R :=
  let '(t, send, err) := unsub_cbs (d_rcbs s) r cb in
  let s1 := set_rcbs s t in
  if send then
    if zmemk r (d_reps s1) then (set_reps s1 (zdel r (d_reps s1)), [MSubRep r false], [], None)
    else (s1, [MSubRep r false], [], Some 5)
  else (s1, [], [], if err then Some 4 else None).

(* Discovery.agent_computations *)
Definition agent_computations (s : dstate) (a : Z) (incl_tech : bool) : list Z :=
  map fst (filter (fun p => (a =? snd p) && (incl_tech || negb (is_technical (fst p)))) (d_comps s)).

(* Discovery.unregister_computation *)
Definition d_unregister_computation (s : dstate) (c : Z) (ag : option Z) (publish : bool) : R :=
  match zlookup c (d_comps s) with
  | None => ret s
  | Some known =>
      if match ag with Some g => negb (known =? g) | None => false end then raise s 4
      else
        let evs := fire (d_own s) 4 c ag (get_or_nil c (d_ccbs s)) in
        let s1 := set_comps s (zdel c (d_comps s)) in
        if publish then
          bind (s1, [], evs, None) (fun s2 =>
          bind (d_unsubscribe_comp s2 c None) (fun s3 => (s3, [MUnpubComp c ag], [], None)))
        else (s1, [], evs, None)
  end.

Fixpoint unregister_all (s : dstate) (l : list Z) (a : Z) : R :=
  match l with
  | [] => ret s
  | c :: r => bind (d_unregister_computation s c (Some a) false) (fun s' => unregister_all s' r a)
  end.

(* Discovery.unregister_agent (one-shot callbacks are discarded after the loop over a copy) *)
Definition d_unregister_agent (s : dstate) (a : Z) (publish : bool) : R :=
  let comps := agent_computations s a false in
  let r1 := match comps with
            | [] => ret s
            | _ => if publish then raise s 1 else unregister_all s comps a
            end in
  bind r1 (fun s1 =>
    if zmemk a (d_agents s1) then
      let s2 := set_agents s1 (zdel a (d_agents s1)) in
      let outs := if publish then [MUnpubAgent a] else [] in
      match zlookup a (d_acbs s2) with
      | Some l => (set_acbs s2 (zset a (drop_oneshot l) (d_acbs s2)), outs,
                   fire (d_own s) 2 a None l ++ fire_all (d_own s) 2 a None (d_allcbs s2), None)
      | None => (s2, outs, fire_all (d_own s) 2 a None (d_allcbs s2), None)
      end
    else ret s1).

(* Discovery.register_computation *)
Definition d_register_computation (s : dstate) (c : Z) (ag : option Z) (addr : option Z) (publish : bool) : R :=
  let g := match ag with Some g => g | None => d_own s end in
  if is_none addr && negb (zmemk g (d_agents s)) then raise s 2
  else
    let is_change := negb (option_eqb Z.eqb (zlookup c (d_comps s)) (Some g)) in
    let s1 := set_comps s (zset c g (d_comps s)) in
    let r2 := match addr with
              | Some ad => if zmemk g (d_agents s1) then ret s1 else d_register_agent s1 g ad false
              | None => ret s1
              end in
    bind r2 (fun s2 =>
      let outs := if publish then [MPubComp c g addr] else [] in
      if is_change then
        match zlookup c (d_ccbs s2) with
        | Some l => (set_ccbs s2 (zset c (drop_oneshot l) (d_ccbs s2)), outs,
                     fire (d_own s) 3 c (Some g) l, None)
        | None => (s2, outs, [], None)
        end
      else (s2, outs, [], None)).

(* Discovery.register_replica / unregister_replica *)
Definition d_register_replica (s : dstate) (r ag : Z) (publish : bool) : R :=
  if negb (zmemk r (d_comps s)) then raise s 3
  else
    let cur := get_or_nil r (d_reps s) in
    let is_change := negb (zmem ag cur) in
    let s1 := set_reps s (zset r (set_add ag cur) (d_reps s)) in
    let outs := if publish then [MPubRep r ag true] else [] in
    if is_change then
      match zlookup r (d_rcbs s1) with
      | Some l => (set_rcbs s1 (zset r (drop_oneshot l) (d_rcbs s1)), outs,
                   fire (d_own s) 5 r (Some ag) l, None)
      | None => (s1, outs, [], None)
      end
    else (s1, outs, [], None).

Definition d_unregister_replica (s : dstate) (r ag : Z) (publish : bool) : R :=
  match zlookup r (d_reps s) with
  | None => ret s
  | Some cur =>
      if negb (zmem ag cur) then ret s
      else
        (set_reps s (zset r (set_remove ag cur) (d_reps s)),
         if publish then [MPubRep r ag false] else [],
         fire (d_own s) 6 r (Some ag) (get_or_nil r (d_rcbs s)), None)
  end.

(* the operations of the application on a Discovery object (publish = True) *)
Definition do_op (s : dstate) (o : op) : R :=
  match o with
  | OpRegAgent a addr => d_register_agent s a addr true
  | OpUnregAgent a => d_unregister_agent s a true
  | OpRegComp c ag addr => d_register_computation s c ag addr true
  | OpUnregComp c ag => d_unregister_computation s c ag true
  | OpRegRep r ag => d_register_replica s r ag true
  | OpUnregRep r ag => d_unregister_replica s r ag true
  | OpSubAgent a cb os => d_subscribe_agent s a cb os
  | OpUnsubAgent a cb => d_unsubscribe_agent s a cb
  | OpSubAll cb => d_subscribe_all s cb
  | OpSubComp c cb os => d_subscribe_comp s c cb os
  | OpUnsubComp c cb => d_unsubscribe_comp s c cb
  | OpSubRep r cb os => d_subscribe_rep s r cb os
  | OpUnsubRep r cb => d_unsubscribe_rep s r cb
  end.

Fixpoint register_agents (s : dstate) (l : list (Z * Z)) : R :=
  match l with
  | [] => ret s
  | (a, ad) :: r => bind (d_register_agent s a ad false) (fun s' => register_agents s' r)
  end.

(* DiscoveryComputation._on_computation_removed catches the ValueError of Discovery.unregister_computation
   (since the /repo fix for C27-stale-unpublication-kills-subscriber-thread): an un-publication naming
   another agent than the one listed is stale, the entry is kept and nothing escapes the handler.
   Written with projections so that state / messages / events of the result reduce. *)
Definition catch_value_error (r : R) : R :=
  (fst (fst (fst r)), snd (fst (fst r)), snd (fst r), match snd r with Some 4 => None | x => x end).

(* DiscoveryComputation.on_message *)
Definition disc_recv (s : dstate) (m : msg) : R :=
  match m with
  | MOp o => do_op s o
  | MPubAgent a addr => d_register_agent s a addr false
  | MPubAgents l => register_agents s l
  | MUnpubAgent a => d_unregister_agent s a false
  | MPubComp c ag addr => d_register_computation s c (Some ag) addr false
  | MUnpubComp c ag => catch_value_error (d_unregister_computation s c ag false)
  | MPubRep r ag true => d_register_replica s r ag false
  | MPubRep r ag false => d_unregister_replica s r ag false
  | MSubAgent _ _ | MSubComp _ _ | MSubRep _ _ => raise s 5     (* no handler: KeyError *)
  end.

(* ================================================================ Directory *)
Record dirstate := mkDir {
  g_agents : list (Z * Z);                (* Directory._agents_data *)
  g_comps : list (Z * Z);                 (* Directory._computations_data *)
  g_sub_agents : list (Z * list Z);       (* agent -> subscribed discovery nodes *)
  g_sub_comps : list (Z * list Z);
  g_sub_reps : list (Z * list Z);
  g_sub_all : list Z
}.
Record nst := mkN { n_disc : dstate; n_dir : dirstate }.

Definition set_gagents g x := mkDir x (g_comps g) (g_sub_agents g) (g_sub_comps g) (g_sub_reps g) (g_sub_all g).
Definition set_gcomps g x := mkDir (g_agents g) x (g_sub_agents g) (g_sub_comps g) (g_sub_reps g) (g_sub_all g).
Definition set_gsa g x := mkDir (g_agents g) (g_comps g) x (g_sub_comps g) (g_sub_reps g) (g_sub_all g).
Definition set_gsc g x := mkDir (g_agents g) (g_comps g) (g_sub_agents g) x (g_sub_reps g) (g_sub_all g).
Definition set_gsr g x := mkDir (g_agents g) (g_comps g) (g_sub_agents g) (g_sub_comps g) x (g_sub_all g).
Definition set_gall g x := mkDir (g_agents g) (g_comps g) (g_sub_agents g) (g_sub_comps g) (g_sub_reps g) x.

(* result of a directory handler: state, (destination, message), events, escaped exception *)
Definition RD := (nst * list (node * msg) * list ev * option Z)%type.
Definition to_all (l : list Z) (m : msg) : list (node * msg) := map (fun i => (i, m)) l.
Definition to_self (l : list msg) : list (node * msg) := map (fun m => (0, m)) l.

(* Directory.register_agent *)
Definition dir_register_agent (st : nst) (a addr : Z) : RD :=
  let g := set_gagents (n_dir st) (zset a addr (g_agents (n_dir st))) in
  let '(d1, o1, e1, x1) := d_register_agent (n_disc st) a addr false in
  (mkN d1 g, to_all (sm_get a (g_sub_agents g)) (MPubAgent a addr) ++ to_all (g_sub_all g) (MPubAgent a addr),
   e1, x1).

(* Directory.unregister_computation: since the /repo fix for C27-directory-echo-erases-registration
   the directory's own Discovery is called with publish=False (before: the default publish=True made
   "_discovery_orchestrator" send an un-subscription and an un-publication back to "_directory",
   which could erase a later registration); [o1] below is therefore always empty *)
(* since /repo e9e3188: an un-publication naming an agent that is not the registered host is ignored *)
Definition stale_unpub (st : nst) (c : Z) (ag : option Z) : bool :=
  match ag, zlookup c (g_comps (n_dir st)) with
  | Some g, Some host => negb (host =? g)
  | _, _ => false
  end.

Definition dir_unregister_computation (st : nst) (c : Z) (ag : option Z) : RD :=
  if stale_unpub st c ag then (st, [], [], None)
  else if zmemk c (g_comps (n_dir st)) then
    let g := set_gcomps (n_dir st) (zdel c (g_comps (n_dir st))) in
    let '(d1, o1, e1, x1) := d_unregister_computation (n_disc st) c None false in
    (mkN d1 g, to_self o1 ++ to_all (sm_get c (g_sub_comps g)) (MUnpubComp c ag), e1, x1)
  else (st, [], [], None).

Fixpoint dir_unregister_all (st : nst) (l : list Z) : RD :=
  match l with
  | [] => (st, [], [], None)
  | c :: r =>
      let '(st1, o1, e1, x1) := dir_unregister_computation st c None in
      match x1 with
      | Some _ => (st1, o1, e1, x1)
      | None => let '(st2, o2, e2, x2) := dir_unregister_all st1 r in (st2, o1 ++ o2, e1 ++ e2, x2)
      end
  end.

(* Directory.unregister_agent *)
Definition dir_unregister_agent (st : nst) (a : Z) : RD :=
  match agent_computations (n_disc st) a false with
  | _ :: _ => (st, [], [], Some 1)
  | [] =>
      let '(st1, o1, e1, x1) := dir_unregister_all st (agent_computations (n_disc st) a true) in
      match x1 with
      | Some _ => (st1, o1, e1, x1)
      | None =>
          if zmemk a (g_agents (n_dir st1)) then
            let g1 := set_gagents (n_dir st1) (zdel a (g_agents (n_dir st1))) in
            let '(d2, o2, e2, x2) := d_unregister_agent (n_disc st1) a false in
            (* subscriptions held by the removed agent's discovery ('_discovery_' + agent) *)
            let g2 := mkDir (g_agents g1) (g_comps g1) (sm_purge a (g_sub_agents g1))
                            (sm_purge a (g_sub_comps g1)) (g_sub_reps g1) (set_remove a (g_sub_all g1)) in
            let interested := set_union (sm_get a (g_sub_agents g2)) (g_sub_all g2) in
            (mkN d2 g2, o1 ++ to_self o2 ++ to_all interested (MUnpubAgent a), e1 ++ e2, x2)
          else (st1, o1, e1, None)
      end
  end.

(* Directory.subscribe_all_agents: every '*' subscriber is sent the whole list again *)
Definition dir_subscribe_all (st : nst) (sender : node) : RD :=
  let g := set_gall (n_dir st) (set_add sender (g_sub_all (n_dir st))) in
  let l := filter (fun p => negb (fst p =? 0)) (d_agents (n_disc st)) in
  (mkN (n_disc st) g, to_all (g_sub_all g) (MPubAgents l), [], None).

(* Directory.register_computation *)
Definition dir_register_computation (st : nst) (c ag : Z) (addr : option Z) : RD :=
  let g := set_gcomps (n_dir st) (zset c ag (g_comps (n_dir st))) in
  let '(d1, o1, e1, x1) := d_register_computation (n_disc st) c (Some ag) addr false in
  match x1 with
  | Some _ => (mkN d1 g, [], e1, x1)
  | None =>
      match (match addr with Some x => Some x | None => zlookup ag (g_agents g) end) with
      | Some ad => (mkN d1 g, to_all (sm_get c (g_sub_comps g)) (MPubComp c ag (Some ad)), e1, None)
      | None => (mkN d1 g, [], e1, Some 5)
      end
  end.

Definition to_all_rep (sender : node) (r : Z) (l : list Z) : list (node * msg) :=
  map (fun a => (sender, MPubRep r a true)) l.

Definition dir_recv (st : nst) (sender : node) (m : msg) : RD :=
  let g := n_dir st in
  match m with
  | MPubAgent a addr => dir_register_agent st a addr
  | MUnpubAgent a => dir_unregister_agent st a
  | MSubAgent a true =>
      if a =? STAR then dir_subscribe_all st sender
      else
        let g1 := set_gsa g (sm_add a sender (g_sub_agents g)) in
        (mkN (n_disc st) g1,
         match zlookup a (g_agents g) with Some ad => [(sender, MPubAgent a ad)] | None => [] end, [], None)
  | MSubAgent a false => (mkN (n_disc st) (set_gsa g (sm_del a sender (g_sub_agents g))), [], [], None)
  | MPubComp c ag addr => dir_register_computation st c ag addr
  | MUnpubComp c ag => dir_unregister_computation st c ag
  | MSubComp c true =>
      let g1 := set_gsc g (sm_add c sender (g_sub_comps g)) in
      (mkN (n_disc st) g1,
       match zlookup c (g_comps g) with
       | Some ag => match zlookup ag (g_agents g) with
                    | Some ad => [(sender, MPubComp c ag (Some ad))]
                    | None => []
                    end
       | None => []
       end, [], None)
  | MSubComp c false => (mkN (n_disc st) (set_gsc g (sm_del c sender (g_sub_comps g))), [], [], None)
  | MPubRep r ag true =>
      let '(d1, o1, e1, x1) := d_register_replica (n_disc st) r ag false in
      match x1 with
      | Some _ => (mkN d1 g, [], e1, x1)
      | None => (mkN d1 g, to_all (sm_get r (g_sub_reps g)) (MPubRep r ag true), e1, None)
      end
  | MPubRep r ag false =>
      (* discovery.unregister_replica(replica, agent) with the default publish=True *)
      let '(d1, o1, e1, x1) := d_unregister_replica (n_disc st) r ag true in
      (mkN d1 g, to_self o1 ++ to_all (sm_get r (g_sub_reps g)) (MPubRep r ag false), e1, x1)
  | MSubRep r true =>
      let g1 := set_gsr g (sm_add r sender (g_sub_reps g)) in
      let d := n_disc st in
      if zmemk r (d_comps d) then
        (* replica_agents(): set(self._replicas_data[replica]) creates the key *)
        let d1 := if zmemk r (d_reps d) then d else set_reps d (d_reps d ++ [(r, [])]) in
        (mkN d1 g1, to_all_rep sender r (get_or_nil r (d_reps d)), [], None)
      else (mkN d g1, [], [], None)
  | MSubRep r false => (mkN (n_disc st) (set_gsr g (sm_del r sender (g_sub_reps g))), [], [], None)
  | MPubAgents _ | MOp _ => (st, [], [], Some 0)
  end.

(* ================================================================ the protocol *)
Definition addr_of (k : Z) : Z := 1000 + k.

(* Discovery(name, address) followed by use_directory("orchestrator", address of orchestrator) *)
Definition init_disc (k : Z) : dstate :=
  mkD k (if k =? 0 then [(0, addr_of 0)] else [(k, addr_of k); (0, addr_of 0)])
      [(-(100 + k), k); (-1, 0)] [] [] [] [] [].
Definition init_dir : dirstate := mkDir [] [] [] [] [] [].
Definition init_nst (n : node) : nst := mkN (init_disc n) init_dir.

Definition hist_t := list (Z * list op).
Definition hist_of (h : hist_t) (a : Z) : list op := get_or_nil a h.

Definition exc_ev (n : node) (x : option Z) : list ev :=
  match x with Some k => [EvRaise n k] | None => [] end.

Definition disc_start (h : hist_t) (n : node) (st : nst) : nst * list (node * msg) * list ev :=
  if n <? 0 then (st, map (fun o => (- n, MOp o)) (hist_of h (- n)), []) else (st, [], []).

Definition node_recv (n : node) (st : nst) (src : node) (m : msg) : nst * list (node * msg) * list ev :=
  if n =? 0 then
    let '(st', outs, evs, x) := dir_recv st src m in (st', outs, evs ++ exc_ev n x)
  else if 0 <? n then
    let '(d', outs, evs, x) := disc_recv (n_disc st) m in
    (mkN d' (n_dir st), to_self outs, evs ++ exc_ev n x)
  else (st, [], []).

Definition disc_proto (h : hist_t) : proto nst msg ev :=
  mkProto init_nst (disc_start h) node_recv.

(* ================================================================ correspondence *)
Definition op_eqb (a b : op) : bool := false.   (* operations are never compared *)

Definition ozb := option_eqb Z.eqb.
Definition msg_eqb (a b : msg) : bool :=
  match a, b with
  | MPubAgent x y, MPubAgent x' y' => (x =? x') && (y =? y')
  | MPubAgents l, MPubAgents l' => list_eqb (pair_eqb Z.eqb Z.eqb) l l'
  | MUnpubAgent x, MUnpubAgent x' => x =? x'
  | MSubAgent x b, MSubAgent x' b' => (x =? x') && Bool.eqb b b'
  | MPubComp c g ad, MPubComp c' g' ad' => (c =? c') && (g =? g') && ozb ad ad'
  | MUnpubComp c g, MUnpubComp c' g' => (c =? c') && ozb g g'
  | MSubComp c b, MSubComp c' b' => (c =? c') && Bool.eqb b b'
  | MPubRep r g b, MPubRep r' g' b' => (r =? r') && (g =? g') && Bool.eqb b b'
  | MSubRep r b, MSubRep r' b' => (r =? r') && Bool.eqb b b'
  | _, _ => false
  end.

Definition ev_eqb (a b : ev) : bool :=
  match a, b with
  | EvCb n c k x v, EvCb n' c' k' x' v' => (n =? n') && (c =? c') && (k =? k') && (x =? x') && ozb v v'
  | EvRaise n k, EvRaise n' k' => (n =? n') && (k =? k')
  | _, _ => false
  end.

Definition zz_eqb := list_eqb (pair_eqb Z.eqb Z.eqb).
Definition zl_eqb := list_eqb (pair_eqb Z.eqb (list_eqb Z.eqb)).
Definition cbs_eqb := list_eqb (pair_eqb Z.eqb (list_eqb (pair_eqb Z.eqb Bool.eqb))).

Definition by_key {V} (l : list (Z * V)) : list (Z * V) := isort (fun a b => fst a <=? fst b) l.

(* observed Discovery object: dict order is compared for _agents_data and _computations_data
   (it drives notification and callback order), the other dicts are compared sorted by key *)
Definition dstate_eqb (s o : dstate) : bool :=
  zz_eqb (d_agents s) (d_agents o) && zz_eqb (d_comps s) (d_comps o)
  && zl_eqb (by_key (d_reps s)) (d_reps o)
  && cbs_eqb (by_key (d_acbs s)) (d_acbs o) && cbs_eqb (by_key (d_ccbs s)) (d_ccbs o)
  && cbs_eqb (by_key (d_rcbs s)) (d_rcbs o) && list_eqb Z.eqb (d_allcbs s) (d_allcbs o).

Definition dirstate_eqb (g o : dirstate) : bool :=
  zz_eqb (g_agents g) (g_agents o) && zz_eqb (g_comps g) (g_comps o)
  && zl_eqb (g_sub_agents g) (g_sub_agents o) && zl_eqb (g_sub_comps g) (g_sub_comps o)
  && zl_eqb (g_sub_reps g) (g_sub_reps o) && list_eqb Z.eqb (g_sub_all g) (g_sub_all o).

Record case := mkCase {
  c_hist : hist_t;
  c_sched : list (@action);
  c_events : list ev;                            (* observed callbacks and exceptions, in order *)
  c_final : list (node * dstate);                (* observed Discovery object of every agent *)
  c_dirdisc : dstate;                            (* the orchestrator's Discovery object *)
  c_dir : dirstate;                              (* observed Directory *)
  c_inflight : list (node * node * list msg);    (* observed channel contents, every pair of nodes *)
  c_pending : list (node * Z)                    (* operations not yet executed, per agent *)
}.

Definition check_case (c : case) : bool :=
  let '(cf, evs) := run (disc_proto (c_hist c)) (c_sched c) in
  list_eqb ev_eqb evs (c_events c)
  && forallb (fun p => dstate_eqb (n_disc (w_st (nodes cf (fst p)))) (snd p)) (c_final c)
  && dstate_eqb (n_disc (w_st (nodes cf 0))) (c_dirdisc c)
  && dirstate_eqb (n_dir (w_st (nodes cf 0))) (c_dir c)
  && forallb (fun q => let '(s, d, l) := q in list_eqb msg_eqb (chan cf s d) l) (c_inflight c)
  && forallb (fun p => Z.of_nat (List.length (chan cf (- fst p) (fst p))) =? snd p) (c_pending c).
