(* P_Mgm2r.v -- proofs about the round-level MGM2 model M_Mgm2r.v (C03, C04).
   1. rounds without commitment are MGM rounds: monotone, movers independent, idle => 1-opt;
   2. the arithmetic of _find_best_offer: the claimed gain of a coordinated move exceeds the true
      decrease of the global cost by the current cost of the shared constraints plus the acceptor's
      own cost of its new value (known finding C03-mgm2-coordinated-gain, quantified). *)
From Coq Require Import ZArith List Bool Lia ZifyBool.
From PyDcop Require Import Base Net M_Mgm M_Mgm2 M_Mgm2r P_Mgm.
Import ListNotations.
Open Scope Z_scope.

(* ------------------------------------------------------------------ local cost = MGM's [own] *)
Lemma local_at_fupd_own d a n x : local_at d n (fupd a n x) = own d a n x.
Proof. unfold local_at, cost_at, own, fupd at 2. now rewrite Z.eqb_refl. Qed.

Lemma local_at_self d a n : local_at d n a = own d a n (a n).
Proof.
  rewrite <- local_at_fupd_own. unfold local_at, cost_at. f_equal.
  - apply zsum_map_ext. intros c _. apply ceval_ext. intros v _. unfold fupd.
    destruct (v =? n) eqn:E; [|reflexivity]. apply Z.eqb_eq in E. now subst.
  - unfold fupd. now rewrite Z.eqb_refl.
Qed.

Lemma argopt_from_ext mx f g dom : (forall x, f x = g x) ->
  forall best acc, argopt_from mx f dom best acc = argopt_from mx g dom best acc.
Proof.
  intros E. induction dom as [|y r IH]; intros best acc; simpl; [reflexivity|].
  rewrite <- E. destruct (better mx (f y) best); [apply IH|]. destruct (f y =? best); apply IH.
Qed.

Lemma find_arg_optimal_ext mx f g dom : (forall x, f x = g x) ->
  find_arg_optimal mx f dom = find_arg_optimal mx g dom.
Proof. intros E. destruct dom as [|y r]; simpl; [reflexivity|]. rewrite <- E. now apply argopt_from_ext. Qed.

Lemma bestl_max_gain d ng : bestl d (map snd ng) = max_gain d ng.
Proof.
  unfold bestl, max_gain. destruct ng as [|p r]; simpl; [reflexivity|].
  generalize (snd p). induction r as [|q r IH]; intros z; simpl; [reflexivity|]. apply IH.
Qed.

Section NoCommit.
  Variable d : dcop.
  Variable thr favor : Z.
  Variable a : Z -> Z.
  Variable orc : Z -> list Z.
  Hypothesis W : wf_dcop d = true.

  Lemma r2_ubest_eq n : r2_ubest d a n = r_best d a n.
  Proof. unfold r2_ubest, r_best. apply find_arg_optimal_ext. intros x. apply local_at_fupd_own. Qed.

  Lemma r2_ugain_eq n : r2_ugain d a n = r_gain d a n.
  Proof. unfold r2_ugain, r_gain, r2_cost. now rewrite r2_ubest_eq, local_at_self. Qed.

  Lemma r2_uimproving_eq n : r2_uimproving d a n = r_improving d a n.
  Proof. unfold r2_uimproving, r_improving. now rewrite r2_ugain_eq. Qed.

  Lemma r2_uval_eq n : r2_uval d thr a orc n = r_newv d a n (r2_dr thr orc n).
  Proof. unfold r2_uval, r_newv. now rewrite r2_uimproving_eq, r2_ubest_eq. Qed.

  (* no node has committed to a coordinated move in this round *)
  Hypothesis NC : forall n, In n (ids d) -> r2_committed d thr favor a orc n = false.

  Lemma nc_pgain n : In n (ids d) -> r2_pgain d thr favor a orc n = r_gain d a n.
  Proof.
    intros Hn. specialize (NC n Hn). unfold r2_committed in NC. unfold r2_pgain.
    destruct (r2_offerer thr orc n).
    - destruct (r2_accepted_by d thr favor a orc n) as [[[? ?] ?]|]; [discriminate|apply r2_ugain_eq].
    - destruct (r2_acc d thr favor a orc n); [discriminate|apply r2_ugain_eq].
  Qed.

  Lemma nc_pval n : In n (ids d) -> r2_pval d thr favor a orc n = r_newv d a n (r2_dr thr orc n).
  Proof.
    intros Hn. specialize (NC n Hn). unfold r2_committed in NC. unfold r2_pval.
    destruct (r2_offerer thr orc n).
    - destruct (r2_accepted_by d thr favor a orc n) as [[[? ?] ?]|]; [discriminate|apply r2_uval_eq].
    - destruct (r2_acc d thr favor a orc n) as [[[? ?] ?]|]; [discriminate|apply r2_uval_eq].
  Qed.

  Lemma active_in_ids n : r_active d n = true -> In n (ids d).
  Proof.
    unfold r_active. destruct (nbrs d n) as [|m r] eqn:E; [discriminate|]. intros _.
    assert (Hm : In m (nbrs d n)) by (rewrite E; left; reflexivity).
    apply nbrs_sym in Hm. eapply nbr_in_ids; eauto.
  Qed.

  Lemma nc_ng n : r2_ng d thr favor a orc n = map (fun m => (m, r_gain d a m)) (nbrs d n).
  Proof.
    unfold r2_ng. apply map_ext_in. intros m Hm. f_equal. apply nc_pgain. eapply nbr_in_ids; eauto.
  Qed.

  Lemma nc_moves n : r2_moves d thr favor a orc n = r_moves d a n && negb (r_gain d a n =? 0).
  Proof.
    unfold r2_moves, r_moves. destruct (r_active d n) eqn:Act; [|reflexivity]. simpl.
    pose proof (active_in_ids n Act) as Hn. rewrite (NC n Hn), (nc_pgain n Hn).
    unfold r2_umoves. rewrite nc_ng, (nc_pgain n Hn), bestl_max_gain.
    unfold r_wins, wins. apply andb_comm.
  Qed.

  (* without commitment the MGM2 round is the MGM round with the nodes' potential-value draws *)
  Lemma nc_next v : mgm2_next d thr favor a orc v = mgm_next d a (r2_dr thr orc) v.
  Proof.
    unfold mgm2_next, mgm_next. rewrite nc_moves.
    destruct (r_moves d a v) eqn:Mv; [|reflexivity]. simpl.
    assert (Hv : In v (ids d)).
    { unfold r_moves in Mv. apply andb_true_iff in Mv as [Act _]. now apply active_in_ids. }
    destruct (r_gain d a v =? 0) eqn:G0; simpl.
    - unfold r_newv, r_improving. destruct (d_max d); replace (_ <? _) with false by lia; reflexivity.
    - now apply nc_pval.
  Qed.

  (* C03, rounds without coordinated move *)
  Theorem mgm2_unilateral_monotone_l :
    if d_max d then gcost d a <= gcost d (mgm2_next d thr favor a orc)
    else gcost d (mgm2_next d thr favor a orc) <= gcost d a.
  Proof.
    rewrite (gcost_ext d (mgm2_next d thr favor a orc) (mgm_next d a (r2_dr thr orc)) W (fun v _ => nc_next v)).
    now apply mgm_round_monotone_lemma.
  Qed.

  Theorem mgm2_unilateral_movers_independent_l n m :
    r2_moves d thr favor a orc n = true -> r2_moves d thr favor a orc m = true -> In m (nbrs d n) -> False.
  Proof.
    rewrite !nc_moves. intros Hn Hm. apply andb_true_iff in Hn as [Hn _]. apply andb_true_iff in Hm as [Hm _].
    intros Hnb. exact (movers_independent d a n m Hn Hm Hnb).
  Qed.

  (* C04, rounds without coordinated move *)
  Theorem mgm2_no_commit_no_move_1opt_l :
    (forall v, In v (ids d) -> mgm2_next d thr favor a orc v = a v) ->
    forall n x, In n (ids d) -> r_active d n = true -> In x (dom_of d n) ->
    better (d_max d) (gcost d (fupd a n x)) (gcost d a) = false.
  Proof.
    intros Still. apply (mgm_no_move_1opt_lemma d W a (r2_dr thr orc)).
    intros v Hv. rewrite <- (nc_next v). now apply Still.
  Qed.
End NoCommit.

(* ------------------------------------------------------------------ the coordinated gain *)
Lemma filter_comm {A} (f g : A -> bool) l : filter f (filter g l) = filter g (filter f l).
Proof.
  induction l as [|x r IH]; simpl; [reflexivity|].
  destruct (g x) eqn:G, (f x) eqn:F; simpl; rewrite ?G, ?F, IH; reflexivity.
Qed.

Lemma cost_at_split (p : constr -> bool) l f :
  cost_at l f = cost_at (filter p l) f + cost_at (filter (fun c => negb (p c)) l) f.
Proof. unfold cost_at. apply zsum_filter_split. Qed.

Lemma cost_at_ext l f g : (forall c v, In c l -> In v (c_scope c) -> f v = g v) -> cost_at l f = cost_at l g.
Proof. intros H. unfold cost_at. apply zsum_map_ext. intros c Hc. apply ceval_ext. intros v Hv. eapply H; eauto. Qed.

Section Coordinated.
  Variable d : dcop.
  Variable a : Z -> Z.
  Hypothesis W : wf_dcop d = true.

  Theorem mgm2_coordinated_gain_error_l o p vo vp :
    In o (ids d) -> In p (ids d) -> o <> p ->
    r2_claimed d a p o vo vp (r2_offer_gain d a o p vo vp)
    = (gcost d a - gcost d (fupd (fupd a o vo) p vp)) + cost_at (shared_cons d p o) a + vcost d p vp.
  Proof.
    intros Ho Hp Hne. set (a2 := fupd (fupd a o vo) p vp).
    unfold r2_claimed, r2_offer_gain, r2_cost, local_at.
    set (ho := fun c : constr => zmem o (c_scope c)). set (hp := fun c : constr => zmem p (c_scope c)).
    (* the offerer evaluates the same assignment *)
    assert (E1 : cost_at (cons_of d o) (fupd (fupd a p vp) o vo) = cost_at (cons_of d o) a2).
    { apply cost_at_ext. intros c v _ _. unfold a2, fupd. destruct (v =? o) eqn:Eo, (v =? p) eqn:Ep; try reflexivity. lia. }
    assert (E2 : fupd (fupd a p vp) o vo o = vo) by (unfold fupd; now rewrite Z.eqb_refl).
    rewrite E1, E2. clear E1 E2.
    (* the global cost, split into: holds o / holds p only / neither *)
    unfold gcost. fold (ids d). fold (cost_at (d_cons d) a). fold (cost_at (d_cons d) a2).
    rewrite (cost_at_split ho (d_cons d) a), (cost_at_split ho (d_cons d) a2).
    rewrite (cost_at_split hp (filter (fun c => negb (ho c)) (d_cons d)) a),
            (cost_at_split hp (filter (fun c => negb (ho c)) (d_cons d)) a2).
    assert (E3 : cost_at (filter (fun c => negb (hp c)) (filter (fun c => negb (ho c)) (d_cons d))) a2
               = cost_at (filter (fun c => negb (hp c)) (filter (fun c => negb (ho c)) (d_cons d))) a).
    { apply cost_at_ext. intros c v Hc Hv. apply filter_In in Hc as [Hc Hcp]. apply filter_In in Hc as [_ Hco].
      unfold a2, fupd. destruct (v =? p) eqn:Ep.
      - apply Z.eqb_eq in Ep. subst v. apply zmem_In in Hv. unfold hp in Hcp. rewrite Hv in Hcp. discriminate.
      - destruct (v =? o) eqn:Eo; [|reflexivity].
        apply Z.eqb_eq in Eo. subst v. apply zmem_In in Hv. unfold ho in Hco. rewrite Hv in Hco. discriminate. }
    rewrite E3. clear E3.
    rewrite (filter_comm hp (fun c => negb (ho c)) (d_cons d)).
    (* p's constraints = shared + not shared *)
    unfold shared_cons. fold ho. unfold cons_of. fold ho. fold hp.
    rewrite (cost_at_split ho (filter hp (d_cons d)) a).
    (* own costs *)
    assert (V : zsum (map (fun v => vcost d v (a2 v)) (ids d))
              = zsum (map (fun v => vcost d v (a v)) (ids d)) + vcost d o vo - vcost d o (a o) + vcost d p vp - vcost d p (a p)).
    { unfold a2. rewrite (vsum_fupd d (fupd a o vo) p vp (ids d) (wf_nodup d W) Hp).
      rewrite (vsum_fupd d a o vo (ids d) (wf_nodup d W) Ho).
      assert (fupd a o vo p = a p) as -> by (unfold fupd; destruct (p =? o) eqn:E; [lia|reflexivity]). lia. }
    rewrite V. subst a2 ho hp. cbv beta. lia.
  Qed.

  (* the global cost after a coordinated move of o and p alone, in terms of the gain both announce *)
  Corollary mgm2_coordinated_worsening_bound_l o p vo vp :
    In o (ids d) -> In p (ids d) -> o <> p ->
    gcost d (fupd (fupd a o vo) p vp)
    = gcost d a - r2_claimed d a p o vo vp (r2_offer_gain d a o p vo vp) + cost_at (shared_cons d p o) a + vcost d p vp.
  Proof. intros Ho Hp Hne. rewrite (mgm2_coordinated_gain_error_l o p vo vp Ho Hp Hne). lia. Qed.
End Coordinated.

(* ------------------------------------------------------------------ the committed pair in the round *)
Lemma fold_left_inv {A B} (P : A -> Prop) (f : A -> B -> A) l :
  (forall acc x, In x l -> P acc -> P (f acc x)) -> forall acc, P acc -> P (fold_left f l acc).
Proof.
  induction l as [|y r IH]; simpl; intros H acc Hacc; [exact Hacc|].
  apply IH; [intros acc' x Hx; apply H; now right|]. apply H; [now left|exact Hacc].
Qed.

Lemma nth_mod_In {A} (l : list A) x dflt : l <> [] -> In (nth (Z.to_nat (x mod (zlen l))) l dflt) l.
Proof.
  intros H. apply nth_In. unfold zlen.
  assert (0 < Z.of_nat (List.length l)) by (destruct l; [tauto|simpl; lia]).
  pose proof (Z.mod_pos_bound x (Z.of_nat (List.length l)) H0). lia.
Qed.

Section Pair.
  Variable d : dcop.
  Variable thr favor : Z.
  Variable a : Z -> Z.
  Variable orc : Z -> list Z.

  Lemma r2_offers_gain o p vo vp pg : In (vo, vp, pg) (r2_offers d a o p) -> pg = r2_offer_gain d a o p vo vp.
  Proof.
    unfold r2_offers. intros H. apply in_flat_map in H as [dp [_ H]]. apply in_flat_map in H as [ds [_ H]].
    destruct (better _ _ _); [|contradiction]. destruct H as [H|[]]. now inversion H.
  Qed.

  (* every best offer comes from an offering neighbour, and the recorded gain is its claimed gain *)
  Definition offer_ok (n : Z) (best : Z) (t : Z * Z * Z) : Prop :=
    let '(vo, vme, o) := t in
    In o (r2_offerers d thr orc n)
    /\ r2_claimed d a n o vo vme (r2_offer_gain d a o n vo vme) = best.

  Lemma r2_best_offer_ok n t : In t (fst (r2_best_offer d thr a orc n)) ->
    offer_ok n (snd (r2_best_offer d thr a orc n)) t.
  Proof.
    unfold r2_best_offer.
    set (P := fun acc : list (Z * Z * Z) * Z => forall t, In t (fst acc) -> offer_ok n (snd acc) t).
    enough (HP : P (fold_left (fun acc o =>
      fold_left (fun acc2 ofr =>
        let '(vo, vme, pg) := ofr in
        let '(bests, best) := acc2 in
        let gg := r2_claimed d a n o vo vme pg in
        if (if d_max d then gg <? best else best <? gg) then ([(vo, vme, o)], gg)
        else if gg =? best then (bests ++ [(vo, vme, o)], best)
        else acc2) (r2_offers d a o n) acc) (r2_offerers d thr orc n) ([], 0))) by (intros H; now apply HP).
    apply fold_left_inv; [|intros t' []].
    intros acc o Ho Hacc. apply fold_left_inv; [|exact Hacc].
    intros [bests best] [[vo vme] pg] Hofr Hacc2. rewrite (r2_offers_gain o n vo vme pg Hofr).
    unfold P in *. simpl in Hacc2. cbv zeta.
    destruct (if d_max d then _ <? best else best <? _) eqn:E1; simpl.
    - intros t' [<-|[]]. simpl. split; [exact Ho|reflexivity].
    - destruct (_ =? best) eqn:E2; simpl; [|exact Hacc2].
      intros t' Ht'. apply in_app_or in Ht' as [Ht'|[<-|[]]]; [now apply Hacc2|].
      simpl. split; [exact Ho|lia].
  Qed.

  Lemma r2_decide_true n : fst (r2_decide d thr favor a orc n) = true -> fst (r2_best_offer d thr a orc n) <> [].
  Proof.
    unfold r2_decide. destruct (r2_best_offer d thr a orc n) as [bests gain]. simpl.
    destruct bests; [|discriminate]. rewrite orb_true_r. simpl. discriminate.
  Qed.

  Lemma r2_acc_In p t : r2_acc d thr favor a orc p = Some t -> In t (fst (r2_best_offer d thr a orc p)).
  Proof.
    unfold r2_acc. destruct (r2_offerer thr orc p); [discriminate|].
    unfold r2_accept. pose proof (r2_decide_true p) as Hd.
    destruct (r2_decide d thr favor a orc p) as [c o1]. simpl in Hd.
    destruct c; [|discriminate]. destruct (draw o1) as [x o']. simpl. intros E. inversion E; subst t. clear E.
    apply (In_isort t3_leb). apply nth_mod_In. intros E.
    apply Hd; [reflexivity|].
    destruct (fst (r2_best_offer d thr a orc p)) as [|y r] eqn:Eb; [reflexivity|].
    exfalso. assert (Hy : In y (isort t3_leb (y :: r))) by (apply In_isort; now left). rewrite E in Hy. contradiction.
  Qed.

  Section Accepted.
    (* p is not an offerer and accepts the offer (vo, vp) of its neighbour o *)
    Variables p o vo vp : Z.
    Hypothesis Hacc : r2_acc d thr favor a orc p = Some (vo, vp, o).

    Lemma acc_not_offerer : r2_offerer thr orc p = false.
    Proof. unfold r2_acc in Hacc. destruct (r2_offerer thr orc p); [discriminate|reflexivity]. Qed.

    Lemma acc_ok : offer_ok p (snd (r2_best_offer d thr a orc p)) (vo, vp, o).
    Proof. apply r2_best_offer_ok. now apply r2_acc_In. Qed.

    Lemma acc_nbr : In o (nbrs d p).
    Proof. destruct acc_ok as [H _]. unfold r2_offerers in H. apply filter_In in H. tauto. Qed.

    Lemma acc_choice : r2_choice d thr orc o = Some p.
    Proof.
      destruct acc_ok as [H _]. unfold r2_offerers in H. apply filter_In in H as [_ H].
      destruct (r2_choice d thr orc o) as [q|]; [|discriminate]. f_equal. lia.
    Qed.

    Lemma acc_o_offerer : r2_offerer thr orc o = true.
    Proof. pose proof acc_choice as H. unfold r2_choice in H. destruct (r2_offerer thr orc o); [reflexivity|discriminate]. Qed.

    Lemma acc_accepted_by : r2_accepted_by d thr favor a orc o = Some (vo, vp, p).
    Proof. unfold r2_accepted_by. now rewrite acc_choice, Hacc, Z.eqb_refl. Qed.

    (* both partners are committed to each other, announce the SAME gain -- the claimed gain of the
       accepted offer -- and hold the offered values as potential values *)
    Theorem mgm2_pair_state_l :
      In o (nbrs d p) /\ r2_offerer thr orc o = true /\ r2_offerer thr orc p = false
      /\ r2_committed d thr favor a orc p = true /\ r2_committed d thr favor a orc o = true
      /\ r2_partner d thr favor a orc p = Some o /\ r2_partner d thr favor a orc o = Some p
      /\ r2_pval d thr favor a orc p = vp /\ r2_pval d thr favor a orc o = vo
      /\ r2_pgain d thr favor a orc p = r2_claimed d a p o vo vp (r2_offer_gain d a o p vo vp)
      /\ r2_pgain d thr favor a orc o = r2_pgain d thr favor a orc p.
    Proof.
      pose proof acc_not_offerer as Np. pose proof acc_o_offerer as Oo. pose proof acc_accepted_by as Ab.
      destruct acc_ok as [_ Hg].
      unfold r2_committed, r2_partner, r2_pval, r2_pgain. rewrite Np, Oo, Ab, Hacc.
      repeat split; auto using acc_nbr, acc_choice.
    Qed.

    Hypothesis W : wf_dcop d = true.

    (* C03, quantified: if the pair moves and nobody else does, the new global cost is the old one
       minus the announced gain PLUS the current cost of the shared constraints and p's own cost *)
    Theorem mgm2_pair_move_cost_l :
      r2_moves d thr favor a orc o = true -> r2_moves d thr favor a orc p = true ->
      (forall v, In v (ids d) -> v <> o -> v <> p -> mgm2_next d thr favor a orc v = a v) ->
      gcost d (mgm2_next d thr favor a orc)
      = gcost d a - r2_pgain d thr favor a orc p + cost_at (shared_cons d p o) a + vcost d p vp.
    Proof.
      intros Mo Mp Others.
      destruct mgm2_pair_state_l as (Hnb & _ & _ & _ & _ & _ & _ & Vp & Vo & Gp & _).
      assert (Hne : o <> p) by (intros ->; eapply nbrs_irrefl; eauto).
      assert (Ho : In o (ids d)) by (eapply nbr_in_ids; eauto).
      assert (Hp : In p (ids d)) by (apply nbrs_sym in Hnb; eapply nbr_in_ids; eauto).
      rewrite (gcost_ext d (mgm2_next d thr favor a orc) (fupd (fupd a o vo) p vp) W).
      - rewrite Gp. now apply mgm2_coordinated_worsening_bound_l.
      - intros v Hv. unfold fupd. destruct (v =? p) eqn:Ep.
        + apply Z.eqb_eq in Ep. subst v. unfold mgm2_next. now rewrite Mp.
        + destruct (v =? o) eqn:Eo.
          * apply Z.eqb_eq in Eo. subst v. unfold mgm2_next. now rewrite Mo.
          * apply Others; [exact Hv|lia|lia].
    Qed.
  End Accepted.
End Pair.
