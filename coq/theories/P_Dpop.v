(* P_Dpop.v -- proofs about the DPOP model M_Dpop.v (C01).
   Part A: meaning of the relation helpers (join / projection / slice / find_arg_optimal).
   Part B: meaning of the handlers (UTIL phase = one dynamic-programming step, VALUE phase =
           arg-optimum of the sliced table, forwarded separator values).
   Part C: statements that hold for every DCOP, every pseudo-tree input and EVERY schedule
           (finished / selected at most once, nothing after finished, selected values in the
           domain). *)
From PyDcop Require Import Base Net M_Dpop.
From Coq Require Import ZifyBool.
Local Open Scope list_scope.

(* ================================================================== *)
(*  Part A : relation algebra                                           *)
(* ================================================================== *)
Definition in_dom (D : Z -> nat) (a : asg) (dims : list Z) : Prop :=
  forall d, In d dims -> (aval a d < D d)%nat.
Definition restrict (a : asg) (dims : list Z) : asg :=
  map (fun d => (d, Z.of_nat (aval a d))) dims.
Definition agree_on (dims : list Z) (a b : asg) : Prop :=
  forall d, In d dims -> aval a d = aval b d.

(* b is an optimum of the list l for the mode m *)
Definition mle (m : dmode) (b c : Z) : Prop := match m with Min => b <= c | Max => c <= b end.
Definition is_best (m : dmode) (l : list Z) (b : Z) : Prop := In b l /\ forall c, In c l -> mle m b c.

Lemma mle_refl m b : mle m b b.
Proof. destruct m; simpl; lia. Qed.
Lemma mle_trans m a b c : mle m a b -> mle m b c -> mle m a c.
Proof. destruct m; simpl; lia. Qed.

Lemma is_best_unique m l b b' : is_best m l b -> is_best m l b' -> b = b'.
Proof.
  intros [H1 H2] [H3 H4]. specialize (H2 _ H3). specialize (H4 _ H1). destruct m; simpl in *; lia.
Qed.

Lemma nth_map_seq {A} (g : nat -> A) n i def : (i < n)%nat -> nth i (map g (seq 0 n)) def = g i.
Proof.
  intros H. rewrite (nth_indep _ def (g O)) by (rewrite map_length, seq_length; lia).
  rewrite map_nth. rewrite seq_nth by lia. reflexivity.
Qed.

Lemma aval_cons_same x v a : aval ((x, Z.of_nat v) :: a) x = v.
Proof. unfold aval, zlookup; simpl. rewrite Z.eqb_refl. apply Nat2Z.id. Qed.

Lemma aval_cons_other x y v a : y <> x -> aval ((x, v) :: a) y = aval a y.
Proof.
  intro H. unfold aval, zlookup; simpl. destruct (Z.eqb y x) eqn:E; auto.
  apply Z.eqb_eq in E; congruence.
Qed.

Lemma aval_restrict a dims x : In x dims -> aval (restrict a dims) x = aval a x.
Proof.
  induction dims as [|d r IH]; simpl; intros H; [tauto|].
  destruct (Z.eq_dec x d) as [->|Hne].
  - apply aval_cons_same.
  - rewrite aval_cons_other by auto. apply IH. destruct H; congruence.
Qed.

Lemma zlookup_app {V} d (l1 l2 : list (Z * V)) :
  zlookup d (l1 ++ l2) = match zlookup d l1 with Some v => Some v | None => zlookup d l2 end.
Proof.
  unfold zlookup. induction l1 as [|[k v] r IH]; simpl; auto. destruct (Z.eqb d k); auto.
Qed.

Lemma aval_app_l a b d : mem_key Z.eqb d a = true -> aval (a ++ b) d = aval a d.
Proof.
  unfold aval, mem_key. rewrite zlookup_app. unfold zlookup. destruct (lookup Z.eqb d a); auto. discriminate.
Qed.
Lemma aval_app_r a b d : mem_key Z.eqb d a = false -> aval (a ++ b) d = aval b d.
Proof.
  unfold aval, mem_key. rewrite zlookup_app. unfold zlookup. destruct (lookup Z.eqb d a); auto. discriminate.
Qed.

Lemma eval_agree r a b : agree_on (r_dims r) a b -> eval r a = eval r b.
Proof. intros H. unfold eval. f_equal. apply map_ext_in. exact H. Qed.

Lemma in_remove_first x d l : In d l -> d <> x -> In d (remove_first x l).
Proof.
  induction l as [|y r IH]; simpl; intros H Hne; auto.
  destruct (Z.eqb x y) eqn:E.
  - apply Z.eqb_eq in E. destruct H; [congruence|auto].
  - destruct H; [left; auto | right; auto].
Qed.
Lemma remove_first_in x d l : In d (remove_first x l) -> In d l.
Proof.
  induction l as [|y r IH]; simpl; auto. destruct (Z.eqb x y); simpl; intros; auto. destruct H; auto.
Qed.

Section RelProofs.
  Variable D : Z -> nat.

  Lemma tget_build dims : forall f a, in_dom D a dims ->
    tget (build D dims f) (map (aval a) dims) = f (restrict a dims).
  Proof.
    induction dims as [|d r IH]; intros f a H; [reflexivity|].
    cbn [build map tget restrict].
    rewrite nth_map_seq by (apply H; left; auto).
    rewrite IH by (intros x Hx; apply H; right; auto). reflexivity.
  Qed.

  Lemma in_join_dims d2 : forall acc x, In x (join_dims acc d2) <-> In x acc \/ In x d2.
  Proof.
    induction d2 as [|d r IH]; intros acc x; simpl; [tauto|].
    destruct (zmem d acc) eqn:E; rewrite IH.
    - apply zmem_In in E. split; [tauto|]. intros [H|[<-|H]]; auto.
    - rewrite in_app_iff; simpl. tauto.
  Qed.

  Lemma dims_join u1 u2 x : In x (r_dims (join D u1 u2)) <-> In x (r_dims u1) \/ In x (r_dims u2).
  Proof. unfold join; simpl. apply in_join_dims. Qed.

  (* join means pointwise sum *)
  Lemma sem_join_l u1 u2 a : in_dom D a (r_dims (join D u1 u2)) ->
    eval (join D u1 u2) a = eval u1 a + eval u2 a.
  Proof.
    intros H. unfold join in *. unfold eval at 1. cbn [r_dims r_tbl] in *.
    rewrite tget_build by exact H.
    f_equal; apply eval_agree; intros d Hd; apply aval_restrict; apply in_join_dims; auto.
  Qed.

  (* ---- find_arg_optimal's loop *)
  Lemma fao_loop_spec m l : forall pre i best args,
    i = List.length pre ->
    ((best = None /\ args = [] /\ pre = []) \/
     (exists b, best = Some b /\ is_best m pre b /\ args <> [] /\
                forall j, In j args -> nth_error pre j = Some b)) ->
    pre ++ l <> [] ->
    exists b args', fao_loop m l i best args = (args', Some b) /\ is_best m (pre ++ l) b /\
                    args' <> [] /\ forall j, In j args' -> nth_error (pre ++ l) j = Some b.
  Proof.
    induction l as [|c r IH]; intros pre i best args Hi Hinv Hne.
    - rewrite app_nil_r in *. destruct Hinv as [(_ & _ & ->)|(b & -> & Hb & Ha & Hj)]; [congruence|].
      exists b, args. simpl. auto.
    - assert (E : pre ++ c :: r = (pre ++ [c]) ++ r) by (rewrite <- app_assoc; reflexivity).
      rewrite E. cbn [fao_loop].
      assert (Hlen : S i = List.length (pre ++ [c])) by (rewrite app_length; simpl; lia).
      assert (Hne' : (pre ++ [c]) ++ r <> []) by (destruct pre; simpl; discriminate).
      assert (Hnth : nth_error (pre ++ [c]) i = Some c).
      { subst i. rewrite nth_error_app2 by lia. rewrite Nat.sub_diag. reflexivity. }
      assert (Hold : forall j b, nth_error pre j = Some b -> nth_error (pre ++ [c]) j = Some b).
      { intros j b Hj. rewrite nth_error_app1; auto. apply nth_error_Some. congruence. }
      destruct (better m c best) eqn:Eb.
      + apply IH; auto. right. exists c. split; [reflexivity|]. split; [|split].
        * split; [apply in_or_app; right; left; auto|].
          intros y Hy. apply in_app_or in Hy. destruct Hy as [Hy|[<-|[]]]; [|apply mle_refl].
          destruct Hinv as [(_ & _ & ->)|(b & -> & [Hb1 Hb2] & _)]; [destruct Hy|].
          specialize (Hb2 _ Hy). unfold better in Eb. destruct m; simpl in *; lia.
        * discriminate.
        * intros j [<-|[]]. exact Hnth.
      + destruct Hinv as [(-> & _ & _)|(b & -> & [Hb1 Hb2] & Ha & Hj)]; [discriminate|].
        destruct (same c (Some b)) eqn:Es.
        * simpl in Es. apply Z.eqb_eq in Es. subst c.
          apply IH; auto. right. exists b. split; [reflexivity|]. split; [|split].
          -- split; [apply in_or_app; left; auto|].
             intros y Hy. apply in_app_or in Hy. destruct Hy as [Hy|[<-|[]]]; [auto|apply mle_refl].
          -- destruct args; simpl; discriminate.
          -- intros j Hin. apply in_app_or in Hin. destruct Hin as [Hin|[<-|[]]]; auto.
        * apply IH; auto. right. exists b. split; [reflexivity|]. split; [|split]; auto.
          split; [apply in_or_app; left; auto|].
          intros y Hy. apply in_app_or in Hy. destruct Hy as [Hy|[<-|[]]]; [auto|].
          unfold better in Eb. simpl in Es. destruct m; simpl in *; lia.
  Qed.

  Lemma fao_costs_spec m l : l <> [] ->
    exists b i args, fao_costs m l = (i :: args, Some b) /\ is_best m l b /\ nth_error l i = Some b.
  Proof.
    intros H. destruct (fao_loop_spec m l [] O None [] eq_refl) as (b & args & E & Hb & Ha & Hj); auto.
    destruct args as [|i args]; [congruence|]. exists b, i, args. simpl in *. split; [exact E|].
    split; [exact Hb | apply Hj; left; reflexivity].
  Qed.

  Lemma map_seq_nonempty {A} (g : nat -> A) n : (0 < n)%nat -> map g (seq 0 n) <> [].
  Proof. destruct n; [lia|]. simpl. discriminate. Qed.

  (* projection means: optimum over the projected variable *)
  Lemma dims_projection r x m p : projection D r x m = Some p -> r_dims p = remove_first x (r_dims r).
  Proof. unfold projection. destruct (zmem x (r_dims r)); [|discriminate]. intros H; inversion H; reflexivity. Qed.

  Lemma sem_projection_l r x m p a : projection D r x m = Some p -> in_dom D a (r_dims p) -> (0 < D x)%nat ->
    is_best m (map (fun v => eval r ((x, Z.of_nat v) :: a)) (seq 0 (D x))) (eval p a).
  Proof.
    unfold projection. destruct (zmem x (r_dims r)) eqn:Ex; [|discriminate].
    intros H; inversion H; subst p; clear H. cbn [r_dims]. intros Hd Hx.
    unfold eval at 2. cbn [r_dims r_tbl]. rewrite tget_build by exact Hd.
    assert (Heq : map (fun v => eval r ((x, Z.of_nat v) :: restrict a (remove_first x (r_dims r)))) (seq 0 (D x))
                = map (fun v => eval r ((x, Z.of_nat v) :: a)) (seq 0 (D x))).
    { apply map_ext. intros v. apply eval_agree. intros d Hin.
      destruct (Z.eq_dec d x) as [->|Hne]; [rewrite !aval_cons_same; auto|].
      rewrite !aval_cons_other by auto. apply aval_restrict. apply in_remove_first; auto. }
    rewrite Heq.
    destruct (fao_costs_spec m (map (fun v => eval r ((x, Z.of_nat v) :: a)) (seq 0 (D x))))
      as (b & i & args & E & Hb & _); [apply map_seq_nonempty; auto|].
    rewrite E. simpl. exact Hb.
  Qed.

  (* slice means: restriction to the given values *)
  Lemma sem_slice_l r vd p a : slice D r vd = Some p -> in_dom D a (r_dims p) ->
    eval p a = eval r (vd ++ a).
  Proof.
    unfold slice. destruct vd as [|kv vd']; [intros H; inversion H; reflexivity|].
    set (vd := kv :: vd') in *.
    destruct (forallb (fun kv0 => zmem (fst kv0) (r_dims r)) vd); [|discriminate].
    intros H; inversion H; subst p; clear H. cbn [r_dims]. intros Hd.
    unfold eval at 1. cbn [r_dims r_tbl]. rewrite tget_build by exact Hd.
    apply eval_agree. intros d Hin.
    change (aval (vd ++ restrict a (filter (fun d0 => negb (mem_key Z.eqb d0 vd)) (r_dims r))) d
            = aval (vd ++ a) d).
    destruct (mem_key Z.eqb d vd) eqn:Ek.
    - rewrite !aval_app_l by auto. reflexivity.
    - rewrite !aval_app_r by auto. apply aval_restrict. apply filter_In. split; auto. rewrite Ek. reflexivity.
  Qed.

  Lemma dims_slice r vd p : slice D r vd = Some p ->
    forall d, In d (r_dims p) <-> In d (r_dims r) /\ mem_key Z.eqb d vd = false.
  Proof.
    unfold slice. destruct vd as [|kv vd'].
    - intros H; inversion H; subst. intros d. unfold mem_key; simpl. tauto.
    - set (vd := kv :: vd') in *.
      destruct (forallb (fun kv0 => zmem (fst kv0) (r_dims r)) vd); [|discriminate].
      intros H; inversion H; subst p; clear H. cbn [r_dims]. intros d. rewrite filter_In.
      destruct (mem_key Z.eqb d vd); simpl; intuition congruence.
  Qed.

  (* find_arg_optimal + values[0] *)
  Lemma fao_spec x r m v c : fao D x r m = inl (v, c) ->
    r_dims r = [x] /\ 0 <= v /\ (Z.to_nat v < D x)%nat /\ c = eval r [(x, v)] /\
    is_best m (map (fun w => eval r [(x, Z.of_nat w)]) (seq 0 (D x))) c.
  Proof.
    unfold fao. destruct (r_dims r) as [|y [|z t]] eqn:Ed; try discriminate.
    destruct (Z.eqb x y) eqn:Exy; [|discriminate]. apply Z.eqb_eq in Exy. subst y.
    destruct (D x) as [|n] eqn:EDx; [simpl; discriminate|].
    destruct (fao_costs_spec m (map (fun w => eval r [(x, Z.of_nat w)]) (seq 0 (S n))))
      as (b & i & args & E & Hb & Hi); [simpl; discriminate|].
    rewrite E. intros H; inversion H; subst v c; clear H. simpl best_val.
    assert (Hlt : (i < S n)%nat).
    { assert (nth_error (map (fun w => eval r [(x, Z.of_nat w)]) (seq 0 (S n))) i <> None) by congruence.
      apply nth_error_Some in H. rewrite map_length, seq_length in H. exact H. }
    split; [reflexivity|]. split; [lia|]. rewrite Nat2Z.id. split; [exact Hlt|]. split; [|exact Hb].
    rewrite (nth_error_nth' _ 0) in Hi by (rewrite map_length, seq_length; exact Hlt).
    rewrite nth_map_seq in Hi by exact Hlt. congruence.
  Qed.

  (* joining a list of constraints adds their costs *)
  Lemma dims_fold_join (cs : list rel) : forall j d,
    In d (r_dims j) -> In d (r_dims (fold_left (join D) cs j)).
  Proof.
    induction cs as [|c r IH]; intros j d H; simpl; auto. apply IH. apply dims_join. auto.
  Qed.

  Lemma sem_fold_join (cs : list rel) : forall j a,
    in_dom D a (r_dims (fold_left (join D) cs j)) ->
    eval (fold_left (join D) cs j) a = eval j a + zsum (map (fun c => eval c a) cs).
  Proof.
    induction cs as [|c r IH]; intros j a H; simpl in *; [lia|].
    rewrite IH by exact H. rewrite sem_join_l; [lia|].
    intros d Hd. apply H. apply dims_fold_join. exact Hd.
  Qed.
End RelProofs.

(* ================================================================== *)
(*  Part B : the handlers                                               *)
(* ================================================================== *)
Section Handlers.
  Variable P : dcop.
  Let D := dsize P.
  Let m := dc_mode P.

  (* cost of the constraints a node keeps (owns) under an assignment *)
  Definition own_cost (x : Z) (a : asg) : Z := zsum (map (fun c => eval (con P c) a) (owned P x)).

  Lemma join_own_as_fold x j :
    join_own P x j = fold_left (join D) (map (con P) (owned P x)) j.
  Proof.
    unfold join_own. fold D. generalize (owned P x) j. induction l as [|c r IH]; intros j0; simpl; auto.
  Qed.

  Lemma sem_join_own x j a : in_dom D a (r_dims (join_own P x j)) ->
    eval (join_own P x j) a = eval j a + own_cost x a.
  Proof.
    rewrite join_own_as_fold. intros H. rewrite sem_fold_join by exact H.
    unfold own_cost. rewrite map_map. reflexivity.
  Qed.

  Lemma in_dom_cons_remove x v a dims :
    (v < D x)%nat -> in_dom D a (remove_first x dims) -> in_dom D ((x, Z.of_nat v) :: a) dims.
  Proof.
    intros Hv H d Hd. destruct (Z.eq_dec d x) as [->|Hne].
    - rewrite aval_cons_same. exact Hv.
    - rewrite aval_cons_other by auto. apply H. apply in_remove_first; auto.
  Qed.

  (* one dynamic-programming step: the UTIL computed by _compute_utils_msg is, for every
     assignment of its dimensions, the optimum over the node's own value of the accumulated
     table plus the constraints the node owns *)
  Lemma send_util_sem x s s' outs evs p u a :
    send_util P x s = (s', outs, evs) -> In (p, MUtil u) outs ->
    in_dom D a (r_dims u) -> (0 < D x)%nat ->
    parent P x = Some p /\
    is_best m (map (fun v => eval (s_joined s) ((x, Z.of_nat v) :: a) + own_cost x ((x, Z.of_nat v) :: a))
                   (seq 0 (D x))) (eval u a).
  Proof.
    unfold send_util. fold D m.
    destruct (projection D (join_own P x (s_joined s)) x m) as [u'|] eqn:Ep;
      destruct (parent P x) as [p'|] eqn:Epar; intros H; inversion H; subst; clear H;
      simpl; try tauto.
    intros [Hin|[]]. inversion Hin; subst p' u'; clear Hin. intros Hd Hx. split; [reflexivity|].
    pose proof (sem_projection_l D _ _ _ _ a Ep Hd Hx) as Hb.
    erewrite map_ext_in; [exact Hb|].
    intros v Hv. apply in_seq in Hv. symmetry. apply sem_join_own.
    rewrite (dims_projection D _ _ _ _ Ep) in Hd. apply in_dom_cons_remove; [lia|exact Hd].
  Qed.

  (* a UTIL that does not complete the set is simply added to the accumulated table *)
  Lemma on_util_accumulates x s src u s' outs evs :
    on_util P x s src u = (s', outs, evs) -> zmem src (s_waited s) = true ->
    remove_first src (s_waited s) <> [] ->
    outs = [] /\ evs = [] /\ s_waited s' = remove_first src (s_waited s) /\
    forall a, in_dom D a (r_dims (s_joined s')) -> eval (s_joined s') a = eval (s_joined s) a + eval u a.
  Proof.
    unfold on_util. fold D. intros H Hw Hne. rewrite Hw in H. cbn [s_waited] in H.
    destruct (remove_first src (s_waited s)) eqn:Er; [congruence|].
    inversion H; subst; clear H. cbn [s_joined s_waited]. repeat split; auto.
    intros a Ha. apply sem_join_l. exact Ha.
  Qed.

  (* every selection made by a handler is a best response to the table it holds *)
  Lemma root_select_sem x s s' outs evs v c :
    root_select P x s = (s', outs, evs) -> In (EvSelect x v c) evs ->
    0 <= v /\ (Z.to_nat v < D x)%nat /\
    is_best m (map (fun w => eval (s_joined s) [(x, Z.of_nat w)] + own_cost x [(x, Z.of_nat w)]) (seq 0 (D x))) c /\
    c = eval (s_joined s) [(x, v)] + own_cost x [(x, v)] /\
    outs = map (fun ch => (ch, MValue [x] [v])) (children P x).
  Proof.
    unfold root_select. fold D m.
    destruct (fao D x (join_own P x (s_joined s)) m) as [[v' c']|k] eqn:Ef.
    - intros H; inversion H; subst; clear H. intros Hin. apply in_app_or in Hin.
      destruct Hin as [Hin|Hin].
      { apply in_map_iff in Hin. destruct Hin as (? & Hq & _). discriminate. }
      destruct Hin as [Hin|[Hin|[]]]; [|discriminate]. inversion Hin; subst v' c'; clear Hin.
      apply fao_spec in Ef. destruct Ef as (Hd & Hv0 & Hv & Hc & Hb).
      assert (Hdom : forall w, (w < D x)%nat -> in_dom D [(x, Z.of_nat w)] (r_dims (join_own P x (s_joined s)))).
      { intros w Hw d Hdd. rewrite Hd in Hdd. destruct Hdd as [<-|[]]. rewrite aval_cons_same. exact Hw. }
      split; [exact Hv0|]. split; [exact Hv|]. split; [|split; [|reflexivity]].
      + erewrite map_ext_in; [exact Hb|]. intros w Hw. apply in_seq in Hw. symmetry.
        apply sem_join_own. apply Hdom. lia.
      + rewrite Hc. rewrite <- (Z2Nat.id v) by exact Hv0. apply sem_join_own. apply Hdom. exact Hv.
    - intros H; inversion H; subst; clear H. simpl. intros [Hin|[]]. discriminate.
  Qed.

  Lemma value_msgs_evs x sel vd csep cs outs evs ok :
    value_msgs x sel vd csep cs = (outs, evs, ok) ->
    forall e, In e evs -> match e with EvSelect _ _ _ | EvFinished _ => False | _ => True end.
  Proof.
    revert outs evs ok. induction cs as [|c r IH]; intros outs evs ok; simpl.
    - intros H; inversion H; subst. intros e [].
    - destruct (zlookup c csep) as [sep|].
      + destruct (value_msgs x sel vd csep r) as [[o e'] ok'] eqn:Er.
        intros H; inversion H; subst; clear H. intros e [<-|Hin]; [exact I|]. eapply IH; eauto.
      + intros H; inversion H; subst. intros e [<-|[]]. exact I.
  Qed.

  (* the VALUE messages forwarded to the children carry the node's own choice and, for the other
     variables, exactly the values received *)
  Lemma value_msgs_forward x sel vd csep cs outs evs ok :
    value_msgs x sel vd csep cs = (outs, evs, ok) ->
    forall c vars vals, In (c, MValue vars vals) outs ->
      In c cs /\ exists sep, zlookup c csep = Some sep /\
      vars = x :: filter (fun v => mem_key Z.eqb v vd) sep /\
      vals = sel :: map (fun v => match zlookup v vd with Some w => w | None => 0 end)
                        (filter (fun v => mem_key Z.eqb v vd) sep).
  Proof.
    revert outs evs ok. induction cs as [|c r IH]; intros outs evs ok; simpl.
    - intros H; inversion H; subst. intros c vars vals [].
    - destruct (zlookup c csep) as [sep|] eqn:El.
      + destruct (value_msgs x sel vd csep r) as [[o e'] ok'] eqn:Er.
        intros H; inversion H; subst; clear H. intros c0 vars vals [Hin|Hin].
        * inversion Hin; subst. split; [left; auto|]. exists sep. auto.
        * destruct (IH _ _ _ eq_refl _ _ _ Hin) as [H1 H2]. split; [right; auto|exact H2].
      + intros H; inversion H; subst. intros c0 vars vals [].
  Qed.

  Lemma on_value_sem x s vars vals s' outs evs v c vd :
    vd = dict_of_list Z.eqb (combine vars vals) ->
    on_value P x s vars vals = (s', outs, evs) -> In (EvSelect x v c) evs ->
    0 <= v /\ (Z.to_nat v < D x)%nat /\
    c = eval (s_joined s) (vd ++ [(x, v)]) /\
    is_best m (map (fun w => eval (s_joined s) (vd ++ [(x, Z.of_nat w)])) (seq 0 (D x))) c /\
    (forall d, In d (r_dims (s_joined s)) -> d = x \/ mem_key Z.eqb d vd = true).
  Proof.
    unfold on_value. fold D m. intros Hvd H Hin. rewrite <- Hvd in H. cbv zeta in H. clear Hvd.
    destruct (slice D (s_joined s) vd) as [r|] eqn:Es.
    2:{ inversion H; subst. destruct Hin as [Hin|[]]; discriminate. }
    destruct (fao D x r m) as [[v' c']|k] eqn:Ef.
    2:{ inversion H; subst. destruct Hin as [Hin|[]]; discriminate. }
    destruct (value_msgs x v' vd (s_csep s) (children P x)) as [[o e] ok] eqn:Ev.
    destruct ok.
    - inversion H; subst; clear H. apply in_app_or in Hin. destruct Hin as [Hin|Hin].
      { exfalso. exact (value_msgs_evs _ _ _ _ _ _ _ _ Ev _ Hin). }
      destruct Hin as [Hin|[Hin|[]]]; [|discriminate]. inversion Hin; subst v' c'; clear Hin.
      apply fao_spec in Ef. destruct Ef as (Hd & Hv0 & Hv & Hc & Hb).
      assert (Hdom : forall w, (w < D x)%nat -> in_dom D [(x, Z.of_nat w)] (r_dims r)).
      { intros w Hw d Hdd. rewrite Hd in Hdd. destruct Hdd as [<-|[]]. rewrite aval_cons_same. exact Hw. }
      split; [exact Hv0|]. split; [exact Hv|]. split; [|split].
      + rewrite Hc. rewrite <- (Z2Nat.id v) by exact Hv0. apply (sem_slice_l D _ _ _ _ Es). apply Hdom. exact Hv.
      + erewrite map_ext_in; [exact Hb|]. intros w Hw. apply in_seq in Hw. symmetry.
        apply (sem_slice_l D _ _ _ _ Es). apply Hdom. lia.
      + intros d Hdd. destruct (mem_key Z.eqb d vd) eqn:Ek; [right; auto|left].
        assert (In d (r_dims r)) by (apply (dims_slice D _ _ _ Es); auto).
        rewrite Hd in H. destruct H as [<-|[]]. reflexivity.
    - inversion H; subst; clear H. exfalso. exact (value_msgs_evs _ _ _ _ _ _ _ _ Ev _ Hin).
  Qed.
End Handlers.

(* ================================================================== *)
(*  Part C : statements for every schedule                              *)
(* ================================================================== *)
(* A generic induction principle over Net.v: a per-node invariant J, a property Pev of every
   emitted event, and a per-node potential phi that pays for weighted events. *)
Section NetInv.
  Context {St Msg Ev : Type}.
  Variable PR : proto St Msg Ev.
  Variable J : node -> nwrap St Msg -> Prop.
  Variable Pev : Ev -> Prop.
  Variable phi : node -> nwrap St Msg -> nat.
  Variable wt : node -> Ev -> nat.

  Definition wsum (x : node) (evs : list Ev) : nat := fold_right (fun e acc => (wt x e + acc)%nat) O evs.

  Lemma wsum_app x e1 e2 : wsum x (e1 ++ e2) = (wsum x e1 + wsum x e2)%nat.
  Proof. induction e1; simpl; auto. rewrite IHe1. lia. Qed.

  Definition good_out (n : node) (w w' : nwrap St Msg) (evs : list Ev) : Prop :=
    J n w' /\ Forall Pev evs /\ (wsum n evs + phi n w' <= phi n w)%nat /\
    forall k, k <> n -> wsum k evs = O.

  Hypothesis Hstart : forall n w, J n w -> w_running w = false ->
    forall st' outs evs, p_start PR n (w_st w) = (st', outs, evs) -> good_out n w (mkWrap true [] st') evs.
  Hypothesis Hrecv : forall n w s mm, J n w -> w_running w = true ->
    forall st' outs evs, p_recv PR n (w_st w) s mm = (st', outs, evs) ->
    good_out n w (mkWrap true (w_held w) st') evs.
  Hypothesis Hhold : forall n w s mm, J n w -> w_running w = false ->
    J n (mkWrap false (w_held w ++ [(s, mm)]) (w_st w)) /\
    (phi n (mkWrap false (w_held w ++ [(s, mm)]) (w_st w)) <= phi n w)%nat.

  Definition Jall (cf : config St Msg) : Prop := forall n, J n (nodes cf n).

  Lemma upd_node_same (f : node -> nwrap St Msg) n w : upd_node f n w n = w.
  Proof. unfold upd_node. rewrite Z.eqb_refl. reflexivity. Qed.
  Lemma upd_node_other (f : node -> nwrap St Msg) n w x : x <> n -> upd_node f n w x = f x.
  Proof. intros H. unfold upd_node. apply Z.eqb_neq in H. rewrite H. reflexivity. Qed.

  Lemma step_inv cf a : Jall cf ->
    Jall (fst (step PR cf a)) /\ Forall Pev (snd (step PR cf a)) /\
    forall x, (wsum x (snd (step PR cf a)) + phi x (nodes (fst (step PR cf a)) x) <= phi x (nodes cf x))%nat.
  Proof.
    intros HJ. destruct a as [n|s d]; unfold step.
    - destruct (w_running (nodes cf n)) eqn:Er.
      + simpl. split; [exact HJ|]. split; [constructor|]. intros x; lia.
      + destruct (p_start PR n (w_st (nodes cf n))) as [[st' outs] evs] eqn:Es.
        destruct (Hstart n _ (HJ n) Er _ _ _ Es) as (H1 & H2 & H3 & H4). cbn [fst snd nodes].
        split; [|split; [exact H2|]]; intros x; cbn [nodes]; destruct (Z.eq_dec x n) as [->|E].
        * rewrite upd_node_same. exact H1.
        * rewrite upd_node_other by auto. apply HJ.
        * rewrite upd_node_same. exact H3.
        * rewrite upd_node_other by auto. rewrite (H4 x E). lia.
    - destruct (chan cf s d) as [|mm q] eqn:Ec.
      + simpl. split; [exact HJ|]. split; [constructor|]. intros x; lia.
      + destruct (w_running (nodes cf d)) eqn:Er.
        * destruct (p_recv PR d (w_st (nodes cf d)) s mm) as [[st' outs] evs] eqn:Es.
          destruct (Hrecv d _ s mm (HJ d) Er _ _ _ Es) as (H1 & H2 & H3 & H4). cbn [fst snd nodes].
          split; [|split; [exact H2|]]; intros x; cbn [nodes]; destruct (Z.eq_dec x d) as [->|E].
          -- rewrite upd_node_same. exact H1.
          -- rewrite upd_node_other by auto. apply HJ.
          -- rewrite upd_node_same. exact H3.
          -- rewrite upd_node_other by auto. rewrite (H4 x E). lia.
        * destruct (Hhold d _ s mm (HJ d) Er) as [H1 H2]. cbn [fst snd nodes].
          split; [|split; [constructor|]]; intros x; cbn [nodes]; destruct (Z.eq_dec x d) as [->|E].
          -- rewrite upd_node_same. exact H1.
          -- rewrite upd_node_other by auto. apply HJ.
          -- rewrite upd_node_same. simpl. exact H2.
          -- rewrite upd_node_other by auto. simpl. lia.
  Qed.

  Lemma exec_inv sched : forall cf, Jall cf ->
    Jall (fst (exec PR cf sched)) /\ Forall Pev (snd (exec PR cf sched)) /\
    forall x, (wsum x (snd (exec PR cf sched)) + phi x (nodes (fst (exec PR cf sched)) x) <= phi x (nodes cf x))%nat.
  Proof.
    induction sched as [|a r IH]; intros cf HJ; simpl.
    - split; [exact HJ|]. split; [constructor|]. intros x; lia.
    - pose proof (step_inv cf a HJ) as (S1 & S2 & S3).
      destruct (step PR cf a) as [cf1 e1]. cbn [fst snd] in *.
      pose proof (IH cf1 S1) as (R1 & R2 & R3).
      destruct (exec PR cf1 r) as [cf2 e2]. cbn [fst snd] in *.
      split; [exact R1|]. split; [apply Forall_app; auto|].
      intros x. rewrite wsum_app. specialize (S3 x). specialize (R3 x). lia.
  Qed.
End NetInv.

Section AllSchedules.
  Variable P : dcop.
  Let D := dsize P.

  Definition quiet (evs : list ev) : Prop :=
    forall e, In e evs -> match e with EvSelect _ _ _ | EvFinished _ => False | _ => True end.

  Definition shape (x : Z) (s s' : st) (evs : list ev) : Prop :=
    (quiet evs /\ s_fin s' = s_fin s /\ s_value s' = s_value s) \/
    (exists pre v c, evs = pre ++ [EvSelect x v c; EvFinished x] /\ quiet pre /\ s_fin s' = true /\
                     s_value s' = Some (v, c) /\ 0 <= v /\ (Z.to_nat v < D x)%nat).

  Lemma shape_from x s1 s s' evs :
    shape x s1 s' evs -> s_fin s1 = s_fin s -> s_value s1 = s_value s -> shape x s s' evs.
  Proof. intros [(A & B & C)|H] E1 E2; [left; split; [exact A|split; congruence]|right; exact H]. Qed.

  Lemma quiet_single_raise x k : quiet [EvRaise x k].
  Proof. intros e [<-|[]]. exact I. Qed.
  Lemma quiet_nil : quiet [].
  Proof. intros e []. Qed.

  Lemma root_select_shape x s s' outs evs : root_select P x s = (s', outs, evs) -> shape x s s' evs.
  Proof.
    unfold root_select. fold D.
    destruct (fao D x (join_own P x (s_joined s)) (dc_mode P)) as [[v c]|k] eqn:Ef.
    - intros H; inversion H; subst; clear H. right.
      exists (map (fun ch => EvValue x ch [x] [v]) (children P x)), v, c.
      apply fao_spec in Ef. destruct Ef as (_ & Hv0 & Hv & _).
      repeat split; auto.
      intros e Hin. apply in_map_iff in Hin. destruct Hin as (ch & <- & _). exact I.
    - intros H; inversion H; subst; clear H. left. repeat split; auto. apply quiet_single_raise.
  Qed.

  Lemma send_util_shape x s s' outs evs : send_util P x s = (s', outs, evs) -> shape x s s' evs.
  Proof.
    unfold send_util.
    destruct (projection (dsize P) (join_own P x (s_joined s)) x (dc_mode P)); destruct (parent P x);
      intros H; inversion H; subst; clear H; left; repeat split; auto;
      intros e [<-|[]]; exact I.
  Qed.

  Lemma on_util_shape x s src u s' outs evs : on_util P x s src u = (s', outs, evs) -> shape x s s' evs.
  Proof.
    unfold on_util. destruct (zmem src (s_waited s)).
    - cbn [s_waited]. destruct (remove_first src (s_waited s)).
      + destruct (is_root P x); intros H;
          [apply root_select_shape in H|apply send_util_shape in H]; eapply shape_from; eauto.
      + intros H; inversion H; subst; clear H. left. repeat split; auto. apply quiet_nil.
    - intros H; inversion H; subst; clear H. left. repeat split; auto. apply quiet_single_raise.
  Qed.

  Lemma on_value_shape x s vars vals s' outs evs : on_value P x s vars vals = (s', outs, evs) -> shape x s s' evs.
  Proof.
    unfold on_value. fold D. cbv zeta.
    destruct (slice D (s_joined s) (dict_of_list Z.eqb (combine vars vals))) as [r|].
    2:{ intros H; inversion H; subst. left. repeat split; auto. apply quiet_single_raise. }
    destruct (fao D x r (dc_mode P)) as [[v c]|k] eqn:Ef.
    2:{ intros H; inversion H; subst. left. repeat split; auto. apply quiet_single_raise. }
    destruct (value_msgs x v (dict_of_list Z.eqb (combine vars vals)) (s_csep s) (children P x)) as [[o e] ok] eqn:Ev.
    pose proof (value_msgs_evs _ _ _ _ _ _ _ _ Ev) as Hq.
    apply fao_spec in Ef. destruct Ef as (_ & Hv0 & Hv & _).
    destruct ok; intros H; inversion H; subst; clear H.
    - right. exists e, v, c. repeat split; auto.
    - left. repeat split; auto.
  Qed.

  Lemma start_shape x s s' outs evs : dpop_start P x s = (s', outs, evs) -> shape x s s' evs.
  Proof.
    unfold dpop_start. destruct (is_leaf P x).
    - destruct (is_root P x); [apply root_select_shape|apply send_util_shape].
    - intros H; inversion H; subst. left. repeat split; auto. apply quiet_nil.
  Qed.

  Lemma recv_shape x s src mm s' outs evs : dpop_recv P x s src mm = (s', outs, evs) ->
    (s_fin s = true -> evs = [] /\ s_fin s' = true /\ s_value s' = s_value s) /\ shape x s s' evs.
  Proof.
    unfold dpop_recv. destruct (s_fin s) eqn:Ef.
    - intros H; inversion H; subst; clear H. split; [auto|]. left. repeat split; auto. apply quiet_nil.
    - split; [discriminate|]. destruct mm; [eapply on_util_shape|eapply on_value_shape]; eauto.
  Qed.

  (* ---- instantiation of the generic principle *)
  Definition Jd (x : node) (w : nwrap st msg) : Prop :=
    (w_running w = false -> s_fin (w_st w) = false) /\
    (forall v c, s_value (w_st w) = Some (v, c) -> 0 <= v /\ (Z.to_nat v < D x)%nat) /\
    (s_fin (w_st w) = true -> s_value (w_st w) <> None).
  Definition Pevd (e : ev) : Prop :=
    match e with EvSelect x v _ => 0 <= v /\ (Z.to_nat v < D x)%nat | _ => True end.
  Definition phid (x : node) (w : nwrap st msg) : nat := if s_fin (w_st w) then O else 1%nat.
  (* kind = true counts EvFinished x, kind = false counts EvSelect x *)
  Definition wtd (kind : bool) (x : node) (e : ev) : nat :=
    match e, kind with
    | EvFinished y, true => if Z.eqb y x then 1%nat else O
    | EvSelect y _ _, false => if Z.eqb y x then 1%nat else O
    | _, _ => O
    end.

  Lemma quiet_wsum kind k evs : quiet evs -> wsum (wtd kind) k evs = O.
  Proof.
    induction evs as [|e r IH]; intros H; simpl; auto.
    rewrite IH by (intros e' He'; apply H; right; auto).
    specialize (H e (or_introl eq_refl)). destruct e, kind; simpl in *; tauto.
  Qed.
  Lemma quiet_Pev evs : quiet evs -> Forall Pevd evs.
  Proof.
    intros H. apply Forall_forall. intros e He. specialize (H e He). destruct e; simpl; tauto.
  Qed.

  Lemma shape_good kind x (w : nwrap st msg) s' held evs :
    shape x (w_st w) s' evs -> Jd x w -> s_fin (w_st w) = false ->
    good_out Jd Pevd phid (wtd kind) x w (mkWrap true held s') evs.
  Proof.
    intros [(Hq & Hf & Hv)|(pre & v & c & -> & Hq & Hf & Hv & Hv0 & Hvd)] (J1 & J2 & J3) Hnf.
    - split; [|split; [apply quiet_Pev; auto|split]].
      + unfold Jd; cbn [w_running w_st]. split; [discriminate|]. rewrite Hv, Hf. auto.
      + rewrite quiet_wsum by auto. unfold phid; cbn [w_st]. rewrite Hf. lia.
      + intros k _. apply quiet_wsum; auto.
    - split; [|split; [|split]].
      + unfold Jd; cbn [w_running w_st]. split; [discriminate|]. rewrite Hv. split.
        * intros v' c' E; inversion E; subst; auto.
        * discriminate.
      + apply Forall_app. split; [apply quiet_Pev; auto|]. repeat constructor; simpl; auto.
      + rewrite wsum_app, quiet_wsum by auto. unfold phid; cbn [w_st]. rewrite Hf, Hnf.
        destruct kind; simpl; rewrite Z.eqb_refl; lia.
      + intros k Hk. rewrite wsum_app, quiet_wsum by auto.
        assert (Z.eqb x k = false) by (apply Z.eqb_neq; congruence).
        destruct kind; simpl; rewrite H; reflexivity.
  Qed.

  Lemma dpop_inv kind sched :
    let r := run (dpop_proto P) sched in
    Jall Jd (fst r) /\ Forall Pevd (snd r) /\ forall x, (wsum (wtd kind) x (snd r) <= 1)%nat.
  Proof.
    cbv zeta. unfold run.
    pose proof (exec_inv (dpop_proto P) Jd Pevd phid (wtd kind)) as HH.
    assert (Hinit : Jall Jd (init (dpop_proto P))).
    { intros n. unfold Jd, init; cbn. repeat split; auto; discriminate. }
    destruct (HH) with (sched := sched) (cf := init (dpop_proto P)) as (R1 & R2 & R3); auto.
    - (* start *)
      intros n w Hj Hr st' outs evs Hs. cbn in Hs. apply start_shape in Hs.
      apply shape_good; auto. destruct Hj as (J1 & _). auto.
    - (* recv *)
      intros n w s mm Hj Hr st' outs evs Hs. cbn in Hs. apply recv_shape in Hs. destruct Hs as [Hfin Hsh].
      destruct (s_fin (w_st w)) eqn:Ef.
      + destruct (Hfin eq_refl) as (-> & Hf' & Hv'). destruct Hj as (J1 & J2 & J3).
        split; [|split; [constructor|split]].
        * unfold Jd; cbn [w_running w_st]. split; [discriminate|]. rewrite Hv'. split; [exact J2|intros _; apply J3; exact Ef].
        * simpl. unfold phid; cbn [w_st]. rewrite Hf', Ef. lia.
        * intros k _. reflexivity.
      + apply shape_good; auto.
    - (* hold *)
      intros n w s mm Hj Hr. split; [|unfold phid; cbn [w_st]; lia].
      destruct Hj as (J1 & J2 & J3). unfold Jd; cbn [w_running w_st]. auto.
    - split; [exact R1|]. split; [exact R2|]. intros x. specialize (R3 x).
      unfold phid in R3 at 2. cbn in R3. lia.
  Qed.

  Definition count_finished (x : Z) (evs : list ev) : nat := wsum (wtd true) x evs.
  Definition count_selected (x : Z) (evs : list ev) : nat := wsum (wtd false) x evs.

  (* For EVERY dcop / pseudo-tree input and EVERY schedule: a computation reports finished at
     most once and selects a value at most once; every selected value is an index of the
     variable's domain; a finished computation holds such a value. *)
  Theorem all_schedules_once_in_domain sched :
    let r := run (dpop_proto P) sched in
    (forall x, (count_finished x (snd r) <= 1)%nat /\ (count_selected x (snd r) <= 1)%nat) /\
    (forall x v c, In (EvSelect x v c) (snd r) -> 0 <= v < Z.of_nat (dsize P x)) /\
    (forall x, s_fin (w_st (nodes (fst r) x)) = true ->
        exists v c, s_value (w_st (nodes (fst r) x)) = Some (v, c) /\ 0 <= v < Z.of_nat (dsize P x)).
  Proof.
    cbv zeta. pose proof (dpop_inv true sched) as (A1 & A2 & A3). pose proof (dpop_inv false sched) as (_ & _ & B3).
    cbv zeta in *. split; [|split].
    - intros x. split; [apply A3|apply B3].
    - intros x v c Hin. rewrite Forall_forall in A2. specialize (A2 _ Hin). simpl in A2. fold D. lia.
    - intros x Hf. destruct (A1 x) as (J1 & J2 & J3).
      destruct (s_value (w_st (nodes (fst (run (dpop_proto P) sched)) x))) as [[v c]|] eqn:Ev.
      + exists v, c. split; auto. specialize (J2 _ _ eq_refl). fold D. lia.
      + exfalso. apply J3; auto.
  Qed.
End AllSchedules.

(* ================================================================== *)
(*  Part D : the UTIL of a node is the optimum over its whole subtree   *)
(* ================================================================== *)
Lemma flat_map_flat_map {A B C} (f : A -> list B) (g : B -> list C) l :
  flat_map g (flat_map f l) = flat_map (fun x => flat_map g (f x)) l.
Proof. induction l; simpl; auto. rewrite flat_map_app, IHl. reflexivity. Qed.

Lemma map_flat_map {A B C} (f : A -> list B) (g : B -> C) l :
  map g (flat_map f l) = flat_map (fun x => map g (f x)) l.
Proof. induction l; simpl; auto. rewrite map_app, IHl. reflexivity. Qed.

Lemma is_best_shift m l b k : is_best m l b -> is_best m (map (fun z => k + z) l) (k + b).
Proof.
  intros [H1 H2]. split.
  - apply in_map_iff. exists b. auto.
  - intros c Hc. apply in_map_iff in Hc. destruct Hc as (z & <- & Hz). specialize (H2 _ Hz).
    destruct m; simpl in *; lia.
Qed.

Lemma is_best_flat_map {A} m (I : list A) (g : A -> list Z) (h : A -> Z) B :
  (forall i, In i I -> is_best m (g i) (h i)) -> is_best m (map h I) B -> is_best m (flat_map g I) B.
Proof.
  intros Hi [H1 H2]. split.
  - apply in_map_iff in H1. destruct H1 as (i & <- & Hin). apply in_flat_map. exists i. split; auto.
    apply (Hi i Hin).
  - intros c Hc. apply in_flat_map in Hc. destruct Hc as (i & Hin & Hc).
    apply mle_trans with (h i).
    + apply H2. apply in_map. exact Hin.
    + apply (Hi i Hin). exact Hc.
Qed.

Lemma Forall2_impl_in {A B} (R R' : A -> B -> Prop) l l' :
  (forall a b, In a l -> R a b -> R' a b) -> Forall2 R l l' -> Forall2 R' l l'.
Proof.
  intros H F. induction F; constructor.
  - apply H; [left; auto|auto].
  - apply IHF. intros a b Ha. apply H. right; auto.
Qed.

Section DP.
  Variable P : dcop.
  Let D := dsize P.
  Let m := dc_mode P.

  Definition vc (x : Z) (a : asg) : Z := nth (aval a x) (vcosts P x) 0.
  (* the cost a node is responsible for: its variable's own cost + the constraints it owns *)
  Definition local (x : Z) (a : asg) : Z := vc x a + own_cost P x a.
  Definition cost_in (L : list Z) (a : asg) : Z := zsum (map (fun y => local y a) L).

  (* all extensions of a by an assignment of the variables L (new pairs in front) *)
  Fixpoint ext (L : list Z) (a : asg) : list asg :=
    match L with
    | [] => [a]
    | y :: r => flat_map (fun v => ext r ((y, Z.of_nat v) :: a)) (seq 0 (D y))
    end.

  (* the variables the costs of the nodes L can depend on *)
  Definition sv (L : list Z) : list Z :=
    flat_map (fun y => y :: flat_map (fun k => r_dims (con P k)) (owned P y)) L.

  Lemma ext_app L1 : forall L2 a, ext (L1 ++ L2) a = flat_map (ext L2) (ext L1 a).
  Proof.
    induction L1 as [|y r IH]; intros L2 a; simpl.
    - rewrite app_nil_r. reflexivity.
    - rewrite flat_map_flat_map. apply flat_map_ext. intros v. apply IH.
  Qed.

  Lemma ext_aval_other L : forall a e d, In e (ext L a) -> ~ In d L -> aval e d = aval a d.
  Proof.
    induction L as [|y r IH]; intros a e d He Hd; simpl in He.
    - destruct He as [<-|[]]. reflexivity.
    - apply in_flat_map in He. destruct He as (v & _ & He).
      rewrite (IH _ _ d He) by (intro; apply Hd; right; auto).
      apply aval_cons_other. intro; apply Hd; left; auto.
  Qed.

  Lemma ext_agree (S : list Z) (f : asg -> Z) L :
    (forall e e', (forall d, In d S -> aval e d = aval e' d) -> f e = f e') ->
    forall b b', (forall d, In d S -> aval b d = aval b' d) -> map f (ext L b) = map f (ext L b').
  Proof.
    intros Hf. induction L as [|y r IH]; intros b b' Hb; simpl.
    - f_equal. apply Hf. exact Hb.
    - rewrite !map_flat_map. apply flat_map_ext. intros v. apply IH.
      intros d Hd. destruct (Z.eq_dec d y) as [->|Hne].
      + rewrite !aval_cons_same. reflexivity.
      + rewrite !aval_cons_other by auto. apply Hb. exact Hd.
  Qed.

  Lemma cost_in_dep L e e' : (forall d, In d (sv L) -> aval e d = aval e' d) -> cost_in L e = cost_in L e'.
  Proof.
    unfold cost_in. induction L as [|y r IH]; intros H; simpl; auto.
    rewrite IH by (intros d Hd; apply H; simpl; right; apply in_or_app; right; exact Hd).
    f_equal. unfold local, vc, own_cost. f_equal.
    - rewrite (H y) by (simpl; left; auto). reflexivity.
    - f_equal. apply map_ext_in. intros k Hk. apply eval_agree. intros d Hd. apply H.
      simpl. right. apply in_or_app. left. apply in_flat_map. exists k. auto.
  Qed.

  Lemma cost_in_app L1 L2 a : cost_in (L1 ++ L2) a = cost_in L1 a + cost_in L2 a.
  Proof. unfold cost_in. rewrite map_app. induction (map (fun y => local y a) L1); simpl; lia. Qed.

  Lemma cost_in_flat_map (desc : Z -> list Z) cs a :
    cost_in (flat_map desc cs) a = zsum (map (fun c => cost_in (desc c) a) cs).
  Proof. induction cs; simpl; auto. rewrite cost_in_app, IHcs. reflexivity. Qed.

  Variable desc : Z -> list Z.

  Lemma children_sum : forall cs b fv,
    (forall c c', In c cs -> In c' cs -> c <> c' -> forall d, In d (sv (desc c)) -> ~ In d (desc c')) ->
    NoDup cs ->
    Forall2 (fun c f => is_best m (map (cost_in (desc c)) (ext (desc c) b)) f) cs fv ->
    is_best m (map (fun e => zsum (map (fun c => cost_in (desc c) e) cs)) (ext (flat_map desc cs) b)) (zsum fv).
  Proof.
    induction cs as [|c cs IH]; intros b fv Hdis Hnd HF; inversion HF as [|c0 f cs0 fv' Hb1 HF']; subst; clear HF.
    - simpl. split; [left; auto|]. intros z [<-|[]]. apply mle_refl.
    - cbn [flat_map map zsum].
      rewrite ext_app, map_flat_map. inversion Hnd as [|c1 cs1 Hnotin Hnd']; subst.
      assert (Hc_rest : forall d, In d (sv (desc c)) -> ~ In d (flat_map desc cs)).
      { intros d Hd Hin. apply in_flat_map in Hin. destruct Hin as (c' & Hc' & Hin).
        assert (Hne : c <> c') by (intro; subst; auto).
        exact (Hdis c c' (or_introl eq_refl) (or_intror Hc') Hne d Hd Hin). }
      apply is_best_flat_map with (h := fun e1 => cost_in (desc c) e1 + zsum fv').
      + intros e1 He1.
        assert (E : map (fun e => cost_in (desc c) e + zsum (map (fun c0 => cost_in (desc c0) e) cs))
                        (ext (flat_map desc cs) e1)
                  = map (fun z => cost_in (desc c) e1 + z)
                        (map (fun e => zsum (map (fun c0 => cost_in (desc c0) e) cs)) (ext (flat_map desc cs) e1))).
        { rewrite map_map. apply map_ext_in. intros e He. f_equal. apply cost_in_dep.
          intros d Hd. apply (ext_aval_other _ _ _ _ He). apply Hc_rest. exact Hd. }
        rewrite E. apply is_best_shift. apply IH.
        * intros c1 c2 H1' H2'. apply Hdis; right; auto.
        * auto.
        * eapply Forall2_impl_in; [|exact HF']. intros c' f' Hc' Hb. cbv beta in *.
          rewrite (ext_agree (sv (desc c')) (cost_in (desc c')) (desc c') (cost_in_dep (desc c')) e1 b); [exact Hb|].
          intros d Hd. apply (ext_aval_other _ _ _ _ He1).
          assert (Hne : c' <> c) by (intro; subst; auto).
          exact (Hdis c' c (or_intror Hc') (or_introl eq_refl) Hne d Hd).
      + assert (E : map (fun e1 => cost_in (desc c) e1 + zsum fv') (ext (desc c) b)
                  = map (fun z => zsum fv' + z) (map (cost_in (desc c)) (ext (desc c) b))).
        { rewrite map_map. apply map_ext. intros; lia. }
        rewrite E. replace (f + zsum fv') with (zsum fv' + f) by lia. apply is_best_shift. exact Hb1.
  Qed.

  (* optimum over the descendants once the node's own value is fixed *)
  Lemma inner_best x cs b fv :
    NoDup cs ->
    (forall d, In d (sv [x]) -> ~ In d (flat_map desc cs)) ->
    (forall c c', In c cs -> In c' cs -> c <> c' -> forall d, In d (sv (desc c)) -> ~ In d (desc c')) ->
    Forall2 (fun c f => is_best m (map (cost_in (desc c)) (ext (desc c) b)) f) cs fv ->
    is_best m (map (cost_in (x :: flat_map desc cs)) (ext (flat_map desc cs) b)) (local x b + zsum fv).
  Proof.
    intros Hnd Hown Hdis HF.
    assert (E : map (cost_in (x :: flat_map desc cs)) (ext (flat_map desc cs) b)
              = map (fun z => local x b + z)
                    (map (fun e => zsum (map (fun c => cost_in (desc c) e) cs)) (ext (flat_map desc cs) b))).
    { rewrite map_map. apply map_ext_in. intros e He.
      change (x :: flat_map desc cs) with ([x] ++ flat_map desc cs).
      rewrite cost_in_app, cost_in_flat_map. f_equal.
      transitivity (cost_in [x] b); [|unfold cost_in; simpl; lia].
      apply cost_in_dep. intros d Hdd. apply (ext_aval_other _ _ _ _ He). apply Hown. exact Hdd. }
    rewrite E. apply is_best_shift. apply children_sum; auto.
  Qed.

  (* UTIL phase, the step of the induction on the tree, for ANY node x of any tree:
     if the table accumulated at x means "variable cost of x + for each child c the optimum over
     subtree(c) of the costs owned in subtree(c)", then the UTIL x sends means the optimum over
     subtree(x) of the costs owned in subtree(x). *)
  Theorem util_step_flat x s s' outs evs p u a :
    send_util P x s = (s', outs, evs) -> In (p, MUtil u) outs ->
    in_dom D a (r_dims u) -> (0 < D x)%nat ->
    desc x = x :: flat_map desc (children P x) ->
    NoDup (children P x) ->
    (forall d, In d (sv [x]) -> ~ In d (flat_map desc (children P x))) ->
    (forall c c', In c (children P x) -> In c' (children P x) -> c <> c' ->
                  forall d, In d (sv (desc c)) -> ~ In d (desc c')) ->
    (forall v, (v < D x)%nat -> exists fv,
        eval (s_joined s) ((x, Z.of_nat v) :: a) = vc x ((x, Z.of_nat v) :: a) + zsum fv /\
        Forall2 (fun c f => is_best m (map (cost_in (desc c)) (ext (desc c) ((x, Z.of_nat v) :: a))) f)
                (children P x) fv) ->
    is_best m (map (cost_in (desc x)) (ext (desc x) a)) (eval u a).
  Proof.
    intros Hs Hin Hd Hx Hdesc Hnd Hown Hdis Hj.
    destruct (send_util_sem P x s s' outs evs p u a Hs Hin Hd Hx) as [_ Hb]. fold D m in Hb.
    rewrite Hdesc. cbn [ext]. rewrite map_flat_map.
    apply is_best_flat_map with
      (h := fun v => eval (s_joined s) ((x, Z.of_nat v) :: a) + own_cost P x ((x, Z.of_nat v) :: a));
      [|exact Hb].
    intros v Hv. apply in_seq in Hv. destruct (Hj v) as (fv & Ej & HF); [lia|].
    set (b := (x, Z.of_nat v) :: a) in *. rewrite Ej.
    replace (vc x b + zsum fv + own_cost P x b) with (local x b + zsum fv) by (unfold local; lia).
    apply inner_best; auto.
  Qed.

  (* VALUE phase, the step of the induction: sigma is the final global assignment.  If the value of
     x in sigma optimises g (the table x holds, as a function of its own value: its local cost +
     the optimum of each child subtree) and sigma is an optimal completion below every child,
     then sigma is an optimal completion below x: the cost owned in subtree(x) under sigma is the
     optimum over all assignments of subtree(x), the variables outside being as in sigma. *)
  Theorem choice_step_flat x sigma (g : nat -> Z) :
    desc x = x :: flat_map desc (children P x) ->
    NoDup (children P x) ->
    (forall d, In d (sv [x]) -> ~ In d (flat_map desc (children P x))) ->
    (forall c c', In c (children P x) -> In c' (children P x) -> c <> c' ->
                  forall d, In d (sv (desc c)) -> ~ In d (desc c')) ->
    (forall w, (w < D x)%nat -> exists fv,
        g w = local x ((x, Z.of_nat w) :: sigma) + zsum fv /\
        Forall2 (fun c f => is_best m (map (cost_in (desc c)) (ext (desc c) ((x, Z.of_nat w) :: sigma))) f)
                (children P x) fv) ->
    (aval sigma x < D x)%nat ->
    is_best m (map g (seq 0 (D x))) (g (aval sigma x)) ->
    (forall c, In c (children P x) ->
        is_best m (map (cost_in (desc c)) (ext (desc c) sigma)) (cost_in (desc c) sigma)) ->
    is_best m (map (cost_in (desc x)) (ext (desc x) sigma)) (cost_in (desc x) sigma).
  Proof.
    intros Hdesc Hnd Hown Hdis Hg Hv Hbest Hch.
    assert (Hsame : forall d, aval ((x, Z.of_nat (aval sigma x)) :: sigma) d = aval sigma d).
    { intros d. destruct (Z.eq_dec d x) as [->|Hne]; [apply aval_cons_same|apply aval_cons_other; auto]. }
    assert (Hgv : g (aval sigma x) = cost_in (desc x) sigma).
    { destruct (Hg _ Hv) as (fv & Eg & HF). rewrite Eg, Hdesc.
      change (x :: flat_map desc (children P x)) with ([x] ++ flat_map desc (children P x)).
      rewrite cost_in_app, cost_in_flat_map. f_equal.
      - transitivity (cost_in [x] sigma); [unfold cost_in; simpl|unfold cost_in; simpl; lia].
        assert (local x ((x, Z.of_nat (aval sigma x)) :: sigma) = local x sigma).
        { pose proof (cost_in_dep [x] ((x, Z.of_nat (aval sigma x)) :: sigma) sigma (fun d _ => Hsame d)) as Hc.
          unfold cost_in in Hc; simpl in Hc. lia. }
        lia.
      - f_equal. clear Eg. revert fv HF. generalize (children P x) Hch. induction l as [|c cs IH]; intros Hc fv HF;
          inversion HF as [|c0 f cs0 fv' Hb1 HF']; subst; [reflexivity|]. simpl. f_equal.
        + apply (is_best_unique m _ _ _ Hb1).
          rewrite (ext_agree (sv (desc c)) (cost_in (desc c)) (desc c) (cost_in_dep (desc c))
                             ((x, Z.of_nat (aval sigma x)) :: sigma) sigma (fun d _ => Hsame d)).
          apply Hc. left; auto.
        + apply IH; auto. intros c' Hc'. apply Hc. right; auto. }
    rewrite Hdesc at 1 2. cbn [ext]. rewrite map_flat_map. rewrite <- Hgv.
    apply is_best_flat_map with (h := g); [|exact Hbest].
    intros w Hw. apply in_seq in Hw. destruct (Hg w) as (fv & Eg & HF); [lia|]. rewrite Eg.
    apply inner_best; auto.
  Qed.
End DP.
