(* P_Ucs7.v -- C25 deepening, part 5: the variant of the UCS token.
   A structural invariant of the token (no cost hypothesis is needed):
     - visited: distinct agents; the request path: distinct agents, all visited but possibly the last;
     - every table entry is a duplicate-free path from the owner whose inner nodes are visited and
       whose end is either __hosting__ or a NOT yet visited agent; at most one entry per end agent;
     - a request in flight carries an affordable entry that extends its path.
   Measure: Phi = W * (2 * #unvisited agents + #hosting entries in the table) + position, with
   position = 2n - |rq| for a request, 2n + |rq| for an answer.  Every handler that consumes a
   token emits a token of strictly smaller measure (ucs_token_variant_l): the budget is NOT
   increasing in general (it can stay equal or decrease), what decreases is the table. *)
From PyDcop Require Import Base P_Base Net M_Ucs P_Ucs P_Ucs2 P_Ucs3 P_Ucs4.
From Coq Require Import Lia ZifyBool.

Definition hostingp (p : path) : bool := last_z p =? HOSTING.
Definition nh (T : ptable) : nat := List.length (filter (fun e => hostingp (snd e)) T).

Lemma nh_remove_le T p : (nh (remove_path T p) <= nh T)%nat.
Proof.
  unfold nh, remove_path. induction T as [|e r IH]; simpl; [lia|].
  destruct (negb (path_eqb (snd e) p)); simpl; destruct (hostingp (snd e)); simpl; lia.
Qed.

Lemma nh_remove_lt T p cost : In (cost, p) T -> hostingp p = true -> (nh (remove_path T p) < nh T)%nat.
Proof.
  unfold nh, remove_path. induction T as [|e r IH]; simpl; intros I H; [contradiction|].
  destruct I as [->|I].
  - simpl. rewrite (proj2 (path_eqb_eq p p) eq_refl). simpl. rewrite H. simpl.
    pose proof (nh_remove_le r p). unfold nh, remove_path in *. lia.
  - specialize (IH I H). destruct (negb (path_eqb (snd e) p)); simpl; destruct (hostingp (snd e)); simpl; lia.
Qed.

Lemma nh_psort_snoc T e : nh (psort (T ++ [e])) = (nh T + (if hostingp (snd e) then 1 else 0))%nat.
Proof.
  assert (INS : forall x l, nh (insert_sorted entry_leb x l) = (nh l + (if hostingp (snd x) then 1 else 0))%nat).
  { intros x l. unfold nh. induction l as [|y r IH]; simpl.
    - destruct (hostingp (snd x)); reflexivity.
    - destruct (entry_leb x y); simpl; destruct (hostingp (snd x)), (hostingp (snd y)); simpl in *; lia. }
  assert (SORT : forall l, nh (psort l) = nh l).
  { unfold psort, isort. induction l as [|y r IH]; simpl; auto. rewrite INS, IH. unfold nh. simpl.
    destruct (hostingp (snd y)); simpl; lia. }
  rewrite SORT. unfold nh. rewrite filter_app, app_length. simpl. destruct (hostingp (snd e)); reflexivity.
Qed.

Lemma removelast_In_app (pre : path) x y tl : In x (removelast (pre ++ x :: y :: tl)).
Proof.
  rewrite removelast_app by discriminate. apply in_or_app. right.
  change (x :: y :: tl) with ([x] ++ (y :: tl)). rewrite removelast_app by discriminate. left. reflexivity.
Qed.

Lemma removelast_incl (p : path) x : In x (removelast p) -> In x p.
Proof.
  induction p as [|a p IH]; simpl; [auto|]. destruct p as [|b p]; [intros []|].
  intros [H|H]; auto.
Qed.

Lemma NoDup_prefix (a b : path) : NoDup (a ++ b) -> NoDup a.
Proof. induction a as [|x a IH]; simpl; intros H; [constructor|]. apply NoDup_cons_iff in H as [H1 H2].
  constructor; auto. intro I. apply H1. apply in_or_app. auto. Qed.

Lemma NoDup_app_notin (a : path) x tl : NoDup (a ++ x :: tl) -> ~ In x a.
Proof. intros H I. apply NoDup_remove_2 in H. apply H. apply in_or_app. auto. Qed.

Lemma cheapest_none n T : cheapest_path_to n T = None -> forall e, In e T -> last_z (snd e) <> n.
Proof.
  induction T as [|[c p] r IH]; simpl; intros H e I; [contradiction|].
  destruct (Z.eqb_spec (last_z p) n); [discriminate|]. destruct I as [<-|I]; auto.
Qed.

Lemma cheapest_some n T c p : cheapest_path_to n T = Some (c, p) -> In (c, p) T /\ last_z p = n.
Proof.
  induction T as [|[c' p'] r IH]; simpl; intros H; [discriminate|].
  destruct (Z.eqb_spec (last_z p') n).
  - inversion H; subst. auto.
  - destruct (IH H). auto.
Qed.

Section Variant.
  Variable C : cfg.
  Definition na : nat := List.length (c_agents C).

  Definition entry3 (V : list Z) (o : Z) (p : path) : Prop :=
    NoDup p /\ (forall x, In x (removelast p) -> In x V)
    /\ (hostingp p = false -> ~ In (last_z p) V /\ is_agent C (last_z p) = true)
    /\ (exists tl, p = o :: tl).
  Definition tinv (V : list Z) (T : ptable) (o : Z) : Prop :=
    NoDup V /\ (forall x, In x V -> is_agent C x = true)
    /\ (forall e, In e T -> entry3 V o (snd e))
    /\ (forall e1 e2, In e1 T -> In e2 T -> hostingp (snd e1) = false -> hostingp (snd e2) = false ->
          last_z (snd e1) = last_z (snd e2) -> snd e1 = snd e2).

  Lemma tinv_subset V T T' o : (forall e, In e T' -> In e T) -> tinv V T o -> tinv V T' o.
  Proof.
    intros S (A & B & D & E). split; [exact A|]. split; [exact B|].
    split; [intros e He; apply D; auto|intros; apply E; auto].
  Qed.

  Lemma agents_length (l : list Z) : NoDup l -> (forall x, In x l -> is_agent C x = true) -> (List.length l <= na)%nat.
  Proof.
    intros ND A. unfold na. replace (List.length (c_agents C)) with (List.length (agent_ids C)).
    - apply NoDup_incl_length; auto. intros x Hx. apply agent_in_ids. auto.
    - unfold agent_ids. generalize 0. induction (List.length (c_agents C)); simpl; auto.
  Qed.

  Section Loop.
    Variables (me : Z) (prefix : path) (skip : option path) (budget spent : Z) (V : list Z) (c fp : Z).

    Definition out_req (T : ptable) (x : Z) (T' : ptable) : Prop :=
      (forall e, In e T' -> In e T) /\ (nh T' <= nh T)%nat /\ (x =? HOSTING) = false
      /\ exists cost tl, In (cost, prefix ++ x :: tl) T' /\ cost <= budget + spent.
    Definition out_ans (T T' : ptable) : Prop := (forall e, In e T' -> In e T) /\ (nh T' < nh T)%nat.
    Definition nomid (T : ptable) : Prop := forall e x, In e T -> In x (removelast (snd e)) -> x <> HOSTING.

    Definition VL_post (T : ptable) (i : nat) (res : lres) : Prop :=
      match res with
      | LDone r =>
          (exists x T' s' count' hosts' evs',
              r = send_request C me s' budget spent (prefix ++ [x]) T' V c fp count' hosts' evs' /\ out_req T x T')
          \/ (exists T' s' count' hosts' evs',
              r = send_answer C me s' budget spent prefix T' V c fp count' hosts' evs' /\ out_ans T T')
          \/ snd (fst (fst r)) = []
      | LCont s' T' count' hosts' evs' =>
          (forall e, In e T' -> In e T) /\ (nh T' <= nh T)%nat /\
          (skip = None -> nh T' = nh T -> forall j cost p, (i <= j)%nat -> nth_error T j = Some (cost, p) ->
             is_prefix prefix p = true -> cost <= budget + spent -> False)
      end.

    Lemma VL_weaken T T1 i i1 res :
      (forall e, In e T1 -> In e T) -> (nh T1 < nh T)%nat -> VL_post T1 i1 res -> VL_post T i res.
    Proof.
      intros S L. destruct res as [r|s' T' c' h' e']; simpl.
      - intros [(x & T' & s' & c' & h' & e' & E & (A & B & D & F))|[(T' & s' & c' & h' & e' & E & (A & B))|E]].
        + left. exists x, T', s', c', h', e'. split; auto. split; [auto|]. split; [lia|]. split; auto.
        + right. left. exists T', s', c', h', e'. split; auto. split; [auto|lia].
        + right. right. exact E.
      - intros (A & B & _). split; [auto|]. split; [lia|]. intros _ E. lia.
    Qed.

    Lemma visit_loop_var : forall fuel i s T count hosts evs,
      nomid T ->
      VL_post T i (visit_loop C fuel i me prefix skip budget spent V c fp s T count hosts evs).
    Proof.
      induction fuel as [|fuel IH]; intros i s T count hosts evs NM; simpl.
      - right. right. reflexivity.
      - destruct (nth_error T i) as [[cost p]|] eqn:En.
        2:{ split; auto. split; auto. intros _ _ j cj pj Hj Ej. exfalso.
            apply nth_error_None in En. assert (nth_error T j <> None) by congruence. apply nth_error_Some in H. lia. }
        assert (Hin : In (cost, p) T) by (eapply nth_error_In; eauto).
        assert (STEP : forall res, VL_post T (S i) res ->
                  (is_prefix prefix p = true -> cost <= budget + spent -> skip = None -> False) -> VL_post T i res).
        { intros res PO NA. destruct res as [r|s' T' c' h' e']; simpl in *; auto.
          destruct PO as (A & B & D). split; auto. split; auto.
          intros SK E j cj pj Hj Ej P1 P2. destruct (Nat.eq_dec j i) as [->|Hne].
          - rewrite En in Ej. inversion Ej; subst. auto.
          - eapply (D SK E j); eauto. lia. }
        destruct (is_prefix prefix p && (cost <=? budget + spent)) eqn:Ec.
        2:{ apply STEP; [apply IH; auto|]. intros P1 P2 _. rewrite P1 in Ec. simpl in Ec. lia. }
        apply andb_true_iff in Ec as [Epre Eaff]. apply Z.leb_le in Eaff.
        pose proof (is_prefix_split _ _ Epre) as Esp.
        destruct (skipn (List.length prefix) p) as [|x tl] eqn:Esk; [right; right; reflexivity|].
        destruct skip as [sp|] eqn:ESK.
        + destruct (path_eqb (prefix ++ [x]) sp).
          * apply STEP; [apply IH; auto|]. intros _ _ H. discriminate.
          * destruct (x =? HOSTING) eqn:Ex.
            -- apply Z.eqb_eq in Ex. subst x.
               assert (TL : tl = []).
               { destruct tl as [|y tl']; auto. exfalso. apply (NM (cost, p) HOSTING Hin); auto.
                 simpl. rewrite Esp. apply removelast_In_app. }
               subst tl.
               assert (LT : (nh (remove_path T (prefix ++ [HOSTING])) < nh T)%nat).
               { apply (nh_remove_lt T _ cost); [rewrite <- Esp; exact Hin|]. unfold hostingp. rewrite last_z_app. reflexivity. }
               assert (SUB : forall e, In e (remove_path T (prefix ++ [HOSTING])) -> In e T)
                 by (intros e He; apply remove_path_In in He; tauto).
               assert (NM1 : nomid (remove_path T (prefix ++ [HOSTING]))) by (intros e y He; apply NM; auto).
               destruct (can_host C me (s_hosted s) c fp).
               ++ destruct (count - 1 =? 0).
                  ** right. left. eexists _, _, _, _, _. split; [reflexivity|]. split; auto.
                  ** eapply VL_weaken; eauto.
               ++ eapply VL_weaken; eauto.
            -- left. exists x, T, s, count, hosts, evs. split; [reflexivity|].
               split; auto. split; auto. split; auto. exists cost, tl. rewrite <- Esp. auto.
        + destruct (x =? HOSTING) eqn:Ex.
          * apply Z.eqb_eq in Ex. subst x.
            assert (TL : tl = []).
            { destruct tl as [|y tl']; auto. exfalso. apply (NM (cost, p) HOSTING Hin); auto.
              simpl. rewrite Esp. apply removelast_In_app. }
            subst tl.
            assert (LT : (nh (remove_path T (prefix ++ [HOSTING])) < nh T)%nat).
            { apply (nh_remove_lt T _ cost); [rewrite <- Esp; exact Hin|]. unfold hostingp. rewrite last_z_app. reflexivity. }
            assert (SUB : forall e, In e (remove_path T (prefix ++ [HOSTING])) -> In e T)
              by (intros e He; apply remove_path_In in He; tauto).
            assert (NM1 : nomid (remove_path T (prefix ++ [HOSTING]))) by (intros e y He; apply NM; auto).
            destruct (can_host C me (s_hosted s) c fp).
            -- destruct (count - 1 =? 0).
               ++ right. left. eexists _, _, _, _, _. split; [reflexivity|]. split; auto.
               ++ eapply VL_weaken; eauto.
            -- eapply VL_weaken; eauto.
          * left. exists x, T, s, count, hosts, evs. split; [reflexivity|].
            split; auto. split; auto. split; auto. exists cost, tl. rewrite <- Esp. auto.
    Qed.
  End Loop.

  (* ---- what the senders emit *)
  Lemma send_request_outs me s b sp tp T V c fp count hosts evs d m :
    In (d, m) (snd (fst (fst (send_request C me s b sp tp T V c fp count hosts evs)))) ->
    exists b' sp', m = MRequest (mkTok b' sp' tp T V c fp count hosts) /\ b' + sp' = b + sp.
  Proof.
    unfold send_request. destruct (_ || _); simpl; [intros []|]. intros [I|[]]. inversion I; subst.
    eexists _, _. split; [reflexivity|]. lia.
  Qed.

  Lemma send_answer_outs me s b sp rq T V c fp count hosts evs d m :
    In (d, m) (snd (fst (fst (send_answer C me s b sp rq T V c fp count hosts evs)))) ->
    exists b' sp' pre, m = MAnswer (mkTok b' sp' rq T V c fp count hosts) /\ rq = pre ++ [d; me].
  Proof.
    unfold send_answer. destruct (negb (last_z rq =? me)) eqn:El; simpl; [intros []|].
    apply negb_false_iff in El. apply Z.eqb_eq in El.
    destruct (rev rq) as [|sd [|tg rest]] eqn:Er; simpl; try (intros []).
    destruct (_ || _); simpl; [intros []|]. intros [I|[]]. inversion I; subst d m.
    eexists _, _, (rev rest). split; [reflexivity|].
    assert (E : rq = rev rest ++ [tg; sd]).
    { rewrite <- (rev_involutive rq), Er. simpl. rewrite <- app_assoc. reflexivity. }
    rewrite E in El. change [tg; sd] with ([tg] ++ [sd]) in El. rewrite app_assoc, last_z_app in El. subst sd. exact E.
  Qed.

  Lemma In_rq_cases (rq : path) x : In x rq -> In x (removelast rq) \/ x = last_z rq.
  Proof.
    intros H. destruct rq as [|a r]; [destruct H|].
    rewrite (split_last (a :: r)) in H by discriminate. apply in_app_or in H as [H|[H|[]]]; auto.
  Qed.

  Lemma is_prefix_snoc_cons (rq : path) x tl : is_prefix (rq ++ [x]) (rq ++ x :: tl) = true.
  Proof.
    replace (rq ++ x :: tl) with ((rq ++ [x]) ++ tl) by (rewrite <- app_assoc; reflexivity).
    apply is_prefix_app, is_prefix_refl.
  Qed.

  (* ---- the neighbour loop keeps the structural invariant and the number of hosting entries *)
  Lemma add_neighbor_tinv me V o (rq : path) spent :
    rq <> [] -> hd (-2) rq = o -> NoDup rq -> (forall x, In x rq -> In x V) -> (forall x, In x V -> is_agent C x = true) ->
    forall nbrs T, (forall n r, In (n, r) nbrs -> is_agent C n = true) ->
      tinv V T o ->
      tinv V (add_neighbor_paths nbrs V spent rq T) o /\ nh (add_neighbor_paths nbrs V spent rq T) = nh T.
  Proof.
    intros NE HD ND SUB AV. induction nbrs as [|[n r] rest IH]; intros T AN TI; simpl; [auto|].
    assert (An : is_agent C n = true) by (eapply AN; left; reflexivity).
    assert (AN' : forall n' r', In (n', r') rest -> is_agent C n' = true) by (intros; eapply AN; right; eauto).
    destruct (zmem n V) eqn:Ev; [apply IH; auto|].
    assert (NV : ~ In n V) by (intro H; apply zmem_In in H; congruence).
    assert (E3 : entry3 V o (rq ++ [n])).
    { split; [|split; [|split]].
      - apply NoDup_snoc; auto.
      - rewrite removelast_last. exact SUB.
      - rewrite last_z_app. auto.
      - destruct rq; [contradiction|]. simpl in HD. subst. simpl. eauto. }
    assert (NHn : hostingp (rq ++ [n]) = false).
    { unfold hostingp. rewrite last_z_app. unfold is_agent in An. unfold HOSTING. lia. }
    assert (STEP : forall T1, (forall e, In e T1 -> In e T) -> nh T1 = nh T ->
               (forall e, In e T1 -> hostingp (snd e) = false -> last_z (snd e) <> n) ->
               tinv V (psort (T1 ++ [(spent + r, rq ++ [n])])) o /\ nh (psort (T1 ++ [(spent + r, rq ++ [n])])) = nh T).
    { intros T1 S1 N1 NL. destruct TI as (A & B & D & E). split.
      - split; [exact A|]. split; [exact B|]. split.
        + intros e He. apply (proj1 (psort_In _ _)) in He. apply in_app_or in He as [He|[<-|[]]]; auto.
        + intros e1 e2 H1 H2 X1 X2 L. apply (proj1 (psort_In _ _)) in H1, H2.
          apply in_app_or in H1 as [H1|[<-|[]]]; apply in_app_or in H2 as [H2|[<-|[]]]; auto.
          * exfalso. simpl in L. rewrite last_z_app in L. eapply NL; eauto.
          * exfalso. simpl in L. rewrite last_z_app in L. eapply NL; eauto.
      - rewrite nh_psort_snoc. simpl. rewrite NHn. lia. }
    destruct (cheapest_path_to n T) as [[ch cp]|] eqn:Ech.
    - destruct (spent + r <? ch); [|apply IH; auto].
      apply cheapest_some in Ech as [Icp Lcp].
      assert (NHcp : hostingp cp = false) by (unfold hostingp; rewrite Lcp; unfold is_agent in An; unfold HOSTING; lia).
      destruct (STEP (remove_path T cp)) as [TI1 N1].
      + intros e He. apply remove_path_In in He. tauto.
      + unfold nh, remove_path. clear - NHcp. induction T as [|e t IHt]; simpl; auto.
        destruct (path_eqb (snd e) cp) eqn:Ee; simpl.
        * apply path_eqb_eq in Ee. rewrite Ee, NHcp. exact IHt.
        * destruct (hostingp (snd e)); simpl; auto.
      + intros e He X L. apply remove_path_In in He as [He Hne]. apply Hne.
        destruct TI as (_ & _ & _ & E). apply (E e (ch, cp)); auto. simpl. congruence.
      + destruct (IH _ AN' TI1) as [TI2 N2]. split; auto. congruence.
    - destruct (STEP T) as [TI1 N1]; auto.
      + intros e He _. eapply cheapest_none; eauto.
      + destruct (IH _ AN' TI1) as [TI2 N2]. split; auto. congruence.
  Qed.
End Variant.
