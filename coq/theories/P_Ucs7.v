(* P_Ucs7.v -- C25 deepening, part 5: the variant of the UCS token.
   A structural invariant of the token (no cost hypothesis is needed):
     - visited: distinct agents; the request path: distinct agents, all visited but possibly the last;
     - every table entry is a duplicate-free path from the owner whose inner nodes are visited and
       whose end is either __hosting__ or a NOT yet visited agent; at most one entry per end agent;
     - a request in flight carries an affordable entry that extends its path.
   Measure: Phi = W * (2 * #unvisited agents + #hosting entries in the table) + position, with
   position = 2n - |rq| for a request, 2n + |rq| for an answer.  Every handler that consumes a
   token emits a token of strictly smaller measure (ucs_token_variant_l): the budget is NOT
   increasing in general (it can stay equal or decrease), what decreases is the table. *)
From PyDcop Require Import Base P_Base Net M_Ucs P_Ucs P_Ucs2 P_Ucs3 P_Ucs4.
From Coq Require Import Lia ZifyBool.

Definition hostingp (p : path) : bool := last_z p =? HOSTING.
Definition nh (T : ptable) : nat := List.length (filter (fun e => hostingp (snd e)) T).

Lemma nh_le_length T : (nh T <= List.length T)%nat.
Proof. unfold nh. induction T as [|e r IH]; simpl; [lia|]. destruct (hostingp (snd e)); simpl; lia. Qed.

Lemma nh_remove_le T p : (nh (remove_path T p) <= nh T)%nat.
Proof.
  unfold nh, remove_path. induction T as [|e r IH]; simpl; [lia|].
  destruct (negb (path_eqb (snd e) p)); simpl; destruct (hostingp (snd e)); simpl; lia.
Qed.

Lemma nh_remove_lt T p cost : In (cost, p) T -> hostingp p = true -> (nh (remove_path T p) < nh T)%nat.
Proof.
  unfold nh, remove_path. induction T as [|e r IH]; simpl; intros I H; [contradiction|].
  destruct I as [->|I].
  - simpl. rewrite (proj2 (path_eqb_eq p p) eq_refl). simpl. rewrite H. simpl.
    pose proof (nh_remove_le r p). unfold nh, remove_path in *. lia.
  - specialize (IH I H). destruct (negb (path_eqb (snd e) p)); simpl; destruct (hostingp (snd e)); simpl; lia.
Qed.

Lemma nh_psort_snoc T e : nh (psort (T ++ [e])) = (nh T + (if hostingp (snd e) then 1 else 0))%nat.
Proof.
  assert (INS : forall x l, nh (insert_sorted entry_leb x l) = (nh l + (if hostingp (snd x) then 1 else 0))%nat).
  { intros x l. unfold nh. induction l as [|y r IH]; simpl.
    - destruct (hostingp (snd x)); reflexivity.
    - destruct (entry_leb x y); simpl; destruct (hostingp (snd x)), (hostingp (snd y)); simpl in *; lia. }
  assert (SORT : forall l, nh (psort l) = nh l).
  { unfold psort, isort. induction l as [|y r IH]; simpl; auto. rewrite INS, IH. unfold nh. simpl.
    destruct (hostingp (snd y)); simpl; lia. }
  rewrite SORT. unfold nh. rewrite filter_app, app_length. simpl. destruct (hostingp (snd e)); reflexivity.
Qed.

Lemma removelast_In_app (pre : path) x y tl : In x (removelast (pre ++ x :: y :: tl)).
Proof.
  rewrite removelast_app by discriminate. apply in_or_app. right.
  change (x :: y :: tl) with ([x] ++ (y :: tl)). rewrite removelast_app by discriminate. left. reflexivity.
Qed.

Lemma removelast_incl (p : path) x : In x (removelast p) -> In x p.
Proof.
  induction p as [|a p IH]; simpl; [auto|]. destruct p as [|b p]; [intros []|].
  intros [H|H]; auto.
Qed.

Lemma NoDup_prefix (a b : path) : NoDup (a ++ b) -> NoDup a.
Proof. induction a as [|x a IH]; simpl; intros H; [constructor|]. apply NoDup_cons_iff in H as [H1 H2].
  constructor; auto. intro I. apply H1. apply in_or_app. auto. Qed.

Lemma NoDup_app_notin (a : path) x tl : NoDup (a ++ x :: tl) -> ~ In x a.
Proof. intros H I. apply NoDup_remove_2 in H. apply H. apply in_or_app. auto. Qed.

Lemma cheapest_none n T : cheapest_path_to n T = None -> forall e, In e T -> last_z (snd e) <> n.
Proof.
  induction T as [|[c p] r IH]; simpl; intros H e I; [contradiction|].
  destruct (Z.eqb_spec (last_z p) n); [discriminate|]. destruct I as [<-|I]; auto.
Qed.

Lemma cheapest_some n T c p : cheapest_path_to n T = Some (c, p) -> In (c, p) T /\ last_z p = n.
Proof.
  induction T as [|[c' p'] r IH]; simpl; intros H; [discriminate|].
  destruct (Z.eqb_spec (last_z p') n).
  - inversion H; subst. auto.
  - destruct (IH H). auto.
Qed.

Section Variant.
  Variable C : cfg.
  Definition na : nat := List.length (c_agents C).

  Definition entry3 (V : list Z) (o : Z) (p : path) : Prop :=
    NoDup p /\ (forall x, In x (removelast p) -> In x V)
    /\ (hostingp p = false -> ~ In (last_z p) V /\ is_agent C (last_z p) = true)
    /\ (exists tl, p = o :: tl).
  Definition tinv (V : list Z) (T : ptable) (o : Z) : Prop :=
    NoDup V /\ (forall x, In x V -> is_agent C x = true)
    /\ (forall e, In e T -> entry3 V o (snd e))
    /\ (forall e1 e2, In e1 T -> In e2 T -> hostingp (snd e1) = false -> hostingp (snd e2) = false ->
          last_z (snd e1) = last_z (snd e2) -> snd e1 = snd e2).

  Lemma tinv_subset V T T' o : (forall e, In e T' -> In e T) -> tinv V T o -> tinv V T' o.
  Proof.
    intros S (A & B & D & E). split; [exact A|]. split; [exact B|].
    split; [intros e He; apply D; auto|intros; apply E; auto].
  Qed.

  Lemma agents_length (l : list Z) : NoDup l -> (forall x, In x l -> is_agent C x = true) -> (List.length l <= na)%nat.
  Proof.
    intros ND A. unfold na. replace (List.length (c_agents C)) with (List.length (agent_ids C)).
    - apply NoDup_incl_length; auto. intros x Hx. apply agent_in_ids. auto.
    - unfold agent_ids. generalize 0. induction (List.length (c_agents C)); simpl; auto.
  Qed.

  Section Loop.
    Variables (me : Z) (prefix : path) (skip : option path) (budget spent : Z) (V : list Z) (c fp : Z).

    Definition out_req (T : ptable) (x : Z) (T' : ptable) : Prop :=
      (forall e, In e T' -> In e T) /\ (nh T' <= nh T)%nat /\ (x =? HOSTING) = false
      /\ exists cost tl, In (cost, prefix ++ x :: tl) T' /\ cost <= budget + spent.
    Definition out_ans (T T' : ptable) : Prop := (forall e, In e T' -> In e T) /\ (nh T' < nh T)%nat.
    Definition nomid (T : ptable) : Prop := forall e x, In e T -> In x (removelast (snd e)) -> x <> HOSTING.

    Definition VL_post (T : ptable) (i : nat) (res : lres) : Prop :=
      match res with
      | LDone r =>
          (exists x T' s' count' hosts' evs',
              r = send_request C me s' budget spent (prefix ++ [x]) T' V c fp count' hosts' evs' /\ out_req T x T')
          \/ (exists T' s' count' hosts' evs',
              r = send_answer C me s' budget spent prefix T' V c fp count' hosts' evs' /\ out_ans T T')
          \/ snd (fst (fst r)) = []
      | LCont s' T' count' hosts' evs' =>
          (forall e, In e T' -> In e T) /\ (nh T' <= nh T)%nat /\
          (skip = None -> nh T' = nh T -> forall j cost p, (i <= j)%nat -> nth_error T j = Some (cost, p) ->
             is_prefix prefix p = true -> cost <= budget + spent -> False)
      end.

    Lemma VL_weaken T T1 i i1 res :
      (forall e, In e T1 -> In e T) -> (nh T1 < nh T)%nat -> VL_post T1 i1 res -> VL_post T i res.
    Proof.
      intros S L. destruct res as [r|s' T' c' h' e']; simpl.
      - intros [(x & T' & s' & c' & h' & e' & E & (A & B & D & F))|[(T' & s' & c' & h' & e' & E & (A & B))|E]].
        + left. exists x, T', s', c', h', e'. split; auto. split; [auto|]. split; [lia|]. split; auto.
        + right. left. exists T', s', c', h', e'. split; auto. split; [auto|lia].
        + right. right. exact E.
      - intros (A & B & _). split; [auto|]. split; [lia|]. intros _ E. lia.
    Qed.

    Lemma visit_loop_var : forall fuel i s T count hosts evs,
      nomid T ->
      VL_post T i (visit_loop C fuel i me prefix skip budget spent V c fp s T count hosts evs).
    Proof.
      induction fuel as [|fuel IH]; intros i s T count hosts evs NM; simpl.
      - right. right. reflexivity.
      - destruct (nth_error T i) as [[cost p]|] eqn:En.
        2:{ split; auto. split; auto. intros _ _ j cj pj Hj Ej. exfalso.
            apply nth_error_None in En. assert (nth_error T j <> None) by congruence. apply nth_error_Some in H. lia. }
        assert (Hin : In (cost, p) T) by (eapply nth_error_In; eauto).
        assert (STEP : forall res, VL_post T (S i) res ->
                  (is_prefix prefix p = true -> cost <= budget + spent -> skip = None -> False) -> VL_post T i res).
        { intros res PO NA. destruct res as [r|s' T' c' h' e']; simpl in *; auto.
          destruct PO as (A & B & D). split; auto. split; auto.
          intros SK E j cj pj Hj Ej P1 P2. destruct (Nat.eq_dec j i) as [->|Hne].
          - rewrite En in Ej. inversion Ej; subst. auto.
          - eapply (D SK E j); eauto. lia. }
        destruct (is_prefix prefix p && (cost <=? budget + spent)) eqn:Ec.
        2:{ apply STEP; [apply IH; auto|]. intros P1 P2 _. rewrite P1 in Ec. simpl in Ec. lia. }
        apply andb_true_iff in Ec as [Epre Eaff]. apply Z.leb_le in Eaff.
        pose proof (is_prefix_split _ _ Epre) as Esp.
        destruct (skipn (List.length prefix) p) as [|x tl] eqn:Esk; [right; right; reflexivity|].
        destruct skip as [sp|] eqn:ESK.
        + destruct (path_eqb (prefix ++ [x]) sp).
          * apply STEP; [apply IH; auto|]. intros _ _ H. discriminate.
          * destruct (x =? HOSTING) eqn:Ex.
            -- apply Z.eqb_eq in Ex. subst x.
               assert (TL : tl = []).
               { destruct tl as [|y tl']; auto. exfalso. apply (NM (cost, p) HOSTING Hin); auto.
                 simpl. rewrite Esp. apply removelast_In_app. }
               subst tl.
               assert (LT : (nh (remove_path T (prefix ++ [HOSTING])) < nh T)%nat).
               { apply (nh_remove_lt T _ cost); [rewrite <- Esp; exact Hin|]. unfold hostingp. rewrite last_z_app. reflexivity. }
               assert (SUB : forall e, In e (remove_path T (prefix ++ [HOSTING])) -> In e T)
                 by (intros e He; apply remove_path_In in He; tauto).
               assert (NM1 : nomid (remove_path T (prefix ++ [HOSTING]))) by (intros e y He; apply NM; auto).
               destruct (can_host C me (s_hosted s) c fp).
               ++ destruct (count - 1 =? 0).
                  ** right. left. eexists _, _, _, _, _. split; [reflexivity|]. split; auto.
                  ** eapply VL_weaken; eauto.
               ++ eapply VL_weaken; eauto.
            -- left. exists x, T, s, count, hosts, evs. split; [reflexivity|].
               split; auto. split; auto. split; auto. exists cost, tl. rewrite <- Esp. auto.
        + destruct (x =? HOSTING) eqn:Ex.
          * apply Z.eqb_eq in Ex. subst x.
            assert (TL : tl = []).
            { destruct tl as [|y tl']; auto. exfalso. apply (NM (cost, p) HOSTING Hin); auto.
              simpl. rewrite Esp. apply removelast_In_app. }
            subst tl.
            assert (LT : (nh (remove_path T (prefix ++ [HOSTING])) < nh T)%nat).
            { apply (nh_remove_lt T _ cost); [rewrite <- Esp; exact Hin|]. unfold hostingp. rewrite last_z_app. reflexivity. }
            assert (SUB : forall e, In e (remove_path T (prefix ++ [HOSTING])) -> In e T)
              by (intros e He; apply remove_path_In in He; tauto).
            assert (NM1 : nomid (remove_path T (prefix ++ [HOSTING]))) by (intros e y He; apply NM; auto).
            destruct (can_host C me (s_hosted s) c fp).
            -- destruct (count - 1 =? 0).
               ++ right. left. eexists _, _, _, _, _. split; [reflexivity|]. split; auto.
               ++ eapply VL_weaken; eauto.
            -- eapply VL_weaken; eauto.
          * left. exists x, T, s, count, hosts, evs. split; [reflexivity|].
            split; auto. split; auto. split; auto. exists cost, tl. rewrite <- Esp. auto.
    Qed.
  End Loop.

  (* ---- what the senders emit *)
  Lemma send_request_outs me s b sp tp T V c fp count hosts evs d m :
    In (d, m) (snd (fst (fst (send_request C me s b sp tp T V c fp count hosts evs)))) ->
    exists b' sp', m = MRequest (mkTok b' sp' tp T V c fp count hosts) /\ b' + sp' = b + sp.
  Proof.
    unfold send_request. destruct (_ || _); simpl; [intros []|]. intros [I|[]]. inversion I; subst.
    eexists _, _. split; [reflexivity|]. lia.
  Qed.

  Lemma send_answer_outs me s b sp rq T V c fp count hosts evs d m :
    In (d, m) (snd (fst (fst (send_answer C me s b sp rq T V c fp count hosts evs)))) ->
    exists b' sp' pre, m = MAnswer (mkTok b' sp' rq T V c fp count hosts) /\ rq = pre ++ [d; me].
  Proof.
    unfold send_answer. destruct (negb (last_z rq =? me)) eqn:El; simpl; [intros []|].
    apply negb_false_iff in El. apply Z.eqb_eq in El.
    destruct (rev rq) as [|sd [|tg rest]] eqn:Er; simpl; try (intros []).
    destruct (_ || _); simpl; [intros []|]. intros [I|[]]. inversion I; subst d m.
    eexists _, _, (rev rest). split; [reflexivity|].
    assert (E : rq = rev rest ++ [tg; sd]).
    { rewrite <- (rev_involutive rq), Er. simpl. rewrite <- app_assoc. reflexivity. }
    rewrite E in El. change [tg; sd] with ([tg] ++ [sd]) in El. rewrite app_assoc, last_z_app in El. subst sd. exact E.
  Qed.

  Lemma In_rq_cases (rq : path) x : In x rq -> In x (removelast rq) \/ x = last_z rq.
  Proof.
    intros H. destruct rq as [|a r]; [destruct H|].
    rewrite (split_last (a :: r)) in H by discriminate. apply in_app_or in H as [H|[H|[]]]; auto.
  Qed.

  Lemma is_prefix_snoc_cons (rq : path) x tl : is_prefix (rq ++ [x]) (rq ++ x :: tl) = true.
  Proof.
    replace (rq ++ x :: tl) with ((rq ++ [x]) ++ tl) by (rewrite <- app_assoc; reflexivity).
    apply is_prefix_app, is_prefix_refl.
  Qed.

  (* ---- the neighbour loop keeps the structural invariant and the number of hosting entries *)
  Lemma add_neighbor_tinv V o (rq : path) spent :
    rq <> [] -> hd (-2) rq = o -> NoDup rq -> (forall x, In x rq -> In x V) -> (forall x, In x V -> is_agent C x = true) ->
    forall nbrs T, (forall n r, In (n, r) nbrs -> is_agent C n = true) ->
      tinv V T o ->
      tinv V (add_neighbor_paths nbrs V spent rq T) o /\ nh (add_neighbor_paths nbrs V spent rq T) = nh T.
  Proof.
    intros NE HD ND SUB AV. induction nbrs as [|[n r] rest IH]; intros T AN TI; simpl; [auto|].
    assert (An : is_agent C n = true) by (eapply AN; left; reflexivity).
    assert (AN' : forall n' r', In (n', r') rest -> is_agent C n' = true) by (intros; eapply AN; right; eauto).
    destruct (zmem n V) eqn:Ev; [apply IH; auto|].
    assert (NV : ~ In n V) by (intro H; apply zmem_In in H; congruence).
    assert (E3 : entry3 V o (rq ++ [n])).
    { split; [|split; [|split]].
      - apply NoDup_snoc; auto.
      - rewrite removelast_last. exact SUB.
      - rewrite last_z_app. auto.
      - destruct rq; [contradiction|]. simpl in HD. subst. simpl. eauto. }
    assert (NHn : hostingp (rq ++ [n]) = false).
    { unfold hostingp. rewrite last_z_app. unfold is_agent in An. unfold HOSTING. lia. }
    assert (STEP : forall T1, (forall e, In e T1 -> In e T) -> nh T1 = nh T ->
               (forall e, In e T1 -> hostingp (snd e) = false -> last_z (snd e) <> n) ->
               tinv V (psort (T1 ++ [(spent + r, rq ++ [n])])) o /\ nh (psort (T1 ++ [(spent + r, rq ++ [n])])) = nh T).
    { intros T1 S1 N1 NL. destruct TI as (A & B & D & E). split.
      - split; [exact A|]. split; [exact B|]. split.
        + intros e He. apply (proj1 (psort_In _ _)) in He. apply in_app_or in He as [He|[<-|[]]]; auto.
        + intros e1 e2 H1 H2 X1 X2 L. apply (proj1 (psort_In _ _)) in H1, H2.
          apply in_app_or in H1 as [H1|[<-|[]]]; apply in_app_or in H2 as [H2|[<-|[]]]; auto.
          * exfalso. simpl in L. rewrite last_z_app in L. eapply NL; eauto.
          * exfalso. simpl in L. rewrite last_z_app in L. eapply NL; eauto.
      - rewrite nh_psort_snoc. simpl. rewrite NHn. lia. }
    destruct (cheapest_path_to n T) as [[ch cp]|] eqn:Ech.
    - destruct (spent + r <? ch); [|apply IH; auto].
      apply cheapest_some in Ech as [Icp Lcp].
      assert (NHcp : hostingp cp = false) by (unfold hostingp; rewrite Lcp; unfold is_agent in An; unfold HOSTING; lia).
      destruct (STEP (remove_path T cp)) as [TI1 N1].
      + intros e He. apply remove_path_In in He. tauto.
      + unfold nh, remove_path. clear - NHcp. induction T as [|e t IHt]; simpl; auto.
        destruct (path_eqb (snd e) cp) eqn:Ee; simpl.
        * apply path_eqb_eq in Ee. rewrite Ee, NHcp. exact IHt.
        * destruct (hostingp (snd e)); simpl; auto.
      + intros e He X L. apply remove_path_In in He as [He Hne]. apply Hne.
        destruct TI as (_ & _ & _ & E). apply (E e (ch, cp)); auto. simpl. congruence.
      + destruct (IH _ AN' TI1) as [TI2 N2]. split; auto. congruence.
    - destruct (STEP T) as [TI1 N1]; auto.
      + intros e He _. eapply cheapest_none; eauto.
      + destruct (IH _ AN' TI1) as [TI2 N2]. split; auto. congruence.
  Qed.

  (* ---- the measure and the token invariant *)
  Definition mu (V : list Z) (T : ptable) : nat := (2 * (na - List.length V) + nh T)%nat.
  Definition W : nat := (4 * na + 1)%nat.
  Definition Phi (m : msg) : nat :=
    match m with
    | MRequest t => (W * mu (t_visited t) (t_paths t) + (2 * na - List.length (t_path t)))%nat
    | MAnswer t => (W * mu (t_visited t) (t_paths t) + (2 * na + List.length (t_path t)))%nat
    | MReplicate _ => 0%nat
    end.
  Definition rq_ok (rq : path) : Prop := NoDup rq /\ rq <> [] /\ (forall x, In x rq -> is_agent C x = true).
  Definition mok3 (d : Z) (m : msg) : Prop :=
    match m with
    | MReplicate _ => True
    | MRequest t =>
        tinv (t_visited t) (t_paths t) (hd (-2) (t_path t)) /\ rq_ok (t_path t)
        /\ (forall x, In x (removelast (t_path t)) -> In x (t_visited t))
        /\ (exists e, In e (t_paths t) /\ is_prefix (t_path t) (snd e) = true /\ fst e <= t_budget t + t_spent t)
    | MAnswer t =>
        tinv (t_visited t) (t_paths t) (hd (-2) (t_path t)) /\ rq_ok (t_path t)
        /\ (forall x, In x (t_path t) -> In x (t_visited t))
        /\ (exists pre sd, t_path t = pre ++ [d; sd])
    end.

  Lemma W_le a b p q : (a <= b)%nat -> (p < q)%nat -> (W * a + p < W * b + q)%nat.
  Proof. intros H1 H2. pose proof (Nat.mul_le_mono_l a b W H1). lia. Qed.
  Lemma W_lt a b p q : (a < b)%nat -> (p < W + q)%nat -> (W * a + p < W * b + q)%nat.
  Proof.
    intros H1 H2. assert (H : (W * (a + 1) <= W * b)%nat) by (apply Nat.mul_le_mono_l; lia).
    rewrite Nat.mul_add_distr_l, Nat.mul_1_r in H. lia.
  Qed.

  Lemma tinv_nomid V T o : tinv V T o -> nomid T.
  Proof.
    intros (_ & B & D & _) e x He Hx E. subst x. destruct (D e He) as (_ & S & _).
    apply S in Hx. apply B in Hx. unfold is_agent, HOSTING in Hx. lia.
  Qed.

  Lemma rq_len (rq : path) : rq_ok rq -> (List.length rq <= na)%nat.
  Proof. intros (A & _ & B). apply agents_length; auto. Qed.

  Lemma hosting_not_agent_path (rq : path) : (forall x, In x rq -> is_agent C x = true) -> ~ In HOSTING rq.
  Proof. intros A H. apply A in H. unfold is_agent, HOSTING in H. lia. Qed.

  (* on_replicate_request *)
  Lemma on_request_var me s b sp (rq : path) T V c fp count hosts evs :
    tinv V T (hd (-2) rq) -> rq_ok rq -> (forall x, In x (removelast rq) -> In x V) ->
    (exists e, In e T /\ is_prefix rq (snd e) = true /\ fst e <= b + sp) ->
    forall d m, In (d, m) (snd (fst (fst (on_request C me s b sp rq T V c fp count hosts evs)))) ->
      mok3 d m /\ (Phi m < W * mu V T + (2 * na - List.length rq))%nat.
  Proof.
    intros TI RQ SUB (e & He & Pe & Ae) d m I. unfold on_request in I.
    destruct (negb (last_z rq =? me)) eqn:El; [destruct I|].
    apply negb_false_iff in El. apply Z.eqb_eq in El.
    destruct RQ as (NDrq & NErq & Arq).
    assert (Ame : is_agent C me = true) by (rewrite <- El; apply Arq, last_z_In; auto).
    assert (Lrq : (List.length rq <= na)%nat) by (apply rq_len; split; auto).
    set (o := hd (-2) rq) in *.
    set (T1 := remove_path T rq) in *.
    set (V1 := if negb (zmem me V) then V ++ [me] else V) in *.
    set (T2 := if negb (zmem me V) && negb (owns C me c)
               then psort (T1 ++ [(sp + hosting_cost C me c, rq ++ [HOSTING])]) else T1) in *.
    pose proof (is_prefix_split _ _ Pe) as Esp.
    destruct TI as (NDV & AV & E3 & UQ).
    assert (HOSTrq : hostingp rq = false).
    { unfold hostingp. rewrite El. unfold is_agent in Ame. unfold HOSTING. lia. }
    assert (F : tinv V1 T2 o /\ (forall x, In x rq -> In x V1)
                /\ (mu V1 T2 <= mu V T)%nat
                /\ ((mu V1 T2 < mu V T)%nat \/ exists e', In e' T2 /\ is_prefix rq (snd e') = true /\ fst e' <= b + sp)).
    { destruct (zmem me V) eqn:Ev.
      - (* already visited *)
        unfold V1, T2. simpl. apply zmem_In in Ev.
        assert (NE : snd e <> rq).
        { intro E. destruct (E3 e He) as (_ & _ & X & _). rewrite E in X. destruct (X HOSTrq) as [X1 _].
          apply X1. rewrite El. exact Ev. }
        assert (He1 : In e T1) by (apply remove_path_In; auto).
        split; [apply (tinv_subset V T); [intros x Hx; apply remove_path_In in Hx; tauto|exact (conj NDV (conj AV (conj E3 UQ)))]|].
        split; [intros x Hx; destruct (In_rq_cases rq x Hx) as [H|H]; auto; rewrite H, El; exact Ev|].
        split; [unfold mu; pose proof (nh_remove_le T rq); fold T1 in H; lia|].
        right. exists e. auto.
      - (* first visit *)
        assert (NV : ~ In me V) by (intro H; apply zmem_In in H; congruence).
        assert (Erq : snd e = rq).
        { destruct (skipn (List.length rq) (snd e)) as [|y tl] eqn:Esk; [rewrite app_nil_r in Esp; auto|].
          exfalso. apply NV. destruct (E3 e He) as (_ & S & _). apply S.
          rewrite Esp. rewrite (split_last rq NErq), El, <- app_assoc. simpl. apply removelast_In_app. }
        assert (LV : (List.length (V ++ [me]) <= na)%nat).
        { apply agents_length; [apply NoDup_snoc; auto|]. intros x Hx. apply in_app_or in Hx as [Hx|[<-|[]]]; auto. }
        rewrite app_length in LV. simpl in LV.
        assert (SUB1 : forall x, In x rq -> In x (V ++ [me])).
        { intros x Hx. apply in_or_app. destruct (In_rq_cases rq x Hx) as [H|H]; [left; auto|right; left; congruence]. }
        assert (TI1 : tinv (V ++ [me]) T1 o).
        { split; [apply NoDup_snoc; auto|]. split; [intros x Hx; apply in_app_or in Hx as [Hx|[<-|[]]]; auto|]. split.
          - intros e' He'. apply remove_path_In in He' as [He' Hne]. destruct (E3 e' He') as (X1 & X2 & X3 & X4).
            split; [exact X1|]. split; [intros x Hx; apply in_or_app; left; auto|]. split; [|exact X4].
            intros Hh. destruct (X3 Hh) as [Y1 Y2]. split; auto. intro Hx. apply in_app_or in Hx as [Hx|[Hx|[]]]; auto.
            apply Hne. rewrite <- Erq. apply (UQ e' e He' He Hh); [rewrite Erq; exact HOSTrq|rewrite Erq, El; symmetry; exact Hx].
          - intros e1 e2 H1 H2. apply remove_path_In in H1 as [H1 _]. apply remove_path_In in H2 as [H2 _]. apply UQ; auto. }
        unfold V1, T2. simpl. split; [|split; [exact SUB1|]].
        + destruct (owns C me c); simpl; [exact TI1|].
          destruct TI1 as (A1 & B1 & D1 & U1). split; [exact A1|]. split; [exact B1|]. split.
          * intros e' He'. apply (proj1 (psort_In _ _)) in He'. apply in_app_or in He' as [He'|[<-|[]]]; auto. simpl.
            split; [apply NoDup_snoc; auto; apply hosting_not_agent_path; auto|].
            split; [rewrite removelast_last; exact SUB1|]. split.
            -- unfold hostingp. rewrite last_z_app. intros H. discriminate.
            -- destruct rq; [contradiction|]. simpl. eauto.
          * intros e1 e2 H1 H2 X1 X2. apply (proj1 (psort_In _ _)) in H1, H2.
            apply in_app_or in H1 as [H1|[<-|[]]]; apply in_app_or in H2 as [H2|[<-|[]]]; auto;
              try (simpl in X1; unfold hostingp in X1; rewrite last_z_app in X1; discriminate);
              try (simpl in X2; unfold hostingp in X2; rewrite last_z_app in X2; discriminate).
        + assert (N2 : (nh (if negb (owns C me c) then psort (T1 ++ [((sp + hosting_cost C me c)%Z, rq ++ [HOSTING])]) else T1) <= nh T + 1)%nat).
          { pose proof (nh_remove_le T rq) as H. fold T1 in H. destruct (owns C me c); simpl; [lia|].
            rewrite nh_psort_snoc. simpl. destruct (hostingp (rq ++ [HOSTING])); lia. }
          unfold mu. rewrite app_length. simpl. split; [lia|left; lia]. }
    destruct F as (TI2 & SUB2 & MU2 & PROG).
    assert (AV1 : forall x, In x V1 -> is_agent C x = true) by (destruct TI2 as (_ & B & _); exact B).
    pose proof (visit_loop_var me rq None b sp V1 c fp (S (List.length T2)) 0 s T2 count hosts evs (tinv_nomid _ _ _ TI2)) as VL.
    cbv zeta in I. fold T1 V1 T2 in I.
    destruct (visit_loop C (S (List.length T2)) 0 me rq None b sp V1 c fp s T2 count hosts evs) as [r|s3 T3 c3 h3 e3]; simpl in VL.
    - destruct VL as [(x & T' & s' & c' & h' & e' & -> & (S' & N' & Hx & (cost & tl & Ie & Af)))|[(T' & s' & c' & h' & e' & -> & (S' & N'))|E0]].
      + (* forwarded down *)
        destruct (send_request_outs _ _ _ _ _ _ _ _ _ _ _ _ _ _ I) as (b' & sp' & -> & Eb). simpl.
        assert (TI' : tinv V1 T' o) by (eapply tinv_subset; eauto).
        destruct TI' as (A' & B' & D' & U').
        destruct (D' _ Ie) as (X1 & X2 & X3 & X4). simpl in X1, X2, X3, X4.
        assert (Ax : is_agent C x = true).
        { destruct tl as [|y tl'].
          - assert (Hh : hostingp (rq ++ [x]) = false) by (unfold hostingp; rewrite last_z_app; exact Hx).
            destruct (X3 Hh) as [_ Y]. rewrite last_z_app in Y. exact Y.
          - apply AV1, X2. apply removelast_In_app. }
        assert (RQ' : rq_ok (rq ++ [x])).
        { split; [|split; [destruct rq; discriminate|]].
          - replace (rq ++ x :: tl) with ((rq ++ [x]) ++ tl) in X1 by (rewrite <- app_assoc; reflexivity).
            eapply NoDup_prefix; eauto.
          - intros y Hy. apply in_app_or in Hy as [Hy|[<-|[]]]; auto. }
        split.
        * split; [rewrite hd_app by exact NErq; exact (conj A' (conj B' (conj D' U')))|]. split; [exact RQ'|].
          split; [rewrite removelast_last; exact SUB2|].
          exists (cost, rq ++ x :: tl). split; [exact Ie|]. split; [apply is_prefix_snoc_cons|simpl; lia].
        * pose proof (rq_len _ RQ') as L'. rewrite app_length in *. simpl in *.
          apply W_le; [unfold mu in *; lia|lia].
      + (* answered after a replica was accepted *)
        destruct (send_answer_outs _ _ _ _ _ _ _ _ _ _ _ _ _ _ I) as (b' & sp' & pre & -> & Erq). simpl.
        split.
        * split; [eapply tinv_subset; eauto|]. split; [split; auto|]. split; [exact SUB2|]. exists pre, me. exact Erq.
        * apply W_lt; [unfold mu in *; lia|unfold W; lia].
      + rewrite E0 in I. destruct I.
    - destruct VL as (S3 & N3 & NOAFF).
      destruct (send_answer_outs _ _ _ _ _ _ _ _ _ _ _ _ _ _ I) as (b' & sp' & pre & -> & Erq). simpl.
      assert (TI3 : tinv V1 T3 o) by (eapply tinv_subset; eauto).
      destruct (add_neighbor_tinv V1 o rq sp NErq eq_refl NDrq SUB2 AV1 (neighbors C me) T3) as [TI4 N4]; auto.
      { intros n r Hn. apply (neighbors_spec C me Ame) in Hn. tauto. }
      split.
      + split; [exact TI4|]. split; [split; auto|]. split; [exact SUB2|]. exists pre, me. exact Erq.
      + assert (LT : (mu V1 T3 < mu V T)%nat).
        { destruct PROG as [P|(e' & He' & Pe' & Ae')]; [unfold mu in *; lia|].
          assert (NEQ : nh T3 <> nh T2).
          { intro E. destruct (In_nth_error _ _ He') as [j Ej]. destruct e' as [ce pe].
            eapply (NOAFF eq_refl E j ce pe); eauto. lia. }
          unfold mu in *. lia. }
        apply W_lt; [unfold mu in *; lia|unfold W; lia].
  Qed.

  Lemma computation_replicated_outs me s c hosts evs :
    snd (fst (fst (computation_replicated me s c hosts evs))) = [].
  Proof. unfold computation_replicated. destruct (zlookup c (s_inprog s)); reflexivity. Qed.

  (* on_replicate_answer *)
  Lemma on_answer_var me s b sp (rq : path) T V c fp count hosts evs pre sd :
    tinv V T (hd (-2) rq) -> rq_ok rq -> (forall x, In x rq -> In x V) -> rq = pre ++ [me; sd] ->
    forall d m, In (d, m) (snd (fst (fst (on_answer C me s b sp rq T V c fp count hosts evs)))) ->
      mok3 d m /\ (Phi m < W * mu V T + (2 * na + List.length rq))%nat.
  Proof.
    intros TI (NDrq & NErq & Arq) SUB Erq d m I. unfold on_answer in I.
    assert (Erev : rev rq = sd :: me :: rev pre) by (rewrite Erq, rev_app_distr; reflexivity).
    rewrite Erev in I.
    assert (Einit : removelast rq = pre ++ [me]).
    { rewrite Erq. change [me; sd] with ([me] ++ [sd]). rewrite app_assoc. apply removelast_last. }
    rewrite Einit in I.
    set (ini := pre ++ [me]) in *.
    assert (Erq' : rq = ini ++ [sd]) by (unfold ini; rewrite <- app_assoc; exact Erq).
    assert (RQi : rq_ok ini).
    { split; [rewrite Erq' in NDrq; eapply NoDup_prefix; eauto|]. split; [unfold ini; destruct pre; discriminate|].
      intros x Hx. apply Arq. rewrite Erq'. apply in_or_app. auto. }
    assert (SUBi : forall x, In x ini -> In x V) by (intros x Hx; apply SUB; rewrite Erq'; apply in_or_app; auto).
    assert (HDi : hd (-2) ini = hd (-2) rq) by (rewrite Erq; unfold ini; destruct pre; reflexivity).
    assert (Li : List.length rq = S (List.length ini)) by (rewrite Erq', app_length; simpl; lia).
    assert (Lrq : (List.length rq <= na)%nat) by (apply rq_len; split; auto).
    assert (ANS : forall T' s' c' h' e', (forall e, In e T' -> In e T) -> (nh T' <= nh T)%nat ->
               In (d, m) (snd (fst (fst (send_answer C me s' b sp ini T' V c fp c' h' e')))) ->
               mok3 d m /\ (Phi m < W * mu V T + (2 * na + List.length rq))%nat).
    { intros T' s' c' h' e' S' N' I'.
      destruct (send_answer_outs _ _ _ _ _ _ _ _ _ _ _ _ _ _ I') as (b' & sp' & pre' & -> & E'). simpl. split.
      - split; [rewrite HDi; eapply tinv_subset; eauto|]. split; [exact RQi|]. split; [exact SUBi|]. exists pre', me. exact E'.
      - apply W_le; [unfold mu; lia|lia]. }
    destruct (count =? 0).
    - destruct (3 <=? Z.of_nat (List.length rq)).
      + eapply ANS; eauto.
      + rewrite computation_replicated_outs in I. destruct I.
    - pose proof (visit_loop_var me ini (Some rq) b sp V c fp (S (List.length T)) 0 s T count hosts evs (tinv_nomid _ _ _ TI)) as VL.
      cbv zeta in I. revert I VL.
      destruct (visit_loop C (S (List.length T)) 0 me ini (Some rq) b sp V c fp s T count hosts evs) as [r|s3 T3 c3 h3 e3]; intros I VL; simpl in VL.
      + destruct VL as [(x & T' & s' & c' & h' & e' & -> & (S' & N' & Hx & (cost & tl & Ie & Af)))|[(T' & s' & c' & h' & e' & -> & (S' & N'))|E0]].
        * destruct (send_request_outs _ _ _ _ _ _ _ _ _ _ _ _ _ _ I) as (b' & sp' & -> & Eb). simpl.
          assert (TI' : tinv V T' (hd (-2) rq)) by (eapply tinv_subset; eauto).
          destruct TI' as (A' & B' & D' & U').
          destruct (D' _ Ie) as (X1 & X2 & X3 & X4). simpl in X1, X2, X3, X4.
          assert (Ax : is_agent C x = true).
          { destruct tl as [|y tl'].
            - assert (Hh : hostingp (ini ++ [x]) = false) by (unfold hostingp; rewrite last_z_app; exact Hx).
              destruct (X3 Hh) as [_ Y]. rewrite last_z_app in Y. exact Y.
            - apply B', X2. apply removelast_In_app. }
          assert (RQ' : rq_ok (ini ++ [x])).
          { destruct RQi as (R1 & R2 & R3). split; [|split; [destruct ini; discriminate|]].
            - replace (ini ++ x :: tl) with ((ini ++ [x]) ++ tl) in X1 by (rewrite <- app_assoc; reflexivity).
              eapply NoDup_prefix; eauto.
            - intros y Hy. apply in_app_or in Hy as [Hy|[<-|[]]]; auto. }
          split.
          -- split; [rewrite hd_app by (destruct RQi as (_ & R & _); exact R); rewrite HDi; exact (conj A' (conj B' (conj D' U')))|].
             split; [exact RQ'|]. split; [rewrite removelast_last; exact SUBi|].
             exists (cost, ini ++ x :: tl). split; [exact Ie|]. split; [apply is_prefix_snoc_cons|simpl; lia].
          -- rewrite app_length. simpl. apply W_le; [unfold mu; lia|lia].
        * eapply ANS; eauto. lia.
        * rewrite E0 in I. destruct I.
      + destruct VL as (S3 & N3 & _).
        destruct (3 <=? Z.of_nat (List.length rq)) eqn:Elong; [eapply ANS; eauto|].
        destruct T3 as [|e0 T3'] eqn:ET3; [rewrite computation_replicated_outs in I; destruct I|].
        rewrite <- ET3 in *.
        destruct (filter (fun e => negb (path_eqb (snd e) rq)) T3) as [|[c0 q0] r0] eqn:EF; [destruct I|].
        assert (Epre : pre = []).
        { apply Z.leb_gt in Elong. rewrite Erq, app_length in Elong. simpl in Elong. destruct pre; [reflexivity|simpl in Elong; lia]. }
        subst pre. simpl in ini. unfold ini in *.
        assert (TI3 : tinv V T3 me).
        { rewrite Erq in TI. simpl in TI. eapply tinv_subset; eauto. }
        assert (EX : exists e, In e T3 /\ is_prefix [me] (snd e) = true /\ fst e <= min_cost r0 c0 + 0).
        { destruct (min_entry c0 q0 r0) as (cost & p & Ip & Le). rewrite <- EF in Ip. apply filter_In in Ip as [Ip _].
          exists (cost, p). split; auto. split; [|simpl; lia].
          destruct TI3 as (_ & _ & D3 & _). destruct (D3 _ Ip) as (_ & _ & _ & (tl & Etl)). simpl in Etl. simpl. rewrite Etl.
          simpl. rewrite Z.eqb_refl. reflexivity. }
        destruct (on_request_var me s3 (min_cost r0 c0) 0 [me] T3 V c fp c3 h3 e3 TI3 RQi) with (d := d) (m := m) as [M1 M2]; auto.
        { intros x []. }
        split; auto. simpl in M2. rewrite Li. simpl.
        assert (MU : (mu V T3 <= mu V T)%nat) by (unfold mu; lia).
        pose proof (Nat.mul_le_mono_l _ _ W MU). lia.
  Qed.

  (* ---- replicate(k): the initial tokens *)
  Lemma is_nbr_irrefl me : is_nbr C me me = false.
  Proof.
    unfold is_nbr. induction (a_comps (agent C me)) as [|x r IH]; simpl; auto. rewrite IH, orb_false_r.
    induction (snd x) as [|nb l IHl]; simpl; auto. rewrite IHl, orb_false_r. destruct (owns C me nb); reflexivity.
  Qed.

  Lemma neighbors_ne me n r : In (n, r) (neighbors C me) -> n <> me.
  Proof.
    unfold neighbors. intros H E. apply in_map_iff in H as [j [Ej H]]. inversion Ej; subst.
    apply filter_In in H as [_ H]. rewrite is_nbr_irrefl in H. discriminate.
  Qed.

  Lemma initial_tinv me : is_agent C me = true ->
    tinv [me] (psort (map (fun nr => (snd nr, [me; fst nr])) (neighbors C me))) me.
  Proof.
    intros Ame. split; [constructor; [intros []|constructor]|]. split; [intros x [<-|[]]; exact Ame|]. split.
    - intros e He. apply (proj1 (psort_In _ _)) in He. apply in_map_iff in He as [[n r] [<- Hn]]. simpl.
      pose proof (neighbors_ne me n r Hn) as Ne. apply (neighbors_spec C me Ame) in Hn as [An _].
      split; [constructor; [intros [H|[]]; congruence|constructor; [intros []|constructor]]|].
      split; [intros x [<-|[]]; left; reflexivity|]. split; [|eauto].
      intros _. unfold last_z. simpl. split; [intros [H|[]]; congruence|exact An].
    - intros e1 e2 H1 H2 _ _ L. apply (proj1 (psort_In _ _)) in H1, H2.
      apply in_map_iff in H1 as [[n1 r1] [<- _]]. apply in_map_iff in H2 as [[n2 r2] [<- _]].
      simpl in *. unfold last_z in L. simpl in L. congruence.
  Qed.

  Lemma replicate_loop_mok3 me k : is_agent C me = true -> forall comps s outs evs,
    (forall d m, In (d, m) outs -> mok3 d m) ->
    forall d m, In (d, m) (snd (fst (fst (replicate_loop C me k comps s outs evs)))) -> mok3 d m.
  Proof.
    intros Ame. induction comps as [|x rest IH]; intros s outs evs HO d m; simpl; [apply HO|].
    pose proof (initial_tinv me Ame) as TI. set (paths := psort _) in *.
    destruct paths as [|[c0 q0] r0] eqn:Ep; [apply HO|]. rewrite <- Ep in *.
    assert (RQ : rq_ok [me]).
    { split; [constructor; [intros []|constructor]|]. split; [discriminate|]. intros y [<-|[]]. exact Ame. }
    assert (EX : exists e, In e paths /\ is_prefix [me] (snd e) = true /\ fst e <= min_cost r0 c0 + 0).
    { destruct (min_entry c0 q0 r0) as (cost & p & Ip & Le). rewrite <- Ep in Ip. exists (cost, p). split; auto.
      split; [|simpl; lia]. destruct TI as (_ & _ & D & _). destruct (D _ Ip) as (_ & _ & _ & (tl & Etl)).
      simpl in *. rewrite Etl. simpl. rewrite Z.eqb_refl. reflexivity. }
    pose proof (on_request_var me s (min_cost r0 c0) 0 [me] paths [me] (comp_name x) (comp_fp x) k [] evs TI RQ
                  (fun y (H : In y []) => False_ind _ H) EX) as OR.
    destruct (on_request C me s (min_cost r0 c0) 0 [me] paths [me] (comp_name x) (comp_fp x) k [] evs) as [[[s1 o1] e1] raised].
    simpl in OR.
    assert (HO' : forall d0 m0, In (d0, m0) (outs ++ o1) -> mok3 d0 m0).
    { intros d0 m0 I. apply in_app_or in I as [I|I]; auto. apply OR. exact I. }
    destruct raised; simpl; [apply HO'|apply IH; exact HO'].
  Qed.

  Lemma replicate_mok3 me s k : is_agent C me = true ->
    forall d m, In (d, m) (snd (fst (fst (replicate C me s k)))) -> mok3 d m.
  Proof.
    intros Ame. unfold replicate. destruct (a_comps (agent C me)) as [|x0 r0]; [intros d m []|].
    destruct (neighbors C me) eqn:En; [intros d m []|].
    apply replicate_loop_mok3; auto. intros d m [].
  Qed.

  (* ---- the protocol handler: invariant and variant *)
  Lemma ucs_recv_var n s src m : mok3 n m ->
    forall d m', In (d, m') (snd (fst (ucs_recv C n s src m))) ->
      mok3 d m' /\ (forall t, tok_of m = Some t -> (Phi m' < Phi m)%nat).
  Proof.
    intros MO d m' I. unfold ucs_recv in I. destruct (is_agent C n) eqn:Ea; cbn [negb] in I; cbv beta iota in I; [|destruct I].
    destruct m as [k|t|t]; simpl in MO.
    - split; [|intros t T; discriminate].
      pose proof (replicate_mok3 n s k Ea d m') as R.
      destruct (replicate C n s k) as [[[s' o] e] b]. simpl in *. auto.
    - destruct MO as (TI & RQ & SUB & EX).
      pose proof (on_request_var n s (t_budget t) (t_spent t) (t_path t) (t_paths t) (t_visited t) (t_comp t) (t_fp t)
                    (t_count t) (t_hosts t) [] TI RQ SUB EX d m') as OR.
      destruct (on_request _ _ _ _ _ _ _ _ _ _ _ _ _) as [[[s' o] e] b]. simpl in *.
      destruct (OR I) as [M1 M2]. split; auto.
    - destruct MO as (TI & RQ & SUB & (pre & sd & E)).
      match type of I with context [on_answer C n ?s0 _ _ _ _ _ _ _ _ _ _] =>
        pose proof (on_answer_var n s0 (t_budget t) (t_spent t) (t_path t) (t_paths t) (t_visited t) (t_comp t) (t_fp t)
                      (t_count t) (t_hosts t) [] pre sd TI RQ SUB E d m') as OA;
        destruct (on_answer C n s0 (t_budget t) (t_spent t) (t_path t) (t_paths t) (t_visited t) (t_comp t) (t_fp t)
                      (t_count t) (t_hosts t) []) as [[[s' o] e] b] end.
      simpl in *. destruct (OA I) as [M1 M2]. split; auto.
  Qed.

  (* ---- every token in flight of every reachable configuration satisfies the invariant *)
  Notation P := (ucs_proto C).
  Definition Inv3 (cf : config nstate msg) : Prop :=
    (forall s d m, In m (chan cf s d) -> mok3 d m) /\
    (forall d s m, In (s, m) (w_held (nodes cf d)) -> mok3 d m).

  Lemma step_inv3 cf a : Inv3 cf -> Inv3 (fst (step P cf a)).
  Proof.
    intros (IC & IH). destruct a as [n|s d]; simpl.
    - destruct (w_running (nodes cf n)) eqn:Er; [split; auto|].
      change (p_start P n (w_st (nodes cf n))) with (ucs_start C n (w_st (nodes cf n))).
      assert (SO : forall d m, In (d, m) (snd (fst (ucs_start C n (w_st (nodes cf n))))) -> mok3 d m).
      { unfold ucs_start. destruct (n =? ORCH); simpl; [|intros d m []].
        intros d m I. apply in_map_iff in I as [a [E _]]. inversion E; subst. exact I. }
      destruct (ucs_start C n (w_st (nodes cf n))) as [[st' outs] evs]. simpl in *. split.
      + intros s d m I. apply In_reinject_all in I as [I|[E I]].
        * apply In_send_all in I as [I|[E I]]; eauto.
        * subst. unfold reinject in I. eauto.
      + intros d s m. simpl. unfold upd_node. cbv beta. destruct (d =? n); simpl; intros I; [destruct I|eauto].
    - destruct (chan cf s d) as [|m q] eqn:Ech; [split; auto|].
      assert (MOK : mok3 d m) by (apply (IC s d); rewrite Ech; left; auto).
      assert (C0 : forall x y m', In m' (upd_chan (chan cf) s d q x y) -> mok3 y m').
      { intros x y m' I. apply In_upd_chan in I as [(E1 & E2 & I)|I]; [subst|eauto].
        apply (IC s d). rewrite Ech. right; auto. }
      destruct (w_running (nodes cf d)) eqn:Er.
      + change (p_recv P d (w_st (nodes cf d)) s m) with (ucs_recv C d (w_st (nodes cf d)) s m).
        pose proof (ucs_recv_var d (w_st (nodes cf d)) s m MOK) as R.
        destruct (ucs_recv C d (w_st (nodes cf d)) s m) as [[st' outs] evs]. simpl in *. split.
        * intros x y m' I. apply In_send_all in I as [I|[E I]]; [eauto|]. apply (R y m' I).
        * intros y x m'. simpl. unfold upd_node. cbv beta. destruct (y =? d) eqn:Ey; simpl; intros I; [|eauto].
          apply Z.eqb_eq in Ey. subst. eauto.
      + simpl. split; [eauto|].
        intros y x m'. simpl. unfold upd_node. cbv beta. destruct (y =? d) eqn:Ey; simpl; intros I; [|eauto].
        apply Z.eqb_eq in Ey. subst. apply in_app_or in I as [I|[I|[]]]; [eauto|].
        inversion I; subst. exact MOK.
  Qed.

  Lemma reachable_inv3 cf : reachable P cf -> Inv3 cf.
  Proof.
    induction 1 as [|cf a R IH]; [split; [intros s d m []|intros d s m []]|]. apply step_inv3; auto.
  Qed.

  (* the variant: whenever the token at the head of a channel of a reachable configuration is
     handled (in whatever state of the receiving agent), the token it emits is strictly smaller *)
  Lemma ucs_token_variant_l cf s d m q t :
    reachable P cf -> chan cf s d = m :: q -> tok_of m = Some t ->
    forall st src d' m', In (d', m') (snd (fst (ucs_recv C d st src m))) -> (Phi m' < Phi m)%nat.
  Proof.
    intros R Ech T st src d' m' I. destruct (reachable_inv3 cf R) as [IC _].
    assert (MOK : mok3 d m) by (apply (IC s d); rewrite Ech; left; auto).
    destruct (ucs_recv_var d st src m MOK d' m' I) as [_ H]. eauto.
  Qed.

  (* the measure of a token is bounded by a function of the number of agents *)
  Lemma Phi_bound cf s d m : reachable P cf -> In m (chan cf s d) ->
    (Phi m <= W * (2 * na + List.length (match tok_of m with Some t => t_paths t | None => [] end)) + 3 * na)%nat.
  Proof.
    intros R I. destruct (reachable_inv3 cf R) as [IC _]. specialize (IC s d m I).
    destruct m as [k|t|t]; simpl in *; [lia| |].
    - destruct IC as (_ & RQ & _). pose proof (rq_len _ RQ).
      assert (M : (mu (t_visited t) (t_paths t) <= 2 * na + List.length (t_paths t))%nat).
      { unfold mu. pose proof (nh_le_length (t_paths t)). lia. }
      pose proof (Nat.mul_le_mono_l _ _ W M). lia.
    - destruct IC as (_ & RQ & _). pose proof (rq_len _ RQ).
      assert (M : (mu (t_visited t) (t_paths t) <= 2 * na + List.length (t_paths t))%nat).
      { unfold mu. pose proof (nh_le_length (t_paths t)). lia. }
      pose proof (Nat.mul_le_mono_l _ _ W M). lia.
  Qed.

  (* the tokens created by replicate(k) start below a bound that only depends on the number of
     agents: with the variant, a token makes fewer than W * 2n + 2n = O(n^2) hops *)
  Definition Phi0 : nat := (W * (2 * na) + 2 * na)%nat.

  Lemma nh_initial me : nh (psort (map (fun nr => (snd nr, [me; fst nr])) (neighbors C me))) = 0%nat.
  Proof.
    assert (G : forall l, (forall e, In e l -> hostingp (snd e) = false) -> nh l = 0%nat).
    { unfold nh. induction l as [|e r IH]; simpl; intros H; auto. rewrite (H e (or_introl eq_refl)). apply IH.
      intros e' He'. apply H. right; auto. }
    apply G. intros e He. apply (proj1 (psort_In _ _)) in He. apply in_map_iff in He as [[n r] [<- Hn]].
    simpl. apply neighbors_pos in Hn. unfold hostingp, last_z, HOSTING. simpl. lia.
  Qed.

  Lemma replicate_loop_Phi0 me k : is_agent C me = true -> forall comps s outs evs,
    (forall d m, In (d, m) outs -> (Phi m < Phi0)%nat) ->
    forall d m, In (d, m) (snd (fst (fst (replicate_loop C me k comps s outs evs)))) -> (Phi m < Phi0)%nat.
  Proof.
    intros Ame. induction comps as [|x rest IH]; intros s outs evs HO d m; simpl; [apply HO|].
    pose proof (initial_tinv me Ame) as TI. pose proof (nh_initial me) as NH0. set (paths := psort _) in *.
    destruct paths as [|[c0 q0] r0] eqn:Ep; [apply HO|]. rewrite <- Ep in *.
    assert (RQ : rq_ok [me]).
    { split; [constructor; [intros []|constructor]|]. split; [discriminate|]. intros y [<-|[]]. exact Ame. }
    assert (EX : exists e, In e paths /\ is_prefix [me] (snd e) = true /\ fst e <= min_cost r0 c0 + 0).
    { destruct (min_entry c0 q0 r0) as (cost & p & Ip & Le). rewrite <- Ep in Ip. exists (cost, p). split; auto.
      split; [|simpl; lia]. destruct TI as (_ & _ & D & _). destruct (D _ Ip) as (_ & _ & _ & (tl & Etl)).
      simpl in *. rewrite Etl. simpl. rewrite Z.eqb_refl. reflexivity. }
    pose proof (on_request_var me s (min_cost r0 c0) 0 [me] paths [me] (comp_name x) (comp_fp x) k [] evs TI RQ
                  (fun y (H : In y []) => False_ind _ H) EX) as OR.
    destruct (on_request C me s (min_cost r0 c0) 0 [me] paths [me] (comp_name x) (comp_fp x) k [] evs) as [[[s1 o1] e1] raised].
    simpl in OR.
    assert (HO' : forall d0 m0, In (d0, m0) (outs ++ o1) -> (Phi m0 < Phi0)%nat).
    { intros d0 m0 I. apply in_app_or in I as [I|I]; [apply (HO d0 m0 I)|]. destruct (OR d0 m0 I) as [_ B].
      unfold mu in B. rewrite NH0 in B. simpl in B. unfold Phi0.
      assert (M : (2 * (na - 1) + 0 <= 2 * na)%nat) by lia. pose proof (Nat.mul_le_mono_l _ _ W M). lia. }
    destruct raised; simpl; [apply HO'|apply IH; exact HO'].
  Qed.

  Lemma replicate_Phi0 me s k : is_agent C me = true ->
    forall d m, In (d, m) (snd (fst (fst (replicate C me s k)))) -> (Phi m < Phi0)%nat.
  Proof.
    intros Ame. unfold replicate. destruct (a_comps (agent C me)) as [|x0 r0]; [intros d m []|].
    destruct (neighbors C me) eqn:En; [intros d m []|].
    apply replicate_loop_Phi0; auto. intros d m [].
  Qed.

  (* every token in flight is below the initial bound *)
  Lemma recv_Phi0 n s src m : mok3 n m -> (Phi m < Phi0)%nat ->
    forall d m', In (d, m') (snd (fst (ucs_recv C n s src m))) -> (Phi m' < Phi0)%nat.
  Proof.
    intros MO B d m' I. destruct (tok_of m) as [t|] eqn:T.
    - destruct (ucs_recv_var n s src m MO d m' I) as [_ H]. specialize (H t T). lia.
    - destruct m as [k|t|t]; simpl in T; try discriminate. unfold ucs_recv in I.
      destruct (is_agent C n) eqn:Ea; cbn [negb] in I; cbv beta iota in I; [|destruct I].
      pose proof (replicate_Phi0 n s k Ea d m') as R.
      destruct (replicate C n s k) as [[[s' o] e] b]. simpl in *. auto.
  Qed.
End Variant.
