(* M_Graphs.v -- executable model of pydcop.computations_graph.{objects,constraints_hypergraph,
   factor_graph,ordered_graph} (C16).  Models only; proofs are in P_Graphs.v.

   A DCOP is given as a variable list (names as Z ids, in dict insertion order) and a
   constraint list (name id + scope = list of variable ids).  Variable and constraint names
   share ONE id space (in Python both are strings and the factor graph rejects a clash).
   Ids are handed out by the harness so that numeric order = lexical order of the names.

   Interface for the algorithm models (MGM, SyncBB, Max-Sum ...):
     find_dependent, chg_build / chg_node, fg_build / fg_var_node / fg_factor_node,
     og_build / og_node, find_node, n_neighbors, n_constraints, n_links, get_next, get_previous. *)
From PyDcop Require Import Base.

Record constraint := mkC { c_name : Z; c_scope : list Z }.

(* relations.find_dependent_relations (no external-variable slicing): constraints whose
   dimensions contain the variable, in the order of the constraint iterable *)
Definition find_dependent (v : Z) (cs : list constraint) : list constraint :=
  filter (fun c => zmem v (c_scope c)) cs.

(* frozenset(nodes) in canonical form: duplicates removed, sorted by id *)
Definition fset (l : list Z) : list Z := isort Z.leb (nodup Z.eq_dec l).

Inductive link :=
| CLink (name : Z) (nodes : list Z)      (* ConstraintLink(name, nodes); nodes already an fset *)
| FLink (factor var : Z)                 (* FactorGraphLink(factor_node, variable_node) *)
| OLink (is_next : bool) (src tgt : Z).  (* OrderLink('next'|'previous', source, target) *)

(* Link.nodes *)
Definition link_nodes (l : link) : list Z :=
  match l with
  | CLink _ ns => ns
  | FLink f v => fset [f; v]
  | OLink _ s t => fset [s; t]
  end.

Definition zlist_eqb := list_eqb Z.eqb.

(* Link.__eq__ as the classes define it: same class, same type string, same node SET
   (+ same name for ConstraintLink).  FactorGraphLink / OrderLink do not compare their
   factor/variable resp. source/target attributes. *)
Definition link_eqb_py (a b : link) : bool :=
  match a, b with
  | CLink n1 s1, CLink n2 s2 => Z.eqb n1 n2 && zlist_eqb s1 s2
  | FLink _ _, FLink _ _ => zlist_eqb (link_nodes a) (link_nodes b)
  | OLink k1 _ _, OLink k2 _ _ => Bool.eqb k1 k2 && zlist_eqb (link_nodes a) (link_nodes b)
  | _, _ => false
  end.

(* structural equality (used to compare with the observation) *)
Definition link_eqb (a b : link) : bool :=
  match a, b with
  | CLink n1 s1, CLink n2 s2 => Z.eqb n1 n2 && zlist_eqb s1 s2
  | FLink f1 v1, FLink f2 v2 => Z.eqb f1 f2 && Z.eqb v1 v2
  | OLink k1 s1 t1, OLink k2 s2 t2 => Bool.eqb k1 k2 && Z.eqb s1 s2 && Z.eqb t1 t2
  | _, _ => false
  end.

Inductive kind := VarNode | FactorNode.
Definition kind_eqb (a b : kind) : bool :=
  match a, b with VarNode, VarNode | FactorNode, FactorNode => true | _, _ => false end.

Record node := mkNode {
  n_name : Z;
  n_kind : kind;
  n_constraints : list Z;   (* names of node.constraints (factor graph variable node: constraints_names) *)
  n_links : list link;      (* node.links, in list order *)
  n_neighbors : list Z      (* node.neighbors: a list(set(..)) in Python, order not significant *)
}.

(* objects.py ComputationNode.__init__, `links` form:
   neighbors = list(set(n for l in links for n in l.nodes if n != name)) *)
Definition derive_neighbors (name : Z) (links : list link) : list Z :=
  nodup Z.eq_dec (filter (fun n => negb (Z.eqb n name)) (flat_map link_nodes links)).

Definition node_of_links (name : Z) (k : kind) (cnames : list Z) (links : list link) : node :=
  mkNode name k cnames links (derive_neighbors name links).

(* ---------------- constraints hyper-graph ---------------- *)
Definition clink_of (c : constraint) : link := CLink (c_name c) (fset (c_scope c)).

(* VariableComputationNode(v, find_dependent_relations(v, constraints)) *)
Definition chg_node (cs : list constraint) (v : Z) : node :=
  let deps := find_dependent v cs in
  node_of_links v VarNode (map c_name deps) (map clink_of deps).

Definition chg_build (vars : list Z) (cs : list constraint) : list node :=
  map (chg_node cs) vars.

(* ---------------- factor graph ---------------- *)
Definition fg_var_node (cs : list constraint) (v : Z) : node :=
  let names := map c_name (find_dependent v cs) in
  node_of_links v VarNode names (map (fun c => FLink c v) names).

Definition fg_factor_node (c : constraint) : node :=
  node_of_links (c_name c) FactorNode [c_name c] (map (fun v => FLink (c_name c) v) (c_scope c)).

Definition fg_nodes (vars : list Z) (cs : list constraint) : list node :=
  map (fg_var_node cs) vars ++ map fg_factor_node cs.

(* ComputationsFactorGraph.__init__: KeyError (None) on a duplicate computation name *)
Definition fg_build (vars : list Z) (cs : list constraint) : option (list node) :=
  let g := fg_nodes vars cs in
  if nodupb Z.eqb (map n_name g) then Some g else None.

(* ---------------- ordered graph ---------------- *)
(* OrderedConstraintGraph.__init__: sorted_nodes = sorted(nodes, key=name); for each
   consecutive pair (n1, n2): n1.links.append(next n1->n2); n2.links.append(previous n2->n1).
   [chain_links s None] lists, for every position of the sorted name list, the links that
   the loop appends to that node, in the order they are appended. *)
Fixpoint chain_links (s : list Z) (prev : option Z) : list (Z * list link) :=
  match s with
  | [] => []
  | a :: r =>
      (a, (match prev with Some p => [OLink false a p] | None => [] end)
          ++ (match r with b :: _ => [OLink true a b] | [] => [] end))
      :: chain_links r (Some a)
  end.

Definition order_links (vars : list Z) (v : Z) : list link :=
  match zlookup v (chain_links (isort Z.leb vars) None) with
  | Some l => l
  | None => []
  end.

(* the node is built as in the hyper-graph (neighbours derived from the constraint links
   only); the order links are appended to node.links afterwards, neighbours are NOT recomputed.
   Node identity = name: faithful for pairwise distinct variable names (always the case for
   dcop.variables, a dict). *)
Definition og_node (vars : list Z) (cs : list constraint) (v : Z) : node :=
  let n := chg_node cs v in
  mkNode (n_name n) (n_kind n) (n_constraints n) (n_links n ++ order_links vars v) (n_neighbors n).

Definition og_build (vars : list Z) (cs : list constraint) : list node :=
  map (og_node vars cs) vars.

(* VariableComputationNode.get_next / get_previous: target of the first link of that type *)
Fixpoint first_order_link (want_next : bool) (ls : list link) : option Z :=
  match ls with
  | [] => None
  | OLink k _ t :: r => if Bool.eqb k want_next then Some t else first_order_link want_next r
  | _ :: r => first_order_link want_next r
  end.
Definition get_next (n : node) : option Z := first_order_link true (n_links n).
Definition get_previous (n : node) : option Z := first_order_link false (n_links n).

(* ---------------- ComputationGraph ---------------- *)
(* ComputationGraph.computation(name): first node with that name *)
Definition find_node (g : list node) (name : Z) : option node :=
  find (fun n => Z.eqb (n_name n) name) g.

(* set insertion with Python equality: keep the first of equal elements *)
Fixpoint dedup_links (ls : list link) : list link :=
  match ls with
  | [] => []
  | l :: r => l :: filter (fun x => negb (link_eqb_py l x)) (dedup_links r)
  end.
(* ComputationGraph.links: the set of all links of all nodes *)
Definition graph_links (g : list node) : list link := dedup_links (flat_map n_links g).

(* ---------------- correspondence ---------------- *)
Inductive gkind := GHyper | GFactor | GOrdered.

Record obs_node := mkObs {
  o_name : Z; o_kind : kind; o_constraints : list Z; o_links : list link;
  o_neighbors : list Z;                 (* sorted by the driver *)
  o_next : option Z; o_prev : option Z  (* get_next()/get_previous(); None for the other graphs *)
}.

Record case := mkCase {
  k_graph : gkind;
  k_vars : list Z;
  k_cs : list constraint;
  (* None = KeyError; Some (nodes in graph.nodes order, graph.links as a list in any order) *)
  k_obs : option (list obs_node * list link)
}.

Definition node_matches (n : node) (o : obs_node) : bool :=
  Z.eqb (n_name n) (o_name o) && kind_eqb (n_kind n) (o_kind o)
  && zlist_eqb (n_constraints n) (o_constraints o)
  && list_eqb link_eqb (n_links n) (o_links o)
  && zlist_eqb (isort Z.leb (n_neighbors n)) (o_neighbors o)
  && option_eqb Z.eqb (get_next n) (o_next o)
  && option_eqb Z.eqb (get_previous n) (o_prev o).

Fixpoint forall2b {A B} (f : A -> B -> bool) (a : list A) (b : list B) : bool :=
  match a, b with
  | [], [] => true
  | x :: a', y :: b' => f x y && forall2b f a' b'
  | _, _ => false
  end.

Definition links_same_set (a b : list link) : bool :=
  Nat.eqb (List.length a) (List.length b)
  && forallb (fun l => existsb (link_eqb l) b) a
  && forallb (fun l => existsb (link_eqb l) a) b.

Definition build (k : gkind) (vars : list Z) (cs : list constraint) : option (list node) :=
  match k with
  | GHyper => Some (chg_build vars cs)
  | GFactor => fg_build vars cs
  | GOrdered => Some (og_build vars cs)
  end.

Definition check_case (c : case) : bool :=
  match build (k_graph c) (k_vars c) (k_cs c), k_obs c with
  | None, None => true
  | Some g, Some (ons, ols) =>
      forall2b node_matches g ons && links_same_set (graph_links g) ols
  | _, _ => false
  end.
