(* P_SelectBest.v -- property C10, deepening 2: proofs about M_SelectBest.v.
   - [fbv_spec] / [cbi_spec]: find_best_values / _compute_best_improvement return exactly the domain
     values whose cost is the optimum, in domain order ([masked d (opt_mask costs b)]), b being a cost
     of the list that no cost beats; [fbv_in_domain], [cbi_in_domain]; [cbi_fbv]: the two loops agree.
   - [adsa2_selects_in_domain], [gdba2_selects_in_domain]: in-domain selection of the A-DSA / GDBA
     models whose best-value lists are computed by these functions from arbitrary cost vectors
     (no mask input), every schedule. *)
From PyDcop Require Import Base Net M_Select P_Select M_SelectBest.
From Coq Require Import ZifyBool.

(* the costs that are actually looked at: one per domain value *)
Definition seen (vals costs : list Z) : list Z := map snd (combine vals costs).

Lemma better_irrefl mx c : better mx c c = false.
Proof. unfold better. destruct mx; lia. Qed.
Lemma better_neq mx c b : better mx c b = true -> (c =? b) = false.
Proof. unfold better. destruct mx; lia. Qed.
Lemma better_trans mx a b c : better mx a b = true -> better mx b c = true -> better mx a c = true.
Proof. unfold better. destruct mx; lia. Qed.
Lemma better_total mx a b : better mx a b = false -> (a =? b) = false -> better mx b a = true.
Proof. unfold better. destruct mx; lia. Qed.

(* no seen cost beats b *)
Definition unbeaten (mx : bool) (vals costs : list Z) (b : Z) : Prop :=
  forall c, In c (seen vals costs) -> better mx c b = false.

Lemma masked_opt_nil vals costs b :
  (forall c, In c (seen vals costs) -> (c =? b) = false) -> masked vals (opt_mask costs b) = [].
Proof.
  revert costs; induction vals as [|v vr IH]; intros [|c cr] H; simpl; auto.
  rewrite (H c) by (simpl; auto). apply IH. intros c' Hc'. apply H. simpl. auto.
Qed.

(* generalised over the accumulator *)
Lemma fbv_gen mx : forall vals costs arg b,
  exists b', snd (fbv mx vals costs arg (Some b)) = Some b'
    /\ (b' = b \/ (In b' (seen vals costs) /\ better mx b' b = true))
    /\ unbeaten mx vals costs b'
    /\ fst (fbv mx vals costs arg (Some b)) = (if b' =? b then arg else []) ++ masked vals (opt_mask costs b').
Proof.
  induction vals as [|v vr IH]; intros costs arg b.
  - exists b. simpl. rewrite Z.eqb_refl, app_nil_r. repeat split; auto. intros c [].
  - destruct costs as [|c cr].
    + exists b. simpl. rewrite Z.eqb_refl, app_nil_r. repeat split; auto. intros c [].
    + simpl fbv. destruct (c =? b) eqn:E1.
      * apply Z.eqb_eq in E1. subst c.
        destruct (IH cr (arg ++ [v]) b) as [b' [S1 [S2 [S3 S4]]]]. exists b'. split; [exact S1|].
        split; [destruct S2 as [->|[A B]]; [now left | right; split; [simpl; auto | exact B]]|].
        split.
        { intros c' [<-|Hc']; [simpl|now apply S3].
          destruct S2 as [->|[_ B]]; [apply better_irrefl|].
          unfold better in *. destruct mx; lia. }
        rewrite S4. simpl. destruct (b' =? b) eqn:E2.
        -- apply Z.eqb_eq in E2. subst b'. rewrite Z.eqb_refl. now rewrite <- app_assoc.
        -- rewrite Z.eqb_sym, E2. reflexivity.
      * destruct (better mx c b) eqn:E2.
        -- destruct (IH cr [v] c) as [b' [S1 [S2 [S3 S4]]]]. exists b'. split; [exact S1|].
           assert (Hb : better mx b' b = true).
           { destruct S2 as [->|[_ B]]; [exact E2 | eapply better_trans; eauto]. }
           split; [right; split; [|exact Hb]; destruct S2 as [->|[A _]]; simpl; auto|].
           split.
           { intros c' [<-|Hc']; [simpl|now apply S3].
             destruct S2 as [->|[_ B]]; [apply better_irrefl|]. unfold better in *. destruct mx; lia. }
           rewrite S4. rewrite (better_neq _ _ _ Hb).
           simpl. destruct (b' =? c) eqn:E3.
           ++ apply Z.eqb_eq in E3. subst b'. rewrite Z.eqb_refl. reflexivity.
           ++ rewrite Z.eqb_sym, E3. reflexivity.
        -- destruct (IH cr arg b) as [b' [S1 [S2 [S3 S4]]]]. exists b'. split; [exact S1|].
           split; [destruct S2 as [->|[A B]]; [now left | right; split; [simpl; auto | exact B]]|].
           split.
           { intros c' [<-|Hc']; [simpl|now apply S3].
             destruct S2 as [->|[_ B]]; [exact E2|]. unfold better in *. destruct mx; lia. }
           rewrite S4. simpl.
           assert (E3 : (c =? b') = false).
           { destruct S2 as [->|[_ B]]; [exact E1|]. unfold better in *. destruct mx; lia. }
           rewrite E3. reflexivity.
Qed.

(* find_best_values from its initial state *)
Theorem fbv_spec mx vals costs :
  match snd (fbv mx vals costs [] None) with
  | None => (vals = [] \/ costs = []) /\ fst (fbv mx vals costs [] None) = []
  | Some b => In b (seen vals costs) /\ unbeaten mx vals costs b
              /\ fst (fbv mx vals costs [] None) = masked vals (opt_mask costs b)
  end.
Proof.
  destruct vals as [|v vr]; [simpl; auto|]. destruct costs as [|c cr]; [simpl; auto|].
  simpl fbv. destruct (fbv_gen mx vr cr [v] c) as [b' [S1 [S2 [S3 S4]]]]. rewrite S1.
  split; [destruct S2 as [->|[A _]]; simpl; auto|].
  split.
  { intros c' [<-|Hc']; [simpl|now apply S3].
    destruct S2 as [->|[_ B]]; [apply better_irrefl|]. unfold better in *. destruct mx; lia. }
  rewrite S4. simpl. destruct (b' =? c) eqn:E.
  - apply Z.eqb_eq in E. subst. rewrite Z.eqb_refl. reflexivity.
  - rewrite Z.eqb_sym, E. reflexivity.
Qed.

Theorem fbv_in_domain mx vals costs x : In x (fst (fbv mx vals costs [] None)) -> In x vals.
Proof.
  pose proof (fbv_spec mx vals costs) as H. destruct (snd (fbv mx vals costs [] None)).
  - destruct H as [_ [_ ->]]. apply masked_incl.
  - destruct H as [_ ->]. intros [].
Qed.

(* the two loops compute the same thing (their tests are exclusive) *)
Lemma cbi_fbv mx : forall vals costs arg best, cbi mx vals costs arg best = fbv mx vals costs arg best.
Proof.
  induction vals as [|v vr IH]; intros [|c cr] arg best; simpl; auto.
  destruct best as [b|]; [|apply IH].
  destruct (better mx c b) eqn:E.
  - rewrite (better_neq _ _ _ E). apply IH.
  - destruct (c =? b); apply IH.
Qed.

Theorem cbi_spec mx vals evals :
  match snd (cbi mx vals evals [] None) with
  | None => (vals = [] \/ evals = []) /\ fst (cbi mx vals evals [] None) = []
  | Some b => In b (seen vals evals) /\ unbeaten mx vals evals b
              /\ fst (cbi mx vals evals [] None) = masked vals (opt_mask evals b)
  end.
Proof. rewrite cbi_fbv. apply fbv_spec. Qed.

Theorem cbi_in_domain mx vals evals x : In x (fst (cbi mx vals evals [] None)) -> In x vals.
Proof. rewrite cbi_fbv. apply fbv_in_domain. Qed.

(* the record handed to the selection-only model carries exactly the list the function returns *)
Lemma adsa_rec_best mx d costs cur viol :
  let '(_, _, mask) := adsa_rec mx d (costs, cur, viol) in masked d mask = fst (fbv mx d costs [] None).
Proof.
  unfold adsa_rec. pose proof (fbv_spec mx d costs) as H. destruct (snd (fbv mx d costs [] None)).
  - destruct H as [_ [_ ->]]. reflexivity.
  - destruct H as [_ ->]. destruct d; reflexivity.
Qed.

Lemma gdba_rec_best mx d cur evals imp mask :
  gdba_rec mx d (cur, evals) = Some (imp, mask) -> masked d mask = fst (cbi mx d evals [] None).
Proof.
  unfold gdba_rec. pose proof (cbi_spec mx d evals) as H. destruct (snd (cbi mx d evals [] None)); [|discriminate].
  intros E. inversion E; subst. destruct H as [_ [_ ->]]. reflexivity.
Qed.

(* ------------------------------------------------------------------ the protocols, every schedule *)
Theorem adsa2_selects_in_domain : forall dom nbrs iso orc variant prob mx acosts,
  (forall n, ok (dom n) (iso n)) -> forall sched,
  (forall e, In e (snd (run (adsa2_proto dom nbrs iso orc variant prob mx acosts) sched)) -> sev_ok dom e) /\
  (forall n, ok (dom n) (a_val (w_st (nodes (fst (run (adsa2_proto dom nbrs iso orc variant prob mx acosts) sched)) n)))).
Proof. intros. unfold adsa2_proto. now apply adsa_selects_in_domain_l. Qed.

Theorem gdba2_selects_in_domain : forall dom init nbrs iso mx orc gcosts,
  (forall n, ok (dom n) (iso n)) -> (forall n, ok (dom n) (init n)) -> forall sched,
  (forall e, In e (snd (run (gdba2_proto dom init nbrs iso mx orc gcosts) sched)) -> sev_ok dom e) /\
  (forall n, ok (dom n) (g_val (w_st (nodes (fst (run (gdba2_proto dom init nbrs iso mx orc gcosts) sched)) n)))).
Proof. intros. unfold gdba2_proto. now apply gdba_selects_in_domain_l. Qed.
