(* M_Dcop.v -- executable model of the cost accounting of pydcop.dcop.dcop
   (DCOP.solution_cost, solution_cost) and pydcop.dcop.relations.assignment_cost (C13).
   Models only; proofs are in P_Dcop.v.

   Names are Z ids.  A value is an int domain value or Python's None.  A relation is its
   name, its scope (dimension names in order) and its meaning on the values of the scope
   (in scope order); how a relation class computes that value is C11/C12, not C13.
   Costs are extended integers (ECost.v): ints, +-inf, nan with Python float semantics. *)
From PyDcop Require Import Base ECost.

Inductive value := VNone | VInt (z : Z).
Definition value_eqb (a b : value) : bool :=
  match a, b with
  | VNone, VNone => true
  | VInt x, VInt y => Z.eqb x y
  | _, _ => false
  end.

(* Variable / VariableWithCostDict / VariableWithCostFunc / ExternalVariable: cost_for_val *)
Record variable := mkVar { v_name : Z; v_cost : value -> ecost }.
(* r_eval: None = the relation raises on these values (value outside the domain, None, ...) *)
Record rel := mkRel { r_name : Z; r_scope : list Z; r_eval : list value -> option ecost }.
Definition assignment := list (Z * value).      (* dict var_name -> value, insertion order *)

Definition getv (asg : assignment) (n : Z) : option value := zlookup n asg.

(* r( **filter_assignment_dict(assignment, r.dimensions) ): the relation receives the values
   of its scope variables by name.  None = some scope variable has no value in the
   assignment: the relation is then called with a partial assignment and what is raised
   depends on the relation class (TypeError, numpy ValueError, NameError->ValueError). *)
Fixpoint rel_args (asg : assignment) (scope : list Z) : option (list value) :=
  match scope with
  | [] => Some []
  | n :: r =>
      match getv asg n, rel_args asg r with
      | Some v, Some l => Some (v :: l)
      | _, _ => None
      end
  end.

(* if cost != infinity: cost_soft += cost else: cost_hard += 1     (nan != x is True) *)
Definition account (infinity : ecost) (acc : Z * ecost) (c : ecost) : Z * ecost :=
  if ec_eqb c infinity then (fst acc + 1, snd acc) else (fst acc, ec_add (snd acc) c).

Fixpoint sc_rels (infinity : ecost) (asg : assignment) (rels : list rel) (acc : Z * ecost)
  : option (Z * ecost) :=
  match rels with
  | [] => Some acc
  | r :: rest =>
      match rel_args asg (r_scope r) with
      | None => None
      | Some a =>
          match r_eval r a with
          | None => None
          | Some c => sc_rels infinity asg rest (account infinity acc c)
          end
      end
  end.

(* for v in variables: if v.name in assignment and assignment[v.name] is not None: ... *)
Definition sc_var (infinity : ecost) (asg : assignment) (acc : Z * ecost) (v : variable) : Z * ecost :=
  match getv asg (v_name v) with
  | Some (VInt z) => account infinity acc (v_cost v (VInt z))
  | _ => acc
  end.

Inductive sc_result :=
| ScOk (hard : Z) (soft : ecost)
| ScIncomplete      (* ValueError('Cannot compute solution cost : incomplete assignment ...') *)
| ScRelError.       (* a relation raised: called without a value for one of its variables,
                       or with values it is not defined on *)

(* dcop.py solution_cost(relations, variables, assignment, infinity), with the completeness
   test as repaired (fix: every variable must have a value AND the sizes must agree; the
   original only compared len(variables) with len(assignment)) *)
Definition incomplete (vars : list variable) (asg : assignment) : bool :=
  existsb (fun v => negb (mem_key Z.eqb (v_name v) asg)) vars
  || negb (Nat.eqb (List.length vars) (List.length asg)).

Definition solution_cost (rels : list rel) (vars : list variable) (asg : assignment)
  (infinity : ecost) : sc_result :=
  if incomplete vars asg then ScIncomplete
  else match sc_rels infinity asg rels (0, Fin 0) with
       | None => ScRelError
       | Some acc =>
           let acc' := fold_left (sc_var infinity asg) vars acc in
           ScOk (fst acc') (snd acc')
       end.

(* ---- DCOP.solution_cost: external variables ---- *)
Record extvar := mkExt { x_name : Z; x_value : Z }.
(* ExternalVariable inherits Variable.cost_for_val: always 0 *)
Definition ext_as_var (x : extvar) : variable := mkVar (x_name x) (fun _ => Fin 0).
(* full_assignment = assignment.copy(); full_assignment.update({v.name: v.value for v in ext}) *)
Definition merge_ext (asg : assignment) (exts : list extvar) : assignment :=
  fold_left (fun a x => dict_set Z.eqb (x_name x) (VInt (x_value x)) a) exts asg.
(* all_variables = variables + external variables *)
Definition dcop_solution_cost (rels : list rel) (vars : list variable) (exts : list extvar)
  (asg : assignment) (infinity : ecost) : sc_result :=
  solution_cost rels (vars ++ map ext_as_var exts) (merge_ext asg exts) infinity.

(* ---- relations.assignment_cost(assignment, constraints, consider_variable_cost, kwargs) ---- *)
(* [vcost n] = cost_for_val of the Variable object named n found in the dimensions.
   None = KeyError.  State threaded through the loops: (cost, cost_vars). *)
Fixpoint ac_scope (vcost : Z -> value -> ecost) (consider : bool) (asg kw : assignment)
  (scope : list Z) (cost : ecost) (seen : list Z) : option (ecost * list Z * list value) :=
  match scope with
  | [] => Some (cost, seen, [])
  | n :: rest =>
      (* if consider_variable_cost and v_name not in cost_vars: cost += v.cost_for_val(assignment[v_name]) *)
      let step1 :=
        if consider && negb (zmem n seen) then
          match getv asg n with
          | Some x => Some (ec_add cost (vcost n x), seen ++ [n])
          | None => None
          end
        else Some (cost, seen) in
      match step1 with
      | None => None
      | Some (cost1, seen1) =>
          (* try: assignment[v_name] except KeyError: kwargs[v_name] *)
          let val := match getv asg n with Some x => Some x | None => getv kw n end in
          match val with
          | None => None
          | Some x =>
              match ac_scope vcost consider asg kw rest cost1 seen1 with
              | None => None
              | Some (c2, s2, vals) => Some (c2, s2, x :: vals)
              end
          end
      end
  end.

Inductive ac_result := AcOk (c : ecost) | AcKeyError | AcRelError.

Fixpoint ac_rels (vcost : Z -> value -> ecost) (consider : bool) (asg kw : assignment)
  (rels : list rel) (cost : ecost) (seen : list Z) : ac_result :=
  match rels with
  | [] => AcOk cost
  | r :: rest =>
      match ac_scope vcost consider asg kw (r_scope r) cost seen with
      | None => AcKeyError
      | Some (c1, s1, vals) =>
          match r_eval r vals with
          | None => AcRelError
          | Some c => ac_rels vcost consider asg kw rest (ec_add c1 c) s1
          end
      end
  end.

Definition assignment_cost (vcost : Z -> value -> ecost) (consider : bool) (asg kw : assignment)
  (rels : list rel) : ac_result :=
  ac_rels vcost consider asg kw rels (Fin 0) [].

(* ---------------- correspondence ---------------- *)
(* concrete cost functions / relation meanings are tables *)
Fixpoint vals_eqb (a b : list value) : bool :=
  match a, b with
  | [], [] => true
  | x :: a', y :: b' => value_eqb x y && vals_eqb a' b'
  | _, _ => false
  end.
(* no entry = values outside the domain (or None): every relation class raises *)
Fixpoint table_eval (tbl : list (list value * ecost)) (args : list value) : option ecost :=
  match tbl with
  | [] => None
  | (k, c) :: r => if vals_eqb k args then Some c else table_eval r args
  end.
Definition mk_rel (name : Z) (scope : list Z) (tbl : list (list value * ecost)) : rel :=
  mkRel name scope (table_eval tbl).
(* cost table of a variable; [dflt] for values without an entry (VariableWithCostDict: 0) *)
Fixpoint cost_table (tbl : list (value * ecost)) (dflt : ecost) (x : value) : ecost :=
  match tbl with
  | [] => dflt
  | (k, c) :: r => if value_eqb k x then c else cost_table r dflt x
  end.
Definition mk_var (name : Z) (tbl : list (value * ecost)) : variable :=
  mkVar name (cost_table tbl (Fin 0)).
Fixpoint vcost_of (vars : list variable) (n : Z) (x : value) : ecost :=
  match vars with
  | [] => Fin 0
  | v :: r => if Z.eqb (v_name v) n then v_cost v x else vcost_of r n x
  end.

Inductive obs :=
| OCost (hard : Z) (soft : ecost)     (* solution_cost returned (hard, soft) *)
| OIncomplete                         (* ValueError 'Cannot compute solution cost ...' *)
| OOtherError                         (* any other exception *)
| OACost (c : ecost)                  (* assignment_cost returned c *)
| OKeyError.                          (* assignment_cost raised KeyError *)

Inductive case :=
| CSol (rels : list rel) (vars : list variable) (exts : list extvar) (asg : assignment)
       (infinity : ecost) (o : obs)
| CACost (rels : list rel) (vars : list variable) (consider : bool) (asg kw : assignment) (o : obs).

Definition check_case (c : case) : bool :=
  match c with
  | CSol rels vars exts asg inf o =>
      match dcop_solution_cost rels vars exts asg inf, o with
      | ScOk h s, OCost h' s' => Z.eqb h h' && ec_same s s'
      | ScIncomplete, OIncomplete => true
      (* the exception type of a relation called with a partial assignment is not modelled;
         the implementation may also wrap it as the 'incomplete' ValueError (NameError path) *)
      | ScRelError, OOtherError => true
      | ScRelError, OIncomplete => true
      | _, _ => false
      end
  | CACost rels vars consider asg kw o =>
      match assignment_cost (vcost_of vars) consider asg kw rels, o with
      | AcOk c, OACost c' => ec_same c c'
      | AcKeyError, OKeyError => true
      | AcRelError, OOtherError => true
      | _, _ => false
      end
  end.
