(* P_Mgm3b.v -- continuation of P_Mgm3.v: one step of the network preserves the invariant
   (Part 4, end) and the theorems about all schedules (Part 5). *)
From Coq Require Import ZArith List Bool Lia ZifyBool Arith.
From PyDcop Require Import Base Net M_Mgm P_Mgm P_Mgm3 P_Mgm3c.
Import ListNotations.
Open Scope Z_scope.

Local Notation length := List.length.

Section Global.
  Variable d : dcop.
  Variable stop : Z.
  Variable orc : node -> list Z.
  Hypothesis Hstop : 0 <= stop.
  Notation P := (mgm_proto d stop orc).
  Notation config := (config mst mmsg).
  Notation nbr := (nbrs d).
  Notation RA := (RA d orc).
  Notation RO := (RO d orc).
  Notation RG := (RG d orc).
  Notation RNV := (RNV d orc).
  Notation msg_at := (msg_at d orc).
  Notation msgs_from := (msgs_from d orc).
  Notation st := (@st).
  Notation good := (good d stop orc).
  Notation Inv := (Inv d stop orc).
  Notation step_ok := (step_ok d stop orc).
  Notation ev_ok := (ev_ok d stop orc).
  Notation finb := (finb stop).
  Notation fb := (fb stop).
  Notation nsent := (nsent stop).
  Notation fin_cycle := (fin_cycle d stop).
  Notation head_facts := (P_Mgm3.head_facts d stop orc Hstop).
  Notation Inv_deliver_run := (P_Mgm3.Inv_deliver_run d stop orc).
  Notation Inv_start := (P_Mgm3.Inv_start d stop orc).
  Notation Inv_deliver_idle := (P_Mgm3.Inv_deliver_idle d stop orc).
  Notation Inv_init := (P_Mgm3.Inv_init d stop orc).
  Notation nsent_bound := (P_Mgm3.nsent_bound d stop orc Hstop).
  Notation nsent_good := (P_Mgm3.nsent_good d stop orc Hstop).
  Notation case_post_V := (P_Mgm3c.case_post_V d stop orc).
  Notation case_post_G := (P_Mgm3c.case_post_G d stop orc).
  Notation case_store_V := (P_Mgm3c.case_store_V d stop orc).
  Notation case_store_G := (P_Mgm3c.case_store_G d stop orc).
  Notation case_switch_V1 := (P_Mgm3c.case_switch_V1 d stop orc).
  Notation case_switch_V2 := (P_Mgm3c.case_switch_V2 d stop orc Hstop).
  Notation case_switch_G1 := (P_Mgm3c.case_switch_G1 d stop orc Hstop).
  Notation case_switch_G2 := (P_Mgm3c.case_switch_G2 d stop orc Hstop).
  Notation ev_ok_nil := (P_Mgm3c.ev_ok_nil d stop orc).
  Notation ev_ok_app := (P_Mgm3c.ev_ok_app d stop orc).
  Notation sv_evs_ok := (P_Mgm3c.sv_evs_ok d stop orc).
  Notation fin_cycle_active := (P_Mgm3c.fin_cycle_active d stop).
  Notation idle_zero := (P_Mgm3.idle_zero d stop orc).
  Notation finb_spec := (P_Mgm3.finb_spec stop orc).
  Notation fb_false := (P_Mgm3c.fb_false stop).
  Notation good_sv := (P_Mgm3c.good_sv d stop orc).
  Notation g_state := (P_Mgm3.g_state d stop orc).
  Notation g_cyc := (P_Mgm3.g_cyc d stop orc).
  Notation g_stop := (P_Mgm3.g_stop d stop orc).
  Notation g_fin := (P_Mgm3.g_fin d stop orc).
  Notation g_finst := (P_Mgm3.g_finst d stop orc).
  Notation g_V := (P_Mgm3.g_V d stop orc).
  Notation g_G := (P_Mgm3.g_G d stop orc).
  Notation g_tab := (P_Mgm3.g_tab d stop orc).
  Notation g_post := (P_Mgm3.g_post d stop orc).
  Notation g_val := (P_Mgm3.g_val d stop orc).
  Notation I_idle := (P_Mgm3.I_idle d stop orc).
  Notation I_held := (P_Mgm3.I_held d stop orc).
  Notation I_iso := (P_Mgm3.I_iso d stop orc).
  Notation I_good := (P_Mgm3.I_good d stop orc).
  Notation I_pipe := (P_Mgm3.I_pipe d stop orc).
  Notation I_non := (P_Mgm3.I_non d stop orc).

  (* ---------------------------------------------------------------- one step *)
  Definition step_concl (cf : config) (a : action) : Prop :=
    Inv (fst (step P cf a)) /\ ev_ok (snd (step P cf a)) /\
    (forall x, m_fin (st (fst (step P cf a)) x) = m_fin (st cf x) + Z.of_nat (count_fin x (snd (step P cf a)))).

  Lemma deliver_wrap cf a0 b0 m q s' L evs :
    Inv cf -> rn cf b0 = true -> chan cf a0 b0 = m :: q -> In a0 (nbr b0) ->
    mgm_recv d stop b0 (st cf b0) a0 m = (s', outs_of (nbr b0) L, evs) ->
    step_ok b0 a0 (st cf b0) s' L evs ->
    step_concl cf (Deliver a0 b0).
  Proof.
    intros HI Hr Hc Hnb Hrecv SO. unfold step_concl. unfold rn in Hr. unfold st in Hrecv.
    simpl. rewrite Hc, Hr. simpl. rewrite Hrecv. simpl.
    destruct SO as [S1 S2 S3 S4 S5 S6 S7].
    split; [|split].
    - apply (Inv_deliver_run cf a0 b0 m q s' L); auto.
      + unfold nsent, rn. rewrite Hr. exact S3.
      + unfold nsent, rn. rewrite Hr. exact S4.
    - exact S5.
    - intros x. unfold st at 1. simpl. unfold upd_node. destruct (Z.eqb_spec x b0) as [->|Hx]; simpl.
      + exact S6.
      + rewrite (S7 x Hx). unfold st. lia.
  Qed.

  Lemma outs_of_1 nb M : bcast nb M = outs_of nb [M].
  Proof. unfold outs_of. simpl. rewrite app_nil_r. reflexivity. Qed.
  Lemma outs_of_cons nb M L : bcast nb M ++ outs_of nb L = outs_of nb (M :: L).
  Proof. reflexivity. Qed.
  Lemma sv_outs_eq n t :
    sv_outs d stop n t = outs_of (nbr n) (if sv_fin stop t then [] else [MValue (cur_value t)]).
  Proof. unfold sv_outs. destruct (sv_fin stop t); [reflexivity|]. apply outs_of_1. Qed.
  Lemma gains_of_eq n s1 : gains_of d n s1 = bcast (nbr n) (MGain (vgain d n s1)).
  Proof. reflexivity. Qed.

  Lemma RA_iso j b : nbr b = [] -> RA j b = fst (isolated_choice d b).
  Proof.
    intros H. induction j as [|j IH].
    - unfold RA, P_Mgm3.RA. simpl. unfold init_val. rewrite H. reflexivity.
    - unfold RA, P_Mgm3.RA in *. simpl. unfold mgm_next, r_moves, r_active. rewrite H. simpl. exact IH.
  Qed.

  Lemma step_facts cf a : Inv cf -> step_concl cf a.
  Proof.
    intros HI. destruct a as [n | a0 b0].
    - (* Start *)
      unfold step_concl. simpl.
      destruct (w_running (nodes cf n)) eqn:Hr; simpl.
      { split; [exact HI|]. split; [apply ev_ok_nil|]. intros x. simpl. lia. }
      pose proof (I_idle cf HI n Hr) as Hidle. unfold st in Hidle. rewrite Hidle.
      destruct (nbr n) as [|y r] eqn:Enb.
      + (* no neighbour *)
        unfold mgm_start. rewrite Enb. destruct (isolated_choice d n) as [v c] eqn:Eic. simpl.
        split; [|split].
        * apply (Inv_start cf n _ []); auto.
          -- intros _. split; [reflexivity|]. split; [reflexivity|]. split; [reflexivity|].
             simpl. rewrite (RA_iso 0 n Enb), Eic. reflexivity.
          -- intros Hc. congruence.
        * split; [|split].
          -- intros x k [H|[H|[]]]; discriminate.
          -- intros x w c' k [H|[H|[]]]; [|discriminate]. inversion H; subst. split; [lia|].
             simpl. rewrite (RA_iso 0 x Enb), Eic. reflexivity.
          -- intros x k [H|[H|[]]]; [discriminate|]. inversion H; subst. unfold fin_cycle. rewrite Enb. reflexivity.
        * intros x. unfold st. simpl. unfold upd_node. destruct (Z.eqb_spec x n) as [->|Hx]; simpl.
          -- rewrite Hidle. simpl. rewrite Z.eqb_refl. reflexivity.
          -- destruct (Z.eqb_spec n x); [congruence|]. lia.
      + (* with neighbours *)
        assert (Hact : nbr n <> []) by (rewrite Enb; discriminate).
        clear Enb. rewrite (start_active d stop n orc Hact). cbv zeta.
        set (t := mkM SValues 0 (Some (start_val d n (mgm_init orc n))) None [] [] 0 0 [] []
                      (start_orc d n (mgm_init orc n)) 0).
        rewrite sv_outs_eq. simpl fst. simpl snd.
        assert (Hsv : start_val d n (mgm_init orc n) = RA 0 n).
        { unfold RA, P_Mgm3.RA. simpl. unfold init_val, start_val. destruct (nbr n); [congruence|reflexivity]. }
        assert (Hso : start_orc d n (mgm_init orc n) = RO 0 n) by reflexivity.
        set (s' := set_pv (sv_state stop t) []).
        assert (E0 : m_cycle s' = 1) by reflexivity.
        assert (E1 : sg s' = false) by reflexivity.
        assert (E2 : cyc s' = 0%nat) by reflexivity.
        assert (E3 : ph s' = 0%nat) by reflexivity.
        assert (E4 : finb s' = sv_fin stop t) by reflexivity.
        destruct (sv_evs_ok n t) as (Ev2 & Cf2 & Cf3).
        { intros H. rewrite (fin_cycle_active n Hact). unfold sv_fin in H. simpl in H.
          apply andb_true_iff in H as [H1 H2]. apply negb_true_iff, Z.eqb_neq in H1. apply Z.leb_le in H2. simpl. lia. }
        split; [|split].
        * apply (Inv_start cf n s' _); auto.
          -- intros Hc. congruence.
          -- intros _. split; [|split; [exact E3|split; [reflexivity|split; [reflexivity|split]]]].
             ++ constructor; unfold tab, post; rewrite ?E1, ?E2; try (intros; congruence).
                ** discriminate.
                ** rewrite E0. lia.
                ** rewrite E0. intros Hs. lia.
                ** unfold fb. rewrite E4. simpl. destruct (sv_fin stop t); reflexivity.
                ** intros _. repeat split.
                ** intros _. split; reflexivity.
                ** split; [constructor|]. split; [intros z []|]. simpl. destruct (nbr n); [congruence|simpl; lia].
                ** split; [constructor|intros z []].
                ** simpl. rewrite Hsv. reflexivity.
                ** intros _. exact Hso.
                ** intros z w [].
                ** intros z w [].
             ++ unfold fb. rewrite E4. destruct (sv_fin stop t); reflexivity.
             ++ unfold msgs_from, P_Mgm3.msgs_from. destruct (sv_fin stop t); cbn [length map seq]; [reflexivity|].
                change 0%nat with (2 * 0)%nat. rewrite msg_at_even. unfold cur_value. simpl. rewrite Hsv. reflexivity.
        * apply (ev_ok_app [_]); [|exact Ev2]. split; [|split].
          -- intros x k [H|[]]; discriminate.
          -- intros x w c' k [H|[]]. inversion H; subst. split; [lia|]. simpl. exact Hsv.
          -- intros x k [H|[]]; discriminate.
        * intros x. unfold st. simpl. unfold upd_node. destruct (Z.eqb_spec x n) as [->|Hx]; simpl.
          -- rewrite Hidle. simpl. fold t. rewrite Cf2. destruct (sv_fin stop t); reflexivity.
          -- fold t. rewrite (Cf3 x Hx). lia.
    - (* Deliver *)
      destruct (chan cf a0 b0) as [|m q] eqn:Hc.
      { unfold step_concl. simpl. rewrite Hc. simpl. split; [exact HI|]. split; [apply ev_ok_nil|]. intros x. simpl. lia. }
      destruct (w_running (nodes cf b0)) eqn:Hr.
      2:{ unfold step_concl. simpl. rewrite Hc, Hr. simpl. split; [|split].
          - apply Inv_deliver_idle; auto.
          - apply ev_ok_nil.
          - intros x. unfold st. simpl. unfold upd_node. destruct (Z.eqb_spec x b0) as [->|Hx]; simpl; lia. }
      destruct (head_facts cf a0 b0 m q HI Hr Hc) as (Hnb & G & Hfin & Hpost & Hm & Hp & Hlt).
      set (s := st cf b0) in *.
      assert (Hact : nbr b0 <> []) by (intros Hc'; rewrite Hc' in Hnb; contradiction).
      pose proof (g_tab b0 s G) as GT. pose proof (g_post b0 s G) as GP.
      destruct (sg s) eqn:Hsg.
      + (* waiting for gains *)
        pose proof (sg_true s Hsg) as Hstate.
        assert (Hph : ph s = S (2 * cyc s)) by (unfold ph; rewrite Hsg; lia).
        unfold tab, post in GT, GP, Hpost, Hm. rewrite Hsg in GT, GP, Hpost, Hm.
        destruct (kin a0 (m_ng s)) eqn:Ht.
        * (* a value of the next cycle: postponed *)
          unfold kb in Hm. rewrite Ht, Hph in Hm.
          replace (S (2 * cyc s) + 1)%nat with (2 * S (cyc s))%nat in Hm by lia. rewrite msg_at_even in Hm.
          apply (deliver_wrap cf a0 b0 m q (set_pv s (m_pv s ++ [(a0, RA (S (cyc s)) a0)])) [] []); auto.
          -- fold s. rewrite Hm. apply recv_V_post. exact Hstate.
          -- fold s. apply case_post_V; auto. rewrite Hph.
             replace (S (S (2 * cyc s))) with (2 * S (cyc s))%nat by lia. rewrite msg_at_even. reflexivity.
        * (* a gain of this cycle *)
          unfold kb in Hm. rewrite Ht, Hph, Nat.add_0_r, msg_at_odd in Hm.
          assert (Hx : RG (cyc s) a0 = pl (msg_at a0 (ph s))) by (rewrite Hph, msg_at_odd; reflexivity).
          assert (Hfinpv : stop <> 0 -> stop <= m_cycle s + 1 -> m_pv s = []).
          { intros Hs0 Hs1. destruct (m_pv s) as [|[a v] r] eqn:Epv; [reflexivity|exfalso].
            assert (Ha1 : In a (keys (m_pv s))) by (rewrite Epv; simpl; auto).
            assert (Ha2 : In a (keys (m_ng s))) by (apply GP; simpl; auto).
            assert (Ha3 : In a (nbr b0)) by (now apply GT).
            destruct (I_pipe cf HI a b0 Ha3) as [_ Hle].
            assert (Ha4 : nbr a <> []).
            { intros Hc'. apply nbrs_sym in Ha3. rewrite Hc' in Ha3. contradiction. }
            pose proof (nsent_bound cf a HI Hs0 Ha4) as Hb.
            unfold acc in Hle. fold s in Hle. unfold tab, post in Hle. rewrite Hsg in Hle.
            unfold kb in Hle. apply kin_In in Ha1. apply kin_In in Ha2. rewrite Ha1, Ha2, Hph in Hle.
            pose proof (g_cyc b0 s G). unfold cyc in *. lia. }
          destruct (Nat.eq_dec (length (m_ng s) + 1) (length (nbr b0))) as [Hl|Hl].
          -- pose proof (keys_length_le (m_pv s) (nbr b0) (proj1 GP)) as Hple.
             assert (Hpvincl : incl (keys (m_pv s)) (nbr b0)) by (intros z Hz; apply GT; now apply GP).
             specialize (Hple Hpvincl).
             destruct (Nat.eq_dec (length (m_pv s)) (length (nbr b0))) as [Hlp|Hlp].
             ++ destruct (case_switch_G2 b0 a0 s (RG (cyc s) a0) G Hfin Hsg Hnb Ht Hl Hlp Hx Hfinpv) as [Hsf SO].
                eapply (deliver_wrap cf a0 b0 m q _ _ _ HI Hr Hc Hnb); [|exact SO].
                fold s. rewrite Hm. rewrite (recv_G_switch2 d stop b0 s a0 _ Hstate Ht Hl (g_G b0 s G Hsg) (proj1 GP) Hlp).
                cbv zeta. rewrite sv_outs_eq, Hsf, gains_of_eq, (outs_of_1 _ (MGain _)). unfold outs_of. rewrite <- flat_map_app. reflexivity.
             ++ assert (Hlp' : (length (m_pv s) < length (nbr b0))%nat) by lia.
                eapply (deliver_wrap cf a0 b0 m q _ _ _ HI Hr Hc Hnb);
                  [|exact (case_switch_G1 b0 a0 s (RG (cyc s) a0) G Hfin Hsg Hnb Ht Hl Hlp' Hx Hfinpv)].
                fold s. rewrite Hm. rewrite (recv_G_switch1 d stop b0 s a0 _ Hstate Ht Hl (proj1 GP) Hlp').
                cbv zeta. rewrite sv_outs_eq. reflexivity.
          -- eapply (deliver_wrap cf a0 b0 m q _ [] _ HI Hr Hc Hnb);
               [|exact (case_store_G b0 a0 s (RG (cyc s) a0) G Hfin Hsg Hnb Ht Hl Hx)].
             fold s. rewrite Hm. apply recv_G_store; auto.
      + (* waiting for values *)
        pose proof (good_sv b0 s G Hsg) as Hstate.
        assert (Hph : ph s = (2 * cyc s)%nat) by (unfold ph; rewrite Hsg; lia).
        unfold tab, post in GT, GP, Hpost, Hm. rewrite Hsg in GT, GP, Hpost, Hm.
        destruct (g_V b0 s G Hsg) as [Hpv Hng].
        destruct (kin a0 (m_nv s)) eqn:Ht.
        * (* a gain of this cycle: postponed *)
          unfold kb in Hm. rewrite Ht, Hph in Hm.
          replace (2 * cyc s + 1)%nat with (S (2 * cyc s)) in Hm by lia. rewrite msg_at_odd in Hm.
          apply (deliver_wrap cf a0 b0 m q (set_pg s (m_pg s ++ [(a0, RG (cyc s) a0)])) [] []); auto.
          -- fold s. rewrite Hm. apply recv_G_post. exact Hstate.
          -- fold s. apply case_post_G; auto. rewrite Hph, msg_at_odd. reflexivity.
        * (* a value of this cycle *)
          unfold kb in Hm. rewrite Ht, Hph, Nat.add_0_r, msg_at_even in Hm.
          assert (Hx : RA (cyc s) a0 = pl (msg_at a0 (ph s))) by (rewrite Hph, msg_at_even; reflexivity).
          destruct (Nat.eq_dec (length (m_nv s) + 1) (length (nbr b0))) as [Hl|Hl].
          -- pose proof (keys_length_le (m_pg s) (nbr b0) (proj1 GP)) as Hple.
             assert (Hpgincl : incl (keys (m_pg s)) (nbr b0)) by (intros z Hz; apply GT; now apply GP).
             specialize (Hple Hpgincl).
             destruct (Nat.eq_dec (length (m_pg s)) (length (nbr b0))) as [Hlp|Hlp].
             ++ eapply (deliver_wrap cf a0 b0 m q _ _ _ HI Hr Hc Hnb);
                  [|exact (case_switch_V2 b0 a0 s (RA (cyc s) a0) G Hfin Hsg Hnb Ht Hl Hlp Hx)].
                fold s. rewrite Hm. rewrite (recv_V_switch2 d stop b0 s a0 _ Hstate Ht Hl Hng Hpv (proj1 GP) Hlp).
                cbv zeta. rewrite sv_outs_eq, gains_of_eq. reflexivity.
             ++ assert (Hlp' : (length (m_pg s) < length (nbr b0))%nat) by lia.
                eapply (deliver_wrap cf a0 b0 m q _ _ _ HI Hr Hc Hnb);
                  [|exact (case_switch_V1 b0 a0 s (RA (cyc s) a0) G Hfin Hsg Hnb Ht Hl Hlp' Hx)].
                fold s. rewrite Hm. rewrite (recv_V_switch1 d stop b0 s a0 _ Hstate Ht Hl Hng (proj1 GP) Hlp').
                cbv zeta. rewrite gains_of_eq, outs_of_1. reflexivity.
          -- eapply (deliver_wrap cf a0 b0 m q _ [] _ HI Hr Hc Hnb);
               [|exact (case_store_V b0 a0 s (RA (cyc s) a0) G Hfin Hsg Hnb Ht Hl Hx)].
             fold s. rewrite Hm. apply recv_V_store; auto.
  Qed.

  (* ================================================================ Part 5: all schedules *)
  Lemma reachable_inv cf : reachable P cf -> Inv cf.
  Proof.
    induction 1 as [|cf a _ HI].
    - apply Inv_init.
    - apply (step_facts cf a HI).
  Qed.

  Lemma exec_facts sched : forall cf, Inv cf ->
    Inv (fst (exec P cf sched)) /\ ev_ok (snd (exec P cf sched)) /\
    (forall x, m_fin (st (fst (exec P cf sched)) x) = m_fin (st cf x) + Z.of_nat (count_fin x (snd (exec P cf sched)))).
  Proof.
    induction sched as [|a r IH]; intros cf HI; simpl.
    - split; [exact HI|]. split; [apply ev_ok_nil|]. intros x. simpl. lia.
    - destruct (step_facts cf a HI) as (HI1 & Ev1 & F1).
      destruct (step P cf a) as [cf1 e1] eqn:E1. simpl in *.
      destruct (IH cf1 HI1) as (HI2 & Ev2 & F2).
      destruct (exec P cf1 r) as [cf2 e2] eqn:E2. simpl in *.
      split; [exact HI2|]. split; [now apply ev_ok_app|].
      intros x. rewrite F2, F1, count_fin_app. lia.
  Qed.

  Lemma run_inv sched : Inv (fst (run P sched)).
  Proof. apply exec_facts. apply Inv_init. Qed.

  (* the trace of every execution: no error event; every value selection at cycle stamp k selects
     the value of the reference run after k rounds; finished() is reported with cycle counter
     stop_cycle (0 for a variable without neighbour) *)
  Theorem mgm_trace_ok_l sched : ev_ok (snd (run P sched)).
  Proof. apply exec_facts. apply Inv_init. Qed.

  Definition active (x : node) : Prop := nbr x <> [].

  Lemma fin_le_one cf x : Inv cf -> 0 <= m_fin (st cf x) <= 1.
  Proof.
    intros HI. destruct (rn cf x) eqn:Hr.
    - destruct (nbr x) as [|y r] eqn:E.
      + destruct (I_iso cf HI x Hr E) as [H _]. lia.
      + assert (Ha : nbr x <> []) by (rewrite E; discriminate).
        pose proof (I_good cf HI x Hr Ha) as G. rewrite (g_fin x _ G). unfold fb. destruct (finb (st cf x)); lia.
    - rewrite (I_idle cf HI x Hr). simpl. lia.
  Qed.

  (* finished() is reported at most once per computation, under every schedule *)
  Theorem mgm_finished_once_l sched x :
    (count_fin x (snd (run P sched)) <= 1)%nat /\
    Z.of_nat (count_fin x (snd (run P sched))) = m_fin (st (fst (run P sched)) x).
  Proof.
    destruct (exec_facts sched (init P) Inv_init) as (HI & _ & F). specialize (F x).
    change (exec P (init P) sched) with (run P sched) in *.
    assert (m_fin (st (init P) x) = 0) by reflexivity.
    pose proof (fin_le_one _ x HI). split; lia.
  Qed.

  Lemma exists_min (f : node -> nat) (l : list node) :
    l <> [] -> exists x, In x l /\ forall y, In y l -> (f x <= f y)%nat.
  Proof.
    induction l as [|z r IH]; [congruence|]. intros _.
    destruct r as [|z' r'].
    - exists z. split; [left; auto|]. intros y [<-|[]]. lia.
    - destruct IH as [x [Hx Hmin]]; [congruence|].
      destruct (le_lt_dec (f z) (f x)) as [Hle|Hlt].
      + exists z. split; [left; auto|]. intros y [<-|Hy]; [lia|]. specialize (Hmin y Hy). lia.
      + exists x. split; [right; auto|]. intros y [<-|Hy]; [lia|]. auto.
  Qed.

  Lemma active_in_scopes x : active x -> In x (flat_map c_scope (d_cons d)).
  Proof.
    unfold active. intros H. destruct (nbr x) as [|y r] eqn:E; [congruence|].
    assert (Hy : In y (nbr x)) by (rewrite E; left; reflexivity).
    apply nbrs_spec in Hy as [_ [c [Hc [Hx _]]]]. apply in_flat_map. exists c. auto.
  Qed.

  (* no computation is left waiting: when every computation that has a neighbour is started and
     no message is in flight, every one of them has finished (so, without stop_cycle, some
     message is always in flight) *)
  Lemma quiescent_all_fin cf :
    Inv cf -> (forall x, active x -> rn cf x = true) -> (forall a b, chan cf a b = []) ->
    forall x, active x -> finb (st cf x) = true.
  Proof.
    intros HI Hrun Hempty x0 Hx0.
    destruct (finb (st cf x0)) eqn:F0; [reflexivity|exfalso].
    set (U := flat_map c_scope (d_cons d)).
    set (W := filter (fun x => match nbr x with [] => false | _ => negb (finb (st cf x)) end) U).
    assert (HW : forall x, In x W <-> active x /\ finb (st cf x) = false).
    { intros x. unfold W. rewrite filter_In. unfold active. split.
      - intros [_ H]. destruct (nbr x); [discriminate|]. split; [discriminate|]. now apply negb_true_iff.
      - intros [H1 H2]. split; [now apply active_in_scopes|]. destruct (nbr x); [congruence|]. now apply negb_true_iff. }
    assert (HW0 : W <> []).
    { intros Hc. assert (In x0 W) as Hin by (apply HW; auto). rewrite Hc in Hin. contradiction. }
    destruct (exists_min (nsent cf) W HW0) as [b [Hb Hmin]].
    apply HW in Hb as [Hbact Hbfin].
    pose proof (Hrun b Hbact) as Hbr. pose proof (I_good cf HI b Hbr Hbact) as G.
    set (s := st cf b) in *.
    assert (Hnsb : nsent cf b = (ph s + 1)%nat).
    { unfold nsent. rewrite Hbr. fold s. rewrite (fb_false s Hbfin). lia. }
    assert (Hall : forall a, In a (nbr b) -> In a (keys (tab s))).
    { intros a Ha.
      assert (Haact : active a).
      { unfold active. intros Hc. apply nbrs_sym in Ha. rewrite Hc in Ha. contradiction. }
      destruct (I_pipe cf HI a b Ha) as [Hseq Hle].
      unfold pipe in Hseq. rewrite (I_held cf HI b Hbr), Hempty in Hseq. simpl in Hseq.
      assert (Hz : (nsent cf a - acc cf b a = 0)%nat).
      { destruct (nsent cf a - acc cf b a)%nat; [reflexivity|discriminate]. }
      assert (Hge : (nsent cf b <= nsent cf a)%nat).
      { destruct (finb (st cf a)) eqn:Fa.
        - (* a has finished: it has sent everything there is to send *)
          apply finb_spec in Fa as [Hs0 Hs1].
          pose proof (nsent_bound cf b HI Hs0 Hbact) as Hb1.
          pose proof (Hrun a Haact) as Har. pose proof (I_good cf HI a Har Haact) as Ga.
          assert (Fa : finb (st cf a) = true) by (apply finb_spec; auto).
          destruct (g_finst a _ Ga Fa) as [Hsga _]. pose proof (g_stop a _ Ga Hs0). pose proof (g_cyc a _ Ga).
          unfold nsent at 2. rewrite Har. unfold ph, fb, cyc. rewrite Fa, Hsga. lia.
        - apply Hmin. apply HW. auto. }
      unfold acc in Hz, Hle. fold s in Hz, Hle.
      pose proof (kb_le a (post s)). 
      destruct (kin a (tab s)) eqn:Ek; [now apply kin_In|exfalso].
      assert (Hp : kin a (post s) = false).
      { destruct (kin a (post s)) eqn:Ep; auto. apply kin_In in Ep. apply (proj2 (g_post b s G)) in Ep.
        apply kin_In in Ep. congruence. }
      unfold kb in *. rewrite Ek, Hp in *. lia. }
    destruct (g_tab b s G) as (Hnd & Hincl & Hlen).
    pose proof (NoDup_incl_length (nbrs_nodup d b) Hall) as Hl. unfold keys in Hl. rewrite map_length in Hl. lia.
  Qed.

  Theorem mgm_terminates_k_l cf : 0 < stop ->
    reachable P cf -> (forall x, active x -> rn cf x = true) -> (forall a b, chan cf a b = []) ->
    forall x, rn cf x = true ->
      m_fin (st cf x) = 1 /\ m_cycle (st cf x) = fin_cycle x /\ w_held (nodes cf x) = [] /\
      (active x -> m_state (st cf x) = SValues /\ m_nv (st cf x) = [] /\ m_ng (st cf x) = [] /\
                   m_pv (st cf x) = [] /\ m_pg (st cf x) = []).
  Proof.
    intros Hs Hre Hrun Hempty x Hr. apply reachable_inv in Hre as HI.
    split; [|split; [|split; [apply (I_held cf HI x Hr)|]]].
    - destruct (nbr x) as [|y r] eqn:E.
      + apply (I_iso cf HI x Hr E).
      + assert (Ha : active x) by (unfold active; rewrite E; discriminate).
        pose proof (quiescent_all_fin cf HI Hrun Hempty x Ha) as F.
        rewrite (g_fin x _ (I_good cf HI x Hr Ha)). unfold P_Mgm3.fb. rewrite F. reflexivity.
    - unfold P_Mgm3c.fin_cycle. destruct (nbr x) as [|y r] eqn:E.
      + apply (I_iso cf HI x Hr E).
      + assert (Ha : active x) by (unfold active; rewrite E; discriminate).
        pose proof (quiescent_all_fin cf HI Hrun Hempty x Ha) as F.
        pose proof (I_good cf HI x Hr Ha) as G. apply finb_spec in F as [F1 F2].
        pose proof (g_stop x _ G F1). lia.
    - intros Ha. pose proof (quiescent_all_fin cf HI Hrun Hempty x Ha) as F.
      pose proof (I_good cf HI x Hr Ha) as G.
      destruct (g_finst x _ G F) as (Hsg & Hnv & Hpg). destruct (g_V x _ G Hsg) as [Hpv Hng].
      split; [exact (good_sv x _ G Hsg)|]. auto.
  Qed.

  (* no deadlock before termination: while some computation with a neighbour has not finished
     (all of them started), some message is in flight *)
  Theorem mgm_no_deadlock_l cf :
    reachable P cf -> (forall x, active x -> rn cf x = true) ->
    (exists x, active x /\ finb (st cf x) = false) -> ~ (forall a b, chan cf a b = []).
  Proof.
    intros Hre Hrun [x [Ha Hf]] Hempty. apply reachable_inv in Hre as HI.
    pose proof (quiescent_all_fin cf HI Hrun Hempty x Ha). congruence.
  Qed.

  (* the whole statement of C07 for one execution *)
  Theorem mgm_terminates_k_run_l sched : 0 < stop ->
    let cf := fst (run P sched) in let evs := snd (run P sched) in
    (forall x, active x -> rn cf x = true) -> (forall a b, chan cf a b = []) ->
    (forall n k, ~ In (EvErr n k) evs) /\
    forall x, rn cf x = true ->
      count_fin x evs = 1%nat /\ (forall k, In (EvFinished x k) evs -> k = fin_cycle x) /\
      m_cycle (st cf x) = fin_cycle x.
  Proof.
    intros Hs cf evs Hrun Hempty.
    destruct (mgm_trace_ok_l sched) as (E1 & E2 & E3). fold evs in E1, E2, E3.
    split; [exact E1|]. intros x Hr.
    assert (Hre : reachable P cf) by (apply exec_reachable; constructor).
    destruct (mgm_terminates_k_l cf Hs Hre Hrun Hempty x Hr) as (F1 & F2 & _).
    destruct (mgm_finished_once_l sched x) as [_ F3]. fold evs cf in F3.
    split; [lia|]. split; [|exact F2]. intros k Hk. now apply E3.
  Qed.

  (* ---------------------------------------------------------------- refinement to rounds *)
  Theorem mgm_refines_rounds_l cf n : reachable P cf -> rn cf n = true ->
    m_value (st cf n) = Some (RA (Z.to_nat (m_cycle (st cf n) - 1)) n).
  Proof.
    intros Hre Hr. apply reachable_inv in Hre as HI.
    destruct (nbr n) as [|y r] eqn:E.
    - destruct (I_iso cf HI n Hr E) as (_ & Hc & Hv). rewrite Hc, Hv. reflexivity.
    - assert (Ha : nbr n <> []) by (rewrite E; discriminate).
      exact (g_val n _ (I_good cf HI n Hr Ha)).
  Qed.

  Definition held (cf : config) (n : node) : Z := cur_value (st cf n).
  (* every computation has completed exactly j cycles (those that take part in cycles) *)
  Definition at_boundary (cf : config) (j : nat) : Prop :=
    forall n, In n (ids d) -> rn cf n = true /\ (active n -> m_cycle (st cf n) = Z.of_nat j + 1).

  Lemma boundary_RA cf j : reachable P cf -> at_boundary cf j -> forall n, In n (ids d) -> held cf n = RA j n.
  Proof.
    intros Hre Hb n Hn. destruct (Hb n Hn) as [Hr Hc].
    unfold held, cur_value. rewrite (mgm_refines_rounds_l cf n Hre Hr).
    destruct (nbr n) as [|y r] eqn:E.
    - rewrite !(RA_iso _ n E). reflexivity.
    - assert (Ha : active n) by (unfold active; rewrite E; discriminate).
      rewrite (Hc Ha). f_equal. lia.
  Qed.

  Theorem mgm_async_monotone_l cf1 cf2 j : wf_dcop d = true ->
    reachable P cf1 -> reachable P cf2 -> at_boundary cf1 j -> at_boundary cf2 (S j) ->
    if d_max d then gcost d (held cf1) <= gcost d (held cf2) else gcost d (held cf2) <= gcost d (held cf1).
  Proof.
    intros W R1 R2 B1 B2.
    rewrite (gcost_ext d (held cf1) (RA j) W (boundary_RA cf1 j R1 B1)).
    rewrite (gcost_ext d (held cf2) (RA (S j)) W (boundary_RA cf2 (S j) R2 B2)).
    rewrite RA_S. apply mgm_round_monotone_lemma. exact W.
  Qed.

  Theorem mgm_async_movers_independent_l cf1 cf2 j n m :
    reachable P cf1 -> reachable P cf2 -> at_boundary cf1 j -> at_boundary cf2 (S j) ->
    In n (ids d) -> In m (ids d) ->
    held cf2 n <> held cf1 n -> held cf2 m <> held cf1 m -> In m (nbr n) -> False.
  Proof.
    intros R1 R2 B1 B2 Hn Hm Dn Dm Hnb.
    rewrite (boundary_RA cf1 j R1 B1 n Hn), (boundary_RA cf2 (S j) R2 B2 n Hn) in Dn.
    rewrite (boundary_RA cf1 j R1 B1 m Hm), (boundary_RA cf2 (S j) R2 B2 m Hm) in Dm.
    rewrite RA_S in Dn, Dm. unfold mgm_next in Dn, Dm.
    destruct (r_moves d (RA j) n) eqn:Mn; [|congruence].
    destruct (r_moves d (RA j) m) eqn:Mm; [|congruence].
    exact (movers_independent d (RA j) n m Mn Mm Hnb).
  Qed.

  Theorem mgm_async_no_move_1opt_l cf1 cf2 j : wf_dcop d = true ->
    reachable P cf1 -> reachable P cf2 -> at_boundary cf1 j -> at_boundary cf2 (S j) ->
    (forall n, In n (ids d) -> held cf2 n = held cf1 n) ->
    forall n x, In n (ids d) -> In x (dom_of d n) ->
    better (d_max d) (gcost d (fupd (held cf2) n x)) (gcost d (held cf2)) = false.
  Proof.
    intros W R1 R2 B1 B2 Hsame n x Hn Hx.
    assert (H2 : forall v, In v (ids d) -> held cf2 v = RA j v).
    { intros v Hv. rewrite (Hsame v Hv). now apply boundary_RA. }
    assert (Hstill : forall v, In v (ids d) -> mgm_next d (RA j) (dr_of (RO j)) v = RA j v).
    { intros v Hv. rewrite <- RA_S. rewrite <- (boundary_RA cf2 (S j) R2 B2 v Hv). now apply H2. }
    rewrite (gcost_ext d (held cf2) (RA j) W H2).
    rewrite (gcost_ext d (fupd (held cf2) n x) (fupd (RA j) n x) W).
    2:{ intros v Hv. unfold fupd. destruct (v =? n); [reflexivity|now apply H2]. }
    destruct (nbr n) as [|y r] eqn:E.
    - apply (mgm_isolated_1opt_lemma d W (RA j) n x Hn E); [|exact Hx]. now apply RA_iso.
    - apply (mgm_no_move_1opt_lemma d W (RA j) (dr_of (RO j)) Hstill n x Hn); [|exact Hx].
      unfold r_active. rewrite E. reflexivity.
  Qed.
End Global.

(* ================================================================ closed statements *)
(* neighbours are at most one phase apart (a phase = half a cycle: values, then gains) *)
Lemma mgm_one_phase_apart_l d stop orc cf a b : 0 <= stop ->
  reachable (mgm_proto d stop orc) cf -> In a (nbrs d b) ->
  (ph (w_st (nodes cf b)) <= ph (w_st (nodes cf a)) + 1)%nat.
Proof.
  intros Hs Hre Hab. pose proof (reachable_inv d stop orc Hs cf Hre) as HI.
  destruct (I_pipe d stop orc cf HI a b Hab) as [_ Hle].
  pose proof (nsent_le_ph stop cf a). pose proof (ph_le_acc cf b a). unfold st in *. lia.
Qed.

Lemma mgm_terminates_k_closed d stop orc sched : 0 < stop ->
  let cf := fst (run (mgm_proto d stop orc) sched) in
  let evs := snd (run (mgm_proto d stop orc) sched) in
  (forall x, nbrs d x <> [] -> w_running (nodes cf x) = true) ->
  (forall a b, chan cf a b = []) ->
  (forall n k, ~ In (EvErr n k) evs) /\
  (forall x, w_running (nodes cf x) = true ->
     count_fin x evs = 1%nat /\
     (forall k, In (EvFinished x k) evs -> k = fin_cycle d stop x) /\
     m_cycle (w_st (nodes cf x)) = fin_cycle d stop x /\
     m_fin (w_st (nodes cf x)) = 1 /\ w_held (nodes cf x) = [] /\
     (nbrs d x <> [] -> m_state (w_st (nodes cf x)) = SValues /\ m_nv (w_st (nodes cf x)) = [] /\
        m_ng (w_st (nodes cf x)) = [] /\ m_pv (w_st (nodes cf x)) = [] /\ m_pg (w_st (nodes cf x)) = [])).
Proof.
  intros Hs cf evs Hrun Hempty.
  assert (Hs0 : 0 <= stop) by lia.
  destruct (mgm_terminates_k_run_l d stop orc Hs0 sched Hs Hrun Hempty) as [E1 E2].
  split; [exact E1|]. intros x Hr. destruct (E2 x Hr) as (A1 & A2 & A3).
  assert (Hre : reachable (mgm_proto d stop orc) cf) by (apply exec_reachable; constructor).
  destruct (mgm_terminates_k_l d stop orc Hs0 cf Hs Hre Hrun Hempty x Hr) as (B1 & B2 & B3 & B4).
  repeat (split; [assumption|]). exact B4.
Qed.

Lemma mgm_trace_ok_closed d stop orc sched : 0 <= stop ->
  let evs := snd (run (mgm_proto d stop orc) sched) in
  (forall n k, ~ In (EvErr n k) evs) /\
  (forall n v c k, In (EvValue n v c k) evs -> 0 <= k /\ v = RA d orc (Z.to_nat k) n) /\
  (forall n k, In (EvFinished n k) evs -> k = fin_cycle d stop n) /\
  (forall x, (count_fin x evs <= 1)%nat).
Proof.
  intros Hs evs. destruct (mgm_trace_ok_l d stop orc Hs sched) as (E1 & E2 & E3).
  split; [exact E1|]. split; [exact E2|]. split; [exact E3|].
  intros x. apply (mgm_finished_once_l d stop orc Hs sched x).
Qed.

Lemma mgm_no_deadlock_closed d stop orc cf : 0 <= stop ->
  reachable (mgm_proto d stop orc) cf ->
  (forall x, nbrs d x <> [] -> w_running (nodes cf x) = true) ->
  (exists x, nbrs d x <> [] /\ finb stop (w_st (nodes cf x)) = false) ->
  ~ (forall a b, chan cf a b = []).
Proof. intros Hs. exact (mgm_no_deadlock_l d stop orc Hs cf). Qed.

Lemma mgm_refines_rounds_closed d stop orc cf n : 0 <= stop ->
  reachable (mgm_proto d stop orc) cf -> w_running (nodes cf n) = true ->
  m_value (w_st (nodes cf n)) = Some (RA d orc (Z.to_nat (m_cycle (w_st (nodes cf n)) - 1)) n).
Proof. intros Hs. exact (mgm_refines_rounds_l d stop orc Hs cf n). Qed.
