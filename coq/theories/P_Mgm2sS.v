(* P_Mgm2sS.v -- MGM2 barrier proof: the START of a computation preserves the invariant InvA of
   P_Mgm2y.v.  An isolated computation selects its value and finishes at once; an active one selects
   its initial value, sends it to every neighbour (unless the stop cycle is 1) and waits in state value
   of cycle 1. *)
From Coq Require Import ZArith List Bool Lia.
From PyDcop Require Import Base Net M_Mgm M_Mgm2 M_Mgm2x P_Mgm P_Mgm3 P_Mgm3c P_Mgm2x P_Mgm2y P_Mgm2s.
Import ListNotations.
Open Scope Z_scope.

Local Notation length := List.length.

Definition start_rn (rn : node -> bool) (y : node) : node -> bool := fun n => if n =? y then true else rn n.
Definition pd_start (pd : node -> node -> list m2msg) (y : node) (outs : list (node * m2msg)) :
  node -> node -> list m2msg := fun a b => if a =? y then pd a b ++ to_y2 b outs else pd a b.

Ltac getPS P :=
  pose proof (p_V _ _ _ _ _ P) as PV; pose proof (p_O _ _ _ _ _ P) as PO; pose proof (p_G _ _ _ _ _ P) as PG;
  pose proof (p_A1 _ _ _ _ _ P) as PA1; pose proof (p_A0 _ _ _ _ _ P) as PA0;
  pose proof (p_Go1 _ _ _ _ _ P) as PGo1; pose proof (p_Go0 _ _ _ _ _ P) as PGo0;
  pose proof (p_PO _ _ _ _ _ P) as PPO; pose proof (p_PS _ _ _ _ _ P) as PPS; pose proof (p_PA _ _ _ _ _ P) as PPA;
  pose proof (p_L _ _ _ _ _ P) as PL; pose proof (p_Ans _ _ _ _ _ P) as PAns; clear P.

(* ------------------------------------------------------------------ what start0 does *)
Section Spec.
  Variable d : dcop.
  Variable stop thr favor : Z.
  Variable n : node.
  Notation nb := (nbrs d n).
  Notation doneb := (doneb stop).

  Lemma andthen2_tuple s o e (f : m2st -> res2) :
    andthen2 (s, o, e) f = let '(s', o', e') := f s in (s', o ++ o', e ++ e').
  Proof. reflexivity. Qed.

  Lemma sv_enter s :
    exists s' vs,
      andthen2 (send_value2 d stop n s) (enter0 1) =
        (s', map (fun t => (t, M2Value vs)) (if doneb (t_cycle s + 1) then [] else nb),
         EvCycle n (t_cycle s + 1) :: (if doneb (t_cycle s + 1) then [EvFinished n (t_cycle s + 1)] else [])) /\
      skel s' = (1, t_cycle s + 1, t_fin s + (if doneb (t_cycle s + 1) then 1 else 0), t_nv s, t_offers s, t_ng s,
                 t_partner s, t_committed s, t_offerer s, t_pgain s) /\
      posts s' = posts s.
  Proof.
    unfold send_value2, doneb, P_Mgm2x.doneb, enter0, ret2. destruct s. cbn.
    destruct (negb (stop =? 0) && (stop <=? t_cycle + 1)); cbn.
    - eexists _, 0. split; [reflexivity|]. split; reflexivity.
    - eexists _, _. rewrite !app_nil_r. split; [reflexivity|]. rewrite Z.add_0_r. split; reflexivity.
  Qed.

  Lemma start0_active s : nb <> [] ->
    exists s' vs pre,
      start0 d stop thr favor n s =
        (s', map (fun t => (t, M2Value vs)) (if doneb (t_cycle s + 1) then [] else nb),
         pre ++ EvCycle n (t_cycle s + 1) :: (if doneb (t_cycle s + 1) then [EvFinished n (t_cycle s + 1)] else [])) /\
      valev n pre /\
      skel s' = (1, t_cycle s + 1, t_fin s + (if doneb (t_cycle s + 1) then 1 else 0), t_nv s, t_offers s, t_ng s,
                 t_partner s, t_committed s, t_offerer s, t_pgain s) /\
      posts s' = posts s.
  Proof.
    intros Hnb.
    assert (Hs : exists v0 o, start0 d stop thr favor n s =
                   andthen2 (andthen2 (value_selection2 n (set_t_orc s o) v0 None) (send_value2 d stop n)) (enter0 1)).
    { unfold start0. destruct nb; [congruence|].
      destruct (v_init (var_of d n)) as [v|]; [eexists _, _; reflexivity|].
      destruct (draw (t_orc s)) as [x o]. eexists _, _; reflexivity. }
    destruct Hs as (v0 & o & ->).
    rewrite andthen2_assoc. unfold value_selection2.
    set (s1 := set_t_cost (set_t_value (set_t_orc s o) (Some v0)) None).
    destruct (sv_enter s1) as (s' & vs & E & K & Po).
    rewrite andthen2_tuple. rewrite E. exists s', vs. eexists. split; [reflexivity|].
    split; [|split; [exact K|exact Po]].
    intros ev Hev. destruct (option_eqb Z.eqb (t_value (set_t_orc s o)) (Some v0)); [destruct Hev|].
    destruct Hev as [<-|[]]. eexists _, _, _. reflexivity.
  Qed.

  Lemma start0_iso s : nb = [] ->
    exists s' pre,
      start0 d stop thr favor n s = (s', [], pre ++ [EvFinished n (t_cycle s)]) /\
      valev n pre /\ t_fin s' = t_fin s + 1 /\ t_cycle s' = t_cycle s /\ posts s' = posts s.
  Proof.
    intros Hnb. unfold start0. rewrite Hnb. unfold mgm2_start. rewrite Hnb.
    destruct (compute_best_value2 d n []) as [vals cost].
    destruct (draw (t_orc s)) as [x o]. unfold value_selection2. rewrite andthen2_tuple.
    eexists _, _. split; [reflexivity|]. split.
    - intros ev Hev. destruct (option_eqb Z.eqb (t_value (set_t_orc s o)) (Some (choose vals x 0))); [destruct Hev|].
      destruct Hev as [<-|[]]. eexists _, _, _. reflexivity.
    - destruct s; split; [reflexivity|split; reflexivity].
  Qed.
End Spec.

(* ------------------------------------------------------------------ local pair transformations *)
Section LocalS.
  Variables rn1 rn2 : node -> bool.
  Variables S1 S2 : node -> m2st.
  Variables pd1 pd2 : node -> node -> list m2msg.

  (* a pair whose two ends are not concerned *)
  Lemma pairI_ext_rn a b :
    rn2 a = rn1 a -> rn2 b = rn1 b -> S2 a = S1 a -> S2 b = S1 b -> pd2 a b = pd1 a b ->
    pairI rn1 S1 pd1 a b -> pairI rn2 S2 pd2 a b.
  Proof.
    intros Ra Rb Ea Eb Ep P. getPS P.
    constructor; unf; rewrite ?Ra, ?Rb, ?Ea, ?Eb, ?Ep; assumption.
  Qed.

  (* the receiver b starts *)
  Lemma start_recv a b fin :
    rn2 a = rn1 a -> S2 a = S1 a -> rn1 b = false -> rn2 b = true ->
    idle_skel (S1 b) ->
    skel (S2 b) = (1, 1, fin, [], [], [], None, false, false, 0) ->
    pd2 a b = pd1 a b ->
    t_committed (S1 a) = false -> t_offerer (S1 a) = false ->
    pairI rn1 S1 pd1 a b -> pairI rn2 S2 pd2 a b.
  Proof.
    intros Ra Ea Rb Rb' Ib Kb Hp Ac Ao P. getPS P.
    unfold idle_skel, skel in Ib. injection Ib as J1 J2 J3 J4 J5 J6 J7 J8 J9 J10.
    unfold skel in Kb. injection Kb as K1 K2 K3 K4 K5 K6 K7 K8 K9 K10.
    constructor; unf; rewrite ?Ra, ?Ea, ?Hp, ?Rb', ?K1, ?K2, ?K3, ?K4, ?K5, ?K6, ?K7, ?K8, ?K9;
      rewrite ?Rb, ?J1, ?J2, ?J3, ?J4, ?J5, ?J6, ?J7, ?J8, ?J9, ?Ac, ?Ao in *; try assumption.
    - intros (E & _). discriminate.
    - intros _. apply PGo0. intros [(E & _) _]. discriminate.
    - intros f os H. discriminate H.
    - intros H. discriminate H.
    - intros H. discriminate H.
  Qed.

  (* the sender b starts *)
  Lemma start_send b w (dn : bool) vs :
    rn2 w = rn1 w -> S2 w = S1 w -> rn1 b = false -> rn2 b = true ->
    idle_skel (S1 b) ->
    skel (S2 b) = (1, 1, b2z dn, [], [], [], None, false, false, 0) ->
    pd2 b w = pd1 b w ++ (if dn then [] else [M2Value vs]) ->
    t_committed (S1 w) = false ->
    pairI rn1 S1 pd1 b w -> pairI rn2 S2 pd2 b w.
  Proof.
    intros Rw Ew Rb Rb' Ib Kb Hp Wc P. getPS P.
    unfold idle_skel, skel in Ib. injection Ib as J1 J2 J3 J4 J5 J6 J7 J8 J9 J10.
    unfold skel in Kb. injection Kb as K1 K2 K3 K4 K5 K6 K7 K8 K9 K10.
    assert (C : forall k, cnt k (pd2 b w) = cnt k (pd1 b w) + (if dn then 0 else b2z (1 =? k))).
    { intros k. rewrite Hp, cnt_app. destruct dn; [rewrite cnt_nil; reflexivity|].
      rewrite cnt_cons, cnt_nil. simpl kind_of. lia. }
    assert (Hin : forall m, In m (pd2 b w) -> In m (pd1 b w) \/ m = M2Value vs).
    { intros m. rewrite Hp. intros H. apply in_app_or in H as [H|H]; [left; exact H|].
      destruct dn; [destruct H|destruct H as [<-|[]]; right; reflexivity]. }
    constructor; unf; rewrite ?Rw, ?Ew, ?C, ?Rb', ?K1, ?K2, ?K3, ?K4, ?K5, ?K6, ?K7, ?K8, ?K9;
      rewrite ?Rb, ?J1, ?J2, ?J3, ?J4, ?J5, ?J6, ?J7, ?J8, ?J9, ?Wc in *.
    - change (b2z (1 =? 1)) with 1. destruct dn; simpl b2z; clear - PV; lia.
    - change (b2z (1 =? 2)) with 0. change (b2z (2 <=? 1)) with 0. destruct dn; clear - PO; lia.
    - change (b2z (1 =? 4)) with 0. change (b2z (4 <=? 1)) with 0. destruct dn; clear - PG; lia.
    - intros _ H. exfalso. clear - H. lia.
    - intros _. change (b2z (1 =? 3)) with 0. rewrite PA0; [destruct dn; reflexivity|].
      intros [_ H]. clear - H. lia.
    - intros (E & _). discriminate.
    - intros _. change (b2z (1 =? 5)) with 0. rewrite PGo0; [destruct dn; reflexivity|].
      intros [(E & _) _]. discriminate.
    - intros f os H. apply Hin in H as [H|H]; [apply (PPO f os H)|discriminate].
    - exact PPS.
    - intros a0 v g H. apply Hin in H as [H|H]; [apply (PPA a0 v g H)|discriminate].
    - intros H. discriminate H.
    - intros H. discriminate H.
  Qed.
End LocalS.

Section StepS.
  Variable d : dcop.
  Variable stop thr favor : Z.
  Notation nbr := (nbrs d).
  Notation doneb := (doneb stop).
  Notation InvA := (InvA d stop).
  Notation good := (good d stop).
  Variable rn : node -> bool.
  Variable S : node -> m2st.
  Variable pd : node -> node -> list m2msg.
  Hypothesis HI : InvA rn S pd.
  Notation step_ok := (step_ok d stop thr favor rn S pd).
  Notation pos_facts := (pos_facts d stop rn S pd HI).
  Notation le_facts := (le_facts d stop rn S pd HI).
  Notation pending_nbr := (pending_nbr d stop rn S pd HI).
  Notation evok := (evok stop).

  (* a neighbour of a computation that has not started: it has not started either, or it waits in state
     value of its first cycle *)
  Lemma nbr_idle_flags a b : In a (nbr b) -> rn b = false ->
    t_committed (S a) = false /\ t_offerer (S a) = false /\
    (rn a = true -> t_cycle (S a) = 1 /\ t_state (S a) = 1).
  Proof.
    intros Hab Rb. pose proof (nbrs_sym d b a Hab) as Hba. destruct (rn a) eqn:Ra.
    - pose proof (i_good _ _ _ _ _ HI a Ra (act_of d b a Hba)) as Ga.
      pose proof (p_V _ _ _ _ _ (i_pair _ _ _ _ _ HI b a Hba)) as E. unfold SV, CV in E. rewrite Ra, Rb in E.
      destruct (tabf d stop a _ b Ga Hba) as (T1 & _ & _ & _ & _ & T6 & _ & _).
      pose proof (g_c _ _ _ _ Ga) as Ca. pose proof (g_k _ _ _ _ Ga) as Ka.
      pose proof (cnt_nonneg 1 (pd b a)) as Hn.
      assert (K1 : t_state (S a) = 1).
      { destruct (Z_le_gt_dec 2 (t_state (S a))) as [H2|H2]; [exfalso|clear - H2 Ka; lia].
        specialize (T1 H2). clear - T1 E Ca Hn. lia. }
      destruct (g_fl1 _ _ _ _ Ga K1) as (F1 & F2 & _).
      split; [exact F2|]. split; [exact F1|]. intros _. split; [clear - E Ca Hn T6; lia|exact K1].
    - pose proof (i_idle _ _ _ _ _ HI a Ra) as Ia.
      destruct (idle_tabf (S a) 0 Ia) as (_ & _ & _ & _ & _ & _ & _ & I8 & I9 & _).
      split; [exact I8|]. split; [exact I9|]. intros H. discriminate H.
  Qed.

  Lemma start_rn_other y n : n <> y -> start_rn rn y n = rn n.
  Proof. intros H. unfold start_rn. apply Z.eqb_neq in H. rewrite H. reflexivity. Qed.
  Lemma start_rn_same y : start_rn rn y y = true.
  Proof. unfold start_rn. rewrite Z.eqb_refl. reflexivity. Qed.
  Lemma pd_start_other y outs a b : a <> y -> pd_start pd y outs a b = pd a b.
  Proof. intros H. unfold pd_start. apply Z.eqb_neq in H. rewrite H. reflexivity. Qed.
  Lemma pd_start_same y outs b : pd_start pd y outs y b = pd y b ++ to_y2 b outs.
  Proof. unfold pd_start. rewrite Z.eqb_refl. reflexivity. Qed.

  (* ============================================================ start *)
  Lemma step_start y : rn y = false -> forall s2 o2 e2, start0 d stop thr favor y (S y) = (s2, o2, e2) ->
    P_Mgm2y.InvA d stop (start_rn rn y) (updS S y s2) (pd_start pd y o2) /\ posts s2 = posts (S y) /\ noerr e2 /\
    (forall n k, In (EvFinished n k) e2 -> n = y /\ k = t_cycle s2 /\ (nbr y <> [] -> doneb k = true)) /\
    t_fin s2 = t_fin (S y) + Z.of_nat (count_fin y e2) /\ (nbr y <> [] -> t_state s2 = 1).
  Proof.
    intros Ry s2 o2 e2 Hm.
    pose proof (i_idle _ _ _ _ _ HI y Ry) as Iy. pose proof Iy as Iy0.
    unfold idle_skel, skel in Iy0. injection Iy0 as J1 J2 J3 J4 J5 J6 J7 J8 J9 J10.
    assert (Hrn : forall n0, start_rn rn y n0 = false -> n0 <> y /\ rn n0 = false).
    { intros n0. unfold start_rn. destruct (Z.eqb_spec n0 y); [discriminate|]. auto. }
    assert (D : nbr y = [] \/ nbr y <> []) by (destruct (nbr y); [left; reflexivity|right; discriminate]).
    destruct D as [Hiso|Hact].
    - (* ---------------- isolated: value selected, finished *)
      destruct (start0_iso d stop thr favor y (S y) Hiso) as (s' & pre & E & Vp & Kf & Kc & Po).
      rewrite E in Hm. injection Hm as <- <- <-.
      destruct (count_fin_valev y pre Vp) as (C1 & C2 & C3).
      split; [|split; [exact Po|split; [|split; [|split]]]].
      + constructor.
        * intros n0 Hn. destruct (Hrn n0 Hn) as [Hne R0]. rewrite updS_other by assumption.
          apply (i_idle _ _ _ _ _ HI n0 R0).
        * intros n0 Hn Hi0. destruct (Z.eq_dec n0 y) as [->|Hne].
          -- rewrite updS_same, Kf, Kc, J2, J3. split; reflexivity.
          -- rewrite updS_other by assumption. rewrite start_rn_other in Hn by assumption.
             apply (i_iso _ _ _ _ _ HI n0 Hn Hi0).
        * intros n0 Hn Ha0. destruct (Z.eq_dec n0 y) as [->|Hne]; [congruence|].
          rewrite updS_other by assumption. rewrite start_rn_other in Hn by assumption.
          apply (i_good _ _ _ _ _ HI n0 Hn Ha0).
        * intros a b Hab.
          assert (Hb : b <> y) by (intros ->; rewrite Hiso in Hab; exact Hab).
          assert (Ha : a <> y) by (intros ->; apply nbrs_sym in Hab; rewrite Hiso in Hab; exact Hab).
          apply (pairI_ext_rn rn _ S _ pd _ a b); rewrite ?start_rn_other, ?updS_other, ?pd_start_other by assumption;
            try reflexivity. apply (i_pair _ _ _ _ _ HI a b Hab).
        * intros a b Hab. unfold pd_start. destruct (a =? y); [|apply (i_far _ _ _ _ _ HI a b Hab)].
          rewrite (i_far _ _ _ _ _ HI a b Hab). reflexivity.
      + intros n0 k Hin. apply in_app_or in Hin as [Hin|[Hin|[]]]; [apply (C3 n0 k Hin)|discriminate].
      + intros n0 k Hin. apply in_app_or in Hin as [Hin|[Hin|[]]]; [destruct (C2 n0 k Hin)|].
        injection Hin as <- <-. split; [reflexivity|]. split; [symmetry; exact Kc|]. intros Hc. congruence.
      + rewrite count_fin_app, C1, Kf. simpl. rewrite Z.eqb_refl. simpl. reflexivity.
      + intros Hc. congruence.
    - (* ---------------- active: initial value sent, state value of cycle 1 *)
      destruct (start0_active d stop thr favor y (S y) Hact) as (s' & vs & pre & E & Vp & K & Po).
      rewrite J2 in E. rewrite E in Hm. injection Hm as <- <- <-. clear E.
      rewrite J2, J3, J4, J5, J6, J7, J8, J9, J10 in K. change (0 + 1) with 1 in *.
      assert (Hf : 0 + (if doneb 1 then 1 else 0) = b2z (doneb 1)) by (destruct (doneb 1); reflexivity).
      rewrite Hf in K. pose proof K as K0.
      unfold skel in K. injection K as Kst Kcy Kfi Knv Kof Kng Kpa Kco Kor Kpg.
      set (outs := map (fun t : Z => (t, M2Value vs)) (if doneb 1 then [] else nbr y)).
      assert (Hev : evok y (S y) s' (pre ++ EvCycle y 1 :: (if doneb 1 then [EvFinished y 1] else []))).
      { apply evok_finish; [exact Vp|exact Kcy|]. rewrite Kfi, J3. destruct (doneb 1); reflexivity. }
      destruct Hev as (Hev1 & Hev2 & Hev3).
      split; [|split; [exact Po|split; [exact Hev1|split; [|split; [exact Hev3|intros _; exact Kst]]]]].
      2:{ intros n0 k Hin. destruct (Hev2 n0 k Hin) as (A & B & C). auto. }
      assert (G2 : good y s').
      { constructor; rewrite ?Kst, ?Kcy, ?Kfi, ?Knv, ?Kof, ?Kng, ?Kpa, ?Kco, ?Kor, ?Kpg; simpl; try lia; try discriminate; auto.
        - split; [constructor|apply incl_nil_l].
        - split; [constructor|split; [apply incl_nil_l|constructor]].
        - split; [constructor|apply incl_nil_l].
        - intros _. destruct (nbr y); [congruence|simpl; lia]. }
      assert (Hout : forall w, In w (nbr y) -> to_y2 w outs = if doneb 1 then [] else [M2Value vs]).
      { intros w Hw. unfold outs. destruct (doneb 1); [reflexivity|].
        etransitivity; [apply (to_y2_map (fun t => (t, M2Value vs)) (nbr y) w (fun t => eq_refl) (nbrs_nodup d y))|].
        rewrite (proj2 (zmem_In w (nbr y)) Hw). reflexivity. }
      assert (Hout0 : forall w, ~ In w (nbr y) -> to_y2 w outs = []).
      { intros w Hw. unfold outs. destruct (doneb 1); [reflexivity|].
        etransitivity; [apply (to_y2_map (fun t => (t, M2Value vs)) (nbr y) w (fun t => eq_refl) (nbrs_nodup d y))|].
        destruct (zmem w (nbr y)) eqn:E; [apply zmem_In in E; contradiction|reflexivity]. }
      constructor.
      + intros n0 Hn. destruct (Hrn n0 Hn) as [Hne R0]. rewrite updS_other by assumption.
        apply (i_idle _ _ _ _ _ HI n0 R0).
      + intros n0 Hn Hi0. destruct (Z.eq_dec n0 y) as [->|Hne]; [congruence|].
        rewrite updS_other by assumption. rewrite start_rn_other in Hn by assumption.
        apply (i_iso _ _ _ _ _ HI n0 Hn Hi0).
      + intros n0 Hn Ha0. destruct (Z.eq_dec n0 y) as [->|Hne]; [rewrite updS_same; exact G2|].
        rewrite updS_other by assumption. rewrite start_rn_other in Hn by assumption.
        apply (i_good _ _ _ _ _ HI n0 Hn Ha0).
      + intros a b Hab. destruct (Z.eq_dec b y) as [->|Hb].
        * (* receiver pairs (a, y) *)
          assert (Ha : a <> y) by (intros ->; eapply nbrs_irrefl; eauto).
          destruct (nbr_idle_flags a y Hab Ry) as (Fc & Fo & _).
          apply (start_recv rn _ S _ pd _ a y (b2z (doneb 1)));
            rewrite ?start_rn_same, ?updS_same, ?start_rn_other, ?updS_other, ?pd_start_other by assumption;
            try reflexivity; try assumption.
          apply (i_pair _ _ _ _ _ HI a y Hab).
        * destruct (Z.eq_dec a y) as [->|Ha].
          -- (* sender pairs (y, b) *)
             pose proof (nbrs_sym d b y Hab) as Hby.
             destruct (nbr_idle_flags b y Hby Ry) as (Fc & _ & _).
             apply (start_send rn _ S _ pd _ y b (doneb 1) vs);
               rewrite ?start_rn_same, ?updS_same, ?start_rn_other, ?updS_other by assumption;
               try reflexivity; try assumption.
             ++ rewrite pd_start_same, (Hout b Hby). reflexivity.
             ++ apply (i_pair _ _ _ _ _ HI y b Hab).
          -- apply (pairI_ext_rn rn _ S _ pd _ a b); rewrite ?start_rn_other, ?updS_other, ?pd_start_other by assumption;
               try reflexivity. apply (i_pair _ _ _ _ _ HI a b Hab).
      + intros a b Hab. unfold pd_start. destruct (Z.eqb_spec a y) as [->|Ha]; [|apply (i_far _ _ _ _ _ HI a b Hab)].
        rewrite (i_far _ _ _ _ _ HI y b Hab). simpl. apply Hout0. intros Hc. apply Hab. apply nbrs_sym. exact Hc.
  Qed.
End StepS.
