(* M_PseudoTree2.v -- executable well-formedness test of a constraint graph (the hypothesis
   of the all-input theorem build_valid) and the correspondence check extended with it.
   Definitions only. *)
From PyDcop Require Import Base M_PseudoTree.

(* distinct variables; no constraint lists a variable twice; constraints range over the
   variables of the problem *)
Definition wf_graphb (g : graph) : bool :=
  nodupb Z.eqb (g_vars g)
  && forallb (fun sc => nodupb Z.eqb sc && forallb (fun v => zmem v (g_vars g)) sc) (g_rels g).

(* the correspondence of M_PseudoTree, plus: the graph the real builder was given satisfies
   the hypothesis under which the builder model is proved correct *)
Definition check_case2 (c : case) : bool := check_case c && wf_graphb (c_graph c).
