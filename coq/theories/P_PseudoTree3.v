(* P_PseudoTree3.v -- from one DFS tree to the forest: the builder model never runs out
   of fuel and returns a valid pseudo-forest (PT_valid) for every well-formed graph. *)
From Coq Require Import ZArith List Bool Lia Permutation.
From PyDcop Require Import Base P_Base M_PseudoTree M_PseudoTree2 P_PseudoTree P_PseudoTree2.
Import ListNotations.
Open Scope Z_scope.

(* ------------------------------------------------------------------ *)
(*  neighbourhoods of a well-formed graph                               *)
(* ------------------------------------------------------------------ *)
Lemma remove_first_NoDup_notin x l : NoDup l -> ~ In x (remove_first x l).
Proof.
  induction l as [|y r IH]; simpl; intros Hnd; auto.
  inversion Hnd; subst. destruct (Z.eqb x y) eqn:E.
  - apply Z.eqb_eq in E. now subst.
  - apply Z.eqb_neq in E. intros [H|H]; [congruence|]. now apply IH.
Qed.

Lemma remove_first_In_iff x l y : NoDup l -> (In y (remove_first x l) <-> In y l /\ y <> x).
Proof.
  intros Hnd. split.
  - intros H. split; [eapply remove_first_incl; eauto|].
    intros ->. eapply remove_first_NoDup_notin; eauto.
  - intros [H1 H2]. now apply remove_first_keeps.
Qed.

Lemma remove_first_NoDup x l : NoDup l -> NoDup (remove_first x l).
Proof.
  induction l as [|y r IH]; simpl; intros Hnd; auto.
  inversion Hnd; subst. destruct (Z.eqb x y); auto.
  constructor; auto. intros H. apply remove_first_incl in H. contradiction.
Qed.

Lemma remove_first_length x l : In x l -> S (List.length (remove_first x l)) = List.length l.
Proof.
  induction l as [|y r IH]; simpl; [intros []|].
  destruct (Z.eqb x y) eqn:E; auto. apply Z.eqb_neq in E.
  intros [H|H]; [congruence|]. simpl. now rewrite IH.
Qed.

Lemma remove_first_length_le x l : (List.length (remove_first x l) <= List.length l)%nat.
Proof.
  induction l as [|y r IH]; simpl; auto. destruct (Z.eqb x y); simpl; lia.
Qed.

Lemma inner_fold_NoDup dv nodes : forall acc, NoDup acc ->
  NoDup (fold_left (fun acc n => if zmem n dv && negb (zmem n acc) then acc ++ [n] else acc) nodes acc).
Proof.
  induction nodes as [|n r IH]; intros acc Hnd; simpl; auto.
  apply IH. destruct (zmem n dv); simpl; auto.
  destruct (zmem n acc) eqn:E; simpl; auto.
  apply NoDup_app_snoc; auto. intros H. apply zmem_In in H. congruence.
Qed.

Lemma find_neighbors_NoDup v rels nodes : NoDup (find_neighbors v rels nodes).
Proof.
  unfold find_neighbors.
  assert (G : forall acc, NoDup acc -> NoDup (fold_left (fun acc sc =>
      if zmem v sc then
        let dv := remove_first v sc in
        fold_left (fun acc n => if zmem n dv && negb (zmem n acc) then acc ++ [n] else acc)
                  nodes acc
      else acc) rels acc)).
  { induction rels as [|sc r IH]; intros acc Hnd; simpl; auto.
    apply IH. destruct (zmem v sc); auto. now apply inner_fold_NoDup. }
  apply G. constructor.
Qed.

Section WF.
  Variable rels : list (list Z).
  Hypothesis rels_nodup : forall sc, In sc rels -> NoDup sc.

  Lemma nbr_irrefl vars x : ~ In x (nbr vars rels x).
  Proof.
    unfold nbr. destruct (zmem x vars); [|intros []].
    rewrite find_neighbors_spec. intros [_ [sc [H1 [H2 H3]]]].
    eapply remove_first_NoDup_notin; eauto.
  Qed.

  Lemma nbr_nodup vars x : NoDup (nbr vars rels x).
  Proof. unfold nbr. destruct (zmem x vars); [apply find_neighbors_NoDup|constructor]. Qed.

  Lemma nbr_intro vars sc a b :
    In sc rels -> In a sc -> In b sc -> a <> b -> In a vars -> In b vars ->
    In b (nbr vars rels a).
  Proof.
    intros Hsc Ha Hb Hne Hav Hbv. unfold nbr.
    assert (E : zmem a vars = true) by now apply zmem_In. rewrite E.
    apply find_neighbors_spec. split; auto. exists sc. repeat split; auto.
    apply remove_first_keeps; auto.
  Qed.

  (* ---------------------------------------------------------------- *)
  (*  one DFS tree                                                      *)
  (* ---------------------------------------------------------------- *)
  Lemma getb_init vars x :
    getb (init_state vars rels) x = mkB (nbr vars rels x) None [] [] [] [] false.
  Proof.
    unfold getb, init_state. rewrite zlookup_map_init. unfold nbr.
    destruct (zmem x vars); reflexivity.
  Qed.

  Lemma G_init vars r : G (nbr vars rels) r (init_state vars rels).
  Proof.
    set (st := init_state vars rels).
    assert (ENb : forall a, fNb st a = nbr vars rels a) by (intros; unfold fNb, st; now rewrite getb_init).
    assert (EVi : forall a, fVi st a = []) by (intros; unfold fVi, st; now rewrite getb_init).
    assert (ECh : forall a, fCh st a = []) by (intros; unfold fCh, st; now rewrite getb_init).
    assert (EPc : forall a, fPc st a = []) by (intros; unfold fPc, st; now rewrite getb_init).
    assert (EPp : forall a, fPp st a = []) by (intros; unfold fPp, st; now rewrite getb_init).
    assert (EP : forall a, fP st a = None) by (intros; unfold fP, st; now rewrite getb_init).
    assert (ER : forall a, fR st a = false) by (intros; unfold fR, st; now rewrite getb_init).
    constructor.
    - intros x y. rewrite ENb. tauto.
    - intros x. rewrite ENb. apply nbr_nodup.
    - intros x _. rewrite EVi, ECh, EPc, EPp. auto.
    - intros a b. rewrite EVi. intros [].
    - intros a p. rewrite EP. discriminate.
    - intros a b. rewrite EVi. intros [].
    - intros a b. rewrite EPc. intros [].
    - intros a p. rewrite ECh, EP. split; [intros []|discriminate].
    - intros a p. rewrite EP. discriminate.
    - intros a. rewrite ECh. constructor.
    - intros a. rewrite EPp. constructor.
    - intros a. rewrite EPc. constructor.
    - intros a b. rewrite EPc. intros [].
    - intros a b. rewrite EPp. intros [].
    - exists (fun _ => O). intros a p. rewrite EP. discriminate.
    - intros a p. rewrite EP. discriminate.
    - intros a. rewrite ER. discriminate.
  Qed.

  Lemma choose_root_Some st vars : vars <> [] -> exists r, choose_root st vars = Some r.
  Proof.
    intros Hne. unfold choose_root. set (l := isort _ vars).
    destruct (rev l) as [|r q] eqn:E; eauto. exfalso.
    destruct vars as [|v vs]; [congruence|].
    assert (In v l) by (unfold l; apply isort_In; now left).
    apply in_rev in H. rewrite E in H. destruct H.
  Qed.

  Lemma gen_ok vars : vars <> [] ->
    exists r st, gen_dfs_tree vars rels = Some (r, st) /\ In r vars /\
      G (nbr vars rels) r st /\ (forall a, disc st a -> done (nbr vars rels) st a) /\
      fR st r = true.
  Proof.
    intros Hne. unfold gen_dfs_tree.
    destruct (choose_root_Some (init_state vars rels) vars Hne) as [r Er]. rewrite Er.
    pose proof (choose_root_In _ _ _ Er) as Hr.
    destruct (root_ok (nbr vars rels) vars r (nbr_sym vars rels) (nbr_irrefl vars)
                (fun x y H => proj2 (nbr_vars vars rels x y H))
                (S (List.length vars)) (init_state vars rels) (G_init vars r))
      as [st' [He [HG [Hd HR]]]]; auto.
    - intros a. unfold white, fP, fR. rewrite getb_init. auto.
    - lia.
    - rewrite He. exists r, st'. auto.
  Qed.
End WF.

(* ------------------------------------------------------------------ *)
(*  the preorder listing of one tree                                    *)
(* ------------------------------------------------------------------ *)
Lemma NoDup_app_intro {A} (l1 l2 : list A) :
  NoDup l1 -> NoDup l2 -> (forall a, In a l1 -> ~ In a l2) -> NoDup (l1 ++ l2).
Proof.
  induction l1 as [|x r IH]; simpl; intros H1 H2 H; auto.
  inversion H1; subst. constructor.
  - rewrite in_app_iff. intros [H0|H0]; auto. eapply H; eauto.
  - apply IH; auto.
Qed.

Section Visit.
  Variables (nb : Z -> list Z) (root : Z) (st : bstate).
  Hypothesis HG : G nb root st.

  Lemma banc_trans a b c : banc st a b -> banc st b c -> banc st a c.
  Proof.
    intros H1 H2. induction H2.
    - eapply banc_up; eauto.
    - eapply banc_up; eauto.
  Qed.

  Lemma banc_irrefl a : ~ banc st a a.
  Proof.
    intros H. destruct (g_ranked _ _ _ HG) as [d Hd].
    pose proof (banc_depth st d Hd _ _ H). lia.
  Qed.

  Lemma banc_child_disc x a : banc st x a -> disc st a.
  Proof. intros H. left. inversion H; congruence. Qed.

  Lemma banc_first_child x a :
    banc st x a -> exists c, fP st c = Some x /\ (a = c \/ banc st c a).
  Proof.
    intros H. induction H as [x a Hp | x b a Hp H IH].
    - exists a. auto.
    - destruct IH as [c [Hc [->|Hb]]]; exists c; split; auto; right.
      + now apply banc_parent.
      + eapply banc_up; eauto.
  Qed.

  Lemma banc_depth_unique (d : Z -> nat) :
    (forall a p, fP st a = Some p -> d a = S (d p)) ->
    forall u a, banc st u a -> forall v, banc st v a -> d u = d v -> u = v.
  Proof.
    intros Hd u a Hu. induction Hu as [u a Hp | u b a Hp Hu IH]; intros v Hv Heq.
    - inversion Hv; subst.
      + congruence.
      + assert (b = u) by congruence. subst b.
        pose proof (banc_depth st d Hd _ _ H0). lia.
    - inversion Hv; subst.
      + assert (b = v) by congruence. subst b.
        pose proof (banc_depth st d Hd _ _ Hu). lia.
      + assert (b0 = b) by congruence. subst b0. apply IH; auto.
  Qed.

  Lemma children_disjoint x c c' a :
    fP st c = Some x -> fP st c' = Some x ->
    (a = c \/ banc st c a) -> (a = c' \/ banc st c' a) -> c = c'.
  Proof.
    intros Hc Hc' H1 H2. destruct (g_ranked _ _ _ HG) as [d Hd].
    pose proof (Hd _ _ Hc) as D1. pose proof (Hd _ _ Hc') as D2.
    destruct H1 as [->|H1]; destruct H2 as [H2|H2]; auto.
    - pose proof (banc_depth st d Hd _ _ H2). lia.
    - subst a. pose proof (banc_depth st d Hd _ _ H1). lia.
    - eapply banc_depth_unique; eauto. lia.
  Qed.

  Lemma visit_loop_ok rec x : forall cs,
    NoDup cs -> (forall c, In c cs -> fP st c = Some x) ->
    (forall c, In c cs -> exists l, rec c = Some l /\ NoDup l /\
                                    forall a, In a l <-> a = c \/ banc st c a) ->
    exists l, visit_loop rec cs = Some l /\ NoDup l /\
       forall a, In a l <-> exists c, In c cs /\ (a = c \/ banc st c a).
  Proof.
    induction cs as [|c cs IH]; intros Hnd Hp Hrec; simpl.
    - exists []. split; auto. split; [constructor|]. intros a. split; [intros []|intros [c [[] _]]].
    - inversion Hnd; subst.
      destruct (Hrec c (or_introl eq_refl)) as [lc [Ec [Nc Sc]]].
      destruct IH as [l' [El [Nl Sl]]]; auto.
      { intros c' Hc'. apply Hp. now right. }
      { intros c' Hc'. apply Hrec. now right. }
      rewrite Ec, El. exists (lc ++ l'). split; auto. split.
      + apply NoDup_app_intro; auto. intros a Ha Ha'.
        apply Sc in Ha. apply Sl in Ha' as [c' [Hc' Ha']].
        assert (c = c').
        { eapply (children_disjoint x c c' a); eauto. apply Hp. now left. apply Hp. now right. }
        subst c'. contradiction.
      + intros a. rewrite in_app_iff, Sc, Sl. split.
        * intros [Ha|[c' [Ha1 Ha2]]]; [exists c; split; auto; now left|exists c'; split; auto; now right].
        * intros [c' [[<-|Ha1] Ha2]]; auto. right. exists c'; auto.
  Qed.

  Lemma visit_ok vars : forall f x path,
    (forall y, In y path -> banc st y x) -> NoDup path -> incl (x :: path) vars ->
    (forall a, banc st x a -> In a vars) ->
    (List.length vars + 1 <= f + List.length path)%nat ->
    exists l, visit f st x = Some l /\ NoDup l /\ forall a, In a l <-> a = x \/ banc st x a.
  Proof.
    induction f as [|f IH]; intros x path Hpath Hnd Hincl Hsub Hfuel.
    - exfalso. assert (Hnd' : NoDup (x :: path)).
      { constructor; auto. intros H. apply Hpath in H. eapply banc_irrefl; eauto. }
      pose proof (NoDup_incl_length Hnd' Hincl). simpl in *. lia.
    - assert (Hnx : ~ In x path) by (intros H; apply Hpath in H; eapply banc_irrefl; eauto).
      simpl.
      destruct (visit_loop_ok (visit f st) x (b_children (getb st x))) as [l0 [E0 [N0 S0]]].
      + apply (g_nd_ch _ _ _ HG).
      + intros c Hc. apply (g_ch _ _ _ HG). exact Hc.
      + intros c Hc. apply (g_ch _ _ _ HG) in Hc.
        apply (IH c (x :: path)).
        * intros y [<-|Hy]; [now apply banc_parent|]. eapply banc_up; eauto.
        * constructor; auto.
        * intros y [<-|Hy]; [|apply Hincl; auto]. apply Hsub. now apply banc_parent.
        * intros a Ha. apply Hsub. eapply banc_trans; [|exact Ha]. now apply banc_parent.
        * simpl. lia.
      + rewrite E0. exists (x :: l0). split; auto. split.
        * constructor; auto. intros H. apply S0 in H as [c [Hc H]].
          apply (g_ch _ _ _ HG) in Hc. apply (banc_irrefl x).
          destruct H as [->|H]; [now apply banc_parent|].
          eapply banc_trans; [|exact H]. now apply banc_parent.
        * intros a. simpl. rewrite S0. split.
          -- intros [H|[c [Hc H]]]; auto. right. apply (g_ch _ _ _ HG) in Hc.
             destruct H as [->|H]; [now apply banc_parent|].
             eapply banc_trans; [|exact H]. now apply banc_parent.
          -- intros [H|H]; auto. right. apply banc_first_child in H as [c [Hc H]].
             exists c. split; auto. apply (g_ch _ _ _ HG). exact Hc.
  Qed.

  Lemma disc_reach a : disc st a -> a = root \/ banc st root a.
  Proof.
    destruct (g_ranked _ _ _ HG) as [d Hd].
    assert (Hn : forall n a, (d a <= n)%nat -> disc st a -> a = root \/ banc st root a).
    { induction n as [|n IH]; intros b Hb Hdb.
      - destruct Hdb as [H|H]; [|left; apply (g_root _ _ _ HG); auto].
        destruct (fP st b) as [p|] eqn:Ep; [|congruence]. apply Hd in Ep. lia.
      - destruct Hdb as [H|H]; [|left; apply (g_root _ _ _ HG); auto].
        destruct (fP st b) as [p|] eqn:Ep; [|congruence]. right.
        pose proof (Hd _ _ Ep). destruct (IH p) as [->|Hp]; [lia| |now apply banc_parent|].
        + eapply g_par_disc; eauto.
        + eapply banc_up; eauto. }
    intros H. eapply Hn; eauto.
  Qed.

  Lemma visit_root vars :
    In root vars -> (forall a, disc st a -> In a vars) -> fR st root = true ->
    exists l, visit (S (List.length vars)) st root = Some l /\ NoDup l /\
              forall a, In a l <-> disc st a.
  Proof.
    intros Hr Hsub HR.
    destruct (visit_ok vars (S (List.length vars)) root []) as [l [E [N S0]]].
    - intros y [].
    - constructor.
    - intros y [<-|[]]; auto.
    - intros a Ha. apply Hsub. eapply banc_child_disc; eauto.
    - simpl. lia.
    - exists l. split; auto. split; auto. intros a. rewrite S0. split.
      + intros [->|H]; [now right|eapply banc_child_disc; eauto].
      + apply disc_reach.
  Qed.
End Visit.

(* ------------------------------------------------------------------ *)
(*  validity of a (partial) forest, and its composition                 *)
(* ------------------------------------------------------------------ *)
Record TV (rels : list (list Z)) (t : tree) : Prop := {
  tv_nodup : NoDup (t_ids t);
  tv_par_ch : forall a b, t_parent t a = Some b <-> In a (t_children t b);
  tv_pp_pc : forall a b, In b (t_pps t a) <-> In a (t_pcs t b);
  tv_nd_ch : forall a, NoDup (t_children t a);
  tv_nd_pp : forall a, NoDup (t_pps t a);
  tv_nd_pc : forall a, NoDup (t_pcs t a);
  tv_pp_anc : forall a b, In b (t_pps t a) -> anc t b a;
  tv_edges : forall sc a b, In sc rels -> In a sc -> In b sc -> a <> b ->
     In a (t_ids t) -> linked t a b;
  tv_ranked : exists (d : Z -> nat) (N : nat),
     (forall a, (d a <= N)%nat) /\ (forall a p, t_parent t a = Some p -> d a = S (d p));
  tv_par_closed : forall a p, t_parent t a = Some p -> In p (t_ids t)
}.

Lemma find_node_notin t a : ~ In a (t_ids t) -> find_node t a = None.
Proof.
  intros H. destruct (find_node t a) eqn:E; auto.
  apply find_node_Some in E as [E1 E2]. exfalso. apply H. subst a. now apply in_map.
Qed.

Lemma find_app_l t1 t2 a : In a (t_ids t1) -> find_node (t1 ++ t2) a = find_node t1 a.
Proof.
  induction t1 as [|m r IH]; simpl; [intros []|].
  destruct (Z.eqb a (n_id m)) eqn:E; auto.
  intros [H|H]; auto. apply Z.eqb_neq in E. congruence.
Qed.

Lemma find_app_r t1 t2 a : ~ In a (t_ids t1) -> find_node (t1 ++ t2) a = find_node t2 a.
Proof.
  induction t1 as [|m r IH]; simpl; auto.
  intros H. destruct (Z.eqb a (n_id m)) eqn:E.
  - apply Z.eqb_eq in E. exfalso. apply H. auto.
  - apply IH. tauto.
Qed.

Lemma anc_incl t t' :
  (forall a b, t_parent t a = Some b -> t_parent t' a = Some b) ->
  forall a b, anc t a b -> anc t' a b.
Proof.
  intros H a b Ha. induction Ha.
  - apply anc_parent; auto.
  - eapply anc_up; eauto.
Qed.

Lemma anc_depth t (d : Z -> nat) :
  (forall a p, t_parent t a = Some p -> d a = S (d p)) ->
  forall a b, anc t a b -> (d a < d b)%nat.
Proof.
  intros Hd a b H. induction H.
  - apply Hd in H. lia.
  - apply Hd in H. lia.
Qed.

Lemma TV_nil rels : TV rels [].
Proof.
  constructor; simpl; try (intros; constructor; fail).
  - intros a b. unfold t_parent, t_children. simpl. split; [discriminate|intros []].
  - intros a b. unfold t_pps, t_pcs. simpl. tauto.
  - intros a b [].
  - intros sc a b _ _ _ _ [].
  - exists (fun _ => O), O. split; auto. intros a p. unfold t_parent. simpl. discriminate.
  - intros a p. unfold t_parent. simpl. discriminate.
Qed.

Section App.
  Variables (rels : list (list Z)) (t1 t2 : tree).
  Hypothesis Hdis : forall a, In a (t_ids t1) -> ~ In a (t_ids t2).

  Lemma par_app a b :
    t_parent (t1 ++ t2) a = Some b <-> t_parent t1 a = Some b \/ t_parent t2 a = Some b.
  Proof.
    unfold t_parent. destruct (in_dec Z.eq_dec a (t_ids t1)) as [H|H].
    - rewrite find_app_l by auto. split; auto. intros [H1|H1]; auto.
      rewrite (find_node_notin t2 a) in H1 by auto. discriminate.
    - rewrite find_app_r by auto. split; auto. intros [H1|H1]; auto.
      rewrite (find_node_notin t1 a) in H1 by auto. discriminate.
  Qed.

  Lemma get_app (F : ptnode -> list Z) a b :
    In b (match find_node (t1 ++ t2) a with Some n => F n | None => [] end) <->
    In b (match find_node t1 a with Some n => F n | None => [] end) \/
    In b (match find_node t2 a with Some n => F n | None => [] end).
  Proof.
    destruct (in_dec Z.eq_dec a (t_ids t1)) as [H|H].
    - rewrite find_app_l by auto. split; auto. intros [H1|H1]; auto.
      rewrite (find_node_notin t2 a) in H1 by auto. destruct H1.
    - rewrite find_app_r by auto. split; auto. intros [H1|H1]; auto.
      rewrite (find_node_notin t1 a) in H1 by auto. destruct H1.
  Qed.

  Lemma get_app_eq (F : ptnode -> list Z) a :
    let G t := match find_node t a with Some n => F n | None => [] end in
    G (t1 ++ t2) = G t1 \/ G (t1 ++ t2) = G t2.
  Proof.
    simpl. destruct (in_dec Z.eq_dec a (t_ids t1)) as [H|H].
    - left. now rewrite find_app_l.
    - right. now rewrite find_app_r.
  Qed.

  Lemma linked_app a b : linked t1 a b \/ linked t2 a b -> linked (t1 ++ t2) a b.
  Proof.
    unfold linked. rewrite !par_app. unfold t_pps. rewrite !get_app. tauto.
  Qed.

  Lemma has_parent_in t a p : t_parent t a = Some p -> In a (t_ids t).
  Proof.
    unfold t_parent. intros H. destruct (in_dec Z.eq_dec a (t_ids t)); auto.
    rewrite find_node_notin in H by auto. discriminate.
  Qed.

  Lemma TV_app : TV rels t1 -> TV rels t2 -> TV rels (t1 ++ t2).
  Proof.
    intros V1 V2. constructor.
    - rewrite t_ids_app. apply NoDup_app_intro; auto; apply tv_nodup with (rels := rels); auto.
    - intros a b. rewrite par_app. unfold t_children. rewrite get_app.
      pose proof (tv_par_ch _ _ V1 a b). pose proof (tv_par_ch _ _ V2 a b).
      unfold t_children in *. tauto.
    - intros a b. unfold t_pps, t_pcs. rewrite !get_app.
      pose proof (tv_pp_pc _ _ V1 a b). pose proof (tv_pp_pc _ _ V2 a b).
      unfold t_pps, t_pcs in *. tauto.
    - intros a. unfold t_children. destruct (get_app_eq n_children a) as [E|E]; simpl in E; rewrite E.
      + apply (tv_nd_ch _ _ V1).
      + apply (tv_nd_ch _ _ V2).
    - intros a. unfold t_pps. destruct (get_app_eq n_pps a) as [E|E]; simpl in E; rewrite E.
      + apply (tv_nd_pp _ _ V1).
      + apply (tv_nd_pp _ _ V2).
    - intros a. unfold t_pcs. destruct (get_app_eq n_pcs a) as [E|E]; simpl in E; rewrite E.
      + apply (tv_nd_pc _ _ V1).
      + apply (tv_nd_pc _ _ V2).
    - intros a b. unfold t_pps. rewrite get_app. intros [H|H].
      + apply (tv_pp_anc _ _ V1) in H. eapply anc_incl; [|exact H].
        intros x y Hx. apply par_app. auto.
      + apply (tv_pp_anc _ _ V2) in H. eapply anc_incl; [|exact H].
        intros x y Hx. apply par_app. auto.
    - intros sc a b Hsc Ha Hb Hne Hin. apply linked_app.
      rewrite t_ids_app in Hin. apply in_app_iff in Hin as [Hin|Hin].
      + left. eapply (tv_edges _ _ V1); eauto.
      + right. eapply (tv_edges _ _ V2); eauto.
    - destruct (tv_ranked _ _ V1) as [d1 [N1 [B1 D1]]].
      destruct (tv_ranked _ _ V2) as [d2 [N2 [B2 D2]]].
      exists (fun a => if in_dec Z.eq_dec a (t_ids t1) then d1 a else d2 a), (Nat.max N1 N2).
      split.
      + intros a. destruct (in_dec Z.eq_dec a (t_ids t1)).
        * pose proof (B1 a). lia.
        * pose proof (B2 a). lia.
      + intros a p Hp. apply par_app in Hp as [Hp|Hp].
        * pose proof (has_parent_in _ _ _ Hp) as Ha.
          pose proof (tv_par_closed _ _ V1 _ _ Hp) as Hpi.
          destruct (in_dec Z.eq_dec a (t_ids t1)); [|contradiction].
          destruct (in_dec Z.eq_dec p (t_ids t1)); [|contradiction]. auto.
        * pose proof (has_parent_in _ _ _ Hp) as Ha.
          pose proof (tv_par_closed _ _ V2 _ _ Hp) as Hpi.
          destruct (in_dec Z.eq_dec a (t_ids t1)) as [H|H]; [exfalso; eapply Hdis; eauto|].
          destruct (in_dec Z.eq_dec p (t_ids t1)) as [H'|H']; [exfalso; eapply Hdis; eauto|]. auto.
    - intros a p Hp. rewrite t_ids_app. apply in_app_iff. apply par_app in Hp as [Hp|Hp].
      + left. eapply (tv_par_closed _ _ V1); eauto.
      + right. eapply (tv_par_closed _ _ V2); eauto.
  Qed.
End App.

(* ------------------------------------------------------------------ *)
(*  the nodes of one DFS tree form a valid partial forest               *)
(* ------------------------------------------------------------------ *)
Lemma find_node_map_node_of rels st l a :
  find_node (map (node_of rels st) l) a =
  if in_dec Z.eq_dec a l then Some (node_of rels st a) else None.
Proof.
  induction l as [|y r IH]; simpl; auto.
  destruct (Z.eqb a y) eqn:E.
  - apply Z.eqb_eq in E. subst y. destruct (Z.eq_dec a a); [reflexivity|congruence].
  - apply Z.eqb_neq in E. rewrite IH. destruct (Z.eq_dec y a); [congruence|].
    destruct (in_dec Z.eq_dec a r); reflexivity.
Qed.

Definition closed (rels : list (list Z)) (vars : list Z) : Prop :=
  forall sc a b, In sc rels -> In a sc -> In b sc -> In a vars -> In b vars.

Section Component.
  Variables (rels : list (list Z)) (vars : list Z) (r : Z) (st : bstate) (visited : list Z).
  Hypothesis rels_nodup : forall sc, In sc rels -> NoDup sc.
  Hypothesis Hclosed : closed rels vars.
  Hypothesis HG : G (nbr vars rels) r st.
  Hypothesis Hdone : forall a, disc st a -> done (nbr vars rels) st a.
  Hypothesis Hinv : inv (nbr vars rels) st.
  Hypothesis Hvis : forall a, In a visited <-> disc st a.
  Hypothesis Hnd : NoDup visited.
  Hypothesis Hdv : forall a, disc st a -> In a vars.

  Let t1 := map (node_of rels st) visited.

  Lemma comp_fields a :
    t_parent t1 a = fP st a /\ t_children t1 a = fCh st a /\
    t_pps t1 a = fPp st a /\ t_pcs t1 a = fPc st a.
  Proof.
    unfold t_parent, t_children, t_pps, t_pcs, t1. rewrite find_node_map_node_of.
    destruct (in_dec Z.eq_dec a visited) as [H|H]; simpl; auto.
    assert (Hw : white st a) by (apply not_disc_white; intros Hd; apply H; now apply Hvis).
    destruct (g_white _ _ _ HG _ Hw) as [_ [W2 [W3 W4]]]. destruct Hw as [W0 _].
    rewrite W0, W2, W3, W4. auto.
  Qed.

  Lemma banc_anc a b : banc st a b -> anc t1 a b.
  Proof.
    intros H. induction H.
    - apply anc_parent. destruct (comp_fields b) as [E _]. congruence.
    - eapply anc_up; eauto. destruct (comp_fields c) as [E _]. congruence.
  Qed.

  Lemma comp_closed_nb a y : disc st a -> In y (nbr vars rels a) -> disc st y.
  Proof.
    intros Ha Hy. destruct (Hdone a Ha y Hy) as [H|H]; apply (g_vi_disc _ _ _ HG) in H; tauto.
  Qed.

  Lemma comp_TV : TV rels t1.
  Proof.
    destruct (g_ranked _ _ _ HG) as [d Hd].
    constructor.
    - unfold t1. rewrite t_ids_node_of. exact Hnd.
    - intros a b. destruct (comp_fields a) as [E1 _]. destruct (comp_fields b) as [_ [E2 _]].
      rewrite E1, E2. symmetry. apply (g_ch _ _ _ HG).
    - intros a b. destruct (comp_fields a) as [_ [_ [E3 _]]].
      destruct (comp_fields b) as [_ [_ [_ E4]]]. rewrite E3, E4. split.
      + intros Hpp.
        assert (Hda : disc st a).
        { destruct (disc_or_white st a) as [H|H]; auto.
          destruct (g_white _ _ _ HG _ H) as [_ [_ [_ W4]]]. rewrite W4 in Hpp. destruct Hpp. }
        assert (Hnb : In b (nbr vars rels a)).
        { destruct (Hinv a) as [_ [_ [H _]]]. apply H. exact Hpp. }
        pose proof (g_pp_anc _ _ _ HG _ _ Hpp) as Hba.
        pose proof (banc_depth st d Hd _ _ Hba) as Hlt.
        destruct (Hdone a Hda b Hnb) as [H|H]; apply (g_vi _ _ _ HG) in H as [H|H]; auto.
        * exfalso. eapply (g_par_pp _ _ _ HG); eauto.
        * exfalso. apply (g_pc_pp _ _ _ HG) in H. apply (g_pp_anc _ _ _ HG) in H.
          pose proof (banc_depth st d Hd _ _ H). lia.
        * exfalso. apply Hd in H. lia.
      + apply (g_pc_pp _ _ _ HG).
    - intros a. destruct (comp_fields a) as [_ [E _]]. rewrite E. apply (g_nd_ch _ _ _ HG).
    - intros a. destruct (comp_fields a) as [_ [_ [E _]]]. rewrite E. apply (g_nd_pp _ _ _ HG).
    - intros a. destruct (comp_fields a) as [_ [_ [_ E]]]. rewrite E. apply (g_nd_pc _ _ _ HG).
    - intros a b. destruct (comp_fields a) as [_ [_ [E _]]]. rewrite E. intros H.
      apply banc_anc. apply (g_pp_anc _ _ _ HG); auto.
    - intros sc a b Hsc Ha Hb Hne Hin. unfold t1 in Hin. rewrite t_ids_node_of in Hin.
      apply Hvis in Hin.
      assert (Hav : In a vars) by (apply Hdv; exact Hin).
      assert (Hbv : In b vars) by (eapply Hclosed; eauto).
      assert (Hnb : In b (nbr vars rels a)) by (eapply nbr_intro; eauto).
      unfold linked. destruct (comp_fields a) as [Ea1 [_ [Ea3 _]]].
      destruct (comp_fields b) as [Eb1 [_ [Eb3 _]]]. rewrite Ea1, Ea3, Eb1, Eb3.
      destruct (Hdone a Hin b Hnb) as [H|H]; apply (g_vi _ _ _ HG) in H as [H|H]; auto.
      + right; right; right. apply (g_pc_pp _ _ _ HG); auto.
      + right; left. apply (g_pc_pp _ _ _ HG); auto.
    - exists (fun a => if in_dec Z.eq_dec a visited then d a else O),
             (list_max (map d visited)).
      split.
      + intros a. destruct (in_dec Z.eq_dec a visited) as [H|H]; [|lia].
        assert (Hm : forall l, In a l -> (d a <= list_max (map d l))%nat).
        { induction l as [|y q IH]; simpl; [intros []|]. intros [->|H1]; [lia|].
          apply IH in H1. lia. }
        auto.
      + intros a p Hp. destruct (comp_fields a) as [E _]. rewrite E in Hp.
        assert (Ha : In a visited) by (apply Hvis; left; congruence).
        assert (Hpv : In p visited) by (apply Hvis; eapply g_par_disc; eauto).
        destruct (in_dec Z.eq_dec a visited); [|contradiction].
        destruct (in_dec Z.eq_dec p visited); [|contradiction]. auto.
    - intros a p Hp. destruct (comp_fields a) as [E _]. rewrite E in Hp.
      unfold t1. rewrite t_ids_node_of. apply Hvis. eapply g_par_disc; eauto.
  Qed.
End Component.

(* ------------------------------------------------------------------ *)
(*  the forest loop                                                     *)
(* ------------------------------------------------------------------ *)
Lemma fold_remove_spec visited : forall vars, NoDup vars ->
  let vars' := fold_left (fun l v => remove_first v l) visited vars in
  (forall y, In y vars' <-> In y vars /\ ~ In y visited) /\ NoDup vars' /\
  (List.length vars' <= List.length vars)%nat /\
  (forall r, In r visited -> In r vars -> (List.length vars' < List.length vars)%nat).
Proof.
  induction visited as [|v q IH]; intros vars Hnd; simpl.
  - split; [tauto|]. split; [auto|]. split; [lia|]. intros r [].
  - pose proof (remove_first_NoDup v vars Hnd) as Hnd1.
    destruct (IH _ Hnd1) as [I1 [I2 [I3 I4]]].
    pose proof (remove_first_length_le v vars) as Hle.
    split; [|split; [|split]]; auto.
    + intros y. rewrite I1, remove_first_In_iff by auto. intuition.
    + lia.
    + intros r [->|Hr] Hrv.
      * pose proof (remove_first_length r vars Hrv). lia.
      * destruct (Z.eq_dec r v) as [->|Hne].
        -- pose proof (remove_first_length v vars Hrv). lia.
        -- assert (In r (remove_first v vars)) by (apply remove_first_keeps; auto).
           pose proof (I4 r Hr H). lia.
Qed.

Section Forest.
  Variable rels : list (list Z).
  Hypothesis rels_nodup : forall sc, In sc rels -> NoDup sc.

  Lemma forest_valid : forall fuel vars,
    NoDup vars -> closed rels vars -> (List.length vars <= fuel)%nat ->
    exists roots t, forest fuel vars rels = Some (roots, t) /\ TV rels t /\
                    (forall v, In v (t_ids t) <-> In v vars) /\
                    (forall x, In x roots <-> In x (t_ids t) /\ t_parent t x = None).
  Proof.
    induction fuel as [|fuel IH]; intros vars Hnd Hcl Hlen.
    - destruct vars; [|simpl in Hlen; lia]. exists [], []. simpl.
      split; auto. split; [apply TV_nil|]. split; tauto.
    - destruct vars as [|v0 vr].
      { exists [], []. simpl. split; auto. split; [apply TV_nil|]. split; tauto. }
      remember (v0 :: vr) as vars.
      assert (Hne : vars <> []) by (subst; discriminate).
      assert (Hf : forest (S fuel) vars rels =
        match gen_dfs_tree vars rels with
        | None => None
        | Some (r, st) =>
            match visit (S (List.length vars)) st r with
            | None => None
            | Some visited =>
                let vars' := fold_left (fun l v => remove_first v l) visited vars in
                match forest fuel vars' rels with
                | None => None
                | Some (roots, nodes) => Some (r :: roots, map (node_of rels st) visited ++ nodes)
                end
            end
        end) by (rewrite Heqvars; reflexivity).
      rewrite Hf. clear Hf.
      destruct (gen_ok rels rels_nodup vars Hne) as [r [st [Eg [Hr [HG [Hdone HR]]]]]].
      rewrite Eg.
      destruct (gen_dfs_tree_ok _ _ _ _ Eg) as [_ Hinv].
      assert (Hdv : forall a, disc st a -> In a vars).
      { intros a [H|H].
        - destruct (fP st a) as [p|] eqn:Ep; [|congruence].
          destruct (Hinv a) as [_ [_ [_ [_ H5]]]]. apply H5 in Ep. now apply nbr_vars in Ep.
        - apply (g_root _ _ _ HG) in H as [-> _]. exact Hr. }
      destruct (visit_root _ _ _ HG vars Hr Hdv HR) as [visited [Ev [Nv Sv]]].
      rewrite Ev. cbv zeta.
      destruct (fold_remove_spec visited vars Hnd) as [F1 [F2 [F3 F4]]]. cbv zeta in F1, F2, F3, F4.
      set (vars' := fold_left (fun l v => remove_first v l) visited vars) in *.
      assert (Hrv : In r visited) by (apply Sv; now right).
      assert (Hcl' : closed rels vars').
      { intros sc a b Hsc Ha Hb Hav. apply F1 in Hav as [Hav Hnv]. apply F1.
        split; [eapply Hcl; eauto|]. intros Hbv. apply Hnv.
        destruct (Z.eq_dec a b) as [->|Hab]; auto.
        apply Sv in Hbv. apply Sv.
        eapply (comp_closed_nb rels vars r st HG Hdone b a); auto.
        eapply nbr_intro; eauto. }
      destruct (IH vars' F2 Hcl') as [roots [t2 [Ef [V2 [N2 R2]]]]].
      { pose proof (F4 r Hrv Hr). lia. }
      rewrite Ef. exists (r :: roots), (map (node_of rels st) visited ++ t2).
      split; auto. split.
      + apply TV_app.
        * intros a Ha. rewrite t_ids_node_of in Ha. intros Ha2. apply N2 in Ha2.
          apply F1 in Ha2. tauto.
        * apply (comp_TV rels vars r st visited); auto.
        * exact V2.
      + split.
        * intros v. rewrite t_ids_app, t_ids_node_of, in_app_iff, N2, F1. split.
          -- intros [H|[H _]]; auto. apply Hdv. now apply Sv.
          -- intros H. destruct (in_dec Z.eq_dec v visited); auto.
        * intros x. rewrite t_ids_app, t_ids_node_of, in_app_iff. unfold t_parent.
          destruct (in_dec Z.eq_dec x visited) as [Hx|Hx].
          -- rewrite find_app_l by (now rewrite t_ids_node_of).
             rewrite find_node_map_node_of. destruct (in_dec Z.eq_dec x visited); [|contradiction].
             simpl. fold (fP st x). split.
             ++ intros [<-|Hxr].
                ** split; auto. apply (g_root _ _ _ HG); auto.
                ** exfalso. apply R2 in Hxr as [Hxr _]. apply N2 in Hxr. apply F1 in Hxr. tauto.
             ++ intros [_ Hp]. left. apply Sv in Hx. destruct Hx as [Hx|Hx]; [congruence|].
                symmetry. apply (g_root _ _ _ HG); auto.
          -- rewrite find_app_r by (now rewrite t_ids_node_of). fold (t_parent t2 x). split.
             ++ intros [<-|Hxr]; [contradiction|]. apply R2 in Hxr. tauto.
             ++ intros [[H|H] Hp]; [contradiction|]. right. apply R2. auto.
  Qed.
End Forest.

(* ------------------------------------------------------------------ *)
(*  the builder: never out of fuel, result valid                        *)
(* ------------------------------------------------------------------ *)
(* what every DCOP guarantees: distinct variables; a constraint does not list a variable
   twice and ranges over variables of the problem *)
Definition wf_graph (g : graph) : Prop :=
  NoDup (g_vars g) /\ forall sc, In sc (g_rels g) -> NoDup sc /\ incl sc (g_vars g).

Lemma TV_valid g roots t :
  wf_graph g -> build g = Some (roots, t) -> TV (g_rels g) t ->
  (forall v, In v (t_ids t) <-> In v (g_vars g)) -> PT_valid g t.
Proof.
  intros [Hnd Hsc] Hb V Hn.
  pose proof (build_constraints_l g roots t Hb) as Hc.
  destruct (tv_ranked _ _ V) as [d [N [HB HD]]].
  constructor.
  - apply (tv_nodup _ _ V).
  - exact Hn.
  - apply (tv_par_ch _ _ V).
  - apply (tv_pp_pc _ _ V).
  - apply (tv_nd_ch _ _ V).
  - apply (tv_nd_pp _ _ V).
  - apply (tv_nd_pc _ _ V).
  - intros a H. pose proof (anc_depth t d HD _ _ H). lia.
  - apply (tv_pp_anc _ _ V).
  - intros sc a b H1 H2 H3 H4. eapply (tv_edges _ _ V); eauto.
    apply Hn. destruct (Hsc sc H1) as [_ Hi]. apply Hi. exact H2.
  - intros a. unfold t_rels. destruct (find_node t a) as [n|] eqn:E; [|constructor].
    apply find_node_Some in E as [E _]. apply (Hc n E).
  - intros a c Ha. apply find_node_In in Ha as [n E]. unfold t_rels. rewrite E.
    apply find_node_Some in E as [E <-]. apply (Hc n E).
  - exists d, N. auto.
Qed.

Theorem build_valid_l g : wf_graph g ->
  exists roots t, build g = Some (roots, t) /\ PT_valid g t.
Proof.
  intros Hwf. pose proof Hwf as [Hnd Hsc]. unfold build.
  destruct (forest_valid (g_rels g) (fun sc H => proj1 (Hsc sc H))
              (S (List.length (g_vars g))) (g_vars g)) as [roots [t [E [V [N _]]]]]; auto.
  - intros sc a b H1 H2 H3 _. destruct (Hsc sc H1) as [_ Hi]. auto.
  - exists roots, t. split; auto. eapply TV_valid; eauto.
Qed.

Lemma wf_graphb_sound_l g : wf_graphb g = true -> wf_graph g.
Proof.
  unfold wf_graphb, wf_graph. intros H. apply andb_true_iff in H as [H1 H2].
  split; [now apply nodupb_NoDup|]. intros sc Hsc.
  eapply forallb_In in H2; eauto. apply andb_true_iff in H2 as [H2 H3].
  split; [now apply nodupb_NoDup|]. intros v Hv.
  eapply forallb_In in H3; eauto. now apply zmem_In.
Qed.

(* ---- corollaries in the shape of the DESIGN section-5 obligations ---- *)
Lemma build_no_fuel_l g : wf_graph g -> build g <> None.
Proof. intros H. destruct (build_valid_l g H) as [roots [t [E _]]]. congruence. Qed.

Lemma build_PT_valid_l g roots t : wf_graph g -> build g = Some (roots, t) -> PT_valid g t.
Proof.
  intros H E. destruct (build_valid_l g H) as [roots' [t' [E' V]]].
  rewrite E in E'. inversion E'; subst. exact V.
Qed.

Lemma pt_nodes_l g roots t : wf_graph g -> build g = Some (roots, t) ->
  NoDup (t_ids t) /\ forall v, In v (t_ids t) <-> In v (g_vars g).
Proof.
  intros H E. pose proof (build_PT_valid_l g roots t H E) as V.
  split; [apply (ptv_nodup g t V)|apply (ptv_nodes g t V)].
Qed.

Lemma pt_links_converse_l g roots t : wf_graph g -> build g = Some (roots, t) ->
  (forall a b, t_parent t a = Some b <-> In a (t_children t b)) /\
  (forall a b, In b (t_pps t a) <-> In a (t_pcs t b)) /\
  (forall a, NoDup (t_children t a) /\ NoDup (t_pps t a) /\ NoDup (t_pcs t a)).
Proof.
  intros H E. pose proof (build_PT_valid_l g roots t H E) as V.
  split; [apply (ptv_parent_children g t V)|]. split; [apply (ptv_pp_pc g t V)|].
  intros a. split; [apply (ptv_children_nodup g t V)|].
  split; [apply (ptv_pps_nodup g t V)|apply (ptv_pcs_nodup g t V)].
Qed.

Lemma pt_acyclic_l g roots t : wf_graph g -> build g = Some (roots, t) ->
  (forall a, ~ anc t a a) /\ (forall a, rooted t a).
Proof.
  intros H E. pose proof (build_PT_valid_l g roots t H E) as V.
  split; [apply (ptv_acyclic g t V)|apply (pt_valid_rooted_l g t V)].
Qed.

Lemma pt_edges_ancestral_l g roots t : wf_graph g -> build g = Some (roots, t) ->
  forall sc a b, In sc (g_rels g) -> In a sc -> In b sc -> a <> b ->
    (anc t a b \/ anc t b a) /\ linked t a b.
Proof.
  intros H E. pose proof (build_PT_valid_l g roots t H E) as V.
  apply (pt_valid_ancestral_l g t V).
Qed.

(* the hypothesis is needed: a constraint listing a variable twice makes the variable its
   own child; the preorder listing of the model then never ends (fuel exhausted) *)
Lemma build_needs_wf_l :
  exists g, NoDup (g_vars g) /\ (forall sc, In sc (g_rels g) -> incl sc (g_vars g)) /\
    build g = None.
Proof.
  exists (mkGraph [0] [[0; 0]]).
  split; [repeat constructor; simpl; tauto|]. split.
  - intros sc [<-|[]] v [<-|[<-|[]]]; now left.
  - vm_compute. reflexivity.
Qed.

(* the roots the builder returns are exactly the nodes without parent *)
Lemma pt_roots_l g roots t : wf_graph g -> build g = Some (roots, t) ->
  forall x, In x roots <-> In x (t_ids t) /\ t_parent t x = None.
Proof.
  intros Hwf Hb. pose proof Hwf as [Hnd Hsc]. unfold build in Hb.
  destruct (forest_valid (g_rels g) (fun sc H => proj1 (Hsc sc H))
              (S (List.length (g_vars g))) (g_vars g)) as [roots' [t' [E [_ [_ R]]]]]; auto.
  - intros sc a b H1 H2 H3 _. destruct (Hsc sc H1) as [_ Hi]. auto.
  - rewrite Hb in E. inversion E; subst. exact R.
Qed.
