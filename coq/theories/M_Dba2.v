(* M_Dba2.v -- vocabulary of the round-synchronisation (barrier) invariant of the DBA model
   M_Dba.v, property C09.  Definitions only; proofs in P_Dba2.v.

   Every computation broadcasts, to all its neighbours, the sequence of messages
       ok?_0, improve_0, ok?_1, improve_1, ...
   ([msg_of a i] is the i-th one, computed by the SYNCHRONOUS semantics [srounds] of M_Dba.v).
   [ph] counts the broadcasts a computation has made, [hd s a] the messages of neighbour a the
   computation has handled (not merely postponed); the [pipe] from a to b is everything a has sent
   and b has not handled yet: postponed list, pre-start buffer, channel - in that order. *)
From PyDcop Require Import Base Net M_Dba.

(* the fields that carry information from one phase to the next; the agent view, the mode and the
   postponed lists are bookkeeping of the message layer *)
Definition core (s : dst) : dst :=
  mkD OkM (d_value s) (d_cost s) (d_w s) (d_viol s) [] [] [] [] (d_tc s) (d_cons s) (d_can s) (d_qlm s)
      (d_imp s) (d_new s) (d_cycle s) (d_orc s).

Definition impm (m : Z * Z * Z) : dmsg := let '(x, y, z) := m in MImp x y z.

(* cycle_count as a natural number *)
Definition cyc (s : dst) : nat := Z.to_nat (d_cycle s).

(* number of messages of EVERY neighbour handled before the current phase *)
Definition base (s : dst) : nat :=
  match d_mode s with OkM => 2 * cyc s | ImpM => 2 * cyc s + 1 | _ => 0 end.
(* the current-phase message of neighbour a has been handled *)
Definition got (s : dst) (a : node) : bool :=
  match d_mode s with
  | OkM => zmem a (map fst (d_nvals s))
  | ImpM => zmem a (d_nimps s)
  | _ => false
  end.
Definition hd (s : dst) (a : node) : nat := (base s + (if got s a then 1 else 0))%nat.

(* number of broadcasts made *)
Definition ph (w : nwrap dst dmsg) : nat :=
  if w_running w then match d_mode (w_st w) with OkM | ImpM => S (base (w_st w)) | _ => O end else O.

Definition fromI (a : node) (l : list (node * (Z * Z * Z))) : list dmsg :=
  map (fun p => impm (snd p)) (filter (fun p => Z.eqb (fst p) a) l).
Definition fromO (a : node) (l : list (node * Z)) : list dmsg :=
  map (fun p => MOk (snd p)) (filter (fun p => Z.eqb (fst p) a) l).
Definition fromH (a : node) (l : list (node * dmsg)) : list dmsg :=
  map snd (filter (fun p => Z.eqb (fst p) a) l).

(* the postponed messages of neighbour a (the next-phase ones) *)
Definition post (s : dst) (a : node) : list dmsg :=
  match d_mode s with
  | OkM => fromI a (d_pimp s)
  | ImpM => fromO a (d_pok s)
  | Starting => fromO a (d_pok s)
  | FinM => []
  end.

Definition pipe (cf : config dst dmsg) (a b : node) : list dmsg :=
  post (w_st (nodes cf b)) a ++ fromH a (w_held (nodes cf b)) ++ chan cf a b.

Section Barrier.
  Variable cs : list constr.
  Variable ncs : node -> list nat.
  Variable dom : node -> list Z.
  Variable infinity maxd : Z.
  Variable orc0 : node -> list Z.

  (* the synchronous run: round k starts in [G k] *)
  Definition G (k : nat) : gst := srounds cs ncs dom infinity maxd k (sinit cs ncs dom infinity orc0).
  (* state of a after the ok? phase of round k, and the improve message it broadcasts *)
  Definition aok (k : nat) (a : node) : dst := fst (fst (after_ok cs ncs dom infinity (G k) a)).
  Definition mimp (k : nat) (a : node) : Z * Z * Z := imp_msg (aok k a).

  (* the i-th message every neighbour of a receives from a *)
  Definition msg_of (a : node) (i : nat) : dmsg :=
    if Nat.even i then MOk (sassign (G (Nat.div2 i)) a) else impm (mimp (Nat.div2 i) a).

  (* state of b after handling, in this order, the improve messages of round k of the neighbours l *)
  Definition aimp (k : nat) (b : node) (l : list node) : dst :=
    fold_left (fun s m => imp_core b s m (mimp k m)) l (aok k b).

  (* what a started computation looks like between two deliveries, in terms of the synchronous run *)
  Definition node_ok (b : node) (s : dst) : Prop :=
    (0 <= d_cycle s)%Z /\
    match d_mode s with
    | OkM =>
        d_value s = d_value (G (cyc s) b)
        /\ NoDup (map fst (d_nvals s)) /\ incl (map fst (d_nvals s)) (nbrs cs ncs b)
        /\ (forall a v, In (a, v) (d_nvals s) -> v = sassign (G (cyc s)) a)
        /\ ( (* waiting for ok? messages of cycle [cyc s] *)
             ((nbrs cs ncs b <> [] -> (List.length (d_nvals s) < nnb cs ncs b)%nat)
              /\ core s = core (G (cyc s) b) /\ d_pok s = [] /\ d_nimps s = [])
             \/ (* improve() raised IndexError: the computation is stuck with a complete view *)
             (List.length (d_nvals s) = nnb cs ncs b /\ nbrs cs ncs b <> []
              /\ (* ... and the synchronous improve() of that round raises too *)
              snd (after_ok cs ncs dom infinity (G (cyc s)) b) = true))
    | ImpM =>
        d_value s = d_value (G (cyc s) b)
        /\ NoDup (d_nimps s) /\ incl (d_nimps s) (nbrs cs ncs b)
        /\ (List.length (d_nimps s) < nnb cs ncs b)%nat /\ d_pimp s = []
        /\ core s = core (aimp (cyc s) b (d_nimps s))
    | Starting => (* on_start raised (empty domain): nothing was ever sent *)
        d_pimp s = []
    | FinM => False
    end.

  (* the barrier invariant *)
  Record Inv (cf : config dst dmsg) : Prop := {
    I_idle : forall b, w_running (nodes cf b) = false -> w_st (nodes cf b) = dba_init ncs orc0 b;
    I_held : forall b, w_running (nodes cf b) = true -> w_held (nodes cf b) = [];
    I_pipe : forall a b, In a (nbrs cs ncs b) ->
       pipe cf a b = map (msg_of a) (seq (hd (w_st (nodes cf b)) a) (ph (nodes cf a) - hd (w_st (nodes cf b)) a))
       /\ (hd (w_st (nodes cf b)) a <= ph (nodes cf a))%nat;
    I_non : forall a b, ~ In a (nbrs cs ncs b) -> pipe cf a b = [];
    I_node : forall b, w_running (nodes cf b) = true -> node_ok b (w_st (nodes cf b))
  }.
End Barrier.
