(* M_Gen.v -- executable model of the problem / scenario generators (C30):
   pydcop/commands/generators/graphcoloring.py (generate, generate_hard_constraints,
   generate_soft_constraints), ising.py (generate_ising and its helpers), scenario.py
   (generate_scenario).  Models only; proofs are in P_Gen.v.

   What comes from outside is an explicit argument: the networkx graph (node list, edge list,
   in networkx's order), the values drawn by random.randint / random.uniform / random.sample
   (oracle lists).  Tables are tabulated over domain indices. *)
From PyDcop Require Import Base M_AgentDef.

Inductive gerr := EValue | EKeyG | EOracle.   (* ValueError, KeyError, oracle list exhausted *)
Inductive gres (A : Type) := GOk (a : A) | GErr (e : gerr).
Arguments GOk {A} a.
Arguments GErr {A} e.

Definition str_of_nat (i : nat) : string := str_of_N (N.of_nat i).
Definition str_of_Z (z : Z) : string := str_of_N (Z.to_N z).     (* non-negative only *)

Fixpoint enumerate_from {A} (i : nat) (l : list A) : list (nat * A) :=
  match l with [] => [] | x :: r => (i, x) :: enumerate_from (S i) r end.

(* a constraint as the generators build it: name, scope (variable names), whether it is an
   expression (intentional) or a matrix (extensional), and its value table over the
   domain indices (one row per value of the first variable; unary: a single row) *)
Record constraint := mkC {
  c_name : string; c_scope : list string; c_int : bool; c_table : list (list Z) }.

Definition tabulate2 (k : nat) (f : nat -> nat -> Z) : list (list Z) :=
  map (fun i => map (fun j => f i j) (seq 0 k)) (seq 0 k).

Fixpoint upd {A} (i : nat) (v : A) (l : list A) : list A :=
  match l, i with
  | [], _ => []
  | _ :: r, O => v :: r
  | x :: r, S i' => x :: upd i' v r
  end.
Definition cell (m : list (list Z)) (i j : nat) : Z := nth j (nth i m []) 0.
(* NAryMatrixRelation.set_value_for_assignment on a 2-dimensional matrix *)
Definition upd2 (i j : nat) (v : Z) (m : list (list Z)) : list (list Z) :=
  upd i (upd j v (nth i m [])) m.
Definition zeros2 (k : nat) : list (list Z) := repeat (repeat 0 k) k.

(* ================= graph colouring ================= *)
Definition COLORS : list string := ["R"; "G"; "B"; "O"; "F"; "Y"; "L"; "C"]%string.

Definition var_name (i : nat) : string := ("v" ++ zero_pad 2 (N.of_nat i))%string.
Definition agt_name (i : nat) : string := ("a" ++ zero_pad 2 (N.of_nat i))%string.

(* for i, node in enumerate(sorted(graph.nodes)): variables[node] = Variable(f"v{i:02d}") *)
Definition gc_variables (nodes : list Z) : list (Z * string) :=
  dict_of_list Z.eqb (map (fun p => (snd p, var_name (fst p))) (enumerate_from 0 (isort Z.leb nodes))).

(* hard, extensional: zeros, then 1000 on (val, val) for every val of the domain *)
Definition ext_hard (k : nat) : list (list Z) :=
  fold_left (fun m i => upd2 i i 1000 m) (seq 0 k) (zeros2 k).
(* hard, intentional: "1000 if v1 == v2 else 0" *)
Definition int_hard (k : nat) : list (list Z) :=
  tabulate2 k (fun i j => if Nat.eqb i j then 1000 else 0).

Definition cname (i : nat) : string := ("c" ++ str_of_nat i)%string.

(* generate_hard_constraints *)
Fixpoint hard_loop (k : nat) (vars : list (Z * string)) (intentional : bool) (i : nat)
  (edges : list (Z * Z)) (acc : list (string * constraint)) : gres (list (string * constraint)) :=
  match edges with
  | [] => GOk acc
  | (u, v) :: r =>
      match zlookup u vars, zlookup v vars with
      | Some v1, Some v2 =>
          let c := mkC (cname i) [v1; v2] intentional (if intentional then int_hard k else ext_hard k) in
          hard_loop k vars intentional (S i) r (dict_set String.eqb (cname i) c acc)
      | _, _ => GErr EKeyG
      end
  end.

(* k rows of k oracle values *)
Fixpoint take_rows (rows k : nat) (rnd : list Z) : option (list (list Z) * list Z) :=
  match rows with
  | O => Some ([], rnd)
  | S n =>
      if Nat.ltb (List.length rnd) k then None
      else match take_rows n k (skipn k rnd) with
           | Some (m, rest) => Some (firstn k rnd :: m, rest)
           | None => None
           end
  end.

(* generate_soft_constraints (extensional only): every cell gets random.randint(0, 9),
   first variable's value outermost *)
Fixpoint soft_loop (k : nat) (vars : list (Z * string)) (i : nat) (edges : list (Z * Z))
  (rnd : list Z) (acc : list (string * constraint)) : gres (list (string * constraint)) :=
  match edges with
  | [] => GOk acc
  | (u, v) :: r =>
      match zlookup u vars, zlookup v vars with
      | Some v1, Some v2 =>
          match take_rows k k rnd with
          | Some (m, rest) =>
              soft_loop k vars (S i) r rest
                        (dict_set String.eqb (cname i) (mkC (cname i) [v1; v2] false m) acc)
          | None => GErr EOracle
          end
      | _, _ => GErr EKeyG
      end
  end.

Record gc_out := mkGc {
  gc_name : string; gc_domain : list string; gc_vars : list string; gc_agents : list string;
  gc_constraints : list (string * constraint) }.

(* generate(args) after the graph has been drawn.  [kind]: "Random ", "Scale-free ", "Grid". *)
Definition gc_generate (colors : nat) (kind : string) (soft intentional noagents : bool)
  (nodes : list Z) (edges : list (Z * Z)) (rnd : list Z) : gres gc_out :=
  let vars := gc_variables nodes in
  (* the loop variable [name] is reused for the variable names: the DCOP is named after the
     last variable *)
  let name := last (map snd (map (fun p => (snd p, var_name (fst p)))
                                 (enumerate_from 0 (isort Z.leb nodes)))) kind in
  let agents := if noagents then []
                else map fst (dict_of_list String.eqb
                       (map (fun p => (agt_name (fst p), tt)) (enumerate_from 0 vars))) in
  let domain := firstn colors COLORS in
  let k := List.length domain in
  match (if soft then (if intentional then GErr EValue else soft_loop k vars 0 edges rnd [])
         else hard_loop k vars intentional 0 edges []) with
  | GErr e => GErr e
  | GOk cs =>
      GOk (mkGc (name ++ (if soft then "soft graph coloring" else "hard graph coloring"))%string
                domain (map fst (dict_of_list String.eqb (map (fun p => (snd p, tt)) vars)))
                agents cs)
  end.
Definition gc_generate_checked (colors : nat) (kind : string) (soft intentional noagents : bool)
  (nodes : list Z) (edges : list (Z * Z)) (rnd : list Z) : gres gc_out :=
  if Nat.ltb (List.length COLORS) colors then GErr EValue
  else gc_generate colors kind soft intentional noagents nodes edges rnd.

(* ================= Ising ================= *)
Definition node := (Z * Z)%type.
Definition node_eqb (a b : node) : bool := Z.eqb (fst a) (fst b) && Z.eqb (snd a) (snd b).
(* tuple comparison a <= b *)
Definition node_leb (a b : node) : bool :=
  Z.ltb (fst a) (fst b) || (Z.eqb (fst a) (fst b) && Z.leb (snd a) (snd b)).
Definition edge := (node * node)%type.
Definition edge_eqb (a b : edge) : bool := node_eqb (fst a) (fst b) && node_eqb (snd a) (snd b).
(* sorted([a, b]) *)
Definition sortp (a b : node) : edge := if node_leb a b then (a, b) else (b, a).

(* structured computation / agent names; [render] gives the string the code builds *)
Inductive iname := NV (n : node) | NCU (n : node) | NCB (e : edge) | NA (n : node).
Definition iname_eqb (a b : iname) : bool :=
  match a, b with
  | NV x, NV y => node_eqb x y
  | NCU x, NCU y => node_eqb x y
  | NCB x, NCB y => edge_eqb x y
  | NA x, NA y => node_eqb x y
  | _, _ => false
  end.
Definition render_node (n : node) : string := (str_of_Z (fst n) ++ "_" ++ str_of_Z (snd n))%string.
Definition render (n : iname) : string :=
  match n with
  | NV x => ("v_" ++ render_node x)%string
  | NCU x => ("cu_v_" ++ render_node x)%string
  | NCB (x, y) => ("cb_v_" ++ render_node x ++ "_v_" ++ render_node y)%string
  | NA x => ("a_" ++ render_node x)%string
  end.

Record iconstraint := mkIC { ic_name : iname; ic_scope : list iname; ic_int : bool; ic_table : list (list Z) }.

(* generate_unary_extensive_constraint: zeros, [0] := value, [1] := -value *)
Definition unary_ext (value : Z) : list (list Z) := [upd 1 (- value) (upd 0 value [0; 0])].
(* generate_unary_intentional_constraint: " -{value} if v == 1 else {value}" *)
Definition unary_int (value : Z) : list (list Z) :=
  [map (fun x => if Nat.eqb x 1 then - value else value) (seq 0 2)].
(* generate_binary_extensive_constraint: (0,0), (1,1) := value; (0,1), (1,0) := -value *)
Definition binary_ext (value : Z) : list (list Z) :=
  upd2 1 0 (- value) (upd2 0 1 (- value) (upd2 1 1 value (upd2 0 0 value (zeros2 2)))).
(* generate_binary_intentional_constraint: "{value} if v1 == v2 else -{value}" *)
Definition binary_int (value : Z) : list (list Z) :=
  tabulate2 2 (fun i j => if Nat.eqb i j then value else - value).

Definition idict_set {V} := @dict_set iname V iname_eqb.

(* generate_unary_constraints: one per variable, in the variables' order *)
Fixpoint unary_loop (extensive : bool) (vars : list node) (rnd : list Z)
  (acc : list (iname * iconstraint)) : gres (list (iname * iconstraint) * list Z) :=
  match vars with
  | [] => GOk (acc, rnd)
  | n :: r =>
      match rnd with
      | [] => GErr EOracle
      | value :: rnd' =>
          let c := mkIC (NCU n) [NV n] (negb extensive)
                        (if extensive then unary_ext value else unary_int value) in
          unary_loop extensive r rnd' (idict_set (NCU n) c acc)
      end
  end.

(* generate_binary_constraints: one per graph edge; the variables must exist *)
Fixpoint binary_loop (extensive : bool) (vars : list node) (edges : list edge) (rnd : list Z)
  (acc : list (iname * iconstraint)) : gres (list (iname * iconstraint)) :=
  match edges with
  | [] => GOk acc
  | (a, b) :: r =>
      let e := sortp a b in
      if existsb (node_eqb (fst e)) vars && existsb (node_eqb (snd e)) vars then
        match rnd with
        | [] => GErr EOracle
        | value :: rnd' =>
            let c := mkIC (NCB e) [NV (fst e); NV (snd e)] (negb extensive)
                          (if extensive then binary_ext value else binary_int value) in
            binary_loop extensive vars r rnd' (idict_set (NCB e) c acc)
        end
      else GErr EKeyG
  end.

(* d[k].append(x) / d[k] += l on a defaultdict(list) *)
Fixpoint dict_extend (k : iname) (l : list iname) (d : list (iname * list iname))
  : list (iname * list iname) :=
  match d with
  | [] => [(k, l)]
  | (k', l') :: r => if iname_eqb k k' then (k', l' ++ l) :: r else (k', l') :: dict_extend k l r
  end.

Definition edge_mem (e : edge) (l : list edge) : bool := existsb (edge_eqb e) l.

(* the loop over grid_graph.nodes that fills fg_mapping.  [bin] = names of the binary
   constraints of the DCOP, [seen] = binary constraints already given to an agent
   (the code after the fix: a binary constraint is mapped only if it exists and only once) *)
Fixpoint fg_loop (R C : Z) (bin : list edge) (nodes : list node) (seen : list edge)
  (acc : list (iname * list iname)) : list (iname * list iname) :=
  match nodes with
  | [] => acc
  | (row, col) :: rest =>
      let up := sortp (row, col) ((row - 1) mod R, col) in
      let right := sortp (row, col) (row, (col + 1) mod C) in
      let t1 := edge_mem up bin && negb (edge_mem up seen) in
      let seen1 := if t1 then up :: seen else seen in
      let t2 := edge_mem right bin && negb (edge_mem right seen1) in
      let seen2 := if t2 then right :: seen1 else seen1 in
      fg_loop R C bin rest seen2
        (dict_extend (NA (row, col))
           ([NV (row, col); NCU (row, col)] ++ (if t1 then [NCB up] else [])
              ++ (if t2 then [NCB right] else [])) acc)
  end.

Fixpoint var_loop (nodes : list node) (acc : list (iname * list iname)) : list (iname * list iname) :=
  match nodes with
  | [] => acc
  | n :: rest => var_loop rest (dict_extend (NA n) [NV n] acc)
  end.

Record ising_out := mkIsing {
  io_vars : list iname; io_constraints : list (iname * iconstraint); io_agents : list iname;
  io_var_mapping : list (iname * list iname); io_fg_mapping : list (iname * list iname) }.

(* generate_ising; nodes/edges = grid_graph.nodes / .edges of networkx's periodic grid *)
Definition generate_ising (R C : Z) (extensive no_agents fg_dist var_dist : bool)
  (nodes : list node) (edges : list edge) (rnd : list Z) : gres ising_out :=
  (* variables: dict name -> Variable *)
  let vars := map fst (dict_of_list node_eqb (map (fun n => (n, tt)) nodes)) in
  match unary_loop extensive vars rnd [] with
  | GErr e => GErr e
  | GOk (un, rnd') =>
      match binary_loop extensive vars edges rnd' [] with
      | GErr e => GErr e
      | GOk bin =>
          let constraints := fold_left (fun d kv => idict_set (fst kv) (snd kv) d) bin un in
          let bnames := map (fun kv => match fst kv with NCB e => e | _ => ((0, 0), (0, 0)) end) bin in
          let agents := map fst (dict_of_list node_eqb (map (fun n => (n, tt)) nodes)) in
          GOk (mkIsing (map NV vars) constraints
                       (if no_agents then [] else map NA agents)
                       (if var_dist then var_loop nodes [] else [])
                       (if fg_dist then fg_loop R C bnames nodes [] [] else []))
      end
  end.

(* is the edge list the one of a periodic R x C grid? every edge joins a node to its upper or
   right neighbour (mod R / mod C), and no edge is listed twice (used as a check of the
   networkx input in the correspondence and as the hypothesis of the hosting theorem) *)
Definition covered (R C : Z) (nodes : list node) (e : edge) : bool :=
  existsb (fun n => edge_eqb e (sortp n ((fst n - 1) mod R, snd n))
                    || edge_eqb e (sortp n (fst n, (snd n + 1) mod C))) nodes.
Definition grid_ok (R C : Z) (nodes : list node) (edges : list edge) : bool :=
  nodupb node_eqb nodes
  && nodupb edge_eqb (map (fun ab => sortp (fst ab) (snd ab)) edges)
  && forallb (fun ab => covered R C nodes (sortp (fst ab) (snd ab))
                        && negb (node_eqb (fst ab) (snd ab))
                        && existsb (node_eqb (fst ab)) nodes && existsb (node_eqb (snd ab)) nodes) edges.

(* ================= scenario ================= *)
Inductive event := EDelay (id : string) (d : Z) | EActions (id : string) (removed : list string).

Fixpoint sdedup (l : list string) : list string :=
  match l with [] => [] | x :: r => if smem x r then sdedup r else x :: sdedup r end.

(* the loop of generate_scenario; [samples] = successive results of random.sample *)
Fixpoint scenario_loop (n : nat) (i : nat) (evts : nat) (actions : Z) (delay : Z)
  (pool : list string) (samples : list (list string)) : gres (list event) :=
  match n with
  | O => GOk []
  | S n' =>
      (* random.sample(population, k): ValueError if k < 0 or k > len(population) *)
      if (actions <? 0) || (Z.of_nat (List.length pool) <? actions) then GErr EValue
      else match samples with
           | [] => GErr EOracle
           | removed :: samples' =>
               let pool' := filter (fun a => negb (smem a removed)) pool in
               match scenario_loop n' (S i) evts actions delay pool' samples' with
               | GErr e => GErr e
               | GOk evs =>
                   GOk (EActions ("e" ++ str_of_nat i)%string removed
                        :: (if Nat.eqb (S i) evts then [] else [EDelay ("d" ++ str_of_nat i)%string delay])
                        ++ evs)
               end
           end
  end.

(* generate_scenario(evts_count, actions_count, delay, initial_delay, end_delay, agents) *)
Definition generate_scenario (evts : Z) (actions delay initial_delay end_delay : Z)
  (agents : list string) (samples : list (list string)) : gres (list event) :=
  let n := Z.to_nat evts in
  match scenario_loop n 0 n actions delay (sdedup agents) samples with
  | GErr e => GErr e
  | GOk evs => GOk (EDelay "init" initial_delay :: evs ++ [EDelay "end" end_delay])
  end.

(* ================= correspondence ================= *)
Definition gerr_eqb (a b : gerr) : bool :=
  match a, b with EValue, EValue => true | EKeyG, EKeyG => true | EOracle, EOracle => true | _, _ => false end.
Definition zll_eqb := list_eqb (list_eqb Z.eqb).
Definition slist_eqb := list_eqb String.eqb.
Definition constraint_eqb (a b : constraint) : bool :=
  String.eqb (c_name a) (c_name b) && slist_eqb (c_scope a) (c_scope b)
  && Bool.eqb (c_int a) (c_int b) && zll_eqb (c_table a) (c_table b).

(* observed constraints: (dict key, name, scope, intentional?, table) *)
Definition obs_constraint := (string * constraint)%type.
Definition ocs_eqb := list_eqb (pair_eqb String.eqb constraint_eqb).

Record gc_case := mkGcCase {
  g_colors : nat; g_kind : string; g_soft : bool; g_int : bool; g_noagents : bool;
  g_nodes : list Z; g_edges : list (Z * Z); g_rnd : list Z;
  g_obs : option gc_out        (* None = ValueError *)
}.
Definition check_gc (c : gc_case) : bool :=
  match gc_generate_checked (g_colors c) (g_kind c) (g_soft c) (g_int c) (g_noagents c)
                            (g_nodes c) (g_edges c) (g_rnd c), g_obs c with
  | GOk o, Some o' =>
      String.eqb (gc_name o) (gc_name o') && slist_eqb (gc_domain o) (gc_domain o')
      && slist_eqb (gc_vars o) (gc_vars o') && slist_eqb (gc_agents o) (gc_agents o')
      && ocs_eqb (gc_constraints o) (gc_constraints o')
  | GErr EValue, None => true
  | _, _ => false
  end.

(* direct call of generate_hard_constraints / generate_soft_constraints *)
Record gcc_case := mkGccCase {
  h_k : nat; h_vars : list (Z * string); h_soft : bool; h_int : bool;
  h_edges : list (Z * Z); h_rnd : list Z;
  h_obs : gres (list (string * constraint)) }.
Definition check_gcc (c : gcc_case) : bool :=
  let r := if h_soft c then (if h_int c then GErr EValue else soft_loop (h_k c) (h_vars c) 0 (h_edges c) (h_rnd c) [])
           else hard_loop (h_k c) (h_vars c) (h_int c) 0 (h_edges c) [] in
  match r, h_obs c with
  | GOk a, GOk b => ocs_eqb a b
  | GErr a, GErr b => gerr_eqb a b
  | _, _ => false
  end.

Record ising_obs := mkIsingObs {
  o_vars : list string; o_constraints : list (string * constraint); o_agents : list string;
  o_var_mapping : list (string * list string); o_fg_mapping : list (string * list string) }.
Record ising_case := mkIsingCase {
  i_R : Z; i_C : Z; i_ext : bool; i_noagents : bool; i_fg : bool; i_var : bool;
  i_nodes : list node; i_edges : list edge; i_rnd : list Z;
  i_obs : ising_obs }.
Definition render_ic (kv : iname * iconstraint) : string * constraint :=
  (render (fst kv), mkC (render (ic_name (snd kv))) (map render (ic_scope (snd kv)))
                        (ic_int (snd kv)) (ic_table (snd kv))).
Definition render_mapping (m : list (iname * list iname)) : list (string * list string) :=
  map (fun kv => (render (fst kv), map render (snd kv))) m.
Definition mapping_eqb := list_eqb (pair_eqb String.eqb slist_eqb).
Definition check_ising (c : ising_case) : bool :=
  match generate_ising (i_R c) (i_C c) (i_ext c) (i_noagents c) (i_fg c) (i_var c)
                       (i_nodes c) (i_edges c) (i_rnd c) with
  | GOk o =>
      let o' := i_obs c in
      grid_ok (i_R c) (i_C c) (i_nodes c) (i_edges c)
      && slist_eqb (map render (io_vars o)) (o_vars o')
      && ocs_eqb (map render_ic (io_constraints o)) (o_constraints o')
      && slist_eqb (map render (io_agents o)) (o_agents o')
      && mapping_eqb (render_mapping (io_var_mapping o)) (o_var_mapping o')
      && mapping_eqb (render_mapping (io_fg_mapping o)) (o_fg_mapping o')
  | GErr _ => false
  end.

Definition event_eqb (a b : event) : bool :=
  match a, b with
  | EDelay i d, EDelay i' d' => String.eqb i i' && Z.eqb d d'
  | EActions i r, EActions i' r' => String.eqb i i' && slist_eqb r r'
  | _, _ => false
  end.
Record scen_case := mkScen {
  s_evts : Z; s_actions : Z; s_delay : Z; s_init : Z; s_end : Z; s_agents : list string;
  s_samples : list (list string);
  s_obs : option (list event)        (* None = ValueError *)
}.
Definition check_scen (c : scen_case) : bool :=
  match generate_scenario (s_evts c) (s_actions c) (s_delay c) (s_init c) (s_end c)
                          (s_agents c) (s_samples c), s_obs c with
  | GOk a, Some b => list_eqb event_eqb a b
  | GErr EValue, None => true
  | _, _ => false
  end.

Inductive case := CGc (c : gc_case) | CGcc (c : gcc_case) | CIsing (c : ising_case)
  | CIsing2 (a b : ising_case)   (* the two forms on the same draws *)
  | CScen (c : scen_case).
Definition check_case (c : case) : bool :=
  match c with
  | CGc x => check_gc x | CGcc x => check_gcc x | CIsing x => check_ising x
  | CIsing2 x y => check_ising x && check_ising y | CScen x => check_scen x
  end.
