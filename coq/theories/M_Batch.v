(* M_Batch.v -- executable model of pydcop/commands/batch.py (C29):
   regularize_parameters, parameters_configuration, build_option_for_parameters,
   build_option_string.  Models only; proofs are in P_Batch.v.

   Python dicts are association lists in insertion order (keys are unique in the inputs the
   harness generates; theorems that need it say [NoDup (map fst d)]).  The definition may be
   nested to any depth, exactly as the recursive code allows. *)
From PyDcop Require Import Base.
From Coq Require Import DecimalString Decimal.
Open Scope string_scope.

(* ---------- values found in the YAML definition ---------- *)
(* a scalar or list element; [SOther] is any other object, carried with what str() gives for it
   (str() of floats / tuples / nested lists is external behaviour, supplied by the harness) *)
Inductive scalar :=
| SStr (s : string) | SInt (z : Z) | SBool (b : bool) | SNone | SOther (rendered : string).

Definition str_of_Z (z : Z) : string := NilZero.string_of_int (Z.to_int z).

(* str(x) *)
Definition py_str (x : scalar) : string :=
  match x with
  | SStr s => s
  | SInt z => str_of_Z z
  | SBool true => "True"
  | SBool false => "False"
  | SNone => "None"
  | SOther r => r
  end.

Inductive yval :=
| YScalar (x : scalar)                 (* str -> [v] ; anything else -> [str(v)] *)
| YList (l : list scalar)              (* list -> [str(i) for i in v] *)
| YDict (d : list (string * yval)).    (* dict -> regularize_parameters(v) *)

(* regularized definition: every leaf is a list of strings *)
Inductive pdef :=
| PList (l : list string)
| PDict (d : list (string * pdef)).

(* one combination: a chosen string per leaf *)
Inductive comb :=
| CVal (s : string)
| CDict (d : list (string * comb)).

(* ---------- regularize_parameters ---------- *)
Fixpoint regularize_val (v : yval) : pdef :=
  match v with
  | YScalar x => PList [py_str x]
  | YList l => PList (map py_str l)
  | YDict d =>
      PDict ((fix go (d : list (string * yval)) : list (string * pdef) :=
                match d with
                | [] => []
                | (k, v') :: r => (k, regularize_val v') :: go r
                end) d)
  end.

Definition regularize (d : list (string * yval)) : list (string * pdef) :=
  map (fun kv => (fst kv, regularize_val (snd kv))) d.

(* ---------- parameters_configuration ---------- *)
(* sorted(items, key=name): Python's str order = lexicographic on code points *)
Definition key_leb {V} (a b : string * V) : bool := String.leb (fst a) (fst b).

(* [dict(zip(names, combo)) for combo in itertools.product of the value lists] : last parameter varies
   fastest *)
Fixpoint kproduct {V} (l : list (string * list V)) : list (list (string * V)) :=
  match l with
  | [] => [[]]
  | (k, vs) :: r => flat_map (fun v => map (cons (k, v)) (kproduct r)) vs
  end.

(* values one parameter can take: sorted(values) for a list, the recursive expansion for a
   dict.  The code sorts the items first and expands afterwards; the sort only looks at the
   names, so expanding first and sorting afterwards is the same computation (P_Batch
   [isort_expand_items]) and is structurally recursive.
   parameters_configuration({}) = [{}] (since fix commit 5d44935, finding C29-empty-dict). *)
Fixpoint expand (v : pdef) : list comb :=
  match v with
  | PList l => map CVal (isort String.leb l)
  | PDict d =>
      map CDict
        (kproduct (isort key_leb
           ((fix go (d : list (string * pdef)) : list (string * list comb) :=
               match d with
               | [] => []
               | (k, v') :: r => (k, expand v') :: go r
               end) d)))
  end.

Definition expand_items (d : list (string * pdef)) : list (string * list comb) :=
  map (fun kv => (fst kv, expand (snd kv))) d.

Definition parameters_configuration (d : list (string * pdef)) : list (list (string * comb)) :=
  kproduct (isort key_leb (expand_items d)).

(* ---------- build_option_for_parameters ---------- *)
(* build_option_string(name, value) with value a str (never None here):  "--name value".
   (The code's [elif option_value == ""] branch is dead: "" is not None, so an empty value
   renders as "--name " with a trailing blank.) *)
Definition option_string (name value : string) : string := "--" ++ name ++ " " ++ value.

Fixpoint join (sep : string) (l : list string) : string :=
  match l with
  | [] => EmptyString
  | [x] => x
  | x :: r => x ++ sep ++ join sep r
  end.

(* f"{sub_p}:{sub_v}" is only modelled when sub_v is a str (definition nested one level, as
   the property says); for a deeper combination Python prints the repr of a dict: None here *)
Definition sub_piece (p : string) (kv : string * comb) : option string :=
  match snd kv with
  | CVal s => Some (option_string p (fst kv ++ ":" ++ s))
  | CDict _ => None
  end.

Fixpoint all_some {A} (l : list (option A)) : option (list A) :=
  match l with
  | [] => Some []
  | None :: _ => None
  | Some x :: r => match all_some r with Some r' => Some (x :: r') | None => None end
  end.

Definition pieces_of (kv : string * comb) : option (list string) :=
  match snd kv with
  | CVal s => Some [option_string (fst kv) s]
  | CDict d => all_some (map (sub_piece (fst kv)) d)
  end.

Definition option_pieces (c : list (string * comb)) : option (list string) :=
  match all_some (map pieces_of c) with
  | Some ls => Some (List.concat ls)
  | None => None
  end.

Definition build_option_for_parameters (c : list (string * comb)) : option string :=
  match option_pieces c with
  | Some ps => Some (join " " ps)
  | None => None
  end.

(* ---------- decidable equality for the correspondence ---------- *)
Fixpoint pdef_eqb (a b : pdef) : bool :=
  match a, b with
  | PList l, PList l' => list_eqb String.eqb l l'
  | PDict d, PDict d' =>
      (fix go (d : list (string * pdef)) (d' : list (string * pdef)) : bool :=
         match d, d' with
         | [], [] => true
         | (k, v) :: r, (k', v') :: r' => String.eqb k k' && pdef_eqb v v' && go r r'
         | _, _ => false
         end) d d'
  | _, _ => false
  end.

Fixpoint comb_eqb (a b : comb) : bool :=
  match a, b with
  | CVal s, CVal s' => String.eqb s s'
  | CDict d, CDict d' =>
      (fix go (d : list (string * comb)) (d' : list (string * comb)) : bool :=
         match d, d' with
         | [], [] => true
         | (k, v) :: r, (k', v') :: r' => String.eqb k k' && comb_eqb v v' && go r r'
         | _, _ => false
         end) d d'
  | _, _ => false
  end.

Definition pdict_eqb := list_eqb (pair_eqb String.eqb pdef_eqb).
Definition cdict_eqb := list_eqb (pair_eqb String.eqb comb_eqb).

(* ---------- correspondence ---------- *)
(* one call chain of run_batch: regularize_parameters(yaml) -> parameters_configuration ->
   build_option_for_parameters on every combination, with what the real code returned *)
Record case := mkCase {
  c_yaml : list (string * yval);
  c_reg_obs : list (string * pdef);            (* regularize_parameters(yaml), items in order *)
  c_conf_obs : list (list (string * comb));    (* parameters_configuration(...), in order *)
  c_opts_obs : list string                     (* build_option_for_parameters of each *)
}.

Definition opts_agree (c : list (string * comb)) (o : string) : bool :=
  match build_option_for_parameters c with
  | Some s => String.eqb s o
  | None => true          (* deeper than one level: rendering not modelled *)
  end.

Fixpoint forallb2 {A B} (f : A -> B -> bool) (a : list A) (b : list B) : bool :=
  match a, b with
  | [], [] => true
  | x :: a', y :: b' => f x y && forallb2 f a' b'
  | _, _ => false
  end.

Definition check_case (c : case) : bool :=
  let reg := regularize (c_yaml c) in
  let conf := parameters_configuration reg in
  pdict_eqb reg (c_reg_obs c)
  && list_eqb cdict_eqb conf (c_conf_obs c)
  && forallb2 opts_agree conf (c_opts_obs c).
