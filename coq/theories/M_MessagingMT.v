(* M_MessagingMT.v -- micro-step interleaving model of the threads around one Messaging
   instance (property C18): poster threads executing Messaging.post_msg for a local,
   registered destination, the agent thread (agents.py:Agent._run: next_msg + dispatch), the
   thread calling Agent.clean_shutdown, and the perf_counter clock.  Models only; proofs are
   in P_MessagingMT.v.

   communication.py, Messaging.post_msg, local branch -- one micro-step per shared access:
       if self._shutdown: return                               PCheck   (read _shutdown)
       dest_agent = self.discovery.computation_agent(dest)     (local and registered: no step)
       now = perf_counter()                                    PClock   (read the clock)
       with self._post_lock:                                   PAcq     (only if [c_lock])
           self.msg_queue_count += 1                           PLoad ; PStore
           self._queue.put((msg_type, self.msg_queue_count,    PReread
                            now, full_msg))                    PPut     (PriorityQueue: atomic)
                                                               PRel     (only if [c_lock])
   agents.py, Agent._run ([c_flagfirst] = the repaired loop):
       while ...:
           shutting = self._shutdown.is_set()                  agent stage 0 (read the event)
           full_msg, t = self._messaging.next_msg(0.05)        agent stage 1 (atomic get or Empty)
           if full_msg is None:
               if shutting: break
           else: self._handle_message(...)
     the loop as it was ([c_flagfirst] = false): get first (stage 0), and after an Empty result
     read the event (stage 1) -- a put and the shutdown can slip in between.
   Agent.clean_shutdown: self._shutdown.set() ; self._messaging.shutdown()   = [SetEvt; SetShut]

   An execution is ANY list of choices (which thread makes its next micro-step, or the clock
   advances); a choice of a finished or blocked thread, or of a thread id that does not exist,
   is a no-op.  The configuration says which code is modelled: [mkCfg true true] is /repo after
   the two C18 repairs, [mkCfg false _] the unlocked counter, [mkCfg _ false] the old loop. *)
From PyDcop Require Import Base.
From PyDcop Require M_Messaging.

Record cfg := mkCfg { c_lock : bool; c_flagfirst : bool }.

(* one call post_msg(src = the thread's computation, dest, Message(id), type) *)
Record post := mkPost { p_dest : Z; p_type : Z; p_id : Z }.

(* a queue entry (msg_type, msg_queue_count, now, full_msg); [e_tid], [e_seq] identify the
   message: the [e_seq]-th post of thread [e_tid] *)
Record ent := mkE { e_type : Z; e_cnt : Z; e_time : Z; e_tid : nat; e_seq : nat; e_dest : Z; e_id : Z }.

(* tuple order on (type, counter, time) *)
Definition key_leb (a b : ent) : bool :=
  (e_type a <? e_type b)
  || ((e_type a =? e_type b)
      && ((e_cnt a <? e_cnt b) || ((e_cnt a =? e_cnt b) && (e_time a <=? e_time b)))).
Definition key_eqb (a b : ent) : bool :=
  (e_type a =? e_type b) && (e_cnt a =? e_cnt b) && (e_time a =? e_time b).

(* PriorityQueue as a sorted list; get takes the head.  An entry whose (type, counter, time)
   equals a queued one is placed after it; the real heap would go on to compare the
   ComputationMessage tuples (names, then Message objects: TypeError) -- flagged in [g_tie]. *)
Fixpoint qinsert (x : ent) (l : list ent) : list ent :=
  match l with
  | [] => [x]
  | y :: r => if key_leb y x then y :: qinsert x r else x :: y :: r
  end.

Inductive ppc := PCheck | PClock | PAcq | PLoad | PStore | PReread | PPut | PRel.

Record pth := mkT {
  t_prog : list post;    (* posts still to do (head = the one in progress) *)
  t_seq : nat;           (* number of posts completed (put or dropped) *)
  t_pc : ppc;
  t_now : Z;             (* local: now *)
  t_tmp : Z;             (* local: value loaded by += *)
  t_c : Z                (* local: value re-read for the tuple *)
}.

Inductive ctlop := SetEvt | SetShut.

Record gst := mkG {
  g_cnt : Z;                 (* Messaging.msg_queue_count *)
  g_clock : Z;               (* perf_counter() *)
  g_queue : list ent;        (* Messaging._queue *)
  g_lock : option nat;       (* Messaging._post_lock holder *)
  g_evt : bool;              (* Agent._shutdown (Event) *)
  g_shut : bool;             (* Messaging._shutdown *)
  g_astage : bool;           (* agent loop: false = stage 0, true = stage 1 *)
  g_aflag : bool;            (* agent local: shutting *)
  g_adone : bool;            (* agent thread left its loop *)
  g_ctl : list ctlop;        (* what the controlling thread still has to do *)
  g_thr : list pth;
  g_puts : list ent;         (* ghost: entries in the order of their put *)
  g_handled : list ent;      (* messages handed to their destination, in order *)
  g_dropped : list (nat * nat);   (* ghost: (thread, seq) of posts dropped by the _shutdown test *)
  g_tie : bool               (* ghost: a put met an equal (type, counter, time) *)
}.

Definition init (progs : list (list post)) (ctl : list ctlop) : gst :=
  mkG 0 0 [] None false false false false false ctl
      (map (fun p => mkT p 0 PCheck 0 0 0) progs) [] [] [] false.

Inductive choice := CTick | CAgent | CCtl | CPost (i : nat).

Fixpoint upd {A} (i : nat) (x : A) (l : list A) : list A :=
  match l, i with
  | [], _ => []
  | _ :: r, O => x :: r
  | y :: r, S k => y :: upd k x r
  end.

Definition set_thr (st : gst) (i : nat) (t : pth) : gst :=
  mkG (g_cnt st) (g_clock st) (g_queue st) (g_lock st) (g_evt st) (g_shut st) (g_astage st)
      (g_aflag st) (g_adone st) (g_ctl st) (upd i t (g_thr st)) (g_puts st) (g_handled st)
      (g_dropped st) (g_tie st).
Definition set_cnt (st : gst) (c : Z) : gst :=
  mkG c (g_clock st) (g_queue st) (g_lock st) (g_evt st) (g_shut st) (g_astage st)
      (g_aflag st) (g_adone st) (g_ctl st) (g_thr st) (g_puts st) (g_handled st)
      (g_dropped st) (g_tie st).
Definition set_lock (st : gst) (l : option nat) : gst :=
  mkG (g_cnt st) (g_clock st) (g_queue st) l (g_evt st) (g_shut st) (g_astage st)
      (g_aflag st) (g_adone st) (g_ctl st) (g_thr st) (g_puts st) (g_handled st)
      (g_dropped st) (g_tie st).
Definition set_dropped (st : gst) (d : list (nat * nat)) : gst :=
  mkG (g_cnt st) (g_clock st) (g_queue st) (g_lock st) (g_evt st) (g_shut st) (g_astage st)
      (g_aflag st) (g_adone st) (g_ctl st) (g_thr st) (g_puts st) (g_handled st)
      d (g_tie st).
Definition do_put (st : gst) (e : ent) : gst :=
  mkG (g_cnt st) (g_clock st) (qinsert e (g_queue st)) (g_lock st) (g_evt st) (g_shut st)
      (g_astage st) (g_aflag st) (g_adone st) (g_ctl st) (g_thr st) (g_puts st ++ [e])
      (g_handled st) (g_dropped st) (g_tie st || existsb (key_eqb e) (g_queue st)).
Definition set_agent (st : gst) (q : list ent) (stage flag done : bool) (h : list ent) : gst :=
  mkG (g_cnt st) (g_clock st) q (g_lock st) (g_evt st) (g_shut st) stage flag done
      (g_ctl st) (g_thr st) (g_puts st) h (g_dropped st) (g_tie st).

Definition set_pc (t : pth) (pc : ppc) : pth := mkT (t_prog t) (t_seq t) pc (t_now t) (t_tmp t) (t_c t).
(* the post in progress is over: next one *)
Definition finish (t : pth) (pc : ppc) : pth :=
  mkT (tl (t_prog t)) (S (t_seq t)) pc (t_now t) (t_tmp t) (t_c t).

Definition entry_of (i : nat) (t : pth) (p : post) : ent :=
  mkE (p_type p) (t_c t) (t_now t) i (t_seq t) (p_dest p) (p_id p).

Definition poster_step (c : cfg) (st : gst) (i : nat) (t : pth) : gst :=
  match t_pc t with
  | PCheck =>
      match t_prog t with
      | [] => st
      | _ :: _ =>
          if g_shut st
          then set_dropped (set_thr st i (finish t PCheck)) (g_dropped st ++ [(i, t_seq t)])
          else set_thr st i (set_pc t PClock)
      end
  | PClock =>
      set_thr st i (mkT (t_prog t) (t_seq t) (if c_lock c then PAcq else PLoad)
                        (g_clock st) (t_tmp t) (t_c t))
  | PAcq =>
      match g_lock st with
      | None => set_lock (set_thr st i (set_pc t PLoad)) (Some i)
      | Some _ => st
      end
  | PLoad => set_thr st i (mkT (t_prog t) (t_seq t) PStore (t_now t) (g_cnt st) (t_c t))
  | PStore => set_cnt (set_thr st i (set_pc t PReread)) (t_tmp t + 1)
  | PReread => set_thr st i (mkT (t_prog t) (t_seq t) PPut (t_now t) (t_tmp t) (g_cnt st))
  | PPut =>
      match t_prog t with
      | [] => st
      | p :: _ => do_put (set_thr st i (finish t (if c_lock c then PRel else PCheck)))
                         (entry_of i t p)
      end
  | PRel => set_lock (set_thr st i (set_pc t PCheck)) None
  end.

Definition agent_step (c : cfg) (st : gst) : gst :=
  if g_adone st then st
  else if c_flagfirst c then
    if negb (g_astage st)
    then set_agent st (g_queue st) true (g_evt st) false (g_handled st)
    else match g_queue st with
         | e :: r => set_agent st r false (g_aflag st) false (g_handled st ++ [e])
         | [] => set_agent st [] false (g_aflag st) (g_aflag st) (g_handled st)
         end
  else
    if negb (g_astage st)
    then match g_queue st with
         | e :: r => set_agent st r false (g_aflag st) false (g_handled st ++ [e])
         | [] => set_agent st [] true (g_aflag st) false (g_handled st)
         end
    else set_agent st (g_queue st) false (g_evt st) (g_evt st) (g_handled st).

Definition ctl_step (st : gst) : gst :=
  match g_ctl st with
  | [] => st
  | SetEvt :: r =>
      mkG (g_cnt st) (g_clock st) (g_queue st) (g_lock st) true (g_shut st) (g_astage st)
          (g_aflag st) (g_adone st) r (g_thr st) (g_puts st) (g_handled st) (g_dropped st) (g_tie st)
  | SetShut :: r =>
      mkG (g_cnt st) (g_clock st) (g_queue st) (g_lock st) (g_evt st) true (g_astage st)
          (g_aflag st) (g_adone st) r (g_thr st) (g_puts st) (g_handled st) (g_dropped st) (g_tie st)
  end.

Definition tick (st : gst) : gst :=
  mkG (g_cnt st) (g_clock st + 1) (g_queue st) (g_lock st) (g_evt st) (g_shut st) (g_astage st)
      (g_aflag st) (g_adone st) (g_ctl st) (g_thr st) (g_puts st) (g_handled st) (g_dropped st)
      (g_tie st).

Definition step (c : cfg) (st : gst) (ch : choice) : gst :=
  match ch with
  | CTick => tick st
  | CAgent => agent_step c st
  | CCtl => ctl_step st
  | CPost i => match nth_error (g_thr st) i with
               | Some t => poster_step c st i t
               | None => st
               end
  end.

Definition run (c : cfg) (st : gst) (sched : list choice) : gst := fold_left (step c) sched st.

Definition exec (c : cfg) (progs : list (list post)) (ctl : list ctlop) (sched : list choice) : gst :=
  run c (init progs ctl) sched.

(* quiescence: every poster is through its program, the queue is empty *)
Definition idle (t : pth) : bool := match t_prog t with [] => true | _ => false end.
Definition quiescent (st : gst) : bool :=
  forallb idle (g_thr st) && match g_queue st with [] => true | _ => false end.

Definition ident (e : ent) : nat * nat := (e_tid e, e_seq e).

(* ---------- correspondence ----------
   The driver logs every micro-step of the real threads (under one lock, in the order of their
   effects) and turns the log into the schedule; the model must reproduce the observed queue
   tuples (with the counters the threads drew), the handler trace, the dropped posts, the final
   counter, and end like the real run (everything posted, queue empty, loop left). *)
Definition ent_eqb (a b : ent) : bool :=
  (e_type a =? e_type b) && (e_cnt a =? e_cnt b) && (e_time a =? e_time b)
  && Nat.eqb (e_tid a) (e_tid b) && Nat.eqb (e_seq a) (e_seq b)
  && (e_dest a =? e_dest b) && (e_id a =? e_id b).

Record mt_case := mkMT {
  mc_cfg : cfg;
  mc_progs : list (list post);
  mc_ctl : list ctlop;
  mc_sched : list choice;
  mc_puts : list ent;                    (* observed puts, in the order of the queue's lock *)
  mc_handled : list (nat * Z * Z);       (* observed handler calls (sender thread, dest, id) *)
  mc_dropped : list (nat * nat);
  mc_cnt : Z;                            (* final msg_queue_count *)
  mc_left : nat;                         (* entries left in the queue *)
  mc_done : bool                         (* the agent thread left its loop *)
}.

Definition hview (e : ent) : nat * Z * Z := (e_tid e, e_dest e, e_id e).
Definition nzz_eqb (a b : nat * Z * Z) : bool :=
  Nat.eqb (fst (fst a)) (fst (fst b)) && (snd (fst a) =? snd (fst b)) && (snd a =? snd b).

Definition check_mt (c : mt_case) : bool :=
  let st := run (mc_cfg c) (init (mc_progs c) (mc_ctl c)) (mc_sched c) in
  list_eqb ent_eqb (g_puts st) (mc_puts c)
  && list_eqb nzz_eqb (map hview (g_handled st)) (mc_handled c)
  && list_eqb (pair_eqb Nat.eqb Nat.eqb) (g_dropped st) (mc_dropped c)
  && (g_cnt st =? mc_cnt c)
  && Nat.eqb (List.length (g_queue st)) (mc_left c)
  && Bool.eqb (g_adone st) (mc_done c)
  && forallb idle (g_thr st)
  && forallb (fun t => match t_pc t with PCheck => true | _ => false end) (g_thr st)
  && negb (g_tie st).

(* ---------- a registration racing with posts to the not-yet-registered destination ----------
   One late destination c, one message type, the queue as the list of ids in put order (with the
   post lock that is the handling order, see P_MessagingMT).  Micro-steps:
   post_msg(dest = c):       DLook  discovery.computation_agent(c): known -> DPut, else
                             DSub   discovery.subscribe_computation(c, cb, one_shot)   (one more cb)
                             DApp   self._failed.append(...)
   Discovery.register_computation(c, me) in the registering thread:
                             RSet   is_change = (table[c] != me); table[c] = me
                             RFire  for cb in _computation_cbs[c] (the live list): snapshot _failed[:]
                             RReplay  per snapshot entry: post_msg (c is known: put), then _failed.remove
                             RClear remove the one-shot callbacks *)
Inductive dpc := DLook | DSub | DApp | DPut.
Record dth := mkD { d_prog : list Z; d_pc : dpc }.
Inductive rpc := RSet | RFire | RReplay | RClear | RDone.
Record rst := mkR {
  r_known : bool; r_cbs : nat; r_failed : list Z; r_queue : list Z;
  r_thr : list dth;
  r_pc : rpc; r_j : nat; r_snap : list Z; r_rm : option Z
}.
Inductive rchoice := RCReg | RCPost (i : nat).

Fixpoint zremove_first (x : Z) (l : list Z) : list Z :=
  match l with [] => [] | y :: r => if x =? y then r else y :: zremove_first x r end.

Definition rinit (progs : list (list Z)) : rst :=
  mkR false 0 [] [] (map (fun p => mkD p DLook) progs) RSet 0 [] None.

Definition reg_step (s : rst) : rst :=
  match r_pc s with
  | RSet => if r_known s
            then mkR true (r_cbs s) (r_failed s) (r_queue s) (r_thr s) RDone 0 [] None
            else mkR true (r_cbs s) (r_failed s) (r_queue s) (r_thr s) RFire 0 [] None
  | RFire => if (r_j s <? r_cbs s)%nat
             then mkR (r_known s) (r_cbs s) (r_failed s) (r_queue s) (r_thr s) RReplay (r_j s) (r_failed s) None
             else mkR (r_known s) (r_cbs s) (r_failed s) (r_queue s) (r_thr s) RClear (r_j s) [] None
  | RReplay =>
      match r_rm s with
      | Some f => mkR (r_known s) (r_cbs s) (zremove_first f (r_failed s)) (r_queue s) (r_thr s)
                      RReplay (r_j s) (r_snap s) None
      | None =>
          match r_snap s with
          | [] => mkR (r_known s) (r_cbs s) (r_failed s) (r_queue s) (r_thr s) RFire (S (r_j s)) [] None
          | f :: rest => mkR (r_known s) (r_cbs s) (r_failed s) (r_queue s ++ [f]) (r_thr s)
                             RReplay (r_j s) rest (Some f)
          end
      end
  | RClear => mkR (r_known s) 0 (r_failed s) (r_queue s) (r_thr s) RDone (r_j s) [] None
  | RDone => s
  end.

Definition set_dthr (s : rst) (i : nat) (t : dth) : rst :=
  mkR (r_known s) (r_cbs s) (r_failed s) (r_queue s) (upd i t (r_thr s)) (r_pc s) (r_j s) (r_snap s) (r_rm s).

Definition dposter_step (s : rst) (i : nat) (t : dth) : rst :=
  match d_prog t with
  | [] => s
  | m :: rest =>
      match d_pc t with
      | DLook => set_dthr s i (mkD (d_prog t) (if r_known s then DPut else DSub))
      | DSub => let s1 := set_dthr s i (mkD (d_prog t) DApp) in
                mkR (r_known s1) (S (r_cbs s1)) (r_failed s1) (r_queue s1) (r_thr s1) (r_pc s1) (r_j s1)
                    (r_snap s1) (r_rm s1)
      | DApp => let s1 := set_dthr s i (mkD rest DLook) in
                mkR (r_known s1) (r_cbs s1) (r_failed s1 ++ [m]) (r_queue s1) (r_thr s1) (r_pc s1) (r_j s1)
                    (r_snap s1) (r_rm s1)
      | DPut => let s1 := set_dthr s i (mkD rest DLook) in
                mkR (r_known s1) (r_cbs s1) (r_failed s1) (r_queue s1 ++ [m]) (r_thr s1) (r_pc s1) (r_j s1)
                    (r_snap s1) (r_rm s1)
      end
  end.

Definition rstep (s : rst) (ch : rchoice) : rst :=
  match ch with
  | RCReg => reg_step s
  | RCPost i => match nth_error (r_thr s) i with Some t => dposter_step s i t | None => s end
  end.
Definition rrun (progs : list (list Z)) (sched : list rchoice) : rst := fold_left rstep sched (rinit progs).

(* everybody is through: the registration is complete and every poster finished its program *)
Definition rfinished (s : rst) : bool :=
  match r_pc s with RDone => true | _ => false end
  && forallb (fun t => match d_prog t with [] => true | _ => false end) (r_thr s).

Record reg_case := mkRC {
  rc_progs : list (list Z); rc_sched : list rchoice;
  rc_failed : list Z;        (* observed: ids still in _failed at the end *)
  rc_handled : list Z        (* observed: ids in the order the handler saw them *)
}.
Definition check_reg (c : reg_case) : bool :=
  let s := rrun (rc_progs c) (rc_sched c) in
  rfinished s && r_known s && list_eqb Z.eqb (r_failed s) (rc_failed c)
  && list_eqb Z.eqb (r_queue s) (rc_handled c).

(* the C18 correspondence mixes the sequential / queue-log cases of M_Messaging with these *)
Inductive case := COld (c : M_Messaging.case) | CMT (c : mt_case) | CReg (c : reg_case).
Definition check_case (c : case) : bool :=
  match c with COld o => M_Messaging.check_case o | CMT m => check_mt m | CReg r => check_reg r end.
