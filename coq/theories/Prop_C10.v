(* Prop_C10.v -- C10: every value an algorithm selects lies in the variable's domain.
   "For every DCOP algorithm shipped with pyDCOP, at every moment of any execution, the value a
    variable computation reports as selected is either unset or a member of that variable's domain."

   Only statements; each is closed by one lemma of P_Select*.v.  Every statement quantifies over
   ALL problem instances, algorithm parameters, random draws (oracle lists) and ALL schedules of
   Net.v (any interleaving of starts and per-channel-FIFO deliveries, pre-start buffering included):
   [run P sched] is the execution, [snd] its event list, [fst] its final configuration -- and every
   prefix of a schedule is a schedule, so "in the final configuration" means "at every moment".

   Models: dpop / syncbb / mgm / mgm2 / dsa / dba / maxsum / amaxsum are the handler-level models
   of M_Dpop, M_SyncBB, M_Mgm, M_Mgm2, M_Dsa, M_Dba, M_MaxSum (tied to the code by C01, C02, C07,
   C09, C05); dsatuto / adsa / gdba and the value_selection funnel are the models of M_Select.v
   (tied to the code by C10's own correspondence run).

   Hypotheses, where present, are about the node itself: its domain is not empty ([dom_of d n <> []],
   [0 < v_dom]) and its declared initial value is a domain member (Variable.__init__ enforces it).
   For adsa / gdba, [iso n] = what relations.optimal_cost_value returns for an isolated variable
   (C06 proves it is a domain member).

   DBA: the model M_Dba.v renders value_selection(None) as the value 0, and after an IndexError of
   random.choice([]) in _handle_ok_message (every value evaluates above `infinity`) _can_move stays
   True while _new_value may still be None.  FULL statement, proved ([dba_selects_in_domain], deepening):
   on every well-formed problem (wf_problem: each variable's constraint list holds exactly the
   constraints it occurs in, hence symmetric neighbour lists) every EvSelect value is in the domain,
   for every schedule - IndexError or not, before and after finished().  It rests on a counting
   barrier invariant over all channels, postponed lists and pre-start buffers (P_SelectDba2.KI) that
   excludes a second dba_ok of the same neighbour within a cycle and shows that a computation whose
   improve() raised stays stuck in 'ok' mode for ever.  Kept from the first round:
   [dba_selects_in_domain_partial] (NO hypothesis on the instance: a selected value is in the domain
   unless that node raised this IndexError earlier in the run) and [dba_selects_in_domain_refuted]
   (on neighbour lists that are NOT symmetric, which no real constraint graph produces, the model
   does report 0 = the code's None, "unset", which C10 allows): wf_problem cannot be dropped. *)
From PyDcop Require Import Base Net.
From PyDcop Require M_SyncMixin M_Select P_Select M_SelectBest P_SelectBest M_SyncBB P_SelectBB M_Dpop P_SelectDpop
                    M_Mgm M_Mgm2 P_SelectMgm M_Dsa M_Dba P_Dba P_SelectDba P_SelectDba3 M_MaxSum P_SelectMaxSum.

(* ---------------------------------------------------------------- the funnel *)
Definition S_funnel : Prop := forall dom args, Forall (P_Select.ok dom) args ->
  Forall (P_Select.ok dom) (snd (M_Select.fun_exec M_Select.fun_init args)) /\
  forall k, P_Select.ok dom (M_Select.f_value (fst (M_Select.fun_exec M_Select.fun_init (firstn k args)))).
Theorem funnel_in_domain : S_funnel.
Proof. exact P_Select.funnel_in_domain_l. Qed.

(* ---------------------------------------------------------------- dsatuto, adsa, gdba *)
Definition S_dsatuto : Prop := forall dom nbrs orc tevs sched n,
  let cf := fst (run (M_Select.dsatuto_proto dom nbrs orc tevs) sched) in
  Forall (P_Select.sev_ok dom) (M_Select.t_log (M_SyncMixin.ast (w_st (nodes cf n)))) /\
  P_Select.ok (dom n) (M_Select.t_val (M_SyncMixin.ast (w_st (nodes cf n)))).
Theorem dsatuto_selects_in_domain : S_dsatuto.
Proof. exact P_Select.dsatuto_selects_in_domain_l. Qed.

Definition S_adsa : Prop := forall dom nbrs iso orc variant prob aevs,
  (forall n, P_Select.ok (dom n) (iso n)) -> forall sched,
  (forall e, In e (snd (run (M_Select.adsa_proto dom nbrs iso orc variant prob aevs) sched)) -> P_Select.sev_ok dom e) /\
  (forall n, P_Select.ok (dom n)
     (M_Select.a_val (w_st (nodes (fst (run (M_Select.adsa_proto dom nbrs iso orc variant prob aevs) sched)) n)))).
Theorem adsa_selects_in_domain : S_adsa.
Proof. exact P_Select.adsa_selects_in_domain_l. Qed.

Definition S_gdba : Prop := forall dom init nbrs iso mx orc gevs,
  (forall n, P_Select.ok (dom n) (iso n)) -> (forall n, P_Select.ok (dom n) (init n)) -> forall sched,
  (forall e, In e (snd (run (M_Select.gdba_proto dom init nbrs iso mx orc gevs) sched)) -> P_Select.sev_ok dom e) /\
  (forall n, P_Select.ok (dom n)
     (M_Select.g_val (w_st (nodes (fst (run (M_Select.gdba_proto dom init nbrs iso mx orc gevs) sched)) n)))).
Theorem gdba_selects_in_domain : S_gdba.
Proof. exact P_Select.gdba_selects_in_domain_l. Qed.

(* ---- deepening 2: the best-value lists of adsa / gdba are no longer inputs (masks) but computed by
   renderings of adsa.find_best_values ([fbv]) and gdba._compute_best_improvement ([cbi]) from the cost
   of every domain value (M_SelectBest.v).  Specification of the two functions: the list returned is
   exactly the domain values whose cost is the optimum b, in domain order, b is one of the costs and
   no cost beats it; in particular it is a sub-list of the domain. *)
Definition S_best (f : bool -> list Z -> list Z -> list Z -> option Z -> list Z * option Z) : Prop :=
  forall mx vals costs,
  (forall x, In x (fst (f mx vals costs [] None)) -> In x vals) /\
  match snd (f mx vals costs [] None) with
  | None => (vals = [] \/ costs = []) /\ fst (f mx vals costs [] None) = []
  | Some b => In b (P_SelectBest.seen vals costs) /\ P_SelectBest.unbeaten mx vals costs b
              /\ fst (f mx vals costs [] None) = M_Select.masked vals (M_SelectBest.opt_mask costs b)
  end.
Theorem adsa_find_best_values_spec : S_best M_SelectBest.fbv.
Proof. exact (fun mx vals costs => conj (P_SelectBest.fbv_in_domain mx vals costs) (P_SelectBest.fbv_spec mx vals costs)). Qed.
Theorem gdba_compute_best_improvement_spec : S_best M_SelectBest.cbi.
Proof. exact (fun mx vals costs => conj (P_SelectBest.cbi_in_domain mx vals costs) (P_SelectBest.cbi_spec mx vals costs)). Qed.

Definition S_adsa2 : Prop := forall dom nbrs iso orc variant prob mx acosts,
  (forall n, P_Select.ok (dom n) (iso n)) -> forall sched,
  (forall e, In e (snd (run (M_SelectBest.adsa2_proto dom nbrs iso orc variant prob mx acosts) sched)) -> P_Select.sev_ok dom e) /\
  (forall n, P_Select.ok (dom n)
     (M_Select.a_val (w_st (nodes (fst (run (M_SelectBest.adsa2_proto dom nbrs iso orc variant prob mx acosts) sched)) n)))).
Theorem adsa2_selects_in_domain : S_adsa2.
Proof. exact P_SelectBest.adsa2_selects_in_domain. Qed.

Definition S_gdba2 : Prop := forall dom init nbrs iso mx orc gcosts,
  (forall n, P_Select.ok (dom n) (iso n)) -> (forall n, P_Select.ok (dom n) (init n)) -> forall sched,
  (forall e, In e (snd (run (M_SelectBest.gdba2_proto dom init nbrs iso mx orc gcosts) sched)) -> P_Select.sev_ok dom e) /\
  (forall n, P_Select.ok (dom n)
     (M_Select.g_val (w_st (nodes (fst (run (M_SelectBest.gdba2_proto dom init nbrs iso mx orc gcosts) sched)) n)))).
Theorem gdba2_selects_in_domain : S_gdba2.
Proof. exact P_SelectBest.gdba2_selects_in_domain. Qed.

(* ---------------------------------------------------------------- dpop (values are domain indices) *)
Definition S_dpop : Prop := forall P sched,
  (forall x v c, In (M_Dpop.EvSelect x v c) (snd (run (M_Dpop.dpop_proto P) sched)) ->
     0 <= v < Z.of_nat (M_Dpop.dsize P x)) /\
  (forall x, M_Dpop.s_fin (w_st (nodes (fst (run (M_Dpop.dpop_proto P) sched)) x)) = true ->
     exists v c, M_Dpop.s_value (w_st (nodes (fst (run (M_Dpop.dpop_proto P) sched)) x)) = Some (v, c)
                 /\ 0 <= v < Z.of_nat (M_Dpop.dsize P x)).
Theorem dpop_selects_in_domain : S_dpop.
Proof. exact P_SelectDpop.dpop_selects_in_domain_l. Qed.

(* ---------------------------------------------------------------- syncbb (no hypothesis at all);
   third part: the invariant over the messages in flight that the message-borne selection needs *)
Definition S_syncbb : Prop := forall is_min nvars dom pc sched,
  let r := run (M_SyncBB.syncbb_proto is_min nvars dom pc) sched in
  (forall n v c, In (M_SyncBB.EvSel n v c) (snd r) -> In v (dom n)) /\
  (forall n v, M_SyncBB.value (w_st (nodes (fst r) n)) = Some v -> In v (dom n)) /\
  (forall s d m, In m (chan (fst r) s d) -> P_SelectBB.bMok dom s d m).
Theorem syncbb_selects_in_domain : S_syncbb.
Proof. exact P_SelectBB.syncbb_selects_in_domain_l. Qed.

(* ---------------------------------------------------------------- mgm, mgm2 *)
Definition S_mgm : Prop := forall d stop orc sched n, P_SelectMgm.okn d n ->
  (forall v c k, In (M_Mgm.EvValue n v c k) (snd (run (M_Mgm.mgm_proto d stop orc) sched)) -> In v (M_Mgm.dom_of d n)) /\
  (forall v, M_Mgm.m_value (w_st (nodes (fst (run (M_Mgm.mgm_proto d stop orc) sched)) n)) = Some v ->
     In v (M_Mgm.dom_of d n)).
Theorem mgm_selects_in_domain : S_mgm.
Proof. exact P_SelectMgm.mgm_selects_in_domain_node. Qed.

Definition S_mgm2 : Prop := forall d stop thr favor orc sched n, P_SelectMgm.okn d n ->
  (forall v c k, In (M_Mgm.EvValue n v c k) (snd (run (M_Mgm2.mgm2_proto d stop thr favor orc) sched)) ->
     In v (M_Mgm.dom_of d n)) /\
  (forall v, M_Mgm2.t_value (w_st (nodes (fst (run (M_Mgm2.mgm2_proto d stop thr favor orc) sched)) n)) = Some v ->
     In v (M_Mgm.dom_of d n)).
Theorem mgm2_selects_in_domain : S_mgm2.
Proof. exact P_SelectMgm.mgm2_selects_in_domain_node. Qed.

(* the offers and answers in flight only carry domain values (the message-borne case of MGM2) *)
Theorem mgm2_messages_in_domain : forall d stop thr favor orc sched s t m,
  In m (chan (fst (run (M_Mgm2.mgm2_proto d stop thr favor orc) sched)) s t) -> P_SelectMgm.Mok2 d s t m.
Proof. exact P_SelectMgm.mgm2_messages_in_domain. Qed.

(* ---------------------------------------------------------------- dsa *)
Definition S_dsa : Prop := forall d stop variant prob fo_vc orc sched n, M_Mgm.dom_of d n <> [] ->
  (forall v c k, In (M_Mgm.EvValue n v c k) (snd (run (M_Dsa.dsa_proto d stop variant prob fo_vc orc) sched)) ->
     In v (M_Mgm.dom_of d n)) /\
  (forall v, M_Dsa.ds_value (w_st (nodes (fst (run (M_Dsa.dsa_proto d stop variant prob fo_vc orc) sched)) n)) = Some v ->
     In v (M_Mgm.dom_of d n)).
Theorem dsa_selects_in_domain : S_dsa.
Proof. exact P_SelectDba.dsa_selects_in_domain_node. Qed.

(* ---------------------------------------------------------------- dba (partial, see header) *)
Definition S_dba_partial : Prop := forall cs ncs dom infinity maxd orc0 sched,
  let r := run (M_Dba.dba_proto cs ncs dom infinity maxd orc0) sched in
  (forall n v c k, In (M_Dba.EvSelect n v c k) (snd r) -> In v (dom n) \/ In (M_Dba.EvRaise n 1) (snd r)) /\
  (forall n v, M_Dba.d_value (w_st (nodes (fst r) n)) = Some v -> In v (dom n)) /\
  (forall n v, M_Dba.d_new (w_st (nodes (fst r) n)) = Some v -> In v (dom n)).
Theorem dba_selects_in_domain_partial : S_dba_partial.
Proof. exact P_SelectDba.dba_selects_in_domain_partial. Qed.

Theorem dba_selects_in_domain_refuted :
  exists cs ncs dom infinity maxd orc0 sched n v c k,
    In (M_Dba.EvSelect n v c k) (snd (run (M_Dba.dba_proto cs ncs dom infinity maxd orc0) sched)) /\ ~ In v (dom n).
Proof. exact P_SelectDba.dba_selects_in_domain_refuted. Qed.

(* dba, full statement on well-formed problems: no IndexError clause, every schedule, before and after
   finished() (deepening; P_SelectDba2.v / P_SelectDba3.v) *)
Definition S_dba : Prop := forall cs ncs dom infinity maxd orc0 sched,
  M_Dba.wf_problem cs ncs ->
  let r := run (M_Dba.dba_proto cs ncs dom infinity maxd orc0) sched in
  (forall n v c k, In (M_Dba.EvSelect n v c k) (snd r) -> In v (dom n)) /\
  (forall n v, M_Dba.d_value (w_st (nodes (fst r) n)) = Some v -> In v (dom n)) /\
  (forall n v, M_Dba.d_new (w_st (nodes (fst r) n)) = Some v -> In v (dom n)).
Theorem dba_selects_in_domain : S_dba.
Proof. exact P_SelectDba3.dba_selects_in_domain_wf. Qed.

(* the handler-level model M_Dba.v replays postponed messages one level deep (deeper = EvRaise n 9, outside
   the model); on a well-formed problem that limit is never reached, for every schedule, also after
   finished() - so the model is faithful on every run the theorem above speaks about *)
Theorem dba_nesting_limit_unreached : forall cs ncs dom infinity maxd orc0 sched n,
  M_Dba.wf_problem cs ncs ->
  ~ In (M_Dba.EvRaise n 9) (snd (run (M_Dba.dba_proto cs ncs dom infinity maxd orc0) sched)).
Proof. exact P_SelectDba3.dba_nesting_limit_unreached. Qed.

(* non-vacuity of S_dba: a well-formed instance whose computations select and then raise IndexError
   (infinity 0), and one whose run goes on after every computation called finished() twice *)
Example dba_c10_nonvacuous :
  M_Dba.wf_problem P_Dba.ex_cs P_Dba.ex_ncs
  /\ snd (run (M_Dba.dba_proto P_Dba.ex_cs P_Dba.ex_ncs P_Dba.ex_dom 0 1 P_Dba.ex_orc)
               [Start 0; Start 1; Deliver 0 1; Deliver 1 0; Deliver 0 1; Deliver 1 0])
     = [M_Dba.EvSelect 0 0 None 0; M_Dba.EvSelect 1 0 None 0; M_Dba.EvRaise 1 1; M_Dba.EvRaise 0 1]
  /\ snd (run (M_Dba.dba_proto P_Dba.ex_cs P_Dba.ex_ncs P_Dba.ex_dom 10000 1 P_Dba.ex_orc) P_Dba.ex_sched)
     = [M_Dba.EvSelect 0 0 None 0; M_Dba.EvSelect 1 0 None 0; M_Dba.EvCycle 1 1; M_Dba.EvCycle 0 1;
        M_Dba.EvSelect 0 1 (Some 0) 1; M_Dba.EvCycle 1 2; M_Dba.EvFinished 1; M_Dba.EvCycle 0 2;
        M_Dba.EvFinished 0; M_Dba.EvFinished 1; M_Dba.EvFinished 0].
Proof. exact P_SelectDba3.dba_selects_in_domain_nonvacuous. Qed.

(* ---------------------------------------------------------------- maxsum, amaxsum (domain indices) *)
Definition S_maxsum : Prop := forall P G sched n vd dc, P_SelectMaxSum.wf_vars G ->
  zlookup n (M_MaxSum.d_vars G) = Some vd ->
  In dc (M_MaxSum.n_sel (M_SyncMixin.ast (w_st (nodes (fst (run (M_MaxSum.maxsum_proto P G) sched)) n)))) ->
  (fst dc < M_MaxSum.v_dom vd)%nat.
Theorem maxsum_selects_in_domain : S_maxsum.
Proof. exact P_SelectMaxSum.maxsum_selects_in_domain. Qed.

Definition S_amaxsum : Prop := forall P G sched, P_SelectMaxSum.wf_vars G ->
  (forall n d c, In (M_MaxSum.ASel n d c) (snd (run (M_MaxSum.amaxsum_proto P G) sched)) ->
     exists vd, zlookup n (M_MaxSum.d_vars G) = Some vd /\ (d < M_MaxSum.v_dom vd)%nat) /\
  (forall n vd d, zlookup n (M_MaxSum.d_vars G) = Some vd ->
     M_MaxSum.current_value (w_st (nodes (fst (run (M_MaxSum.amaxsum_proto P G) sched)) n)) = Some d ->
     (d < M_MaxSum.v_dom vd)%nat).
Theorem amaxsum_selects_in_domain : S_amaxsum.
Proof. exact P_SelectMaxSum.amaxsum_selects_in_domain. Qed.

(* ---------------------------------------------------------------- all 11 algorithms *)
Theorem C10_all :
  S_funnel /\ S_dpop /\ S_syncbb /\ S_mgm /\ S_mgm2 /\ S_dsa /\ S_adsa /\ S_dsatuto /\ S_dba_partial /\ S_gdba /\
  S_maxsum /\ S_amaxsum /\ S_dba /\ S_adsa2 /\ S_gdba2 /\ S_best M_SelectBest.fbv /\ S_best M_SelectBest.cbi.
Proof.
  exact (conj funnel_in_domain (conj dpop_selects_in_domain (conj syncbb_selects_in_domain
        (conj mgm_selects_in_domain (conj mgm2_selects_in_domain (conj dsa_selects_in_domain
        (conj adsa_selects_in_domain (conj dsatuto_selects_in_domain (conj dba_selects_in_domain_partial
        (conj gdba_selects_in_domain (conj maxsum_selects_in_domain (conj amaxsum_selects_in_domain
        (conj dba_selects_in_domain (conj adsa2_selects_in_domain (conj gdba2_selects_in_domain
        (conj adsa_find_best_values_spec gdba_compute_best_improvement_spec)))))))))))))))).
Qed.

(* ---------------------------------------------------------------- non-vacuity: a 2-variable gdba
   run (first ok message delivered before the receiver started, so it is held and re-injected)
   satisfying the hypotheses of S_gdba, in which three values are selected, all domain members *)
Definition ex_dom (n : node) : list Z := [0; 1].
Definition ex_nbrs (n : node) : list node := if n =? 0 then [1] else if n =? 1 then [0] else [].
Definition ex_orc (n : node) : list Z := if n =? 0 then [0; 0] else [1; 0].
Definition ex_gevs (n : node) : list (Z * list bool) :=
  if n =? 0 then [(2, [false; true]); (0, [false; true])] else [(0, [true; true]); (0, [true; true])].
Definition ex_sched : list (@action) :=
  [Deliver 0 1; Start 0; Deliver 0 1; Start 1; Deliver 1 0; Deliver 1 0; Deliver 0 1; Deliver 0 1;
   Deliver 0 1; Deliver 1 0].

Example c10_nonvacuous :
  (forall n, P_Select.ok (ex_dom n) (@None Z)) /\
  snd (run (M_Select.gdba_proto ex_dom (fun _ => None) ex_nbrs (fun _ => None) false ex_orc ex_gevs) ex_sched)
    = [M_Select.SSel 0 (Some 0); M_Select.SSel 1 (Some 1); M_Select.SSel 0 (Some 1)].
Proof. split; [intros n; exact I|vm_compute; reflexivity]. Qed.
