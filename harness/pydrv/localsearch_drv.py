"""Shared driver for the cycle-based local-search algorithms (mgm, mgm2, dsa): C07, C03, C04.

A case is JSON:
  algo: mgm|mgm2|dsa      mode: min|max       stop_cycle: k       params: {...}
  vars: [ {dom:[ints], init:int|None, costs:[ints]|None} ]   variable i is named v%02d
  cons: [ {scope:[var indexes], table:[ints]} ]    table row-major over the scope (first var outermost)
  seed, policy, max_steps

run_case(case) instantiates the REAL computations (netdriver recipe), replaces the algorithm
randomness of the `random` module by a logged oracle, executes a seeded FIFO schedule and returns
every observable: schedule, ordered event list, per-node draws, final node state, final channels.
"""
import itertools
import random
import signal
from importlib import import_module

import logging

from harness.pydrv.netdriver import NetDriver

logging.getLogger("pydcop").setLevel(logging.ERROR)   # mgm2 warns on every refused GO


NAME_STYLE = None      # set by run_case from case["names"]


def vname(i):
    """computation / variable name of index i.  Default v%02d.  Style "sub" (case["names"] = "sub"): v0, v00,
    v000, ... - every name is a substring (prefix) of the later ones and the lexical order is still the index
    order, so the models (which know indices only) are unchanged"""
    if NAME_STYLE == "sub":
        return "v" + "0" * (i + 1)
    return "v%02d" % i


def vidx(name):
    if NAME_STYLE == "sub":
        return len(name) - 2
    return int(name[1:])


def _int(x):
    if x is None:
        return None
    if isinstance(x, bool):
        return int(x)
    if isinstance(x, float) and (x != x or x in (float("inf"), float("-inf"))):
        return x                # inf / nan: only in the oracle-only float stream (hard constraints)
    xi = int(x)
    if xi != x:
        # only in the oracle-only float stream (case["float"]): such cases are never printed for Coq
        return float(x)
    return xi


def _nest(flat, shape):
    if not shape:
        return flat[0]
    if len(shape) == 1:
        return list(flat)
    step = len(flat) // shape[0]
    return [_nest(flat[i * step:(i + 1) * step], shape[1:]) for i in range(shape[0])]


def build_dcop(case):
    from pydcop.dcop.dcop import DCOP
    from pydcop.dcop.objects import Domain, Variable, VariableWithCostDict, VariableWithCostFunc
    from pydcop.dcop.relations import NAryMatrixRelation
    dcop = DCOP("t", case["mode"])
    vs = []
    for i, v in enumerate(case["vars"]):
        dom = Domain("d%02d" % i, "d", list(v["dom"]))
        if v.get("costs") is None:
            var = Variable(vname(i), dom, v.get("init"))
        elif v.get("costfunc"):
            tbl = dict(zip(v["dom"], v["costs"]))
            var = VariableWithCostFunc(vname(i), dom, (lambda t: (lambda x: t[x]))(tbl), v.get("init"))
        else:
            # a None entry = the cost table does not cover this value (cost_for_val gives 0)
            var = VariableWithCostDict(vname(i), dom, {a: b for a, b in zip(v["dom"], v["costs"]) if b is not None},
                                       v.get("init"))
        vs.append(var)
        dcop.add_variable(var)
    for k, c in enumerate(case["cons"]):
        sc = [vs[i] for i in c["scope"]]
        shape = [len(v.domain) for v in sc]
        dcop.add_constraint(NAryMatrixRelation(sc, _nest(list(c["table"]), shape), name="c%02d" % k))
    return dcop, vs


class Oracle:
    """replacement of random.choice / random.random / random.uniform in the driver process"""

    def __init__(self, rng):
        self.rng = rng
        self.cur = None           # name of the node whose handler is running
        self.draws = {}           # node -> list of ints (what the model gets)

    def _log(self, x):
        self.draws.setdefault(self.cur, []).append(int(x))

    def choice(self, seq):
        n = len(seq)
        if n == 0:
            raise IndexError("Cannot choose from an empty sequence")
        i = self.rng.randrange(n)
        el = seq[i]
        if hasattr(el, "name") and hasattr(el, "domain"):
            # a list built from a set of Variable objects: its order is hash order; log the rank
            # of the chosen element in name order instead of the position
            self._log(sorted(x.name for x in seq).index(el.name))
        elif isinstance(el, tuple):
            # mgm2 best offers (val_p, my_val, partner_name): log rank in sorted order
            self._log(sorted(seq).index(el))
        else:
            self._log(i)
        return el

    def randint(self, low, high=None, size=None):
        # numpy.random.randint(n): VariableComputation.random_value_selection draws an index
        # into the domain (since /repo 4dab747; before: numpy.random.choice(domain)); the model
        # takes the same index (choose dom i = dom[i mod len dom])
        lo, hi = (0, low) if high is None else (low, high)
        i = self.rng.randrange(hi - lo)
        self._log(i)
        return lo + i

    def random(self):
        # used by mgm._send_gain (tie-break number that the code never uses: break_mode == random
        # compares a string with the module) and by dsa.probabilistic_change
        k = self.rng.randrange(1000)
        if self.algo == "dsa":
            self._log(k)
        return k / 1000.0

    def uniform(self, a, b):
        k = self.rng.randrange(1000)
        self._log(k)
        return a + (b - a) * k / 1000.0


def build_computations(case):
    from pydcop.algorithms import load_algorithm_module, AlgorithmDef, ComputationDef
    dcop, vs = build_dcop(case)
    algo = case["algo"]
    mod = load_algorithm_module(algo)
    gm = import_module("pydcop.computations_graph." + mod.GRAPH_TYPE)
    cg = gm.build_computation_graph(dcop)
    params = dict(case.get("params") or {})
    params["stop_cycle"] = case["stop_cycle"]
    adef = AlgorithmDef.build_with_default_param(algo, params, mode=dcop.objective,
                                                 parameters_definitions=mod.algo_params)
    comps = {}
    for node in cg.nodes:
        comps[node.name] = mod.build_computation(ComputationDef(node, adef))
    return dcop, comps


def msg_obs(m):
    """canonical content of an algorithm message"""
    t = m.type
    if t in ("mgm_value", "dsa_value", "value"):
        return ["V", _int(m.value)]
    if t in ("mgm_gain", "gain"):
        return ["G", _int(m.value)]
    if t == "offer":
        return ["O", 1 if m.is_offering else 0,
                sorted([[_int(k[0]), _int(k[1]), _int(g)] for k, g in m.offers.items()])]
    if t == "answer?":
        return ["A", 1 if m.accept else 0, _int(m.value), _int(m.gain)]
    if t == "go?":
        return ["GO", 1 if m.go else 0]
    return ["?", t]


def node_state(algo, c):
    if algo == "mgm":
        st = {"starting": 0, "values": 1, "gain": 2}[c._state]
        return dict(state=st, cycle=c.cycle_count, value=_int(c.current_value), cost=_int(c.current_cost),
                    nv=sorted([vidx(k), _int(v)] for k, v in c._neighbors_values.items()),
                    ng=sorted([vidx(k), _int(g[0])] for k, g in c._neighbors_gains.items()),
                    pv=[[vidx(s), _int(m.value)] for s, m in c.__postponed_value_messages__],
                    pg=[[vidx(s), _int(m.value)] for s, m in c.__postponed_gain_messages__],
                    gain=_int(c._gain), newv=_int(c._new_value))
    if algo == "dsa":
        me = c.name
        return dict(cycle=c.cycle_count, value=_int(c.current_value), cost=_int(c.current_cost),
                    cur=sorted([vidx(k), _int(v)] for k, v in c.current_cycle.items()),
                    nxt=sorted([vidx(k), _int(v)] for k, v in c.next_cycle.items()),
                    running=1 if c.is_running else 0,
                    held=[[vidx(s), _int(m.value)] for s, m, _ in c._paused_messages_recv])
    if algo == "mgm2":
        st = {None: 0, "value": 1, "offer": 2, "answer?": 3, "gain": 4, "go?": 5}[c._state]
        post = {}
        for k in ("value", "offer", "answer?", "gain", "go?"):
            post[k] = [[vidx(s), msg_obs(m)] for s, m, _ in c._postponed_msg[k]]
        return dict(state=st, cycle=c.cycle_count, value=_int(c.current_value), cost=_int(c.current_cost),
                    nv=sorted([vidx(k), _int(v)] for k, v in c._neighbors_values.items()),
                    ng=sorted([vidx(k), _int(g)] for k, g in c._neighbors_gains.items()),
                    offers=[[vidx(s), msg_obs(m)] for s, m in c._offers],
                    partner=None if c._partner is None else vidx(c._partner.name),
                    committed=1 if c._committed else 0, offerer=1 if c._is_offerer else 0,
                    pgain=_int(c._potential_gain), pval=_int(c._potential_value),
                    can_move=1 if c._can_move else 0, post=post)
    raise ValueError(algo)


HANDLER_CPU_LIMIT = 20      # seconds of CPU time for ONE start() / on_message() call (normal: milliseconds)


class HandlerTimeout(BaseException):
    """not an Exception: must cross the netdriver's `except Exception` and the handlers' own try blocks"""


def _on_cpu_alarm(signum, frame):
    raise HandlerTimeout()


def run_case(case, schedule=None):
    """Run the real computations.  schedule=None: seeded random schedule (policy of the case)."""
    global NAME_STYLE
    NAME_STYLE = case.get("names")
    try:
        return _run_case(case, schedule)
    finally:
        NAME_STYLE = None


def _run_case(case, schedule=None):
    import numpy
    seed = case["seed"]
    rng = random.Random(seed)
    random.seed(seed)
    numpy.random.seed(seed % (2 ** 32))
    dcop, comps = build_computations(case)
    algo = case["algo"]
    orc = Oracle(random.Random(seed + 1))
    orc.algo = algo
    events = []
    finished = {n: 0 for n in comps}

    def hook(name, comp):
        def on_val(v, cost, cycle):
            ev = ["val", vidx(name), _int(v), _int(cost), cycle]
            if algo == "mgm2" and comp._committed and comp._partner is not None:
                ev.append(vidx(comp._partner.name))      # coordinated move with this partner
            events.append(ev)

        def on_cyc(k):
            events.append(["cyc", vidx(name), k])

        def fin():
            finished[name] += 1
            events.append(["fin", vidx(name), comp.cycle_count])
        comp._on_value_selection = on_val
        comp._on_new_cycle = on_cyc
        comp.finished = fin
    for n, c in comps.items():
        hook(n, c)
    drv = NetDriver(comps)
    go_log = []
    if algo == "mgm2":
        base_sender = drv._sender

        def sender(src, dst, msg, prio=None, on_error=None):
            if msg.type == "go?" and prio != 19:
                go_log.append([vidx(src), comps[src].cycle_count, 1 if msg.go else 0])
            base_sender(src, dst, msg, prio, on_error)
        for comp in comps.values():
            comp._msg_sender = sender
    real_do = drv.do

    def do(act):
        orc.cur = act[1] if act[0] != "D" else act[2]
        ne = len(drv.events)
        watchdog(HANDLER_CPU_LIMIT)
        try:
            real_do(act)
        finally:
            watchdog(0)
        for e in drv.events[ne:]:
            if e[0] == "raise":
                events.append(["raise", vidx(e[1]), e[2], e[3]])
    drv.do = do
    saved = (random.choice, random.random, random.uniform)
    np_saved = (numpy.random.choice, numpy.random.randint)   # VariableComputation.random_value_selection uses numpy's
    random.choice, random.random, random.uniform = orc.choice, orc.random, orc.uniform
    numpy.random.choice = orc.choice
    numpy.random.randint = orc.randint
    old_handler = None
    try:
        old_handler = signal.signal(signal.SIGVTALRM, _on_cpu_alarm)
    except (ValueError, OSError):      # not in the main thread: no watchdog
        pass

    def watchdog(seconds):
        if old_handler is not None:
            signal.setitimer(signal.ITIMER_VIRTUAL, seconds)
    try:
        if schedule is None and case.get("pauses"):
            run_with_pauses(drv, rng, case.get("max_steps", 400), finished)
        elif schedule is None:
            pol = case.get("policy", "uniform")
            if pol.startswith("starve:v") and NAME_STYLE:
                pol = "starve:" + vname(int(pol[8:]))      # the policy names the node in the default style
            drv.run_random(rng, max_steps=case.get("max_steps", 400), policy=pol)
        else:
            for a in schedule:
                drv.do(a)
    except HandlerTimeout:
        # one start / on_message call used more than HANDLER_CPU_LIMIT s of CPU: a handler that loops for
        # ever (seen with seeded changes that put MGM2 out of phase); reported like a raising handler
        node = orc.cur
        events.append(["raise", vidx(node) if node else -1, "HandlerTimeout",
                       "no return after %ds of CPU" % HANDLER_CPU_LIMIT])
    finally:
        watchdog(0)
        if old_handler is not None:
            signal.signal(signal.SIGVTALRM, old_handler)
        random.choice, random.random, random.uniform = saved
        numpy.random.choice, numpy.random.randint = np_saved
    chans = []
    for (s, d), ql in sorted(drv.chans.items()):
        if ql:
            chans.append([vidx(s), vidx(d), [msg_obs(m) for m in ql]])
    # a pause is a stutter of the model: Pause / Resume and the deliveries handed to a paused computation
    # (buffered by the real on_message, re-injected at the channel head by pause(False)) are not model actions
    sched, sched_impl, paused_now = [], [], set()
    for a in drv.schedule:
        ai = [a[0]] + [vidx(x) for x in a[1:]]
        sched_impl.append(ai)
        if a[0] == "P":
            paused_now.add(a[1])
        elif a[0] == "R":
            paused_now.discard(a[1])
        elif a[0] == "D" and a[2] in paused_now:
            pass
        else:
            sched.append(ai)
    nodes = {str(vidx(n)): node_state(algo, c) for n, c in comps.items()}
    nbrs = {str(vidx(n)): sorted(vidx(x if isinstance(x, str) else x.name) for x in
                                 (c._neighbors if algo != "dsa" else c.neighbors)) for n, c in comps.items()}
    quiescent = not drv.enabled()
    extra = {}
    if algo == "dsa":
        extra["fo_vc"] = probe_find_optimal_varcost()
    extra["gos"] = go_log
    if len(sched_impl) != len(sched):
        extra["sched_impl"] = sched_impl
    return dict(**extra, sched=sched, events=events, draws={str(vidx(k)): v for k, v in orc.draws.items()},
                nodes=nodes, chans=chans, nbrs=nbrs, quiescent=1 if quiescent else 0,
                finished={str(vidx(n)): k for n, k in finished.items()})


def run_with_pauses(drv, rng, max_steps, finished):
    """'startlate' schedule (deliveries preferred to starts, so late computations find a pre-start buffer)
    with pause(True) / pause(False) of running, unfinished computations at random instants - what the
    orchestrator does around scenario events.  Messages delivered to a paused computation are buffered by
    the real on_message and re-injected (priority 19: channel head, in order) at resume.  Every computation
    is resumed before the run is observed."""
    steps = 0
    while steps < max_steps:
        acts = drv.enabled()
        if not acts and not drv.paused:
            break
        cand = [n for n in drv.names if n in drv.started and n not in drv.paused and not finished[n]]
        x = rng.random()
        if drv.paused and (not acts or x < 0.12):
            drv.do(["R", rng.choice(sorted(drv.paused))])
        elif cand and x > 0.93:
            drv.do(["P", rng.choice(cand)])
        else:
            d_acts = [a for a in acts if a[0] == "D"]
            if d_acts and rng.random() < 0.85:
                acts = d_acts
            drv.do(rng.choice(acts))
        steps += 1
    for n in sorted(drv.paused):
        drv.do(["R", n])
    return steps


# ------------------------------------------------------------------ generators shared by C07/C03/C04
def gen_dcop(rng, nmax=5, p_cost=0.3, p_nary=0.25, dmax=3):
    n = min(nmax, rng.choice([1, 2, 2, 3, 3, 3, 4, 4, 4, 5, 5, 6]))
    vars_ = []
    for i in range(n):
        dsz = rng.randint(1, dmax) if rng.random() < 0.15 else rng.randint(2, dmax)
        if rng.random() < 0.7:
            dom = list(range(dsz))
        else:
            dom = sorted(rng.sample(range(8), dsz))
            if rng.random() < 0.5:
                rng.shuffle(dom)
        init = rng.choice(dom) if rng.random() < 0.5 else None
        costs = [rng.randint(-3, 9) for _ in dom] if rng.random() < p_cost else None
        v = dict(dom=dom, init=init, costs=costs)
        if costs is not None and rng.random() < 0.2:
            v["costfunc"] = 1
        elif costs is not None and rng.random() < 0.3:
            # cost dict that does not cover the whole domain: cost_for_val is 0 for the missing values
            for k in range(len(costs)):
                if rng.random() < 0.4:
                    costs[k] = None
        vars_.append(v)
    cons = []
    if n >= 2:
        dens = rng.choice([0.3, 0.5, 0.8, 1.0])
        for i in range(n):
            for j in range(i + 1, n):
                if rng.random() < dens:
                    sc = [i, j] if rng.random() < 0.7 else [j, i]
                    cons.append(dict(scope=sc))
        if n >= 3 and rng.random() < p_nary:
            for _ in range(rng.randint(1, 2)):
                cons.append(dict(scope=rng.sample(range(n), 3)))
        if rng.random() < 0.1 and cons:
            cons.append(dict(scope=list(cons[0]["scope"])))    # two constraints on the same pair
    for i in range(n):
        if rng.random() < 0.15:
            cons.append(dict(scope=[i]))
    lo, hi = rng.choice([(0, 9), (0, 3), (-5, 9), (0, 1)])
    for c in cons:
        size = 1
        for i in c["scope"]:
            size *= len(vars_[i]["dom"])
        c["table"] = [rng.randint(lo, hi) for _ in range(size)]
    return vars_, cons


def gen_tie_dcop(rng):
    """tie-rich instance with own costs on most variables: domains of 3-4 values, own costs in {0,1}
    (sometimes {0,1,2}), binary tables in {0,1} (sometimes up to 2), so that 'constraint cost of the current
    value == constraint + own cost of the best values' (DSA: delta == 0 while the current value is NOT one
    of the best values) together with several best values is frequent (~10% of the runs, variants B/C)"""
    n = rng.randint(2, 4)
    cr = rng.choice([1, 1, 1, 2])
    vars_ = []
    for i in range(n):
        dom = list(range(rng.choice([3, 4, 3, 2])))
        v = dict(dom=dom, init=rng.choice(dom) if rng.random() < 0.2 else None, costs=None)
        if rng.random() < 0.85:
            v["costs"] = [rng.randint(0, cr) for _ in dom]
            if rng.random() < 0.3:
                v["costfunc"] = 1
        vars_.append(v)
    cons = []
    for i in range(n):
        for j in range(i + 1, n):
            if rng.random() < 0.7 or (j == i + 1 and not cons):
                cons.append(dict(scope=[i, j] if rng.random() < 0.8 else [j, i]))
    if rng.random() < 0.1:
        cons.append(dict(scope=[rng.randrange(n)]))
    for c in cons:
        size = 1
        for i in c["scope"]:
            size *= len(vars_[i]["dom"])
        hi = rng.choice([1, 1, 1, 2])
        c["table"] = [rng.randint(0, hi) for _ in range(size)]
    return vars_, cons


# ------------------------------------------------------------------ independent evaluation (oracles)
def cons_cost(case, k, asg):
    c = case["cons"][k]
    idx = 0
    for i in c["scope"]:
        dom = case["vars"][i]["dom"]
        idx = idx * len(dom) + dom.index(asg[i])
    return c["table"][idx]


def var_cost(case, i, val):
    v = case["vars"][i]
    if v.get("costs") is None:
        return 0
    x = v["costs"][v["dom"].index(val)]
    return 0 if x is None else x


def global_cost(case, asg, with_var_costs=True):
    """exact: integers, or for the float stream the exact rational value of every float cost
    (fractions.Fraction(float)), so the oracle's sums have no rounding and no summation order"""
    from fractions import Fraction
    terms = [cons_cost(case, k, asg) for k in range(len(case["cons"]))]
    if with_var_costs:
        terms += [var_cost(case, i, asg[i]) for i in range(len(case["vars"]))]
    if case.get("float"):
        infs = [t for t in terms if t in (float("inf"), float("-inf"))]
        if infs:
            return infs[0]      # a violated hard constraint (the stream uses one sign per instance)
        return sum(Fraction(t) for t in terms)
    return sum(terms)


def cost_tol(case):
    """0 for integer costs.  Float stream: 1e-9 * (sum over constraints and variables of the largest
    |cost| entry, at least 1).  The implementation sums floats in an order of its own, so a 'gain' can
    differ from the exact one by rounding (~1e-16 * scale) and the UNCHANGED code may move between two
    values whose exact costs differ by such an amount; the property is demanded up to this slack only."""
    from fractions import Fraction
    if not case.get("float"):
        return 0
    fin = lambda l: [abs(x) for x in l if x is not None and abs(x) != float("inf")] or [0]
    scale = sum(max(fin(c["table"])) for c in case["cons"])
    scale += sum(max(fin(v.get("costs") or [0])) for v in case["vars"])
    return Fraction(1, 10 ** 9) * max(1, Fraction(scale))


def show_cost(x):
    return x if isinstance(x, int) else float(x)


def neighbours(case, i):
    s = set()
    for c in case["cons"]:
        if i in c["scope"]:
            s.update(c["scope"])
    s.discard(i)
    return sorted(s)


def assignments_at_cycles(case, obs):
    """assignment held by all computations at each instant where every computation has completed the
    same number of cycles: value selections with cycle_count <= k, replayed per node.
    Returns list of (k, asg) for k = 1 .. min over nodes of the cycles reached (nodes with
    neighbours only: isolated ones hold their final value from the start)."""
    n = len(case["vars"])
    sel = {i: [] for i in range(n)}
    cyc = {i: 0 for i in range(n)}
    for e in obs["events"]:
        if e[0] == "val":
            sel[e[1]].append((e[4], e[2]))
        elif e[0] == "cyc":
            cyc[e[1]] = max(cyc[e[1]], e[2])
    return sel, cyc


def policy_for(rng, n):
    from harness.pydrv.netdriver import pick_policy
    return pick_policy(rng, [vname(i) for i in range(n)])


# ------------------------------------------------------------------ Gallina printers
def coq_dcop(case):
    from harness import coqio as q
    vs = []
    for i, v in enumerate(case["vars"]):
        costs = q.lst([q.pair(q.z(a), q.z(b)) for a, b in zip(v["dom"], v["costs"]) if b is not None]) if v.get("costs") is not None else "[]"
        vs.append(q.pair(q.z(i), "mkV %s %s %s" % (q.zlist(v["dom"]), q.opt(v.get("init"), q.z), costs)))
    cs = []
    for c in case["cons"]:
        doms = [case["vars"][i]["dom"] for i in c["scope"]]
        rows = []
        for tup, cost in zip(itertools.product(*doms), c["table"]):
            rows.append(q.pair(q.zlist(tup), q.z(cost)))
        cs.append("mkC %s %s" % (q.zlist(c["scope"]), q.lst(rows)))
    return "(mkD %s %s %s)" % (q.lst(vs), q.lst(cs), q.b(case["mode"] == "max"))


def coq_sched(obs):
    from harness import coqio as q
    return q.lst(["Start %s" % q.z(a[1]) if a[0] == "S" else "Deliver %s %s" % (q.z(a[1]), q.z(a[2]))
                  for a in obs["sched"]])


def coq_orc(case, obs):
    from harness import coqio as q
    return q.lst([q.pair(q.z(int(k)), q.zlist(v)) for k, v in sorted(obs["draws"].items(), key=lambda kv: int(kv[0]))])


def coq_kv(l):
    from harness import coqio as q
    return q.lst([q.pair(q.z(a), q.z(b)) for a, b in l])


def coq_nbrs(obs):
    from harness import coqio as q
    return q.lst([q.pair(q.z(int(k)), q.zlist(v)) for k, v in sorted(obs["nbrs"].items(), key=lambda kv: int(kv[0]))])


def probe_find_optimal_varcost():
    """does relations.find_optimal add the variable's own cost?  (it tests hasattr(variable,
    "cost_for_value") on the present tree, which no Variable class has: C06's subject)"""
    from pydcop.dcop.objects import Domain, VariableWithCostDict
    from pydcop.dcop.relations import find_optimal, NAryMatrixRelation
    v = VariableWithCostDict("p", Domain("d", "d", [0, 1]), {0: 5, 1: 0})
    c = NAryMatrixRelation([v], [0, 1], name="c")
    vals, cost = find_optimal(v, {}, [c], "min")
    return 1 if (list(vals), cost) == ([1], 1) else 0


# ------------------------------------------------------------------ cycle boundaries (C03 / C04 oracles)
def boundaries(case, obs):
    """[asg_0, asg_1, ...]: asg_b = the assignment held once every computation has completed b cycles
    (asg_0 = initial values).  A computation has completed b cycles when its cycle counter reached b+1
    (mgm/mgm2 call new_cycle when they enter a cycle); a value selected while the counter is c belongs
    to cycle c.  Computations without neighbour select their final value at start.
    Returns [] unless every computation was started."""
    n = len(case["vars"])
    sel = {i: [] for i in range(n)}
    cyc = {i: 0 for i in range(n)}
    for e in obs["events"]:
        if e[0] == "val":
            sel[e[1]].append((e[4], e[2]))
        elif e[0] == "cyc":
            cyc[e[1]] = max(cyc[e[1]], e[2])
    if any(not sel[i] for i in range(n)):
        return []
    active = [i for i in range(n) if neighbours(case, i)]
    if not active:
        return []
    top = min(cyc[i] for i in active) - 1
    out = []
    for b in range(0, top + 1):
        asg = {}
        for i in range(n):
            vals = [v for (c, v) in sel[i] if c <= b]
            asg[i] = vals[-1]
        out.append(asg)
    return out


def better(mode, a, b):
    """a strictly better than b"""
    return a < b if mode == "min" else a > b


def check_monotone(case, obs):
    bs = boundaries(case, obs)
    tol = cost_tol(case)
    for b in range(len(bs) - 1):
        c0, c1 = global_cost(case, bs[b]), global_cost(case, bs[b + 1])
        if better(case["mode"], c0, c1) and abs(c0 - c1) > tol:
            movers = [i for i in bs[b] if bs[b][i] != bs[b + 1][i]]
            return dict(kind="worse", cycle=b + 1, before=show_cost(c0), after=show_cost(c1), movers=movers)
        movers = [i for i in bs[b] if bs[b][i] != bs[b + 1][i]]
        partner = {e[1]: e[5] for e in obs["events"] if e[0] == "val" and len(e) > 5 and e[4] == b + 1}
        for x in movers:
            for y in movers:
                if x < y and y in neighbours(case, x) and not (partner.get(x) == y and partner.get(y) == x):
                    return dict(kind="adjacent", cycle=b + 1, movers=movers, pair=[x, y],
                                before=show_cost(c0), after=show_cost(c1))
    return None


def check_1opt(case, obs):
    bs = boundaries(case, obs)
    tol = cost_tol(case)
    for b in range(len(bs) - 1):
        if bs[b] != bs[b + 1]:
            continue
        c0 = global_cost(case, bs[b])
        for i in range(len(case["vars"])):
            for v in case["vars"][i]["dom"]:
                a2 = dict(bs[b])
                a2[i] = v
                c1 = global_cost(case, a2)
                if better(case["mode"], c1, c0) and abs(c0 - c1) > tol:
                    return dict(kind="not1opt", cycle=b + 1, var=i, value=v, before=show_cost(c0),
                                after=show_cost(c1))
    return None


# ------------------------------------------------------------------ Gallina terms of whole cases
def coq_events(o):
    from harness import coqio as q
    evs = []
    for e in o["events"]:
        if e[0] == "val":
            evs.append("EvValue %s %s %s %s" % (q.z(e[1]), q.z(e[2]), q.opt(e[3], q.z), q.z(e[4])))
        elif e[0] == "cyc":
            evs.append("EvCycle %s %s" % (q.z(e[1]), q.z(e[2])))
        elif e[0] == "fin":
            evs.append("EvFinished %s %s" % (q.z(e[1]), q.z(e[2])))
        else:
            evs.append("EvErr %s 1" % q.z(e[1]))
    return q.lst(evs)


def coq_mmsg(m):
    from harness import coqio as q
    return ("MValue %s" if m[0] == "V" else "MGain %s") % q.z(m[1])


def coq_mgm_case(c, o):
    from harness import coqio as q
    nodes = []
    for k, s in sorted(o["nodes"].items(), key=lambda kv: int(kv[0])):
        nodes.append(q.pair(q.z(int(k)), "mkN %s %s %s %s %s %s %s %s %s %s" % (
            q.z(s["state"]), q.z(s["cycle"]), q.opt(s["value"], q.z), q.opt(s["cost"], q.z),
            coq_kv(s["nv"]), coq_kv(s["ng"]), coq_kv(s["pv"]), coq_kv(s["pg"]),
            q.opt(s["gain"], q.z), q.opt(s["newv"], q.z))))
    chans = q.lst(["(%s, %s, %s)" % (q.z(s), q.z(d), q.lst([coq_mmsg(m) for m in l])) for s, d, l in o["chans"]])
    return "M_Mgm.mkCase %s %s %s %s %s %s %s %s" % (
        coq_dcop(c), q.z(c["stop_cycle"]), coq_orc(c, o), coq_sched(o), coq_events(o), q.lst(nodes), chans,
        coq_nbrs(o))


def coq_mgm_rcase(c, o):
    """round-level case: initial assignment, per-node draws from the first cycle on, boundary assignments"""
    from harness import coqio as q
    bs = boundaries(c, o)
    n = len(c["vars"])
    if not bs:
        return "M_Mgm.mkRCase %s [] [] []" % coq_dcop(c)
    orcs = []
    for i in range(n):
        dr = list(o["draws"].get(str(i), []))
        if neighbours(c, i) and c["vars"][i].get("init") is None:
            dr = dr[1:]          # the draw spent by on_start on the initial value
        orcs.append(q.pair(q.z(i), q.zlist(dr)))
    asg = lambda a: q.lst([q.pair(q.z(i), q.z(a[i])) for i in range(n)])
    return "M_Mgm.mkRCase %s %s %s %s" % (coq_dcop(c), asg(bs[0]), q.lst(orcs), q.lst([asg(a) for a in bs[1:]]))


def floatify(rng, vars_, cons):
    """integer instance -> decimal / non-dyadic float costs: every cost k becomes the float nearest to
    k/q (q = 10 mostly: multiples of 0.1, own costs like 0.1/0.2; also 3 and 7), so that decimal-equal
    gains get different float representations (near-ties at rounding distance)"""
    q = rng.choice([10, 10, 10, 3, 7])
    for v in vars_:
        if v.get("costs") is not None:
            v["costs"] = [None if x is None else float(x) / q for x in v["costs"]]
    for c in cons:
        c["table"] = [float(x) / q for x in c["table"]]


def gen_cycle_cases(rng, n, algos, p_float=0.18):
    """cases for the cost properties: more cycles, complete runs mostly.  A low-weight ORACLE-ONLY stream
    (case["float"] = 1, mgm only, never printed for Coq) has non-integer costs."""
    cases = []
    for _ in range(n):
        algo = rng.choice(algos)
        isf = "mgm" in algos and rng.random() < p_float
        if isf:
            algo = "mgm"
        vars_, cons = gen_dcop(rng, nmax=5, p_cost=0.6 if isf else rng.choice([0.0, 0.3, 0.6]))
        if isf:
            floatify(rng, vars_, cons)
        mode = rng.choice(["min", "max"])
        if isf and cons and rng.random() < 0.5:
            # an unsatisfiable hard constraint: every entry of one constraint is +inf (min) / -inf (max), so
            # its variables have an infinite local cost whatever they do and announce the gain inf - inf = nan
            hard = rng.choice(cons)
            hard["table"] = [float("inf") if mode == "min" else float("-inf")] * len(hard["table"])
        k = rng.randint(2, 7)
        full = rng.random() < 0.85
        params = {}
        if algo == "mgm2":
            params = dict(threshold=rng.choice([0.0, 0.3, 0.5, 0.5, 0.8, 1.0]),
                          favor=rng.choice(["unilateral", "no", "coordinated"]))
        if algo == "mgm" and rng.random() < 0.4:
            # break_mode=random: on the code as it is _break_ties tests `self.break_mode == random` (the
            # module), always false, so it behaves exactly as the default lexical mode (= the model)
            params = dict(break_mode="random")
        cases.append(dict(algo=algo, mode=mode, stop_cycle=k, params=params, vars=vars_,
                          cons=cons, seed=rng.randrange(10 ** 9), policy=policy_for(rng, len(vars_)),
                          max_steps=4000 if full else rng.randint(5, 120), full=1 if full else 0))
        if isf:
            cases[-1]["float"] = 1
        if rng.random() < 0.15:
            cases[-1]["pauses"] = 1      # startlate schedule with pause / resume (run_with_pauses)
            cases[-1]["policy"] = "startlate+pauses"
        if rng.random() < 0.12:
            cases[-1]["names"] = "sub"   # v0, v00, v000 ...: every name is a substring of the later ones
    return cases


def cycle_histogram(cases, obs):
    h = {"boundaries": 0, "moving_cycles": 0, "idle_cycles": 0, "with_var_costs": 0, "max_mode": 0, "nary": 0,
         "float_costs_oracle_only": 0}
    for c, o in zip(cases, obs):
        h["float_costs_oracle_only"] += 1 if c.get("float") else 0
        h[c["algo"]] = h.get(c["algo"], 0) + 1
        bs = boundaries(c, o) if "events" in o else []
        h["boundaries"] += len(bs)
        for i in range(len(bs) - 1):
            h["moving_cycles" if bs[i] != bs[i + 1] else "idle_cycles"] += 1
        h["with_var_costs"] += 1 if any(v.get("costs") for v in c["vars"]) else 0
        h["max_mode"] += 1 if c["mode"] == "max" else 0
        h["nary"] += 1 if any(len(x["scope"]) > 2 for x in c["cons"]) else 0
    return h


def coq_m2msg(m):
    from harness import coqio as q
    k = m[0]
    if k == "V":
        return "M2Value %s" % q.z(m[1])
    if k == "G":
        return "M2Gain %s" % q.z(m[1])
    if k == "O":
        return "M2Offer %s %s" % (q.b(m[1]), q.lst(["(%s, %s, %s)" % (q.z(a), q.z(b_), q.z(g)) for a, b_, g in m[2]]))
    if k == "A":
        return "M2Answer %s %s %s" % (q.b(m[1]), q.opt(m[2], q.z), q.opt(m[3], q.z))
    if k == "GO":
        return "M2Go %s" % q.b(m[1])
    raise ValueError(m)


def coq_mgm2_case(c, o):
    from harness import coqio as q
    sm = lambda l: q.lst([q.pair(q.z(s), "(%s)" % coq_m2msg(m)) for s, m in l])
    nodes = []
    for k, s in sorted(o["nodes"].items(), key=lambda kv: int(kv[0])):
        post = q.lst([sm(s["post"][x]) for x in ("value", "offer", "answer?", "gain", "go?")])
        nodes.append(q.pair(q.z(int(k)), "mkN2 %s %s %s %s %s %s %s %s %s %s %s %s %s %s" % (
            q.z(s["state"]), q.z(s["cycle"]), q.opt(s["value"], q.z), q.opt(s["cost"], q.z),
            coq_kv(s["nv"]), coq_kv(s["ng"]), sm(s["offers"]), q.opt(s["partner"], q.z), q.b(s["committed"]),
            q.b(s["offerer"]), q.z(s["pgain"]), q.opt(s["pval"], q.z), q.b(s["can_move"]), post)))
    chans = q.lst(["(%s, %s, %s)" % (q.z(s), q.z(d), q.lst([coq_m2msg(m) for m in l])) for s, d, l in o["chans"]])
    p = c["params"]
    return "mkCase2 %s %s %s %s %s %s %s %s %s %s" % (
        coq_dcop(c), q.z(c["stop_cycle"]), q.z(round(p.get("threshold", 0.5) * 1000)),
        q.z(["unilateral", "no", "coordinated"].index(p.get("favor", "unilateral"))),
        coq_orc(c, o), coq_sched(o), coq_events(o), q.lst(nodes), chans, coq_nbrs(o))
