"""Driver for C10: every shipped algorithm, REAL computations, thread-free netdriver schedules.

A case is JSON:
  algo    one of ALGOS
  mode    min|max
  params  algorithm parameters (validated by AlgorithmDef.build_with_default_param)
  vars    [ {dom:[values], init:value|None, costs:[ints]|None} ]   variable i is named v%02d;
          domain values are ints and/or strs (json keeps the distinction)
  cons    [ {scope:[var indexes], table:[ints]} ]  row-major over the scope, first var outermost
  seed, policy, max_steps

run_case instantiates the computations with the recipe of harness/README, wraps
VariableComputation.value_selection of every variable computation (so every call is seen, also the
ones that do not fire _on_value_selection because the value did not change), replaces the
algorithm randomness (module attribute `random` of the algorithm module and of
pydcop.infrastructure.computations) by a logged oracle, and executes a seeded FIFO schedule.
Periodic actions (adsa: delayed start and tick) are executed as self-deliveries ["D", n, n]: the
registered callbacks sit in a per-node list and each self-delivery runs all of them once, in
registration order -- exactly a message a node keeps sending to itself in Net.v.
"""
import random
import logging
from importlib import import_module

from harness.pydrv.netdriver import NetDriver

logging.getLogger("pydcop").setLevel(logging.ERROR)

ALGOS = ["dpop", "syncbb", "mgm", "mgm2", "dsa", "adsa", "dsatuto", "dba", "gdba", "maxsum", "amaxsum"]
BINARY_ONLY = {"syncbb", "dba"}


def vname(i):
    return "v%02d" % i


def _nest(flat, shape):
    if not shape:
        return flat[0]
    if len(shape) == 1:
        return list(flat)
    step = len(flat) // shape[0]
    return [_nest(flat[i * step:(i + 1) * step], shape[1:]) for i in range(shape[0])]


def build_dcop(case):
    from pydcop.dcop.dcop import DCOP
    from pydcop.dcop.objects import Domain, Variable, VariableWithCostDict
    from pydcop.dcop.relations import NAryMatrixRelation
    dcop = DCOP("t", case["mode"])
    vs = []
    for i, v in enumerate(case["vars"]):
        dom = Domain("d%02d" % i, "d", list(v["dom"]))
        if v.get("costs") is None:
            var = Variable(vname(i), dom, v.get("init"))
        else:
            var = VariableWithCostDict(vname(i), dom, dict(zip(v["dom"], v["costs"])), v.get("init"))
        vs.append(var)
        dcop.add_variable(var)
    for k, c in enumerate(case["cons"]):
        sc = [vs[i] for i in c["scope"]]
        shape = [len(v.domain) for v in sc]
        dcop.add_constraint(NAryMatrixRelation(sc, _nest(list(c["table"]), shape), name="c%02d" % k))
    return dcop, vs


class Oracle:
    """stands for the `random` module inside the algorithm modules; every draw is logged per node.
    kinds: ["c", n, i] choice of index i among n ; ["r", k] random() = k/1000 ; ["u", k] uniform"""

    def __init__(self, rng):
        self.rng = rng
        self.cur = None
        self.draws = []          # global, in order: [node, kind, ...]

    def choice(self, seq):
        n = len(seq)
        if n == 0:
            raise IndexError("Cannot choose from an empty sequence")
        i = self.rng.randrange(n)
        self.draws.append([self.cur, "c", n, i])
        return seq[i]

    def random(self):
        k = self.rng.randrange(1000)
        self.draws.append([self.cur, "r", k])
        return k / 1000.0

    def uniform(self, a, b):
        k = self.rng.randrange(1000)
        self.draws.append([self.cur, "u", k])
        return a + (b - a) * k / 1000.0

    def randint(self, a, b):
        k = self.rng.randint(a, b)
        self.draws.append([self.cur, "i", k])
        return k

    def shuffle(self, l):
        self.rng.shuffle(l)

    def sample(self, pop, k):
        return self.rng.sample(list(pop), k)

    def __getattr__(self, name):           # anything else: the real module (seeded per case)
        return getattr(random, name)


class NumpyOracle:
    """stands for `numpy.random` inside pydcop.infrastructure.computations: choice() keeps numpy's
    own conversion of the sequence (np.array(seq)) and only the index comes from the oracle"""

    def __init__(self, orc):
        self.orc = orc

    def choice(self, a, *args, **kw):
        import numpy
        arr = numpy.array(a)             # what numpy.random.choice does first with a sequence
        if arr.ndim != 1:
            raise ValueError("a must be 1-dimensional")
        n = arr.shape[0]
        if n == 0:
            raise ValueError("a cannot be empty")
        i = self.orc.rng.randrange(n)
        self.orc.draws.append([self.orc.cur, "c", n, i])
        return arr[i]

    def __getattr__(self, name):
        import numpy
        return getattr(numpy.random, name)


def build_computations(case):
    from pydcop.algorithms import load_algorithm_module, AlgorithmDef, ComputationDef
    dcop, vs = build_dcop(case)
    algo = case["algo"]
    mod = load_algorithm_module(algo)
    gm = import_module("pydcop.computations_graph." + mod.GRAPH_TYPE)
    cg = gm.build_computation_graph(dcop)
    adef = AlgorithmDef.build_with_default_param(algo, dict(case.get("params") or {}), mode=dcop.objective,
                                                 parameters_definitions=mod.algo_params)
    comps = {}
    for node in cg.nodes:
        comps[node.name] = mod.build_computation(ComputationDef(node, adef))
    return dcop, vs, mod, comps


def dom_index(dom, v):
    """index of v in dom by the library's own membership notion (==), -1 when absent, None for None"""
    if v is None:
        return None
    for i, d in enumerate(dom):
        try:
            if bool(v == d):
                return i
        except Exception:
            pass
    return -1


def canon(v):
    """JSON-able rendering of a selected value with its type, for the evidence"""
    if v is None:
        return None
    return [type(v).__name__, repr(v)]


def run_case(case):
    import numpy
    from pydcop.infrastructure import computations as C
    seed = case["seed"]
    rng = random.Random(seed)
    random.seed(seed)
    numpy.random.seed(seed % (2 ** 32))
    dcop, vs, mod, comps = build_computations(case)
    algo = case["algo"]
    doms = {vname(i): list(v["dom"]) for i, v in enumerate(case["vars"])}
    orc = Oracle(random.Random(seed + 1))
    patched = []

    def patch(m, attr, val):
        if hasattr(m, attr):
            patched.append((m, attr, getattr(m, attr)))
            setattr(m, attr, val)
    patch(mod, "random", orc)
    patch(C, "random", NumpyOracle(orc))
    if algo == "amaxsum":
        patch(import_module("pydcop.algorithms.maxsum"), "random", orc)

    calls = []       # [node, val_idx, canon(val), fired(bool), cur_before_idx, cur_after_idx, ndraws_before]
    events = []      # [node, val_idx]  from _on_value_selection
    raises = []
    varcomps = {n: c for n, c in comps.items() if isinstance(c, C.VariableComputation)}
    periodic = {n: [] for n in comps}

    def hook(name, comp):
        dom = doms[name]
        orig_vs = comp.value_selection
        orig_on = comp._on_value_selection

        def on_sel(val, cost, cycle):
            events.append([name, dom_index(dom, val), canon(val)])
            return orig_on(val, cost, cycle)

        def value_selection(val, cost=0):
            before = comp.current_value
            ne = len(events)
            orig_vs(val, cost)
            after = comp.current_value
            calls.append([name, dom_index(dom, val), canon(val), len(events) > ne,
                          dom_index(dom, before), dom_index(dom, after), canon(after)])
        comp._on_value_selection = on_sel
        comp.value_selection = value_selection

    for n, c in varcomps.items():
        hook(n, c)

    # periodic actions -> self deliveries
    class _Handle:
        pass

    def mk_periodic(name, comp):
        def add_periodic_action(period, cb):
            h = _Handle()
            h.cb = cb
            periodic[name].append(h)
            q = drv.chans.setdefault((name, name), [])
            if not q:
                q.append(_Tick())
            return h

        def remove_periodic_action(h):
            if h in periodic[name]:
                periodic[name].remove(h)
        comp.add_periodic_action = add_periodic_action
        comp.remove_periodic_action = remove_periodic_action

    class _Tick:
        type = "__tick__"

    drv = NetDriver(comps)
    for n, c in comps.items():
        mk_periodic(n, c)

    real_do = drv.do

    def do(act):
        node = act[1] if act[0] != "D" else act[2]
        orc.cur = node
        ne = len(drv.events)
        if act[0] == "D" and act[1] == act[2]:
            # periodic tick of node act[1]
            drv.schedule.append(list(act))
            drv.t += 1
            q = drv.chans.get((node, node))
            if q:
                q.pop(0)
                for h in list(periodic[node]):
                    try:
                        h.cb()
                    except Exception as e:
                        drv.events.append(("raise", node, type(e).__name__, str(e)[:200]))
                if periodic[node] and comps[node].is_running:
                    q.append(_Tick())
        else:
            real_do(act)
        for e in drv.events[ne:]:
            if e[0] == "raise":
                raises.append([e[1], e[2], e[3]])
    drv.do = do
    try:
        from harness.pydrv.netdriver import pick_policy
        policy = case.get("policy") or pick_policy(rng, list(comps))
        drv.run_random(rng, max_steps=case["max_steps"], policy=policy)
    finally:
        for m, attr, old in patched:
            setattr(m, attr, old)
    final = {n: [dom_index(doms[n], c.current_value), canon(c.current_value)] for n, c in sorted(varcomps.items())}
    return dict(calls=calls, events=events, raises=raises, final=final, draws=orc.draws,
                nsched=len(drv.schedule), sched=drv.schedule, varcomps=sorted(varcomps),
                comps=sorted(comps))
