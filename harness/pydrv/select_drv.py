"""Driver for C10: every shipped algorithm, REAL computations, thread-free netdriver schedules.

A case is JSON:
  algo    one of ALGOS
  mode    min|max
  params  algorithm parameters (validated by AlgorithmDef.build_with_default_param)
  vars    [ {dom:[values], init:value|None, costs:[ints]|None} ]   variable i is named v%02d;
          domain values are ints and/or strs (json keeps the distinction)
  cons    [ {scope:[var indexes], table:[ints]} ]  row-major over the scope, first var outermost
  seed, policy, max_steps

run_case instantiates the computations with the recipe of harness/README, wraps
VariableComputation.value_selection of every variable computation (so every call is seen, also the
ones that do not fire _on_value_selection because the value did not change), replaces the
algorithm randomness (module attribute `random` of the algorithm module and of
pydcop.infrastructure.computations) by a logged oracle, and executes a seeded FIFO schedule.
Periodic actions (adsa: delayed start and tick) are executed as self-deliveries ["D", n, n]: the
registered callbacks sit in a per-node list and each self-delivery runs all of them once, in
registration order -- exactly a message a node keeps sending to itself in Net.v.
"""
import random
import logging
from importlib import import_module

from harness.pydrv.netdriver import NetDriver

logging.getLogger("pydcop").setLevel(logging.ERROR)

ALGOS = ["dpop", "syncbb", "mgm", "mgm2", "dsa", "adsa", "dsatuto", "dba", "gdba", "maxsum", "amaxsum"]
BINARY_ONLY = {"syncbb", "dba"}


def vname(i):
    return "v%02d" % i


def _nest(flat, shape):
    if not shape:
        return flat[0]
    if len(shape) == 1:
        return list(flat)
    step = len(flat) // shape[0]
    return [_nest(flat[i * step:(i + 1) * step], shape[1:]) for i in range(shape[0])]


def _yaml_scalar(v):
    if isinstance(v, bool):
        return "true" if v else "false"
    if isinstance(v, str):
        return "'%s'" % v
    return repr(v)


def dcop_yaml(case):
    """the case as a yaml DCOP: same variables / domains / initial values; every binary constraint becomes an
    intention `hi if a == b else lo` (works for any value type); other arities are dropped"""
    lines = ["name: t", "objective: %s" % case["mode"], "domains:"]
    for i, v in enumerate(case["vars"]):
        lines.append("  d%02d: {values: [%s]}" % (i, ", ".join(_yaml_scalar(x) for x in v["dom"])))
    lines.append("variables:")
    for i, v in enumerate(case["vars"]):
        extra = ""
        if v.get("init") is not None:
            extra = ", initial_value: %s" % _yaml_scalar(v["init"])
        lines.append("  %s: {domain: d%02d%s}" % (vname(i), i, extra))
    lines.append("constraints:")
    k = 0
    for c in case["cons"]:
        if len(c["scope"]) == 2 and c["scope"][0] != c["scope"][1]:
            a, b = vname(c["scope"][0]), vname(c["scope"][1])
            lines.append("  c%02d: {type: intention, function: \"%d if %s == %s else %d\"}"
                         % (k, max(c["table"]), a, b, min(c["table"])))
            k += 1
    if k == 0:
        lines.append("  c00: {type: intention, function: \"0 if %s == %s else 0\"}" % (vname(0), vname(0)))
    lines.append("agents: [a1]")
    return "\n".join(lines) + "\n"


class DomainMismatch(Exception):
    """a variable built from a raw iterable domain does not hold the generated values"""
    def __init__(self, observed):
        Exception.__init__(self, "domain mismatch")
        self.observed = observed


def raw_domain(form, dom):
    """the generated list `dom` in the form the Variable constructor receives it (its docstring: Domain or Iterable)"""
    dom = list(dom)
    if form == "gen":
        return (x for x in dom)                               # one-shot
    if form == "iter":
        return iter(dom)                                      # one-shot
    if form == "map":                                         # one-shot, values parsed from text
        if all(type(x) is int for x in dom):
            return map(int, [str(x) for x in dom])
        return map(lambda x: x, dom)
    if form == "tuple":
        return tuple(dom)
    if form == "range":
        step = (dom[1] - dom[0]) if len(dom) > 1 else 1
        return range(dom[0], dom[0] + step * len(dom), step)
    if form == "str":
        return "".join(dom)
    raise ValueError("unknown domain form %r" % (form,))


def same_values(a, b):
    a, b = list(a), list(b)
    return len(a) == len(b) and all(type(x) is type(y) and _eq(x, y) for x, y in zip(a, b))


def build_dcop(case):
    """case["via"]: "api" (default) | "costfunc" (VariableWithCostFunc for variables with costs) | "yaml"
    (the DCOP goes through yamldcop.load_dcop).  A ValueError of the construction is the caller's business."""
    from pydcop.dcop.dcop import DCOP
    from pydcop.dcop.objects import Domain, Variable, VariableWithCostDict, VariableWithCostFunc
    from pydcop.dcop.relations import NAryMatrixRelation
    via = case.get("via", "api")
    if via == "yaml":
        from pydcop.dcop.yamldcop import load_dcop
        dcop = load_dcop(dcop_yaml(case))
        return dcop, [dcop.variables[vname(i)] for i in range(len(case["vars"]))]
    dcop = DCOP("t", case["mode"])
    vs = []
    forms = case.get("domforms") or []
    for i, v in enumerate(case["vars"]):
        form = forms[i] if i < len(forms) else None
        # form None: a Domain object; otherwise the raw iterable goes to the Variable constructor, which builds
        # the Domain itself
        dom = Domain("d%02d" % i, "d", list(v["dom"])) if form is None else raw_domain(form, v["dom"])
        if v.get("costs") is None and via != "costfunc":
            var = Variable(vname(i), dom, v.get("init"))
        elif via == "costfunc":
            tbl = dict(zip(v["dom"], v.get("costs") or [0] * len(v["dom"])))
            var = VariableWithCostFunc(vname(i), dom, (lambda t: (lambda x: t[x]))(tbl), v.get("init"))
        else:
            var = VariableWithCostDict(vname(i), dom, dict(zip(v["dom"], v["costs"])), v.get("init"))
        vs.append(var)
        dcop.add_variable(var)
    if forms and not all(same_values(var.domain.values, v["dom"]) for var, v in zip(vs, case["vars"])):
        raise DomainMismatch([[canon(x) for x in var.domain.values] for var in vs])
    for k, c in enumerate(case["cons"]):
        sc = [vs[i] for i in c["scope"]]
        shape = [len(v.domain) for v in sc]
        dcop.add_constraint(NAryMatrixRelation(sc, _nest(list(c["table"]), shape), name="c%02d" % k))
    return dcop, vs


class Oracle:
    """stands for the `random` module inside the algorithm modules; every draw is logged per node.
    kinds: ["c", n, i] choice of index i among n ; ["r", k] random() = k/1000 ; ["u", k] uniform"""

    def __init__(self, rng):
        self.rng = rng
        self.cur = None
        self.draws = []          # global, in order: [node, kind, ...]

    def choice(self, seq):
        n = len(seq)
        if n == 0:
            raise IndexError("Cannot choose from an empty sequence")
        i = self.rng.randrange(n)
        self.draws.append([self.cur, "c", n, i])
        return seq[i]

    def random(self):
        k = self.rng.randrange(1000)
        self.draws.append([self.cur, "r", k])
        return k / 1000.0

    def uniform(self, a, b):
        k = self.rng.randrange(1000)
        self.draws.append([self.cur, "u", k])
        return a + (b - a) * k / 1000.0

    def randint(self, a, b):
        k = self.rng.randint(a, b)
        self.draws.append([self.cur, "i", k])
        return k

    def shuffle(self, l):
        self.rng.shuffle(l)

    def sample(self, pop, k):
        return self.rng.sample(list(pop), k)

    def __getattr__(self, name):           # anything else: the real module (seeded per case)
        return getattr(random, name)


class NumpyOracle:
    """stands for `numpy.random` inside pydcop.infrastructure.computations: choice() keeps numpy's
    own conversion of the sequence (np.array(seq)) and only the index comes from the oracle"""

    def __init__(self, orc):
        self.orc = orc

    def choice(self, a, *args, **kw):
        import numpy
        arr = numpy.array(a)             # what numpy.random.choice does first with a sequence
        if arr.ndim != 1:
            raise ValueError("a must be 1-dimensional")
        n = arr.shape[0]
        if n == 0:
            raise ValueError("a cannot be empty")
        i = self.orc.rng.randrange(n)
        self.orc.draws.append([self.orc.cur, "c", n, i])
        return arr[i]

    def randint(self, low, high=None, *args, **kw):
        if high is None:
            low, high = 0, low
        n = int(high) - int(low)
        if n <= 0:
            raise ValueError("low >= high")
        i = self.orc.rng.randrange(n)
        self.orc.draws.append([self.orc.cur, "c", n, i])
        return int(low) + i

    def __getattr__(self, name):
        import numpy
        return getattr(numpy.random, name)


def build_computations(case):
    from pydcop.algorithms import load_algorithm_module, AlgorithmDef, ComputationDef
    dcop, vs = build_dcop(case)
    algo = case["algo"]
    mod = load_algorithm_module(algo)
    gm = import_module("pydcop.computations_graph." + mod.GRAPH_TYPE)
    cg = gm.build_computation_graph(dcop)
    adef = AlgorithmDef.build_with_default_param(algo, dict(case.get("params") or {}), mode=dcop.objective,
                                                 parameters_definitions=mod.algo_params)
    comps = {}
    for node in cg.nodes:
        comps[node.name] = mod.build_computation(ComputationDef(node, adef))
    return dcop, vs, mod, comps


def _intcost(x):
    if int(x) != x:
        raise ValueError("non-integer cost %r" % (x,))
    return int(x)


def dom_index(dom, v):
    """index of v in dom by the library's own membership notion (==), -1 when absent, None for None"""
    if v is None:
        return None
    for i, d in enumerate(dom):
        try:
            if bool(v == d):
                return i
        except Exception:
            pass
    return -1


def _eq(a, b):
    try:
        return bool(a == b)
    except Exception:
        return False


def canon(v):
    """JSON-able rendering of a selected value with its type, for the evidence"""
    if v is None:
        return None
    return [type(v).__name__, repr(v)]


def run_case(case):
    import numpy
    from pydcop.infrastructure import computations as C
    seed = case["seed"]
    rng = random.Random(seed)
    random.seed(seed)
    numpy.random.seed(seed % (2 ** 32))
    try:
        dcop, vs, mod, comps = build_computations(case)
    except DomainMismatch as e:
        return dict(rejected=False, dom_mismatch=e.observed, domvals=e.observed, calls=[], events=[], raises=[], final={},
                    draws=[], model=None, nsched=0, sched=[], varcomps=[], comps=[])
    except ValueError as e:
        if case.get("badinit") and ("initial value" in str(e).lower()):
            # the library refused to declare a variable with an initial value outside its domain
            return dict(rejected=True, error=str(e)[:160], calls=[], events=[], raises=[], final={}, draws=[],
                        model=None, nsched=0, sched=[], varcomps=[], comps=[])
        raise
    algo = case["algo"]
    doms = {vname(i): list(v["dom"]) for i, v in enumerate(case["vars"])}
    orc = Oracle(random.Random(seed + 1))
    patched = []

    def patch(m, attr, val):
        if hasattr(m, attr):
            patched.append((m, attr, getattr(m, attr)))
            setattr(m, attr, val)
    patch(mod, "random", orc)
    patch(C, "random", NumpyOracle(orc))
    if algo == "amaxsum":
        patch(import_module("pydcop.algorithms.maxsum"), "random", orc)

    mevents = []     # model-level events: ["sel", node, idx] / ["fin", node] / ["err", node, kind]
    calls = []       # [node, val_idx, canon(val), fired(bool), cur_before_idx, cur_after_idx, ndraws_before]
    events = []      # [node, val_idx]  from _on_value_selection
    raises = []
    varcomps = {n: c for n, c in comps.items() if isinstance(c, C.VariableComputation)}
    periodic = {n: [] for n in comps}

    def hook(name, comp):
        dom = doms[name]
        orig_vs = comp.value_selection
        orig_on = comp._on_value_selection

        def on_sel(val, cost, cycle):
            events.append([name, dom_index(dom, val), canon(val)])
            mevents.append(["sel", name, dom_index(dom, val)])
            return orig_on(val, cost, cycle)

        def value_selection(val, cost=0):
            before = comp.current_value
            ne = len(events)
            orig_vs(val, cost)
            after = comp.current_value
            calls.append([name, dom_index(dom, val), canon(val), len(events) > ne,
                          dom_index(dom, before), dom_index(dom, after), canon(after)])
        comp._on_value_selection = on_sel
        comp.value_selection = value_selection

    for n, c in varcomps.items():
        hook(n, c)

    # periodic actions -> self deliveries
    class _Handle:
        pass

    def mk_periodic(name, comp):
        def add_periodic_action(period, cb):
            h = _Handle()
            h.cb = cb
            periodic[name].append(h)
            q = drv.chans.setdefault((name, name), [])
            if not q:
                q.append(_Tick())
            return h

        def remove_periodic_action(h):
            if h in periodic[name]:
                periodic[name].remove(h)
        comp.add_periodic_action = add_periodic_action
        comp.remove_periodic_action = remove_periodic_action

    class _Tick:
        type = "__tick__"

    drv = NetDriver(comps)
    for n, c in comps.items():
        mk_periodic(n, c)

    # model-level events of dsatuto / adsa / gdba: ["sel", node, idx] / ["fin", node]
    evs = {n: [] for n in comps}      # per node evaluation stream (see M_Select.v)
    mask_bad = []

    def mask_of(name, vals):
        dom = doms[name]
        m = [any(_eq(d, v) for v in vals) for d in dom]
        rebuilt = [d for d, b in zip(dom, m) if b]
        if len(rebuilt) != len(vals) or not all(_eq(a, b) for a, b in zip(rebuilt, vals)):
            mask_bad.append([name, [canon(v) for v in vals]])
        return m

    if algo in ("dsatuto", "adsa", "gdba"):
        for n, c in varcomps.items():
            def mk_fin(name, comp):
                orig = comp.finished

                def finished():
                    mevents.append(["fin", name])
                    return orig()
                comp.finished = finished
            mk_fin(n, c)
    if algo == "dsatuto":
        last_cost = {}
        orig_ac, orig_fo = mod.assignment_cost, mod.find_optimal

        def assignment_cost(assignment, constraints, *a, **kw):
            r = orig_ac(assignment, constraints, *a, **kw)
            last_cost[orc.cur] = r
            return r

        def find_optimal(variable, assignment, constraints, mode):
            arg_min, min_cost = orig_fo(variable, assignment, constraints, mode)
            evs[variable.name].append([bool(last_cost[variable.name] - min_cost > 0), mask_of(variable.name, arg_min)])
            return arg_min, min_cost
        patch(mod, "assignment_cost", assignment_cost)
        patch(mod, "find_optimal", find_optimal)
    if algo == "adsa":
        for n, c in varcomps.items():
            def mk_adsa(name, comp):
                st = {}
                o_fbv, o_evc = comp.find_best_values, comp.exists_violated_constraint

                def find_best_values(assignment):
                    r = o_fbv(assignment)
                    st["mask"] = mask_of(name, list(r[0]))
                    st["viol"] = False
                    # inputs of the model's find_best_values (M_SelectBest.fbv): the cost of every domain value
                    # (constraints + the variable's own cost) and, as tick() computes it, of the current value
                    vn_ = comp.variable.name
                    try:
                        st["costs"] = [_intcost(mod.assignment_cost(dict(assignment, **{vn_: v}), comp.constraints)
                                                + comp.variable.cost_for_val(v)) for v in comp.variable.domain]
                        st["cur"] = _intcost(mod.assignment_cost(dict(assignment, **{vn_: comp.current_value}),
                                                                 comp.constraints))
                    except Exception:          # e.g. no current value yet: tick() itself fails right after;
                        st["costs"], st["cur"] = None, None     # a record without costs = run not modelled
                    return r

                def exists_violated_constraint():
                    r = o_evc()
                    st["viol"] = bool(r)
                    return r
                comp.find_best_values = find_best_values
                comp.exists_violated_constraint = exists_violated_constraint
                for vn in ("variant_a", "variant_b", "variant_c"):
                    def mk_var(orig):
                        def variant(delta, best_cost, best_values):
                            rec = [bool(delta > 0), False, st["mask"], st["costs"], st["cur"]]
                            evs[name].append(rec)
                            try:
                                return orig(delta, best_cost, best_values)
                            finally:
                                rec[1] = st["viol"]
                        return variant
                    setattr(comp, vn, mk_var(getattr(comp, vn)))
            mk_adsa(n, c)
    if algo == "gdba":
        for n, c in varcomps.items():
            def mk_gdba(name, comp):
                orig = comp._compute_best_improvement

                def _compute_best_improvement():
                    bests, best_eval = orig()
                    imp = comp.current_cost - best_eval
                    if int(imp) != imp:
                        raise ValueError("non-integer improvement %r" % (imp,))
                    # inputs of the model's _compute_best_improvement (M_SelectBest.cbi): eval of every value
                    evals = [_intcost(comp.compute_eval_value(v)[0]) for v in comp.variable.domain]
                    evs[name].append([int(imp), mask_of(name, list(bests)), _intcost(comp.current_cost), evals])
                    return bests, best_eval
                comp._compute_best_improvement = _compute_best_improvement
            mk_gdba(n, c)

    real_do = drv.do

    def do(act):
        node = act[1] if act[0] != "D" else act[2]
        orc.cur = node
        ne = len(drv.events)
        if act[0] == "D" and act[1] == act[2]:
            # periodic tick of node act[1]
            drv.schedule.append(list(act))
            drv.t += 1
            q = drv.chans.get((node, node))
            if q:
                q.pop(0)
                for h in list(periodic[node]):
                    try:
                        h.cb()
                    except Exception as e:
                        drv.events.append(("raise", node, type(e).__name__, str(e)[:200]))
                if periodic[node] and comps[node].is_running and not q:
                    q.append(_Tick())
        else:
            real_do(act)
        for e in drv.events[ne:]:
            if e[0] == "raise":
                raises.append([e[1], e[2], e[3]])
                kind = (1 if (e[2] == "IndexError" or "cannot be empty" in e[3] or "low >= high" in e[3])
                        else 3 if e[2] == "TypeError" else 0)
                mevents.append(["err", e[1], kind, e[2]])
    drv.do = do
    try:
        from harness.pydrv.netdriver import pick_policy
        policy = case.get("policy") or pick_policy(rng, list(comps))
        drv.run_random(rng, max_steps=case["max_steps"], policy=policy)
    finally:
        for m, attr, old in patched:
            setattr(m, attr, old)
    model = None
    if algo in ("dsatuto", "adsa", "gdba"):
        from pydcop.dcop.relations import optimal_cost_value
        nbrs, iso, init = {}, {}, {}
        for n, c in varcomps.items():
            nb = c.neighbors
            nbrs[n] = sorted(getattr(x, "name", x) for x in nb)
            init[n] = dom_index(doms[n], c.variable.initial_value)
            if not nbrs[n]:
                try:
                    iso[n] = dom_index(doms[n], optimal_cost_value(c.variable, case["mode"])[0])
                except Exception:
                    iso[n] = None
        per_node = {n: [d[-1] for d in orc.draws if d[0] == n] for n in varcomps}
        model = dict(nbrs=nbrs, iso=iso, init=init, orc=per_node, evs=evs, mevents=mevents, mask_bad=mask_bad)
    final = {n: [dom_index(doms[n], c.current_value), canon(c.current_value)] for n, c in sorted(varcomps.items())}
    graph = None
    if algo == "dba":
        # what the DBA theorem's hypothesis (M_Dba.wf_problem) is about: the constraints each computation holds
        # and the neighbour set it derived from them
        graph = {n: [sorted(r.name for r in c.constraints), sorted(c.neighbors)] for n, c in sorted(varcomps.items())}
    return dict(calls=calls, events=events, raises=raises, final=final, draws=orc.draws, model=model,
                nsched=len(drv.schedule), sched=drv.schedule, varcomps=sorted(varcomps),
                comps=sorted(comps), dba_graph=graph,
                domvals=[[canon(x) for x in v.domain.values] for v in vs])
