"""Thread-free scheduler for REAL pyDCOP computation objects (DESIGN.md §3.2).

The computations' `message_sender` is replaced by a function appending to one FIFO list per
ordered pair (src, dst).  A schedule is a list of actions
    ["S", n]        computation n .start()
    ["D", s, d]     pop the head of channel (s, d) and call d.on_message(s, msg, t)
    ["P", n] / ["R", n]   pause / resume n
exactly the actions of coq/theories/Net.v.  Messages re-posted with priority 19 (re-injection
of messages held before start / during pause) are inserted at the head of their channel, in
re-injection order, as the agent's priority queue would handle them first.
No agent thread exists, so every interleaving is reproducible from the seed.
"""
import random


class NetDriver:
    def __init__(self, comps, names=None):
        self.comps = dict(comps)
        self.names = list(names) if names is not None else sorted(self.comps)
        self.chans = {}
        self.started = set()
        self.paused = set()
        self.events = []          # ('send', src, dst, msg, prio) / ('raise', node, exc) / custom
        self.schedule = []
        # the schedule as Net.v sees it: pausing is a stutter of the model.  A delivery to a paused
        # computation only moves the message into its hold buffer and resume() puts the held messages
        # back at the head of their channels in order, so P / R actions and deliveries to a paused
        # computation are not model actions.
        self.model_schedule = []
        self._reinj = None
        self.t = 0
        for n, c in self.comps.items():
            c.message_sender = self._sender

    # ---- the communication layer
    def _sender(self, src, dst, msg, prio=None, on_error=None):
        q = self.chans.setdefault((src, dst), [])
        if prio == 19 and self._reinj is not None:
            pos = self._reinj.get((src, dst), 0)
            q.insert(pos, msg)
            self._reinj[(src, dst)] = pos + 1
        else:
            q.append(msg)
        self.events.append(("send", src, dst, msg, prio))

    # ---- actions
    def enabled(self):
        acts = [["S", n] for n in self.names if n not in self.started]
        for (s, d), q in self.chans.items():
            if q and d in self.comps:
                acts.append(["D", s, d])
        return acts

    def do(self, act):
        self.schedule.append(list(act))
        self.t += 1
        kind = act[0]
        if kind == "S" or (kind == "D" and act[2] not in self.paused):
            self.model_schedule.append(list(act))
        try:
            if kind == "S":
                n = act[1]
                if n in self.started:
                    return
                self.started.add(n)
                self._reinj = {}
                try:
                    self.comps[n].start()
                finally:
                    self._reinj = None
            elif kind == "D":
                s, d = act[1], act[2]
                q = self.chans.get((s, d))
                if not q:
                    return
                msg = q.pop(0)
                self.events.append(("deliver", s, d, msg))
                self.comps[d].on_message(s, msg, self.t)
            elif kind == "P":
                self.paused.add(act[1])
                self.comps[act[1]].pause(True)
            elif kind == "R":
                self.paused.discard(act[1])
                self._reinj = {}
                try:
                    self.comps[act[1]].pause(False)
                finally:
                    self._reinj = None
        except Exception as e:  # a handler raised: an event, never a stuck driver
            node = act[1] if kind != "D" else act[2]
            self.events.append(("raise", node, type(e).__name__, str(e)[:200]))

    def run_schedule(self, sched):
        for a in sched:
            self.do(a)

    # ---- schedule generation policies (all choices from rng)
    def run_random(self, rng, max_steps=2000, policy="uniform", stop=None, pause_prob=0.0):
        """policy: uniform | starve:<node> | drain | newest | startlate
        pause_prob > 0: each step is, with that probability, a pause of a started computation or the
        resume of a paused one (what the orchestrator does around scenario events); every computation
        still paused at the end is resumed.  No rng draw is made for it when pause_prob == 0."""
        steps = 0
        starve = policy.split(":", 1)[1] if policy.startswith("starve:") else None
        while steps < max_steps:
            if stop is not None and stop(self):
                break
            if pause_prob and rng.random() < pause_prob:
                cands = [["P", n] for n in self.names if n in self.started and n not in self.paused]
                cands += [["R", n] for n in sorted(self.paused)] * 2
                if cands:
                    self.do(rng.choice(cands))
                    steps += 1
                    continue
            acts = self.enabled()
            if not acts:
                break
            if starve is not None:
                other = [a for a in acts if a[-1] != starve]
                if other and rng.random() < 0.95:
                    acts = other
            elif policy == "drain":
                # keep delivering on the same channel as long as possible
                if self.schedule and self.schedule[-1][0] == "D":
                    last = self.schedule[-1]
                    same = [a for a in acts if a == last]
                    if same and rng.random() < 0.9:
                        acts = same
            elif policy == "newest":
                d_acts = [a for a in acts if a[0] == "D"]
                if d_acts and rng.random() < 0.8:
                    acts = d_acts[-2:]
            elif policy == "startlate":
                d_acts = [a for a in acts if a[0] == "D"]
                if d_acts and rng.random() < 0.85:
                    acts = d_acts
            self.do(rng.choice(acts))
            steps += 1
        for n in sorted(self.paused):
            self.do(["R", n])
        return steps

    def in_flight(self):
        return {k: len(v) for k, v in self.chans.items() if v}


POLICIES = ["uniform", "uniform", "drain", "newest", "startlate", "starve"]


def pick_policy(rng, names):
    p = rng.choice(POLICIES)
    if p == "starve":
        p = "starve:" + rng.choice(list(names))
    return p
