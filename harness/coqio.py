"""Gallina printing + running coqc on generated case files.

The correspondence check writes cases_k.v files that hold, per case, the input AND the
implementation's observation as Gallina literals and end with
    Eval vm_compute in (mismatches <check_fn> cases).
coqc prints only the list of indices where the model disagrees with the observation.
"""
import os
import re
import subprocess
import concurrent.futures as cf

COQ_DIR = "/verif/coq"
THEORIES = os.path.join(COQ_DIR, "theories")
COQ_ARGS = ["-Q", THEORIES, "PyDcop"]


# ---------------------------------------------------------------- literals
def z(n):
    n = int(n)
    return "(%d)%%Z" % n if n < 0 else "%d%%Z" % n


def nat(n):
    n = int(n)
    assert 0 <= n < 5000, "nat literal too large: %r" % n
    return "%d%%nat" % n


def N(n):
    n = int(n)
    assert n >= 0
    return "%d%%N" % n


def b(x):
    return "true" if x else "false"


def s(x):
    x = str(x)
    for ch in x:
        if not (32 <= ord(ch) < 127):
            raise ValueError("non printable-ascii string for Coq literal: %r" % x)
    return '"%s"%%string' % x.replace('"', '""')


def lst(items):
    return "[" + "; ".join(items) + "]"


def pair(a, b_):
    return "(%s, %s)" % (a, b_)


def opt(x, f=lambda v: v):
    return "None" if x is None else "(Some %s)" % f(x)


def zlist(l):
    return lst([z(x) for x in l])


def slist(l):
    return lst([s(x) for x in l])


def szdict(d):
    """dict / list of (str, int) pairs -> list (string * Z) in insertion order"""
    items = d.items() if isinstance(d, dict) else d
    return lst([pair(s(k), z(v)) for k, v in items])


def zzdict(d):
    items = d.items() if isinstance(d, dict) else d
    return lst([pair(z(k), z(v)) for k, v in items])


# ---------------------------------------------------------------- running coqc
def _coqc(path, timeout):
    try:
        p = subprocess.run(
            ["coqc"] + COQ_ARGS + [path],
            cwd=os.path.dirname(path),
            capture_output=True,
            text=True,
            timeout=timeout,
        )
        return p.returncode, p.stdout, p.stderr
    except subprocess.TimeoutExpired:
        return 124, "", "coqc timeout after %ss on %s" % (timeout, path)


_RES = re.compile(r"=\s*\[([^\]]*)\]\s*:\s*list nat", re.S)


def run_cases(requires, check_fn, case_type, terms, workdir, shard=250, timeout=600,
              preamble=""):
    """terms: list of Gallina terms of type case_type.  Returns (mismatch_indices, errors).
    errors is a list of strings (coqc failures: a broken model file counts as a broken
    correspondence, never as silence)."""
    os.makedirs(workdir, exist_ok=True)
    files = []
    for k in range(0, len(terms), shard):
        chunk = terms[k:k + shard]
        path = os.path.join(workdir, "cases_%d.v" % (k // shard))
        with open(path, "w") as f:
            f.write("From PyDcop Require Import Base %s.\n" % " ".join(requires))
            f.write("Open Scope Z_scope.\n")
            if preamble:
                f.write(preamble + "\n")
            f.write("Definition cases : list (%s) := [\n" % case_type)
            f.write(";\n".join("  " + t for t in chunk))
            f.write("\n].\n")
            f.write("Eval vm_compute in (mismatches %s cases).\n" % check_fn)
        files.append((k, path))
    mism, errors = [], []
    with cf.ThreadPoolExecutor(max_workers=min(16, max(1, len(files)))) as ex:
        futs = {ex.submit(_coqc, path, timeout): (k, path) for k, path in files}
        for fut in cf.as_completed(futs):
            k, path = futs[fut]
            rc, out, err = fut.result()
            if rc == 124:
                # a time-out is an infrastructure event (16 shards in parallel on a loaded machine):
                # evaluate the shard once more, alone and with three times the budget, before
                # counting it as a broken correspondence
                rc, out, err = _coqc(path, timeout * 3)
            if rc != 0:
                errors.append("coqc failed on %s (rc=%s): %s" % (path, rc, (err or out)[-1500:]))
                continue
            m = _RES.search(out)
            if not m:
                errors.append("unparsable coqc output for %s: %s" % (path, out[-500:]))
                continue
            body = m.group(1).strip()
            if body:
                for tok in body.split(";"):
                    tok = tok.strip().replace("%nat", "")
                    if tok:
                        mism.append(k + int(tok))
    return sorted(mism), errors


def print_assumptions(prop_module, theorems, workdir, timeout=300):
    """Returns dict theorem -> ('closed', []) | ('axioms', [names]) | ('missing', [msg])."""
    os.makedirs(workdir, exist_ok=True)
    path = os.path.join(workdir, "assum_%s.v" % prop_module)
    res = {}
    with open(path, "w") as f:
        f.write("From PyDcop Require %s.\n" % prop_module)
        for t in theorems:
            f.write('Goal True. idtac "@@THM %s". Abort.\n' % t)
            f.write("Print Assumptions %s.%s.\n" % (prop_module, t))
    rc, out, err = _coqc(path, timeout)
    if rc == 124:      # time-out on a loaded machine: once more with three times the budget
        rc, out, err = _coqc(path, timeout * 3)
    if rc != 0:
        # find which theorem is missing by running them one at a time
        for t in theorems:
            p1 = os.path.join(workdir, "assum_%s_%s.v" % (prop_module, t))
            with open(p1, "w") as f:
                f.write("From PyDcop Require %s.\n" % prop_module)
                f.write("Print Assumptions %s.%s.\n" % (prop_module, t))
            rc1, out1, err1 = _coqc(p1, timeout)
            if rc1 != 0:
                res[t] = ("missing", [(err1 or out1)[-400:]])
            else:
                res[t] = _parse_assum(out1)
        return res
    blocks = out.split("@@THM ")
    for blk in blocks[1:]:
        name, _, rest = blk.partition("\n")
        res[name.strip()] = _parse_assum(rest)
    for t in theorems:
        res.setdefault(t, ("missing", ["no output"]))
    return res


def _parse_assum(text):
    if "Closed under the global context" in text:
        return ("closed", [])
    axioms = []
    for line in text.splitlines():
        m = re.match(r"^([A-Za-z_][\w\.']*)\s*:", line)
        if m:
            axioms.append(m.group(1))
    return ("axioms", axioms or ["<unparsed>"])
