"""Per-property pipeline.  Usage: check.py Cxx [--tier quick|thorough] [--replay FILE]

Steps (see DESIGN.md section 2):
  1. proof obligations: build the Coq development, every theorem listed by the property
     module must exist in Prop_Cxx and be closed (Print Assumptions) or whitelisted.
  2. run the implementation (/repo working tree) on generated cases.
  3. run the property oracle (independent Python statement of the property) on them.
  4. run the Coq model on the same cases (vm_compute) and diff with the observations.
  5. decide, print KNOWN-FINDING / VIOLATION lines, write evidence/<id>.json.
"""
import argparse
import fcntl
import hashlib
import importlib
import json
import os
import random
import shutil
import subprocess
import sys
import time
import traceback

VERIF = "/verif"
REPO = os.environ.get("VERIF_REPO", "/repo")
sys.path.insert(0, VERIF)
if REPO not in sys.path:
    sys.path.insert(0, REPO)
os.environ.setdefault("PYDCOP_VERIF", "1")

from harness import coqio  # noqa: E402

FORBIDDEN = ["Admitted", "admit.", "admit;", "Axiom ", "Parameter ", "Conjecture ",
             "Unset Guard", "bypass_check", "type-in-type", "Admit Obligations",
             "impredicative-set", "Unset Positivity", "Unset Universe"]
# axioms of Coq's standard library that proofs are allowed to depend on (named in DESIGN §6)
AXIOM_WHITELIST = set()

TRUSTED_BASE = [
    "Coq 8.16.1 kernel + vm_compute (no native_compute)",
    "hand-written Gallina models under /verif/coq/theories (M_*.v)",
    "correspondence harness: generators, drivers, canonicalisation, Gallina printer (/verif/harness)",
    "CPython 3.12 / numpy as the platform the implementation runs on",
]


def log(*a):
    print(*a, flush=True)


# ------------------------------------------------------------------ build
def build_coq(clean=False, targets=None):
    """(ok, message).  Serialised with a lock so concurrent checks do not race.  Only the
    targets the property needs (and their dependencies) are built, with make -k."""
    os.makedirs(os.path.join(VERIF, ".work"), exist_ok=True)
    with open(os.path.join(VERIF, ".work", "build.lock"), "w") as lk:
        fcntl.flock(lk, fcntl.LOCK_EX)
        subprocess.run([os.path.join(VERIF, "bin", "mkproject")], check=False)
        tg = ["theories/%s.vo" % t for t in (targets or [])]
        p = subprocess.run(
            ["timeout", "3000", "make", "-C", coqio.COQ_DIR, "-j16", "-k"] + tg,
            capture_output=True, text=True)
        return p.returncode == 0, (p.stdout + p.stderr)[-3000:]


def repo_changed():
    """True iff REPO's HEAD differs from harness/repo_ref.txt or pydcop/ has uncommitted edits."""
    try:
        ref = open(os.path.join(VERIF, "harness", "repo_ref.txt")).read().split()[0]
    except Exception:
        return False
    try:
        head = subprocess.run(["git", "-C", REPO, "rev-parse", "HEAD"], capture_output=True, text=True).stdout.strip()
        dirty = subprocess.run(["git", "-C", REPO, "diff", "--quiet", "HEAD", "--", "pydcop"]).returncode != 0
        return dirty or not head.startswith(ref[:12])
    except Exception:
        return False


def repo_fingerprint(pid):
    """which code this run was tied to: commit, dirtiness and a hash of the property's anchor files"""
    out = {"path": REPO}
    try:
        out["head"] = subprocess.run(["git", "-C", REPO, "rev-parse", "HEAD"], capture_output=True, text=True).stdout.strip()
        out["uncommitted_changes_under_pydcop"] = subprocess.run(
            ["git", "-C", REPO, "diff", "--quiet", "HEAD", "--", "pydcop"]).returncode != 0
        anchors = []
        for line in open(os.path.join(VERIF, "properties.jsonl")):
            p = json.loads(line)
            if p["id"] == pid:
                anchors = p["anchors"]["files"]
        h = {}
        for a in anchors:
            full = os.path.join(REPO, a)
            files = []
            if os.path.isdir(full):
                for root, _, fns in os.walk(full):
                    files += [os.path.join(root, f) for f in fns if f.endswith(".py")]
            elif os.path.exists(full):
                files = [full]
            m = hashlib.sha256()
            for f in sorted(files):
                m.update(open(f, "rb").read())
            h[a] = m.hexdigest()[:16]
        out["anchor_sha256"] = h
    except Exception as e:
        out["error"] = str(e)
    return out


def dep_closure(mods):
    """PyDcop modules reachable from `mods` through `From PyDcop Require ...` lines."""
    import re
    seen, todo = set(), list(mods)
    while todo:
        m = todo.pop()
        if m in seen:
            continue
        path = os.path.join(coqio.THEORIES, m + ".v")
        if not os.path.exists(path):
            continue
        seen.add(m)
        txt = open(path).read()
        for line in re.findall(r"From\s+PyDcop\s+Require\s+(?:Import|Export)?\s*([^.]*)\.", txt):
            todo.extend(line.split())
        for line in re.findall(r"Require\s+(?:Import|Export)?\s+((?:PyDcop\.\w+\s*)+)\.", txt):
            todo.extend(x.split(".")[-1] for x in line.split())
    return sorted(seen)


def forbidden_tokens(mods):
    """scan the property's own dependency closure (not other people's files)"""
    import re
    hits = []
    for m in dep_closure(mods):
        txt = open(os.path.join(coqio.THEORIES, m + ".v")).read()
        # strip comments (non-nested is enough for the tokens searched)
        txt2 = re.sub(r"\(\*.*?\*\)", "", txt, flags=re.S)
        for tok in FORBIDDEN:
            if tok in txt2:
                hits.append("%s.v: %s" % (m, tok.strip()))
    return hits


def vo_fresh(modname, deps):
    """Prop file and the modules the property names compiled and are newer than sources."""
    for m in [modname] + list(deps):
        v = os.path.join(coqio.THEORIES, m + ".v")
        vo = os.path.join(coqio.THEORIES, m + ".vo")
        if not os.path.exists(v):
            return False, "missing source %s.v" % m
        if not os.path.exists(vo) or os.path.getmtime(vo) < os.path.getmtime(v):
            return False, "%s.vo missing or stale (does not compile)" % m
    return True, ""


# ------------------------------------------------------------------ helpers
def load_known():
    p = os.environ.get("VERIF_KNOWN", os.path.join(VERIF, "known_findings.json"))
    if not os.path.exists(p):
        return []
    return json.load(open(p))["findings"]


def jdump(x):
    return json.dumps(x, sort_keys=True, default=str)


def safe_impl(mod, case):
    try:
        return mod.run_impl(case)
    except Exception as e:  # driver-level failure: reported as an observation
        return {"__driver_error__": "%s: %s" % (type(e).__name__, e),
                "__tb__": traceback.format_exc()[-1200:]}


def _impl_worker(args):
    modname, case = args
    mod = importlib.import_module("harness.props." + modname)
    return safe_impl(mod, case)


def run_impl_all(mod, cases):
    par = getattr(mod, "PARALLEL", 1)
    if par > 1 and len(cases) > 8:
        import multiprocessing as mp
        ctx = mp.get_context("fork")
        with ctx.Pool(min(par, 16)) as pool:
            return pool.map(_impl_worker, [(mod.ID, c) for c in cases], chunksize=4)
    return [safe_impl(mod, c) for c in cases]


def oracle_msg(mod, case, obs):
    if isinstance(obs, dict) and "__driver_error__" in obs:
        return "driver error: " + obs["__driver_error__"]
    try:
        return mod.oracle(case, obs)
    except Exception as e:
        return "oracle raised %s: %s" % (type(e).__name__, e)


def write_replay(pid, kind, payload):
    os.makedirs(os.path.join(VERIF, "replays"), exist_ok=True)
    h = hashlib.sha1(jdump(payload).encode()).hexdigest()[:10]
    path = os.path.join(VERIF, "replays", "%s-%s-%s.json" % (pid, kind, h))
    with open(path, "w") as f:
        json.dump(dict(property=pid, kind=kind, **payload), f, indent=1, default=str)
    return path


def shrink(mod, case, still_fails, budget=200):
    """greedy shrinking with the module's candidate generator (optional)."""
    cand_fn = getattr(mod, "shrink_candidates", None)
    if cand_fn is None:
        return case
    cur = case
    steps = 0
    progress = True
    while progress and steps < budget:
        progress = False
        for c in cand_fn(cur):
            steps += 1
            if steps > budget:
                break
            try:
                if still_fails(c):
                    cur = c
                    progress = True
                    break
            except Exception:
                continue
    return cur


# ------------------------------------------------------------------ main pipeline
def main():
    ap = argparse.ArgumentParser()
    ap.add_argument("pid")
    ap.add_argument("--tier", default=os.environ.get("VERIF_TIER", "quick"))
    ap.add_argument("--replay")
    ap.add_argument("--n", type=int)
    args = ap.parse_args()
    pid = args.pid
    tier = args.tier if args.tier in ("quick", "thorough") else "quick"
    seed = int(os.environ.get("VERIF_SEED", "0") or 0)
    t0 = time.time()
    mod = importlib.import_module("harness.props." + pid)
    work = os.path.join(VERIF, ".work", "%s-%d-%d" % (pid, os.getpid(), int(t0)))
    os.makedirs(work, exist_ok=True)
    try:
        rc = pipeline(mod, pid, tier, seed, args, work, t0)
    finally:
        shutil.rmtree(work, ignore_errors=True)
    sys.exit(rc)


def pipeline(mod, pid, tier, seed, args, work, t0):
    known = [k for k in load_known() if k["property"] == pid]
    listed = {k["id"]: k for k in known if k.get("status") == "finding"}
    violations = []   # (kind, replay_path, suffix)
    notes = []

    # ---- 1. proof obligations
    prop_mod = getattr(mod, "PROP_MODULE", "Prop_" + pid)
    # never clean: concurrent checks share the .vo files; bin/setup builds from scratch on a fresh restore
    ok_build, build_log = build_coq(targets=[prop_mod] + list(getattr(mod, "COQ_REQUIRE", [])))
    theorems = list(mod.OBLIGATIONS)
    fresh, why = vo_fresh(prop_mod, getattr(mod, "COQ_REQUIRE", []))
    assum = {}
    if fresh:
        assum = coqio.print_assumptions(prop_mod, theorems, work)
    discharged, undischarged = [], []
    for t in theorems:
        st = assum.get(t, ("missing", [why or "not built"]))
        if st[0] == "closed" or (st[0] == "axioms" and set(st[1]) <= AXIOM_WHITELIST):
            discharged.append(t)
        else:
            undischarged.append((t, st))
    bad_tokens = forbidden_tokens([prop_mod] + list(getattr(mod, "COQ_REQUIRE", [])))
    if bad_tokens:
        undischarged.append(("<forbidden tokens>", ("forbidden", bad_tokens)))
    axioms_used = sorted({a for t in theorems for a in (assum.get(t, ("", []))[1] if assum.get(t, ("",))[0] == "axioms" else [])})
    coqchk_out = None
    if tier == "thorough" and fresh and os.environ.get("VERIF_NOCOQCHK") != "1":
        p = subprocess.run(["timeout", "1500", "coqchk", "-silent", "-o", "-Q", coqio.THEORIES, "PyDcop",
                            "PyDcop." + prop_mod], capture_output=True, text=True)
        coqchk_out = (p.stdout + p.stderr)[-2500:]
        if p.returncode != 0:
            undischarged.append(("<coqchk>", ("coqchk", [coqchk_out[-600:]])))

    # ---- replay mode: only the given cases
    rng = random.Random("%s-%d" % (pid, seed))
    if args.replay:
        rp = json.load(open(args.replay))
        cases = rp.get("cases", [])
        log("replaying %d case(s) from %s (kind=%s)" % (len(cases), args.replay, rp.get("kind")))
        if rp.get("kind") == "obligation":
            log("obligations now undischarged: %s" % [u[0] for u in undischarged])
    else:
        n = args.n or (mod.N_QUICK if tier == "quick" else mod.N_THOROUGH)
        # more search exactly when the code changed: if the /repo tree differs from the commit the
        # evidence was produced on (harness/repo_ref.txt) or has uncommitted edits under pydcop/,
        # the quick tier generates QUICK_BOOST times more cases (never more than the thorough
        # count). The comparison itself never raises an alarm.
        changed = repo_changed()
        if tier == "quick" and not args.n and changed:
            boost = float(os.environ.get("VERIF_QUICK_BOOST", getattr(mod, "QUICK_BOOST", 3)))
            n = int(min(mod.N_THOROUGH, max(n, n * boost)))
            notes.append("repo tree differs from reference commit: quick case count raised to %d" % n)
        corpus_p = os.path.join(VERIF, "harness", "corpus", pid + ".json")
        corpus = json.load(open(corpus_p)) if os.path.exists(corpus_p) else []
        cases = list(corpus) + list(mod.gen(rng, n, tier))

    # ---- 2./3. implementation + oracle
    obs = run_impl_all(mod, cases)
    known_hits = {}
    failing = []
    for i, (c, o) in enumerate(zip(cases, obs)):
        msg = oracle_msg(mod, c, o)
        if msg:
            fid = None
            try:
                fid = mod.classify(c, o, msg) if hasattr(mod, "classify") else None
            except Exception:
                fid = None
            if fid is not None and fid in listed:
                known_hits.setdefault(fid, []).append(i)
            else:
                failing.append((i, msg))

    # ---- 4. model on the same inputs
    terms, term_idx, skipped = [], [], 0
    for i, (c, o) in enumerate(zip(cases, obs)):
        if isinstance(o, dict) and "__driver_error__" in o:
            skipped += 1
            continue
        try:
            t = mod.coq_case(c, o)
        except Exception as e:
            t = None
            notes.append("coq_case raised on case %d: %s: %s" % (i, type(e).__name__, e))
            failing.append((i, "observation not expressible for the model (%s: %s)" % (type(e).__name__, e)))
        if t is None:
            skipped += 1
            continue
        terms.append(t)
        term_idx.append(i)
    mism, coq_errors = [], []
    model_ran = False
    mfresh, mwhy = vo_fresh(getattr(mod, "COQ_REQUIRE", ["Base"])[0], getattr(mod, "COQ_REQUIRE", []))
    if terms and mfresh:
        mm, coq_errors = coqio.run_cases(mod.COQ_REQUIRE, mod.COQ_CHECK, mod.COQ_CASE_TYPE, terms, work,
                                         shard=getattr(mod, "SHARD", 250),
                                         preamble=getattr(mod, "COQ_PREAMBLE", ""))
        mism = [term_idx[j] for j in mm]
        model_ran = True
    elif terms:
        coq_errors = ["model module does not compile: " + mwhy]

    # ---- known findings: replay each listed witness on the current tree
    for fid, k in sorted(listed.items()):
        still = bool(known_hits.get(fid))
        wit = k.get("witness")
        if wit is not None and not still:
            o = safe_impl(mod, wit)
            msg = oracle_msg(mod, wit, o)
            if msg:
                try:
                    still = (mod.classify(wit, o, msg) == fid)
                except Exception:
                    still = False
        if still:
            log("KNOWN-FINDING: property=%s %s" % (pid, k["what"]))

    # ---- 5. decide
    exit_code = 0
    # on a broken tie (obligation or correspondence) search harder for a failing input
    if (undischarged or mism or coq_errors) and not failing and not args.replay:
        extra = list(mod.gen(random.Random("%s-%d-search" % (pid, seed)), getattr(mod, "N_SEARCH", mod.N_THOROUGH), "thorough"))
        eobs = run_impl_all(mod, extra)
        for c, o in zip(extra, eobs):
            msg = oracle_msg(mod, c, o)
            if msg:
                fid = mod.classify(c, o, msg) if hasattr(mod, "classify") else None
                if fid is None or fid not in listed:
                    cases.append(c)
                    obs.append(o)
                    failing.append((len(cases) - 1, msg))
                    break
    if failing:
        i, msg = failing[0]

        def still_fails(c):
            o = safe_impl(mod, c)
            m = oracle_msg(mod, c, o)
            if not m:
                return False
            fid = mod.classify(c, o, m) if hasattr(mod, "classify") else None
            return fid is None or fid not in listed
        small = shrink(mod, cases[i], still_fails) if not args.replay else cases[i]
        so = safe_impl(mod, small)
        path = write_replay(pid, "input", dict(
            cases=[small], message=oracle_msg(mod, small, so) or msg, observation=so,
            other_failing=[dict(index=j, message=m) for j, m in failing[1:6]],
            n_failing=len(failing)))
        log("property oracle failed on the implementation: %s" % msg)
        log("VIOLATION property=%s replay=%s" % (pid, path))
        exit_code = 1
    elif undischarged:
        path = write_replay(pid, "obligation", dict(
            cases=[], undischarged=[dict(theorem=t, status=st[0], detail=st[1]) for t, st in undischarged],
            build_log=build_log[-1500:] if not ok_build else ""))
        log("proof obligations not discharged: %s" % ", ".join(t for t, _ in undischarged))
        log("VIOLATION property=%s replay=%s no-failing-input-found" % (pid, path))
        exit_code = 1
    elif mism or coq_errors:
        first = mism[:5]
        path = write_replay(pid, "correspondence", dict(
            cases=[cases[j] for j in first], observations=[obs[j] for j in first],
            model_check=mod.COQ_CHECK, n_mismatch=len(mism), coq_errors=coq_errors[:3],
            note="the Coq model %s no longer reproduces the implementation on these cases; "
                 "the property oracle found no failing input" % mod.COQ_CHECK))
        log("correspondence broken: %d mismatching case(s), %d coqc error(s)" % (len(mism), len(coq_errors)))
        if coq_errors:
            log(coq_errors[0][-800:])
        log("VIOLATION property=%s replay=%s no-failing-input-found" % (pid, path))
        exit_code = 1
    if args.replay:
        log("replay result: %s" % ("still failing" if exit_code else "passes"))

    # ---- evidence
    keyf = getattr(mod, "key", jdump)
    nontriv = getattr(mod, "nontrivial", lambda c, o: True)
    distinct = set()
    for c, o in zip(cases, obs):
        try:
            if nontriv(c, o):
                distinct.add(keyf(c) if keyf is not jdump else jdump(c))
        except Exception:
            pass
    hist = {}
    if hasattr(mod, "histogram"):
        try:
            hist = mod.histogram(cases, obs)
        except Exception as e:
            hist = {"error": str(e)}
    def _cap(x, limit=6000):
        """evidence must stay small: a sample larger than `limit` characters of JSON is cut
        to a prefix string (the complete case can be regenerated from the seed)"""
        t = jdump(x)
        return x if len(t) <= limit else {"truncated_json_prefix": t[:limit], "full_length": len(t)}
    samples = []
    for j in range(min(3, len(cases))):
        samples.append({"case": _cap(cases[j]), "observation": _cap(obs[j])})
    ev = {
        "property_id": pid, "tier": tier, "seed": seed, "level": "proof",
        "coverage": {
            "obligations": len(theorems), "discharged": len(discharged),
            "checker_cmd": "make -C /verif/coq (coqc 8.16.1, full .vo build) + Print Assumptions on %s.{%s}%s"
                           % (prop_mod, ",".join(theorems), "; coqchk -o" if coqchk_out is not None else ""),
            "trusted_base": TRUSTED_BASE + list(getattr(mod, "TRUSTED", [])),
            "theorems": theorems,
            "undischarged": [t for t, _ in undischarged],
            "axioms_used": axioms_used,
            "coqchk": coqchk_out,
            "evaluations": len(cases),
            "distinct_nontrivial": len(distinct),
            "rule": getattr(mod, "RULE", "seeded generator of the property module; distinct = distinct JSON of the case"),
            "samples": samples,
            "model_cases_evaluated": len(terms) if model_ran else 0,
            "model_cases_skipped": skipped,
            "model_mismatches": len(mism),
            "oracle_failures_unlisted": len(failing),
            "known_finding_hits": {k: len(v) for k, v in known_hits.items()},
            "histogram": _cap(hist, 20000),
            "modelled_vs_proved": getattr(mod, "MODELLED", ""),
            "repo": repo_fingerprint(pid),
            "notes": notes[:10],
        },
        "assumptions": list(getattr(mod, "ASSUMPTIONS", [])),
        "wall_s": round(time.time() - t0, 2),
        "violations": 1 if exit_code else 0,
    }
    evdir = os.environ.get("VERIF_EVIDENCE_DIR", os.path.join(VERIF, "evidence"))
    os.makedirs(evdir, exist_ok=True)
    with open(os.path.join(evdir, pid + ".json"), "w") as f:
        json.dump(ev, f, indent=1, default=str)
    log("%s tier=%s obligations=%d/%d cases=%d model=%d mismatches=%d oracle_fail=%d known=%s wall=%.1fs"
        % (pid, tier, len(discharged), len(theorems), len(cases), len(terms) if model_ran else 0,
           len(mism), len(failing), {k: len(v) for k, v in known_hits.items()}, time.time() - t0))
    return exit_code


if __name__ == "__main__":
    main()
