"""C07 -- cycle-bounded local search (mgm, mgm2, dsa) finishes after stop_cycle cycles."""
from harness import coqio as q
from harness.pydrv import localsearch_drv as L

ID = "C07"
COQ_REQUIRE = ["Net", "M_Mgm", "M_Dsa", "M_Mgm2"]
COQ_CASE_TYPE = "lcase"
COQ_CHECK = "lcheck"
COQ_PREAMBLE = ("Inductive lcase := CMgm (c : M_Mgm.case) | CDsa (c : M_Dsa.dcase) | CMgm2 (c : M_Mgm2.case2).\n"
                "Definition lcheck (c : lcase) : bool := match c with CMgm x => M_Mgm.check_case x "
                "| CDsa x => M_Dsa.dcheck_case x | CMgm2 x => M_Mgm2.check_case2 x end.")
OBLIGATIONS = ["mgm_no_reentrancy_partial", "mgm_isolated_finishes", "dsa_isolated_finishes",
               "mgm2_isolated_finishes", "mgm_finished_at_stop_partial", "dsa_finished_at_stop_partial",
               "dsa_stopped_silent_partial",
               # deepening (P_Mgm3*.v): the full MGM statement for every schedule
               "mgm_barrier_invariant", "mgm_neighbours_one_phase_apart", "mgm_trace_ok", "mgm_terminates_k",
               "mgm_no_deadlock",
               # deepening (P_Dsa3.v): the full DSA statement for every schedule
               "dsa_barrier_invariant", "dsa_neighbours_one_cycle_apart", "dsa_trace_ok", "dsa_terminates_k",
               "dsa_no_deadlock",
               # deepening 2 (P_Mgm2x/y/s*/f/z.v): the full MGM2 statement for every schedule
               "mgm2_barrier_invariant", "mgm2_phase_order", "mgm2_partner_handshake", "mgm2_trace_ok",
               "mgm2_terminates_k", "mgm2_no_deadlock", "mgm2_run_fuel60", "mgm2_terminates_k_fuel60"]
N_QUICK, N_THOROUGH = 300, 6000
PARALLEL = 8
SHARD = 60
RULE = ("random DCOPs of 1-6 variables (domains of 1-3 integer values, also non-contiguous / unsorted), binary "
        "constraints of random density, ternary constraints (25%), duplicate scopes, unary constraints, isolated "
        "variables, variables with own cost tables (dict or function), min/max, stop_cycle 1-5; algorithm mgm "
        "(break_mode lexic or, 40%, random: same behaviour on the code as it is, the test compares with the module), "
        "mgm2 (threshold 0-1, the three favor modes) or dsa (variants A/B/C, probability 0-1); real computations "
        "run by the thread-free netdriver under a seeded schedule from 6 policies (uniform, drain, newest, "
        "startlate, starve:<node>), 75% to quiescence, 25% cut after 1-60 actions; every random.choice / "
        "random.random / random.uniform / numpy.random.choice / numpy.random.randint of the algorithms replaced by a "
        "logged oracle. 20% of the cases are DSA on TIE-RICH instances (2-4 variables, domains of 2-4 values, own "
        "costs in {0,1(,2)} on 85% of the variables (dict or function), binary tables in {0,1(,2)}, variants B/C "
        "favoured, stop_cycle 3-6): there 'cost difference 0 although the current value is not a best value, "
        "several best values' (find_optimal adds the variable's own cost, the current cost does not) happens in "
        "~10% of the runs. 15% of all cases run a startlate schedule with pause(True)/pause(False) of running "
        "computations (a stutter of the model: Pause/Resume and deliveries to a paused computation are not model "
        "actions; everybody is resumed before the observation); 12% use the names v0, v00, v000.. (every name a "
        "substring of the later ones, same lexical order); 30% of the cost dicts do not cover the whole domain "
        "(missing value = cost 0); a handler call using more than 20 s of CPU is reported as a raising handler. "
        "non-trivial = some computation reaches cycle 2; distinct = distinct case JSON")
MODELLED = ("modelled: all message handlers of MgmComputation, DsaComputation and Mgm2Computation with their "
            "postponed lists / dictionaries, stop_cycle tests, value_selection, new_cycle, finished, stop, plus "
            "MessagePassingComputation start/on_message buffering (Net.v). compared per case: the complete ordered "
            "event trace (value selections with cost and cycle, new cycles, finished, raises), every node's final "
            "internal state, every channel's content, the neighbour sets. theorems: MGM no re-entrant postponed "
            "processing under EVERY schedule, isolated variables finish at start (3 algorithms), finished only at "
            "stop_cycle and silent afterwards (local). MGM (P_Mgm3*.v): the global barrier invariant, finished "
            "exactly once with cycle counter k, quiescent => all finished and nothing held, no deadlock, no error "
            "event, for EVERY schedule (theorems mgm_barrier_invariant, mgm_terminates_k, mgm_no_deadlock, "
            "mgm_trace_ok); DSA (P_Dsa3.v): the same (dsa_barrier_invariant, dsa_terminates_k, dsa_no_deadlock, "
            "dsa_trace_ok). MGM2 (P_Mgm2x/y/s*/f/z.v): the same for the five-phase protocol with the answer / go-no-go "
            "partner handshake (mgm2_barrier_invariant, mgm2_phase_order, mgm2_partner_handshake, mgm2_trace_ok, "
            "mgm2_terminates_k, mgm2_no_deadlock), stated for the model with the fuel of the nested _enter_state "
            "recursion as a parameter (any fuel >= 10 * degree + 2; the compared model is fuel = 60: "
            "mgm2_run_fuel60, mgm2_terminates_k_fuel60 for degree <= 5, which covers every generated case)")
META = dict(
    level_text=("Proof (Coq) of the full statement for the three algorithms (MGM2: see the fuel remark). MGM and DSA: FULL statement proved for all DCOPs, stop_cycle k > 0, oracles and ALL "
                "schedules of starts and per-channel-FIFO deliveries (theorems mgm_/dsa_terminates_k, mgm_/dsa_no_deadlock, "
                "mgm_/dsa_trace_ok over the global barrier invariants mgm_/dsa_barrier_invariant; DSA for every variant and probability): no handler error, every "
                "computation reports finished exactly once with cycle counter k (0 without neighbour) in every "
                "execution that ends with all computations started and no message in flight, and before that "
                "some message is always in flight (nobody waits for ever). "
                "MGM2: the same full statement (mgm2_terminates_k, mgm2_no_deadlock, mgm2_trace_ok over mgm2_barrier_invariant, plus "
                "mgm2_partner_handshake: answers and go/no-go messages are exchanged exactly once between partners) for all "
                "DCOPs, thresholds, favor modes, oracles and ALL schedules, about the model whose nested _enter_state recursion "
                "has fuel >= 10 * degree + 2 (the real code has no fuel; the model compared with the implementation has fuel "
                "60, i.e. the theorems cover it up to degree 5 = every generated case). Also proved for all DCOPs, oracles and ALL schedules of starts and FIFO deliveries: "
                "the MGM handlers never process a postponed list re-entrantly and keep the postponed lists "
                "consistent with the waiting state; proved locally for MGM, DSA, MGM2: a variable without neighbour "
                "selects a value, reports finished once at start and sends nothing; finished() is only reported "
                "when the cycle counter has reached stop_cycle > 0 and then nothing is sent; a finished DSA "
                "computation stays silent. The tie between the models and the Python code is checked on every run by "
                "replaying seeded FIFO schedules on the real computations against the "
                "executable models (whole event trace, final states, channels) and by an independent oracle."),
    level_note=("Trusted: Coq kernel/vm_compute, M_Mgm.v / M_Dsa.v / M_Mgm2.v + Net.v as renderings of the Python "
                "code, the thread-free netdriver. Costs inside int32 (find_arg_optimal sentinels are C06's)."),
    technique="Coq invariant proof over executable network models + schedule-replay correspondence + trace oracle",
    design_ref="DESIGN.md §5 C07",
)

ALGOS = ["mgm", "dsa", "mgm2"]


def gen(rng, n, tier):
    cases = []
    for _ in range(n):
        algo = rng.choice(ALGOS)
        tie = rng.random() < 0.2        # DSA, tie-rich instance with variables' own costs (see RULE)
        if tie:
            algo = "dsa"
            vars_, cons = L.gen_tie_dcop(rng)
            k = rng.randint(3, 6)
        else:
            vars_, cons = L.gen_dcop(rng, nmax=5)
            k = rng.randint(1, 5)
        full = rng.random() < 0.75
        params = {}
        if algo == "mgm2":
            params = dict(threshold=rng.choice([0.0, 0.3, 0.5, 0.5, 0.8, 1.0]),
                          favor=rng.choice(["unilateral", "no", "coordinated"]))
        if algo == "mgm" and rng.random() < 0.4:
            params = dict(break_mode="random")    # = lexical on the code as it is (dead comparison), see RULE
        if algo == "dsa":
            params = dict(variant=rng.choice("BCCBA" if tie else "ABC"),
                          probability=rng.choice([0, 300, 500, 700, 700, 1000]) / 1000.0)
        c = dict(algo=algo, mode=rng.choice(["min", "max"]), stop_cycle=k, params=params, vars=vars_, cons=cons,
                 seed=rng.randrange(10 ** 9), policy=L.policy_for(rng, len(vars_)),
                 max_steps=2000 if full else rng.randint(1, 60), full=1 if full else 0)
        if rng.random() < 0.15:
            c["pauses"] = 1              # startlate schedule with pause / resume (L.run_with_pauses)
            c["policy"] = "startlate+pauses"
        if rng.random() < 0.12:
            c["names"] = "sub"           # v0, v00, v000 ...: every name is a substring of the later ones
        cases.append(c)
    return cases


def run_impl(c):
    return L.run_case(c)


def oracle(c, o):
    """independent statement of C07 on the observed run"""
    n = len(c["vars"])
    k = c["stop_cycle"]
    for e in o["events"]:
        if e[0] == "raise":
            return "handler of v%02d raised %s: %s" % (e[1], e[2], e[3])
    fins = {}
    for e in o["events"]:
        if e[0] == "fin":
            fins.setdefault(e[1], []).append(e[2])
    for i, l in fins.items():
        if len(l) > 1:
            return "v%02d reported finished %d times" % (i, len(l))
        want = k if L.neighbours(c, i) else 0
        if l[0] != want:
            return "v%02d finished with cycle_count %d, expected %d" % (i, l[0], want)
    if o["quiescent"]:
        # nothing can happen any more: everybody must have finished (nobody waits for ever)
        for i in range(n):
            if i not in fins:
                return "run is quiescent but v%02d never finished (cycle %s)" % (i, o["nodes"][str(i)]["cycle"])
        if o["chans"]:
            return "messages left in flight at quiescence: %s" % o["chans"][:2]
    elif c.get("full"):
        return "run did not become quiescent within %d steps" % c["max_steps"]
    return None


def _mmsg(m):
    return ("MValue %s" if m[0] == "V" else "MGain %s") % q.z(m[1])


def _mgm_case(c, o):
    evs = []
    for e in o["events"]:
        if e[0] == "val":
            evs.append("EvValue %s %s %s %s" % (q.z(e[1]), q.z(e[2]), q.opt(e[3], q.z), q.z(e[4])))
        elif e[0] == "cyc":
            evs.append("EvCycle %s %s" % (q.z(e[1]), q.z(e[2])))
        elif e[0] == "fin":
            evs.append("EvFinished %s %s" % (q.z(e[1]), q.z(e[2])))
        else:
            evs.append("EvErr %s 1" % q.z(e[1]))
    nodes = []
    for k, s in sorted(o["nodes"].items(), key=lambda kv: int(kv[0])):
        nodes.append(q.pair(q.z(int(k)), "mkN %s %s %s %s %s %s %s %s %s %s" % (
            q.z(s["state"]), q.z(s["cycle"]), q.opt(s["value"], q.z), q.opt(s["cost"], q.z),
            L.coq_kv(s["nv"]), L.coq_kv(s["ng"]), L.coq_kv(s["pv"]), L.coq_kv(s["pg"]),
            q.opt(s["gain"], q.z), q.opt(s["newv"], q.z))))
    chans = q.lst(["(%s, %s, %s)" % (q.z(s), q.z(d), q.lst([_mmsg(m) for m in l])) for s, d, l in o["chans"]])
    return "M_Mgm.mkCase %s %s %s %s %s %s %s %s" % (
        L.coq_dcop(c), q.z(c["stop_cycle"]), L.coq_orc(c, o), L.coq_sched(o), q.lst(evs), q.lst(nodes), chans,
        L.coq_nbrs(o))


def _events(o):
    evs = []
    for e in o["events"]:
        if e[0] == "val":
            evs.append("EvValue %s %s %s %s" % (q.z(e[1]), q.z(e[2]), q.opt(e[3], q.z), q.z(e[4])))
        elif e[0] == "cyc":
            evs.append("EvCycle %s %s" % (q.z(e[1]), q.z(e[2])))
        elif e[0] == "fin":
            evs.append("EvFinished %s %s" % (q.z(e[1]), q.z(e[2])))
        else:
            evs.append("EvErr %s 1" % q.z(e[1]))
    return q.lst(evs)


def _chans(o):
    return q.lst(["(%s, %s, %s)" % (q.z(s), q.z(d), q.lst([_mmsg(m) for m in l])) for s, d, l in o["chans"]])


def _dsa_case(c, o):
    nodes = []
    for k, s in sorted(o["nodes"].items(), key=lambda kv: int(kv[0])):
        nodes.append(q.pair(q.z(int(k)), "mkDO %s %s %s %s %s %s %s" % (
            q.z(s["cycle"]), q.opt(s["value"], q.z), q.opt(s["cost"], q.z), L.coq_kv(s["cur"]), L.coq_kv(s["nxt"]),
            q.b(s["running"]), L.coq_kv(s["held"]))))
    p = c["params"]
    return "mkDCase %s %s %s %s %s %s %s %s %s %s %s" % (
        L.coq_dcop(c), q.z(c["stop_cycle"]), q.z("ABC".index(p["variant"])), q.z(round(p["probability"] * 1000)),
        q.b(o.get("fo_vc", 0)), L.coq_orc(c, o), L.coq_sched(o), _events(o), q.lst(nodes), _chans(o), L.coq_nbrs(o))


def coq_case(c, o):
    if c["algo"] == "mgm":
        return "CMgm (%s)" % _mgm_case(c, o)
    if c["algo"] == "dsa":
        return "CDsa (%s)" % _dsa_case(c, o)
    if c["algo"] == "mgm2":
        return "CMgm2 (%s)" % L.coq_mgm2_case(c, o)
    return None


def nontrivial(c, o):
    return any(e[0] == "cyc" and e[2] >= 2 for e in o.get("events", []))


def histogram(cases, obs):
    h = {}
    for c, o in zip(cases, obs):
        h[c["algo"]] = h.get(c["algo"], 0) + 1
        h["quiescent"] = h.get("quiescent", 0) + (1 if o.get("quiescent") else 0)
        h["isolated_nodes"] = h.get("isolated_nodes", 0) + sum(1 for i in range(len(c["vars"])) if not L.neighbours(c, i))
        h["max_sched"] = max(h.get("max_sched", 0), len(o.get("sched", [])))
        h["nary"] = h.get("nary", 0) + (1 if any(len(x["scope"]) > 2 for x in c["cons"]) else 0)
    return h


def classify(c, o, msg):
    return None
