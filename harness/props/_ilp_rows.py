"""C24 deepening: row-level view of the PuLP problem captured at solve() (constraint rows and
objective as integer coefficient lists over named binaries) and its Gallina printer
(M_IlpRows.ilp_obs).  Used by harness/props/C24.py only."""
from harness import coqio as q
from harness.props import _dist_common as dc


def var_names(method, comps, anames, links):
    """PuLP variable name -> key.  Keys: ["X", c, a], ["F", c, a], ["B", c1, a1, c2, a2],
    ["A", i, j, k] with the Z ids of M_Dist (dc.cid / dc.aid)."""
    names = {}
    for x in comps:
        for a in anames:
            names["x_%s_%s" % (x, a)] = ["X", dc.cid(x), dc.aid(a)]
            if method == "ilp_fgdp":
                names["f_%s_%s" % (x, a)] = ["F", dc.cid(x), dc.aid(a)]
    if method == "oilp_cgdp":
        for c1 in comps:
            for c2 in comps:
                for a1 in anames:
                    for a2 in anames:
                        names["b_%s_%s_%s_%s" % (c1, a1, c2, a2)] = ["B", dc.cid(c1), dc.aid(a1), dc.cid(c2), dc.aid(a2)]
    else:
        for i in comps:
            for j in comps:
                for k in anames:
                    # LpVariable.dict('a', ([(i, j), ...], agents)): name = 'a_%s_%s' % ((i, j), k), blanks -> '_'
                    names[("a_%s_%s" % (str((i, j)), k)).replace(" ", "_")] = ["A", dc.cid(i), dc.cid(j), dc.aid(k)]
    return names


class NotIntegral(Exception):
    pass


def _int(x):
    if isinstance(x, bool):
        raise NotIntegral(repr(x))
    if isinstance(x, int):
        return x
    if isinstance(x, float) and x == int(x):
        return int(x)
    raise NotIntegral(repr(x))


def _ratio_int(coef, ratio):
    """the integer k with ratio * k == coef exactly as the code computes it (float product)"""
    k = int(round(coef / ratio))
    for kk in (k, k - 1, k + 1):
        if ratio * kk == coef:
            return kk
    raise NotIntegral("%r is not %r * integer" % (coef, ratio))


def capture(pb, method, comps, anames, links):
    """rows: [{"n": constraint name, "c": sorted [[key, coef]], "s": sense, "r": rhs}] in the order of
    pb.constraints; comm / host: objective coefficients as integers (oilp_cgdp: coefficient of a b_
    variable / 0.8, of an x_ variable / (1 - 0.8), as exact float products; ilp_fgdp: the coefficient).
    Zero coefficients are dropped; an unknown variable becomes ["O", n]."""
    names = var_names(method, comps, anames, links)
    other = {}

    def key(v):
        if v.name in names:
            return names[v.name]
        return ["O", other.setdefault(v.name, len(other))]
    try:
        rows = []
        for cname, cons in pb.constraints.items():
            coefs = sorted([key(v), _int(k)] for v, k in cons.items() if k != 0)
            rows.append(dict(n=cname, c=coefs, s=int(cons.sense), r=_int(-cons.constant)))
        comm, host = [], []
        for v, k in pb.objective.items():
            if k == 0:
                continue
            kk = key(v)
            if method == "oilp_cgdp":
                if kk[0] == "X":
                    host.append([kk, _ratio_int(k, 1 - 0.8)])
                else:
                    comm.append([kk, _ratio_int(k, 0.8)])
            else:
                comm.append([kk, _int(k)])
        if pb.objective.constant != 0:
            comm.append([["O", -1], _int(pb.objective.constant)])
        return dict(rows=rows, comm=sorted(comm), host=sorted(host), other=sorted(other))
    except NotIntegral as e:
        return dict(unmodelled=str(e))


def var_term(k):
    t = k[0]
    if t == "X":
        return "(VX %s %s)" % (q.z(k[1]), q.z(k[2]))
    if t == "F":
        return "(VF %s %s)" % (q.z(k[1]), q.z(k[2]))
    if t == "B":
        return "(VB %s %s %s %s)" % tuple(q.z(x) for x in k[1:])
    if t == "A":
        return "(VA %s %s %s)" % tuple(q.z(x) for x in k[1:])
    return "(VOther %s)" % q.z(k[1])


def coefs_term(l):
    return q.lst(["(%s, %s)" % (var_term(k), q.z(v)) for k, v in l])


def obs_term(ilp):
    if ilp is None:
        return "None"
    rows = q.lst(["(mkLRow %s %s %s)" % (coefs_term(r["c"]), q.z(r["s"]), q.z(r["r"])) for r in ilp["rows"]])
    return "(Some (mkObs %s %s %s))" % (rows, coefs_term(ilp["comm"]), coefs_term(ilp["host"]))


# ------------------------------------------------------------------ independent reading of the rows
def eval_rows(ilp, assign):
    """all rows satisfied by the 0/1 assignment {tuple(key): 0/1}?"""
    for r in ilp["rows"]:
        v = sum(k * assign[tuple(key)] for key, k in r["c"])
        ok = (v == r["r"]) if r["s"] == 0 else (v <= r["r"] if r["s"] < 0 else v >= r["r"])
        if not ok:
            return False
    return True


def row_oracle(method, ilp, comps, anames, dists, hard_ok, zero_cost_agent):
    """Independent statement of "the rows are the hard rules + linearisation" at integral points.
    For every listed distribution D (tuple of agent indices per computation) that keeps the
    computations without x/f variable (ilp_fgdp: pre-hosted ones) on their zero-cost agent:
      * the assignment (x = indicator of D, every b/a = product of its two x) satisfies all rows
        iff hard_ok(D);
      * when it does, flipping any single b/a variable violates a row (the rows force the product).
    hard_ok / zero_cost_agent come from the case data only."""
    cids = [dc.cid(x) for x in comps]
    aids = [dc.aid(a) for a in anames]
    allvars = {}
    for r in ilp["rows"]:
        for key, _ in r["c"]:
            allvars[tuple(key)] = 1
    for key, _ in ilp["comm"] + ilp["host"]:
        allvars[tuple(key)] = 1
    if any(k[0] == "O" for k in allvars):
        return "captured problem has variables that are none of x_/f_/b_/a_: %s" % ilp.get("other")
    has_var = {x: any((t, x, a) in allvars for a in aids for t in ("X", "F")) for x in cids}
    by_var = {}
    for r in ilp["rows"]:
        for key, _ in r["c"]:
            by_var.setdefault(tuple(key), []).append(r)
    aux = [k for k in allvars if k[0] in ("A", "B")]
    for D in dists:
        pos = dict(zip(cids, [aids[k] for k in D]))
        skip = False
        for x, name in zip(cids, comps):
            if not has_var[x]:
                if method != "ilp_fgdp":
                    return "no x variable for computation %s" % name
                za = zero_cost_agent(name)
                if za is None or dc.aid(anames[za]) != pos[x]:
                    skip = True
        if skip:
            continue
        assign = {}
        for k in allvars:
            if k[0] in ("X", "F"):
                assign[k] = 1 if pos[k[1]] == k[2] else 0
            elif k[0] == "B":
                assign[k] = 1 if (pos[k[1]] == k[2] and pos[k[3]] == k[4]) else 0
            else:
                assign[k] = 1 if (pos[k[1]] == k[3] and pos[k[2]] == k[3]) else 0
        sat = eval_rows(ilp, assign)
        hard = hard_ok(D)
        if sat != hard:
            return ("rows %s at the indicator (+ products) of %s but the hard rules %s"
                    % ("hold" if sat else "fail", dict(zip(comps, D)), "hold" if hard else "fail"))
        if sat:
            for k in aux:
                assign[k] ^= 1
                still = eval_rows(dict(rows=by_var.get(k, [])), assign)
                assign[k] ^= 1
                if still:
                    return "rows do not force %s to the product of its x variables at %s" % (list(k), dict(zip(comps, D)))
    return None
