"""C08 -- synchronous computations run in proper rounds under any asynchronous order."""
from harness import coqio as q

ID = "C08"
COQ_REQUIRE = ["Net", "NetPause", "M_SyncMixin", "M_SyncPause"]
COQ_CASE_TYPE = "M_SyncPause.pcase"
COQ_CHECK = "M_SyncPause.check_pcase"
OBLIGATIONS = ["sync_no_error", "sync_round_inputs", "sync_log_unique", "sync_rounds_consecutive",
               "sync_neighbours_one_apart", "sync_never_stuck",
               "pause_is_stutter", "resumed_is_plain", "sync_no_error_paused", "sync_neighbours_one_apart_paused"]
N_QUICK, N_THOROUGH = 300, 4000
PARALLEL = 8
RULE = ("random graphs of 1-6 nodes (90% symmetric), a table-driven synchronous test algorithm sending an "
        "oracle-chosen payload to an arbitrary subset of neighbours each round via post_msg and/or the "
        "returned list (85% valid plans, 15% with duplicate / non-neighbour targets to reach the error "
        "branches), random start orders and per-channel-FIFO schedules from 6 policies, 25% of them with "
        "pause/resume of started computations (the model runs the full schedule on the extended network "
        "NetPause.erun, its projection must be the driver's model schedule and the plain run of that "
        "projection must agree as well - the instance of pause_is_stutter); plus the real "
        "dsatuto and maxsum computations on random DCOPs (oracle only). non-trivial = at least one "
        "on_new_cycle call with a non-empty message dict; distinct = distinct case JSON")
MODELLED = ("SynchronousComputationMixin (__init__, _sync_message_handler, post_msg, start, _switch_cycle) and "
            "MessagePassingComputation.start/on_message pre-start buffering and pause()/resume of started "
            "computations (NetPause.v) are modelled; theorems hold for every "
            "symmetric graph, every hosted algorithm whose targets are distinct neighbours and every schedule. "
            "The real dsatuto/maxsum computations are checked by the oracle only (their own models belong to C05/C06).")
META = dict(
    level_text=("Proof (Coq): for every symmetric neighbour relation, every hosted algorithm that addresses each "
                "neighbour at most once per round, and every schedule of starts and per-channel-FIFO deliveries, "
                "the mixin model never reaches one of its ComputationException branches, neighbours' cycle counters "
                "differ by at most one, on_new_cycle calls of a node have consecutive ids, and the call with id k "
                "is handed exactly, for each neighbour, the payload that neighbour posted with stamp k (or nothing "
                "when it only sent the implicit synchronisation). The model is tied to computations.py by replaying "
                "the same schedules on the real mixin (thread-free driver) and comparing every on_new_cycle "
                "argument, exception, cycle counter and in-flight message."),
    level_note=("Trusted: Coq kernel/vm_compute, M_SyncMixin.v + Net.v as a rendering of the Python code, the "
                "thread-free netdriver (real agent threads/queues are C18/C21's subject). Pause/resume of "
                "started computations is modelled (NetPause.v) and proved to be a stutter of Net.v for every "
                "protocol; pausing a computation that is not started is not modelled (the driver never does it; "
                "the ordering contract of the hold buffers themselves is C19's)."),
    technique="Coq invariant proof over an executable network model + schedule-replay correspondence",
    design_ref="DESIGN.md §5 C08",
)


def _name(i):
    return "n%02d" % i


def gen(rng, n, tier):
    cases = []
    for _ in range(n):
        r = rng.random()
        if r < 0.12:
            cases.append(dict(kind="real", algo=rng.choice(["dsatuto", "maxsum"]), seed=rng.randrange(10**9),
                              nvars=rng.randint(2, 5), steps=rng.randint(20, 120)))
            if rng.random() < 0.3:
                cases[-1]["pause"] = rng.choice([0.05, 0.15])
            continue
        nn = rng.randint(1, 6)
        adj = {i: [] for i in range(nn)}
        p = rng.choice([0.3, 0.5, 0.8, 1.0])
        for i in range(nn):
            for j in range(i + 1, nn):
                if rng.random() < p:
                    adj[i].append(j)
                    adj[j].append(i)
        symmetric = True
        if rng.random() < 0.08 and nn >= 2:
            i = rng.randrange(nn)
            if adj[i]:
                adj[i].pop(rng.randrange(len(adj[i])))
                symmetric = False
        for i in adj:
            rng.shuffle(adj[i])
        valid = rng.random() < 0.85
        rows = rng.randint(1, 6)
        plan = {}
        for i in range(nn):
            plan[i] = []
            for k in range(rows):
                nb = list(adj[i])
                rng.shuffle(nb)
                chosen = [t for t in nb if rng.random() < 0.6]
                cut = rng.randint(0, len(chosen))
                # relay: re-send the message OBJECT received from a neighbour in this round (each
                # source at most once per round, so an object is never in two channels at once)
                srcs = list(adj[i])
                rng.shuffle(srcs)

                def ent(t):
                    r = -1
                    if k > 0 and srcs and rng.random() < 0.3:
                        r = srcs.pop()
                    return [t, rng.randint(0, 99), r]
                posted = [ent(t) for t in chosen[:cut]]
                returned = [ent(t) for t in chosen[cut:]] if k > 0 else []
                if k == 0:
                    posted = [[t, rng.randint(0, 99), -1] for t in chosen]
                if not valid and rng.random() < 0.3:
                    bad = rng.choice(["dup", "nonnb", "dupret"])
                    if bad == "dup" and posted:
                        posted.append([posted[0][0], posted[0][1], -1])
                    elif bad == "dupret" and returned:
                        returned.append([returned[0][0], returned[0][1], -1])
                    elif bad == "nonnb" and nn >= 2:
                        t = rng.randrange(nn)
                        (returned if k > 0 and rng.random() < 0.5 else posted).append([t, rng.randint(0, 99), -1])
                plan[i].append([posted, returned])
        cases.append(dict(kind="table", n=nn, adj={str(i): adj[i] for i in adj}, symmetric=symmetric, valid=valid,
                          plan={str(i): plan[i] for i in plan}, seed=rng.randrange(10**9),
                          steps=rng.randint(5, 90)))
        if rng.random() < 0.25:
            # pause / resume of started computations during the run (a stutter of the model)
            cases[-1]["pause"] = rng.choice([0.05, 0.15, 0.3])
    return cases


# ------------------------------------------------------------------ implementation driver
def _run_table(c):
    import random
    from pydcop.infrastructure.computations import (MessagePassingComputation, SynchronousComputationMixin,
                                                     message_type, register, ComputationException)
    from harness.pydrv.netdriver import NetDriver, pick_policy
    Tbl = message_type("tbl", ["value"])
    log = []

    class TableSync(SynchronousComputationMixin, MessagePassingComputation):
        def __init__(self, name, nb, plan):
            super().__init__(name)
            self._nb = nb
            self._plan = plan

        @property
        def neighbors(self):
            return list(self._nb)

        @register("tbl")
        def on_tbl(self, s, m, t):
            pass

        def _row(self, k):
            return self._plan[k] if k < len(self._plan) else [[], []]

        def on_start(self):
            for t, p, _r in self._row(0)[0]:
                self.post_msg(_name(t), Tbl(p))

        @staticmethod
        def _msg(messages, p, r):
            # relay: the very message object received from r in this round, else a fresh one
            if r >= 0 and _name(r) in messages:
                return messages[_name(r)][0]
            return Tbl(p)

        def on_new_cycle(self, messages, cycle_id):
            log.append(["cycle", self.name, cycle_id, [[s, m.value] for s, (m, _) in messages.items()]])
            posted, returned = self._row(cycle_id + 1)
            for t, p, r in posted:
                self.post_msg(_name(t), self._msg(messages, p, r))
            if not returned:
                return None
            return [(_name(t), self._msg(messages, p, r)) for t, p, r in returned]

    nn = c["n"]
    comps = {_name(i): TableSync(_name(i), [_name(j) for j in c["adj"][str(i)]], c["plan"][str(i)]) for i in range(nn)}
    drv = NetDriver(comps)
    sends = []
    orig = drv._sender

    def sender(src, dst, msg, prio=None, on_error=None):
        if prio != 19:   # 19 = re-injection of a message held before start, not a new send
            sends.append([src, dst, msg.cycle_id, getattr(msg, "value", None) if msg.type == "tbl" else None,
                          msg.type, len(log)])
        orig(src, dst, msg, prio, on_error)
    for comp in comps.values():
        comp._msg_sender = sender
    rng = random.Random(c["seed"])
    # wrap do() to interleave raises into the log in order
    real_do = drv.do

    def do(act):
        ne = len(drv.events)
        real_do(act)
        for e in drv.events[ne:]:
            if e[0] == "raise":
                kind = 0
                if e[2] == "ComputationException":
                    kind = 1 if "not in the neighbors" in e[3] else 2 if "two messages" in e[3] else 3 if "current cycle is" in e[3] else 0
                elif e[2] == "ValueError":
                    kind = 4
                log.append(["raise", e[1], kind, e[2]])
    drv.do = do
    drv.run_random(rng, max_steps=c["steps"], policy=pick_policy(rng, list(comps)), pause_prob=c.get("pause", 0.0))
    inflight = []
    for (s, d), ql in sorted(drv.chans.items()):
        if d in comps:
            inflight.append([s, d, [[m.cycle_id, getattr(m, "value", None) if m.type == "tbl" else None] for m in ql]])
    return dict(log=log, sched=drv.model_schedule, full=drv.schedule, cycles=[[n_, comps[n_].current_cycle] for n_ in sorted(comps)],
                inflight=inflight, sends=sends)


def _run_real(c):
    """real synchronous computations (dsatuto / maxsum) under random schedules: oracle only"""
    import random
    from importlib import import_module
    import numpy
    from pydcop.algorithms import load_algorithm_module, AlgorithmDef, ComputationDef
    from pydcop.dcop.dcop import DCOP
    from pydcop.dcop.objects import Domain, Variable
    from pydcop.dcop.relations import NAryMatrixRelation
    from pydcop.infrastructure import computations as C
    from harness.pydrv.netdriver import NetDriver, pick_policy
    rng = random.Random(c["seed"])
    random.seed(c["seed"])
    numpy.random.seed(c["seed"] % (2**32))
    dom = Domain("d", "d", [0, 1, 2][: rng.randint(2, 3)])
    vs = [Variable("v%02d" % i, dom) for i in range(c["nvars"])]
    dcop = DCOP("t", "min")
    k = 0
    for i in range(len(vs)):
        for j in range(i + 1, len(vs)):
            if rng.random() < 0.5 or j == i + 1:
                m = [[rng.randint(0, 9) for _ in dom] for _ in dom]
                dcop.add_constraint(NAryMatrixRelation([vs[i], vs[j]], m, name="c%02d" % k))
                k += 1
    # overlapping scopes (a binary constraint inside a ternary one): the shared pair is reached
    # through two different links and must still be ONE neighbour each way
    if len(vs) >= 3 and rng.random() < 0.6:
        i, j, l = rng.sample(range(len(vs)), 3)
        if not any(set(cn.dimensions) == {vs[i], vs[j]} for cn in dcop.constraints.values()):
            dcop.add_constraint(NAryMatrixRelation([vs[i], vs[j]], [[rng.randint(0, 9) for _ in dom] for _ in dom],
                                                   name="c%02d" % k))
            k += 1
        m3 = [[[rng.randint(0, 9) for _ in dom] for _ in dom] for _ in dom]
        dcop.add_constraint(NAryMatrixRelation([vs[i], vs[j], vs[l]], m3, name="c%02d" % k))
        k += 1
    algo = c["algo"]
    mod = load_algorithm_module(algo)
    gm = import_module("pydcop.computations_graph." + mod.GRAPH_TYPE)
    cg = gm.build_computation_graph(dcop)
    params = {"damping": 0.0, "noise": 0.0, "stability": 0.0} if algo == "maxsum" else {}
    adef = AlgorithmDef.build_with_default_param(algo, params, mode="min", parameters_definitions=mod.algo_params)
    comps = {}
    log = []
    for node in cg.nodes:
        comp = mod.build_computation(ComputationDef(node, adef))
        comps[node.name] = comp
    for name, comp in comps.items():
        orig_cycle = comp.on_new_cycle

        def wrapped(messages, cycle_id, _o=orig_cycle, _n=name):
            log.append(["cycle", _n, cycle_id, [[s, id(m)] for s, (m, _) in messages.items()]])
            return _o(messages, cycle_id)
        comp.on_new_cycle = wrapped
    drv = NetDriver(comps)
    sends = []
    orig = drv._sender
    keep = []

    def sender(src, dst, msg, prio=None, on_error=None):
        keep.append(msg)
        if prio != 19:
            sends.append([src, dst, msg.cycle_id, id(msg) if not isinstance(msg, C.SynchronizationMsg) else None,
                          msg.type, len(log)])
        orig(src, dst, msg, prio, on_error)
    for comp in comps.values():
        comp._msg_sender = sender
    real_do = drv.do

    def do(act):
        ne = len(drv.events)
        real_do(act)
        for e in drv.events[ne:]:
            if e[0] == "raise":
                log.append(["raise", e[1], 0, e[2] + ": " + e[3]])
    drv.do = do
    drv.run_random(rng, max_steps=c["steps"], policy=pick_policy(rng, list(comps)), pause_prob=c.get("pause", 0.0))
    nbrs = {n_: list(comps[n_].neighbors) for n_ in comps}
    return dict(log=log, sends=sends, nbrs=nbrs, nsched=len(drv.schedule))


def run_impl(c):
    return _run_table(c) if c["kind"] == "table" else _run_real(c)


# ------------------------------------------------------------------ oracle
def _check_rounds(log, sends, nbrs):
    """independent statement of C08 on an observed trace"""
    last = {}
    for idx, e in enumerate(log):
        if e[0] == "raise":
            return "handler raised %s at %s" % (e[3], e[1])
        _, n_, k, msgs = e
        if last.get(n_, -1) + 1 != k:
            return "%s: on_new_cycle id %s after id %s" % (n_, k, last.get(n_, -1))
        last[n_] = k
        got = {s: v for s, v in msgs}
        if len(got) != len(msgs):
            return "%s cycle %s: a sender appears twice" % (n_, k)
        for s in got:
            if s not in nbrs[n_]:
                return "%s cycle %s: message from non-neighbour %s" % (n_, k, s)
        for m in nbrs[n_]:
            cands = [x for x in sends if x[0] == m and x[1] == n_ and x[2] == k and x[5] <= idx]
            if len(cands) != 1:
                return "%s cycle %s: neighbour %s sent %d messages stamped %s before the call" % (n_, k, m, len(cands), k)
            x = cands[0]
            if x[4] == "cycle_sync":
                if m in got:
                    return "%s cycle %s: got a payload from %s which only sent a sync" % (n_, k, m)
            elif got.get(m, "<absent>") != x[3]:
                return "%s cycle %s: payload from %s is %r, it sent %r" % (n_, k, m, got.get(m, "<absent>"), x[3])
    return None


def oracle(c, o):
    if c["kind"] == "real":
        return _check_rounds(o["log"], o["sends"], o["nbrs"])
    if not (c["valid"] and c["symmetric"]):
        return None      # hypotheses of the property not met: model validation only
    nbrs = {_name(i): [_name(j) for j in c["adj"][str(i)]] for i in range(c["n"])}
    return _check_rounds(o["log"], o["sends"], nbrs)


# ------------------------------------------------------------------ Gallina
def _idx(name):
    return int(name[1:])


def coq_case(c, o):
    if c["kind"] != "table":
        return None
    graph = q.lst([q.pair(q.z(i), q.zlist(c["adj"][str(i)])) for i in range(c["n"])])

    def pl(l):
        return q.lst(["(%s, %s, %s)" % (q.z(t), q.z(p), q.z(r)) for t, p, r in l])
    plan = q.lst([q.pair(q.z(i), q.lst([q.pair(pl(r[0]), pl(r[1])) for r in c["plan"][str(i)]])) for i in range(c["n"])])
    sched = q.lst(["Start %s" % q.z(_idx(a[1])) if a[0] == "S" else "Deliver %s %s" % (q.z(_idx(a[1])), q.z(_idx(a[2])))
                   for a in o["sched"]])
    evs = []
    for e in o["log"]:
        if e[0] == "cycle":
            evs.append("OCycle %s %s %s" % (q.z(_idx(e[1])), q.z(e[2]), q.lst([q.pair(q.z(_idx(s)), q.z(v)) for s, v in e[3]])))
        else:
            evs.append("ORaise %s %s" % (q.z(_idx(e[1])), q.z(e[2])))
    cycles = q.lst([q.pair(q.z(_idx(n_)), q.z(k)) for n_, k in o["cycles"]])
    infl = q.lst(["(%s, %s, %s)" % (q.z(_idx(s)), q.z(_idx(d)), q.lst([q.pair(q.z(st), q.opt(v, q.z)) for st, v in l]))
                  for s, d, l in o["inflight"]])
    ename = {"S": "EStart", "D": "EDeliver", "P": "EPause", "R": "EResume"}
    full = q.lst(["%s %s" % (ename[a[0]], " ".join(q.z(_idx(x)) for x in a[1:])) for a in o["full"]])
    return "mkPCase (mkCase %s %s %s %s %s %s) %s" % (graph, plan, sched, q.lst(evs), cycles, infl, full)


def nontrivial(c, o):
    return any(e[0] == "cycle" and e[3] for e in o.get("log", []))


def histogram(cases, obs):
    h = {"table_valid": 0, "table_malformed": 0, "real_dsatuto": 0, "real_maxsum": 0, "cycle_calls": 0,
         "raises": 0, "max_cycle": 0}
    for c, o in zip(cases, obs):
        if c["kind"] == "real":
            h["real_" + c["algo"]] += 1
        elif c["valid"] and c["symmetric"]:
            h["table_valid"] += 1
        else:
            h["table_malformed"] += 1
        for e in o.get("log", []):
            if e[0] == "cycle":
                h["cycle_calls"] += 1
                h["max_cycle"] = max(h["max_cycle"], e[2])
            else:
                h["raises"] += 1
    return h


def classify(c, o, msg):
    return None
