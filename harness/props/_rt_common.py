"""Shared driver code for the properties about the real threaded runtime (C21, C22, C27).

* build_dcop(spec)        DCOP + agents from a JSON description (matrix constraints, int costs)
* run_isolated(fn, case)  run `fn(case)` in a forked child with a hard wall-clock limit, stdout /
                          stderr silenced, cwd = a private scratch directory (the orchestrator dumps
                          yaml files into the cwd); a hung runtime can therefore never hang a check
* install_mgt_trace()     record every message handled / sent by the orchestrator's AgentsMgt
* brute force helpers used by the oracles (independent of pydcop's own cost accounting)
"""
import itertools
import json
import os
import select
import shutil
import signal
import sys
import threading
import time

WORK = "/verif/.work/runtime-run"
INFINITY = 10000


# ------------------------------------------------------------------ instances
def vname(i):
    return "v%02d" % i


def aname(i):
    return "a%02d" % i


def gen_dcop_spec(rng, nvars, max_dom=3, p_extra=0.3, p_ternary=0.15, p_unary=0.2, p_hard=0.08,
                  objective=None):
    """connected constraint graph: random spanning tree + extra binary / ternary / unary
    constraints; integer costs, now and then the 'infinity' constant (hard violation)."""
    doms = [rng.randint(2, max_dom) for _ in range(nvars)]
    scopes = []
    for i in range(1, nvars):
        scopes.append([rng.randrange(i), i])
    for i in range(nvars):
        for j in range(i + 1, nvars):
            if [i, j] not in scopes and rng.random() < p_extra / max(1, nvars - 2):
                scopes.append([i, j])
    if nvars >= 3 and rng.random() < p_ternary:
        scopes.append(sorted(rng.sample(range(nvars), 3)))
    for i in range(nvars):
        if rng.random() < p_unary:
            scopes.append([i])
    rng.shuffle(scopes)
    cons = []
    for sc in scopes:
        if rng.random() < 0.5:
            sc = list(reversed(sc))
        size = 1
        for i in sc:
            size *= doms[i]
        table = [INFINITY if rng.random() < p_hard else rng.randint(-3, 12) for _ in range(size)]
        cons.append(dict(scope=sc, table=table))
    return dict(doms=doms, cons=cons,
                objective=objective or ("min" if rng.random() < 0.7 else "max"))


def build_dcop(spec, n_agents, capacity=1000, hosting=1, route=1, var_costs=None):
    import numpy as np
    from pydcop.dcop.dcop import DCOP
    from pydcop.dcop.objects import Variable, Domain, AgentDef, VariableWithCostDict
    from pydcop.dcop.relations import NAryMatrixRelation
    dcop = DCOP("g", spec["objective"])
    variables = []
    for i, size in enumerate(spec["doms"]):
        dom = Domain("d%d" % size, "", list(range(size)))
        if var_costs and var_costs.get(str(i)) is not None:
            variables.append(VariableWithCostDict(vname(i), dom,
                                                  {k: c for k, c in enumerate(var_costs[str(i)])}))
        else:
            variables.append(Variable(vname(i), dom))
    for k, c in enumerate(spec["cons"]):
        scope = [variables[i] for i in c["scope"]]
        m = np.array(c["table"], dtype=np.int64).reshape([spec["doms"][i] for i in c["scope"]])
        dcop.add_constraint(NAryMatrixRelation(scope, m, name="c%02d" % k))
    for v in variables:       # variables without any constraint still belong to the dcop
        if v.name not in dcop.variables:
            dcop.add_variable(v)
    dcop.add_agents([AgentDef(aname(i), capacity=capacity, default_hosting_cost=hosting,
                              default_route=route) for i in range(n_agents)])
    return dcop


def total_cost(spec, assign):
    """sum of raw constraint costs of a total assignment {index: value}"""
    tot = 0
    for c in spec["cons"]:
        idx = 0
        for i in c["scope"]:
            idx = idx * spec["doms"][i] + assign[i]
        tot += c["table"][idx]
    return tot


def accounting(spec, assign, infinity=INFINITY):
    """(violations, soft cost): a constraint whose cost equals `infinity` counts as one violation
    and is left out of the cost."""
    viol, soft = 0, 0
    for c in spec["cons"]:
        idx = 0
        for i in c["scope"]:
            idx = idx * spec["doms"][i] + assign[i]
        if c["table"][idx] == infinity:
            viol += 1
        else:
            soft += c["table"][idx]
    return viol, soft


def brute_optimum(spec):
    best = None
    for vals in itertools.product(*[range(d) for d in spec["doms"]]):
        t = total_cost(spec, vals)
        if best is None or (t < best if spec["objective"] == "min" else t > best):
            best = t
    return best


# ------------------------------------------------------------------ isolation
def quiet():
    import logging
    logging.disable(logging.CRITICAL)


_PRELOADED = False


def preload():
    """import pydcop in the parent once, so that forked children do not pay for it"""
    global _PRELOADED
    if _PRELOADED:
        return
    _PRELOADED = True
    import warnings
    warnings.simplefilter("ignore")
    import pydcop.infrastructure.run  # noqa
    import pydcop.infrastructure.orchestrator  # noqa
    import pydcop.dcop.scenario  # noqa
    from pydcop.algorithms import load_algorithm_module
    for a in ("dpop", "mgm", "dsa", "mgm2", "adsa"):
        load_algorithm_module(a)
    import pydcop.computations_graph.pseudotree  # noqa
    import pydcop.computations_graph.constraints_hypergraph  # noqa
    import pydcop.replication.dist_ucs_hostingcosts  # noqa
    for dm in ("oneagent", "adhoc", "gh_cgdp"):
        __import__("pydcop.distribution." + dm)


def run_isolated(fn, case, hard_timeout=150, retries=0):
    """fork; the child runs fn(case) and sends its JSON result through a pipe.  retries: how many
    times a run that hit the hard limit or whose child died is repeated (the first failure is
    kept in the result as 'first_error'); a failure that repeats is reported."""
    first = None
    for attempt in range(retries + 1):
        res = _run_isolated_once(fn, case, hard_timeout)
        if not (isinstance(res, dict) and res.get("error") in ("HardTimeout", "ChildDied")):
            break
        if first is None:
            first = res["error"]
    if first is not None and isinstance(res, dict):
        res["first_error"] = first
    return res


def _run_isolated_once(fn, case, hard_timeout):
    preload()
    r, w = os.pipe()
    pid = os.fork()
    if pid == 0:
        code = 0
        try:
            os.close(r)
            os.setsid()
            d = os.path.join(WORK, "%d" % os.getpid())
            for _ in range(20):
                try:
                    os.makedirs(d, exist_ok=True)
                    os.chdir(d)
                    break
                except OSError:
                    time.sleep(0.01)
            dn = os.open(os.devnull, os.O_WRONLY)
            os.dup2(dn, 1)
            os.dup2(dn, 2)
            quiet()
            try:
                res = fn(case)
            except BaseException as e:  # noqa
                import traceback
                res = {"error": type(e).__name__, "detail": str(e)[:300],
                       "tb": traceback.format_exc()[-800:]}
            data = json.dumps(res, default=_jdefault).encode()
            os.write(w, b"%12d" % len(data))
            off = 0
            while off < len(data):
                off += os.write(w, data[off:off + 65536])
        except BaseException:  # noqa
            code = 3
        finally:
            try:
                shutil.rmtree(os.path.join(WORK, "%d" % os.getpid()), ignore_errors=True)
            finally:
                os._exit(code)
    os.close(w)
    deadline = time.time() + hard_timeout
    buf = b""
    need = None
    try:
        while True:
            left = deadline - time.time()
            if left <= 0:
                return {"error": "HardTimeout"}
            rd, _, _ = select.select([r], [], [], min(left, 1.0))
            if not rd:
                continue
            chunk = os.read(r, 1 << 16)
            if not chunk:
                break
            buf += chunk
            if need is None and len(buf) >= 12:
                need = int(buf[:12])
            if need is not None and len(buf) >= 12 + need:
                break
        if need is None or len(buf) < 12 + need:
            return {"error": "ChildDied"}
        return json.loads(buf[12:12 + need].decode())
    finally:
        os.close(r)
        try:
            os.killpg(pid, signal.SIGKILL)
        except Exception:
            pass
        try:
            os.waitpid(pid, 0)
        except Exception:
            pass
        shutil.rmtree(os.path.join(WORK, "%d" % pid), ignore_errors=True)


def _jdefault(o):
    try:
        import numpy as np
        if isinstance(o, np.integer):
            return int(o)
        if isinstance(o, np.floating):
            return float(o)
    except Exception:
        pass
    if isinstance(o, (set, frozenset)):
        return sorted(o)
    return str(o)


# ------------------------------------------------------------------ graph / distribution
def build_runtime(dcop, algo_name, dist_name, algo_params=None, rng_seed=0):
    """(algo_def, computation graph, distribution) the way pydcop.infrastructure.run.solve does"""
    import random
    from importlib import import_module
    from pydcop.algorithms import AlgorithmDef, load_algorithm_module
    am = load_algorithm_module(algo_name)
    algo = AlgorithmDef.build_with_default_param(
        algo_name, algo_params or {}, parameters_definitions=am.algo_params, mode=dcop.objective)
    gm = import_module("pydcop.computations_graph." + am.GRAPH_TYPE)
    cg = gm.build_computation_graph(dcop)
    dist = make_distribution(cg, dcop, am, dist_name, rng_seed)
    return algo, cg, dist


def make_distribution(cg, dcop, am, dist_name, rng_seed):
    """oneagent / adhoc / gh_cgdp through their distribute() entry points; 'random' = a seeded
    arbitrary mapping (every computation on exactly one agent).  DPOP's computation_memory /
    communication_load raise NotImplementedError, so for it the distribution methods get unit
    footprints and loads (the property quantifies over the resulting valid distributions)."""
    import random
    from importlib import import_module
    from pydcop.distribution.objects import Distribution
    rnd = random.Random(rng_seed)
    if dist_name == "random":
        agents = sorted(dcop.agents)
        mapping = {a: [] for a in agents}
        for n in cg.nodes:
            mapping[rnd.choice(agents)].append(n.name)
        return Distribution(mapping)
    mem, load = am.computation_memory, am.communication_load
    try:
        mem(cg.nodes[0])
    except NotImplementedError:
        mem, load = (lambda *a, **k: 1), (lambda *a, **k: 1)
    except Exception:
        pass
    random.seed(rng_seed)
    dm = import_module("pydcop.distribution." + dist_name)
    return dm.distribute(cg, dcop.agents.values(), computation_memory=mem, communication_load=load)


# ------------------------------------------------------------------ orchestrator trace
def canon_msg(msg):
    t = msg.type
    if t == "value_change":
        v = msg.value
        return dict(t="value", agent=msg.agent, comp=msg.computation,
                    value=int(v) if v is not None else None, cycle=int(msg.cycle or 0))
    if t == "end_of_computation":
        return dict(t="end", agent=msg.agent, comp=msg.computation)
    if t == "stopped":
        return dict(t="stopped", agent=msg.agent)
    if t == "metrics":
        return dict(t="metrics", agent=msg.agent)
    if t == "_orchestrator_deploy_computations":
        return dict(t="deploy")
    if t == "_orchestrator_run_computations":
        return dict(t="run")
    if t == "_orchestrator_stop_agents":
        return dict(t="stopreq")
    if t == "replicated":
        return dict(t="replicated", agent=msg.agent)
    if t == "_orchestrator_start_replication":
        return dict(t="replicate", k=msg.content)
    if t == "repair_ready":
        return dict(t="repair_ready", agent=msg.agent, comps=list(msg.computations))
    if t == "repair_done":
        return dict(t="repair_done", agent=msg.agent, selected=list(msg.selected_computations))
    if t == "_orchestrator_scenario_event":
        evt = msg.content
        return dict(t="event", removed=[a.args["agent"] for a in evt.actions
                                        if a.type == "remove_agent"])
    return dict(t="other", type=str(t))


def canon_out(agt, msg):
    t = msg.type
    if t == "stop":
        return ["stop", agt]
    if t == "run_computations":
        return ["run", agt, list(msg.computations)]
    if t == "deploy":
        return ["deploy", agt, msg.comp_def.node.name]
    if t == "metrics_mode":
        return ["metrics_mode", agt]
    if t == "replication":
        return ["replication", agt]
    if t == "pause_computations":
        return ["pause", agt, sorted(msg.computations)]
    if t == "resume_computations":
        return ["resume", agt, sorted(msg.computations)]
    if t == "agent_removed":
        return ["agent_removed", agt]
    if t == "setup_repair":
        info = msg.repair_info
        return ["setup_repair", agt, sorted(info)]
    if t == "repair_run":
        return ["repair_run", agt]
    return ["other", agt, str(t)]


class MgtTrace(object):
    """Wraps AgentsMgt so that every handled message / discovery callback becomes one trace entry
    {ev, outs, flags}.  All of these run on the orchestrator's agent thread."""

    def __init__(self):
        self.entries = []
        self._tl = threading.local()
        self._lock = threading.Lock()
        self.ready0 = None
        self.foreign = []       # entries recorded from a thread that is not the orchestrator's

    def install(self):
        from pydcop.infrastructure import orchestrator as orch
        tr = self
        M = orch.AgentsMgt
        orig_on_message, orig_send, orig_cb = M.on_message, M._send_mgt_msg, M._cb_agent_registration
        orig_cb_comp = M._cb_computation_registration

        def top(selfm, ev, call):
            if getattr(tr._tl, "cur", None) is not None:     # nested call on the same thread
                tr._tl.cur.setdefault("nested", []).append(ev)
                return call()
            entry = dict(ev=ev, outs=[], thread=threading.current_thread().name,
                         agents=list(selfm.discovery.agents()),
                         comps=list(selfm.discovery.computations()))
            tr._tl.cur = entry
            if tr.ready0 is None:
                tr.ready0 = selfm.ready_to_run
            try:
                return call()
            finally:
                # ready_to_run is an Event object that the caller's thread REPLACES once its
                # wait() returned; the flag is only comparable while the first object is in place
                rdy = selfm.ready_to_run
                entry["flags"] = [selfm.all_registered.is_set(),
                                  rdy.is_set() if rdy is tr.ready0 else None,
                                  selfm._all_agt_stopped.is_set()]
                with tr._lock:
                    tr.entries.append(entry)
                tr._tl.cur = None

        def on_message(selfm, sender, msg, t):
            return top(selfm, canon_msg(msg), lambda: orig_on_message(selfm, sender, msg, t))

        def cb(selfm, evt, agent, x):
            return top(selfm, dict(t=evt, agent=agent), lambda: orig_cb(selfm, evt, agent, x))

        def cb_comp(selfm, evt, comp, agent):
            return top(selfm, dict(t=evt, comp=comp, agent=agent),
                       lambda: orig_cb_comp(selfm, evt, comp, agent))

        def send(selfm, agt, msg):
            o = canon_out(agt, msg)
            cur = getattr(tr._tl, "cur", None)
            if cur is not None:
                cur["outs"].append(o)
            else:
                with tr._lock:
                    tr.foreign.append(o)
            return orig_send(selfm, agt, msg)

        M.on_message, M._send_mgt_msg = on_message, send
        M._cb_agent_registration, M._cb_computation_registration = cb, cb_comp
        return self


# ------------------------------------------------------------------ thread-identity trace (C21)
def thread_class(name):
    """MainThread -> 'main'; thread_<agent> -> 'agent:<agent>'; anything else (threading.Timer,
    helper threads) -> 'timer'."""
    if name == "MainThread":
        return "main"
    if name.startswith("thread_"):
        return "agent:" + name[len("thread_"):]
    return "timer"


class _CbWrap(object):
    """discovery callback wrapper that still compares equal to the wrapped callable, so that
    Discovery.unsubscribe_*(..., cb) keeps finding it"""

    def __init__(self, tt, agent, inner):
        self.tt, self.agent, self.inner = tt, agent, inner

    def __call__(self, *a, **k):
        return self.tt.callback(self.agent, "_discovery_" + self.agent, "disc_cb",
                                lambda: self.inner(*a, **k))

    def __eq__(self, other):
        if isinstance(other, _CbWrap):
            return self.inner == other.inner
        return self.inner == other

    def __hash__(self):
        return hash(self.inner)


class ThreadTrace(object):
    """Records, for a real thread-mode run, which thread executes every computation callback
    (start / on_message / pause / periodic action / discovery callback) of every agent, and
    under which runtime entry point (the 'root' of the call chain on that thread):

      loop roots (the agent's own thread, Agent._run):  on_start, msg, periodic, on_stop
      api roots  (whoever calls):  Agent.start/run/pause_computations/unpause_computations/
                 add_computation/remove_computation/stop/clean_shutdown, Messaging.post_msg,
                 Orchestrator.start/deploy_computations/start_replication/run/stop_agents/stop,
                 Orchestrator._mgt_method/_on_timeout/_process_event

    One item = one outermost root frame on a thread + the callbacks executed inside it.
    Also detects overlap: a callback of agent A entered while another thread is inside a
    callback of A.  Everything is done by wrapping methods from outside (no source hook)."""

    CB_KINDS = ("start", "on_message", "pause", "periodic", "disc_cb", "handler")

    def __init__(self, jitter=None):
        self.items = []
        self.lock = threading.Lock()
        self.tl = threading.local()
        self.active = {}          # agent -> {thread ident: depth}
        self.overlaps = []
        self.agent_threads = {}   # agent name -> Thread object
        self.jitter = jitter      # callable or None: perturbs scheduling inside wrappers

    # -- frames
    def _stack(self):
        st = getattr(self.tl, "stack", None)
        if st is None:
            st = self.tl.stack = []
        return st

    def root(self, kind, target, detail, call):
        st = self._stack()
        if st:
            st.append(None)
            try:
                return call()
            finally:
                st.pop()
        frame = dict(root=kind, target=target, detail=detail,
                     thread=threading.current_thread().name, events=[])
        st.append(frame)
        try:
            return call()
        finally:
            st.pop()
            with self.lock:
                self.items.append(frame)

    def callback(self, agent, comp, kind, call):
        st = self._stack()
        me = threading.get_ident()
        ev = dict(agent=agent, comp=comp, kind=kind, thread=threading.current_thread().name)
        with self.lock:
            act = self.active.setdefault(agent, {})
            others = [t for t, d in act.items() if t != me and d > 0]
            if others:
                names = {t.ident: t.name for t in threading.enumerate()}
                self.overlaps.append(dict(ev, others=sorted(names.get(t, "?") for t in others)))
            act[me] = act.get(me, 0) + 1
        if st and st[0] is not None:
            st[0]["events"].append(ev)
        else:
            with self.lock:
                self.items.append(dict(root="none", target=agent, detail=None,
                                       thread=ev["thread"], events=[ev]))
        if self.jitter is not None:
            self.jitter()
        try:
            return call()
        finally:
            with self.lock:
                self.active[agent][me] -= 1

    # -- installation
    def install(self):
        from pydcop.infrastructure import agents as ag
        from pydcop.infrastructure import communication as cm
        from pydcop.infrastructure import discovery as dv
        from pydcop.infrastructure import orchestrator as om
        tt = self

        def wrap_comp(agent_name, comp):
            if getattr(comp, "_c21_wrapped", False):
                return
            comp._c21_wrapped = True
            comp._c21_agent = agent_name
            name = comp.name
            for meth, kind in (("start", "start"), ("on_message", "on_message"), ("pause", "pause")):
                orig = getattr(comp, meth)

                def w(*a, _orig=orig, _kind=kind, **k):
                    return tt.callback(agent_name, name, _kind, lambda: _orig(*a, **k))
                setattr(comp, meth, w)

        A = ag.Agent
        orig_init = A.__init__

        def a_init(selfa, name, *a, **k):
            orig_init(selfa, name, *a, **k)
            tt.agent_threads[name] = selfa.t
            wrap_comp(name, selfa.discovery.discovery_computation)
        A.__init__ = a_init

        def patch_api(cls, meth, api, target_of, detail_of=lambda a, k: None):
            orig = getattr(cls, meth)

            def w(selfx, *a, **k):
                return tt.root("api:" + api, target_of(selfx), detail_of(a, k),
                               lambda: orig(selfx, *a, **k))
            setattr(cls, meth, w)

        def patch_loop(cls, meth, kind):
            orig = getattr(cls, meth)

            def w(selfx, *a, **k):
                detail = None
                if kind == "msg":
                    detail = [a[1], str(getattr(a[2], "type", None))]   # dest computation, msg type
                return tt.root("loop:" + kind, selfx.name, detail, lambda: orig(selfx, *a, **k))
            setattr(cls, meth, w)

        aname_of = lambda s: s.name
        # add_computation: wrap the instance, then the real method (itself an api root)
        for cls in (ag.Agent, ag.ResilientAgent):
            orig_add = cls.__dict__["add_computation"]

            def add(selfa, computation, *a, _orig=orig_add, **k):
                wrap_comp(selfa.name, computation)
                return tt.root("api:add_computation", selfa.name, None,
                               lambda: _orig(selfa, computation, *a, **k))
            cls.add_computation = add
        for meth, api in (("start", "agent_start"), ("run", "run"), ("pause_computations", "pause"),
                          ("unpause_computations", "unpause"), ("stop", "stop"),
                          ("clean_shutdown", "clean_shutdown")):
            patch_api(A, meth, api, aname_of)
        for cls in (ag.Agent, ag.ResilientAgent):
            orig_rm = cls.__dict__["remove_computation"]

            def rm(selfa, *a, _orig=orig_rm, **k):
                return tt.root("api:remove_computation", selfa.name, None,
                               lambda: _orig(selfa, *a, **k))
            cls.remove_computation = rm
        patch_loop(A, "_handle_message", "msg")
        patch_loop(A, "_process_periodic_action", "periodic")
        from pydcop.infrastructure import orchestratedagents as oa
        for cls in (ag.Agent, ag.ResilientAgent, oa.OrchestratedAgent):
            if "_on_start" in cls.__dict__:
                patch_loop(cls, "_on_start", "on_start")
            if "_on_stop" in cls.__dict__:
                patch_loop(cls, "_on_stop", "on_stop")
        # periodic callbacks
        orig_spa = A.set_periodic_action

        def spa(selfa, period, cb):
            def wcb():
                return tt.callback(selfa.name, getattr(getattr(cb, "__self__", None), "name", "?"),
                                   "periodic", cb)
            return orig_spa(selfa, period, wcb)
        A.set_periodic_action = spa
        # messaging
        patch_api(cm.Messaging, "post_msg", "post_msg", lambda s: s._local_agent)
        # discovery callbacks
        D = dv.Discovery
        for meth in ("subscribe_agent", "subscribe_computation", "subscribe_replica"):
            orig = getattr(D, meth)

            def sub(selfd, what, cb=None, *a, _orig=orig, **k):
                if cb is not None and not isinstance(cb, _CbWrap):
                    cb = _CbWrap(tt, selfd.own_agent, cb)
                return _orig(selfd, what, cb, *a, **k)
            setattr(D, meth, sub)
        orig_all = D.subscribe_all_agents

        def sub_all(selfd, cb=None, *a, **k):
            if cb is not None and not isinstance(cb, _CbWrap):
                cb = _CbWrap(tt, selfd.own_agent, cb)
            return orig_all(selfd, cb, *a, **k)
        D.subscribe_all_agents = sub_all
        # helper threads (threading.Thread / threading.Timer) whose body is a method of a hosted
        # computation: that method is a deferred / periodic action of the computation running on
        # a thread of its own
        from pydcop.infrastructure.computations import MessagePassingComputation as MPC

        def comp_of(fn):
            obj = getattr(fn, "__self__", None)
            return obj if isinstance(obj, MPC) else None
        orig_trun, orig_timer_run = threading.Thread.run, threading.Timer.run

        def thread_run(selft):
            c = comp_of(getattr(selft, "_target", None))
            if c is None:
                return orig_trun(selft)
            return tt.callback(getattr(c, "_c21_agent", "?"), c.name, "periodic", lambda: orig_trun(selft))

        def timer_run(selft):
            c = comp_of(getattr(selft, "function", None))
            if c is None:
                return orig_timer_run(selft)
            return tt.callback(getattr(c, "_c21_agent", "?"), c.name, "periodic",
                               lambda: orig_timer_run(selft))
        threading.Thread.run, threading.Timer.run = thread_run, timer_run
        # orchestrator entry points
        O = om.Orchestrator
        for meth, api in (("start", "orch_start"), ("deploy_computations", "orch_deploy"),
                          ("start_replication", "orch_start_replication"), ("run", "orch_run"),
                          ("stop_agents", "orch_stop_agents"), ("stop", "orch_stop"),
                          ("_mgt_method", "orch_mgt_method"), ("_on_timeout", "orch_on_timeout"),
                          ("_process_event", "orch_process_event"),
                          ("end_metrics", "orch_read"), ("current_global_cost", "orch_read"),
                          ("current_solution", "orch_read"), ("replication_metrics", "orch_read"),
                          ("wait_ready", "orch_wait_ready")):
            patch_api(O, meth, api, lambda s: "orchestrator")
        # message-handler methods of the management computations: a direct call from another
        # thread (instead of a posted message) must show up as a callback on that thread
        for cls, owner_of in ((om.AgentsMgt, lambda c: "orchestrator"),
                              (oa.OrchestrationComputation, lambda c: c.agent.name)):
            for name, fn in list(cls.__dict__.items()):
                if not callable(fn) or not (name.startswith("_orchestrator_") or name.startswith("_on_")):
                    continue

                def h(selfc, *a, _orig=fn, _owner=owner_of, **k):
                    return tt.callback(_owner(selfc), selfc.name, "handler",
                                       lambda: _orig(selfc, *a, **k))
                setattr(cls, name, h)
        return self

    # -- result
    def result(self):
        """deduplicated items: [root, target, detail-kind, caller class, [(agent, comp-kind, kind,
        thread class)...]] with counts; detail is reduced to the computation TYPE so that items
        of the same shape collapse."""
        with self.lock:
            items = list(self.items)
            overlaps = list(self.overlaps)
        return dict(items=items, overlaps=overlaps)
