"""Shared driver code of C23 / C24 (distribution methods): instance generator, construction of
the real pyDCOP objects, randomness / solver substitution in the DRIVER process only, canonical
views of the computation graph.  Owned by the C23/C24 engineer."""
import contextlib
import itertools
from importlib import import_module

GRAPHS = ["factor_graph", "constraints_hypergraph", "pseudotree", "ordered_graph"]
KIND = {"VariableComputation": 0, "FactorComputation": 1}
NRND = 96


# ------------------------------------------------------------------ ids
def cid(name):
    """computation name -> Z id (v3 -> 3, c2 -> 102)"""
    return int(name[1:]) + (100 if name[0] == "c" else 0)


def aid(name):
    return int(name[1:])


# ------------------------------------------------------------------ generator
def gen_instance(rng, max_vars=4, max_cons=4, max_agents=4, graphs=GRAPHS, tight=None,
                 hosting_style=None):
    nv = rng.randint(1, max_vars)
    ncons = rng.randint(0, max_cons)
    cons = []
    for _ in range(ncons):
        ar = min(nv, rng.choice([1, 2, 2, 2, 3]))
        cons.append(sorted(rng.sample(range(nv), ar)))
    graph = rng.choice(graphs)
    comps = ["v%d" % i for i in range(nv)]
    if graph == "factor_graph":
        comps += ["c%d" % i for i in range(len(cons))]
    na = rng.randint(1, max_agents)
    fp = {c: rng.randint(0, 6) for c in comps}
    total = sum(fp.values())
    tight = rng.choice(["tight", "ample", "mixed", "tiny"]) if tight is None else tight
    hosting_style = hosting_style or rng.choice(["default0", "default0", "positive", "somezero", "mixed"])
    agents = []
    for k in range(na):
        if tight == "ample":
            cap = total + rng.randint(0, 5)
        elif tight == "tight":
            cap = max(0, (total + na - 1) // na + rng.randint(-1, 2))
        elif tight == "tiny":
            cap = rng.randint(0, 4)
        else:
            cap = rng.randint(0, total + 2)
        if hosting_style == "default0":
            dh, host = 0, {}
        elif hosting_style == "positive":
            dh, host = rng.randint(1, 9), {c: rng.randint(1, 12) for c in comps if rng.random() < 0.5}
        elif hosting_style == "somezero":
            dh, host = rng.randint(1, 9), {c: rng.choice([0, 0, 3, 7]) for c in comps if rng.random() < 0.35}
        else:
            dh, host = rng.randint(0, 3), {c: rng.randint(0, 5) for c in comps if rng.random() < 0.5}
        routes = {"a%d" % j: rng.randint(0, 6) for j in range(na) if j != k and rng.random() < 0.5}
        agents.append(dict(name="a%d" % k, capacity=cap, dhost=dh, host=host,
                           droute=rng.randint(0, 4), routes=routes))
    load = {}
    for a in comps:
        for b_ in comps:
            if a != b_ and rng.random() < 0.5:
                load["%s|%s" % (a, b_)] = rng.randint(0, 7)
    rnd = list(range(NRND))
    rng.shuffle(rnd)
    perms = []
    for _ in range(5):
        p = list(range(16))
        rng.shuffle(p)
        perms.append(p)
    return dict(nv=nv, cons=cons, graph=graph, agents=agents, fp=fp, load=load,
                dload=rng.randint(0, 3), must_host={}, host_with={}, rnd=rnd, perms=perms,
                choices=[rng.randint(0, 11) for _ in range(8)], tight=tight, hosting=hosting_style)


def add_hints(rng, c, p_must=0.5, p_with=0.0):
    comps = comp_names(c)
    if rng.random() < p_must:
        mh = {}
        for comp in comps:
            if rng.random() < 0.4:
                a = rng.choice(c["agents"])["name"]
                mh.setdefault(a, []).append(comp)
        c["must_host"] = mh
    if rng.random() < p_with and len(comps) >= 2:
        hw = {}
        for _ in range(rng.randint(1, 2)):
            a, b_ = rng.sample(comps, 2)
            hw.setdefault(a, [])
            if b_ not in hw[a]:
                hw[a].append(b_)
        c["host_with"] = hw
    return c


def comp_names(c):
    comps = ["v%d" % i for i in range(c["nv"])]
    if c["graph"] == "factor_graph":
        comps += ["c%d" % i for i in range(len(c["cons"]))]
    return comps


# ------------------------------------------------------------------ real objects
def build_objects(c):
    import logging
    logging.getLogger("distribution").setLevel(logging.CRITICAL)   # driver process only: no log noise
    from pydcop.dcop.objects import Variable, Domain, AgentDef
    from pydcop.dcop.dcop import DCOP
    from pydcop.dcop.relations import constraint_from_str
    from pydcop.distribution.objects import DistributionHints
    d = Domain("d", "", [0, 1])
    vs = [Variable("v%d" % i, d) for i in range(c["nv"])]
    dcop = DCOP("t", "min")
    for v in vs:
        dcop.add_variable(v)
    for i, scope in enumerate(c["cons"]):
        dcop.add_constraint(constraint_from_str("c%d" % i, " + ".join("v%d" % j for j in scope), vs))
    gm = import_module("pydcop.computations_graph." + c["graph"])
    cg = gm.build_computation_graph(dcop)
    agents = [AgentDef(a["name"], capacity=a["capacity"], default_hosting_cost=a["dhost"],
                       hosting_costs=dict(a["host"]), default_route=a["droute"], routes=dict(a["routes"]))
              for a in c["agents"]]
    hints = None
    if c.get("must_host") or c.get("host_with"):
        hints = DistributionHints(must_host={k: list(v) for k, v in c["must_host"].items()} or None,
                                  host_with={k: list(v) for k, v in c["host_with"].items()} or None)
    fp, load, dload = c["fp"], c["load"], c["dload"]

    def computation_memory(node):
        return fp[node.name]

    def communication_load(node, target):
        return load.get("%s|%s" % (node.name, target), dload)
    return dcop, cg, agents, hints, computation_memory, communication_load


def graph_view(cg):
    """what the distribution methods can see of the graph, in the iteration orders they use"""
    nodes = [[n.name, KIND.get(n.type, 2), [list(l.nodes) for l in n.links]] for n in cg.nodes]
    links = [list(l.nodes) for l in cg.links]
    return dict(nodes=nodes, links=links)


# ------------------------------------------------------------------ substitutions (driver only)
class Rnd:
    """deterministic replacement of random.random / shuffle / choice for one run; logs draws"""

    def __init__(self, c):
        self.c = c
        self.k = 0
        self.nshuf = 0
        self.nchoice = 0
        self.shuffles = []
        self.choices = []

    def random(self):
        v = self.c["rnd"][self.k % NRND]
        self.k += 1
        return v / 128.0

    def shuffle(self, l):
        p = self.c["perms"][self.nshuf % len(self.c["perms"])]
        self.nshuf += 1
        n = len(l)
        if n <= 16:
            order = sorted(range(n), key=lambda i: p[i])
            l[:] = [l[i] for i in order]
        self.shuffles.append([getattr(x, "name", x) for x in l])

    def choice(self, l):
        i = self.c["choices"][self.nchoice % len(self.c["choices"])] % len(l)
        self.nchoice += 1
        self.choices.append(i)
        return l[i]


def cbc_factory(log=None):
    import pulp

    def make(*a, **kw):
        return pulp.PULP_CBC_CMD(msg=False, timeLimit=60)
    return make


@contextlib.contextmanager
def patched(method, rnd, capture=None):
    """random / solver substitution around one distribute() call.  Nothing in /repo changes."""
    import random as _random
    mod = import_module("pydcop.distribution." + method)
    saved = []

    def setattr_(obj, name, val):
        saved.append((obj, name, getattr(obj, name)))
        setattr(obj, name, val)
    setattr_(_random, "random", rnd.random)
    if hasattr(mod, "shuffle"):
        setattr_(mod, "shuffle", rnd.shuffle)
    if hasattr(mod, "choice"):
        setattr_(mod, "choice", rnd.choice)
    if hasattr(mod, "GLPK_CMD"):
        setattr_(mod, "GLPK_CMD", cbc_factory())
    if capture is not None:
        import pulp
        orig_solve = pulp.LpProblem.solve

        def solve(self, solver=None, **kw):
            st = orig_solve(self, solver, **kw)
            capture.append((self, st))
            return st
        setattr_(pulp.LpProblem, "solve", solve)
    try:
        yield mod
    finally:
        for obj, name, val in reversed(saved):
            setattr(obj, name, val)


def canon_mapping(dist):
    m = dist.mapping()
    return {a: sorted(m[a]) for a in sorted(m)}
