"""C18 -- agent messaging delivers each message once, by priority, FIFO per sender."""
import logging
import random
import queue as _queue
import sys
import threading
from time import monotonic as _monotonic, sleep

from harness import coqio as q

ID = "C18"
COQ_REQUIRE = ["M_Messaging", "M_MessagingMT"]
COQ_CASE_TYPE = "M_MessagingMT.case"
COQ_CHECK = "M_MessagingMT.check_case"
OBLIGATIONS = ["delivered_exactly_once", "queue_sorted_by_priority", "next_takes_least",
               "fifo_per_destination_and_type", "late_registration_in_order",
               "shutdown_drains", "threads_queue_discipline", "counter_race_possible",
               "mt_delivered_exactly_once", "mt_priority", "mt_fifo_per_sender_type",
               "mt_fifo_unlocked_refuted", "mt_shutdown_drains", "mt_shutdown_oldloop_refuted",
               "mt_fifo_put_order", "mt_lock_released", "mt_late_registration_refuted",
               "mt_registration_conserves"]
N_QUICK, N_THOROUGH = 330, 5000
SHARD = 120
PARALLEL = 4
RULE = ("sequential: seeded histories (0-45 ops) of Post / Register (local or remote agent) / Unregister / "
        "Next / Shutdown / Drain over 5 computations, 6 sender names (one never registered), message types "
        "None/5/10/15/20/25, a few duplicated (equal) messages, on a real Agent + Messaging + Discovery + "
        "InProcessCommunicationLayer with a second real agent as the remote side, driven without threads; "
        "threaded (1 case in 11): a real agent thread, 2-4 poster threads under a random switch interval, a "
        "late registration and a clean shutdown, the PriorityQueue operations logged under the queue's own "
        "lock; micro-step (1 case in 11): 2-3 poster threads (2-9 posts each, local registered destinations), the "
        "real agent thread and clean_shutdown (30% called while the posters are half way: posts dropped or left "
        "queued) under a random switch interval, every shared access of post_msg / the agent loop / "
        "clean_shutdown (read _shutdown, clock, lock acquire/release, counter load/store/re-read, put, shutdown "
        "event read, get or Empty, event set, _shutdown set) logged in one total order by wrappers living in "
        "the driver process only; 2 in 5 of these force an interleaving: thread 0 held between the load and the "
        "store of the counter while thread 1 posts, or a post + clean_shutdown placed right after an Empty get "
        "of the loop; registration race (1 case in 110, known finding): the late destination registers from "
        "another thread while the first post to it is between its unknown-destination test and the deferral, or "
        "the sender's next post runs between the table write and the replay; add-while-running (1 case in 110): "
        "1-5 kept messages, then Agent.add_computation from the main thread on a running agent while a second "
        "discovery listener keeps register_computation busy until the agent thread has dispatched the re-queued "
        "messages; non-trivial = at least 3 messages handled or a deferred message replayed; distinct = "
        "distinct case JSON")
MODELLED = ("Messaging.post_msg/next_msg/shutdown/_on_computation_registration, the discovery table and "
            "one-shot callbacks, the agent loop's dispatch and drain are modelled sequentially "
            "(M_Messaging.v) and compared op by op (outcomes, queue, _failed, handled, send_msg calls, "
            "remote agent's handled order). Theorems hold for all sequential histories. Real threads: only "
            "the queue discipline is modelled (put/get events as the queue's lock serialised them); "
            "post_msg is atomic in the sequential model. Thread interleavings (M_MessagingMT.v): post_msg's local "
            "branch, the agent loop and clean_shutdown as micro-steps over shared memory; exactly-once, priority, "
            "FIFO per sender and type (with the post lock) and shutdown-drains (with the repaired loop) are "
            "theorems for every number of threads, program and interleaving; both are refuted by a witness for "
            "the code before the repairs. The logged real runs are replayed step by step through that model "
            "(counters drawn, queue tuples, handler trace, dropped posts must coincide). Registration racing with "
            "deferring posts: a separate small micro-step model (look up / subscribe / append | put against table "
            "write / snapshot / replay / clear): conservation is a theorem, stranding and overtaking are refuting "
            "witnesses, the three forced real interleavings must end like the model. Not in the micro-step "
            "models: remote destinations, un-registration racing with posts, perf_counter ties "
            "leading to a comparison of the messages themselves (flagged, never seen).")
META = dict(
    level_text=("Proof (Coq) over all sequential histories of posts, registrations, un-registrations, pops, "
                "shutdown and drain of a model of Messaging + the discovery data it uses + the agent loop: "
                "every posted message is in exactly one of queue / deferred list / sent-to-remote / handled / "
                "rejected; the queue is always sorted by (type, counter) and next_msg takes the least entry; "
                "handled messages of one type appear in counter order; if no call raised, messages for one "
                "destination and type are handled in posting order, including messages deferred until the "
                "destination registers; after a clean shutdown the loop handles every queued message and "
                "nothing is added. Thread interleavings: a second, micro-step model (one step per shared-memory "
                "access of post_msg's local branch, of the agent loop and of clean_shutdown, plus the clock) with "
                "theorems for every number of poster threads, every program and EVERY interleaving: each post is "
                "put at most once and handled at most once, exactly once or dropped-after-shutdown at quiescence; "
                "a get never returns an entry while a lower one put earlier is queued; with the post lock the "
                "messages of one thread and type are handled in posting order; with the repaired loop everything "
                "put before clean_shutdown is handled before the agent thread stops. The same statements are "
                "refuted by witness interleavings for the code before the two repairs (both reproduced on the "
                "real code by a forced schedule). A registration racing with a deferring post strands or reorders "
                "messages in the model and in the real code (recorded finding; only conservation is proved "
                "there). The models are tied to communication.py / agents.py / discovery.py by a "
                "differential run on every check (sequential histories op by op; real threads by replaying the "
                "logged micro-steps through the interleaving model)."),
    level_note=("Trusted: Coq kernel/vm_compute, the hand-written models M_Messaging.v / M_MessagingMT.v (in "
                "particular the granularity of the micro-steps: attribute reads/writes, PriorityQueue.put/get, "
                "Lock and Event operations are atomic), the harness driver (including the logging wrappers of the "
                "threaded runs: property wrappers for msg_queue_count/_shutdown, queue/lock/event subclasses), "
                "CPython's PriorityQueue tuple ordering. Not modelled: a full (type, counter, time) tie (the heap "
                "then compares the messages), unknown agent address "
                "(messages silently lost by _on_send_error), HTTP transport, message delay."),
    technique="Coq proof over executable Gallina model + differential correspondence run + perturbed real-thread run",
    design_ref="DESIGN.md §5 C18",
)

A, B = 1, 2
COMPS = [10, 11, 12, 20, 21]
SENDERS = [10, 11, 20, 30, 31, 32]     # 30 is never registered; 31, 32 registered on A from the start
TYPES = [None, None, None, 20, 10, 15, 5, 25]


# ------------------------------------------------------------------ generator
def _gen_seq(rng):
    n = rng.choice([0, 2, 4, 8, 12, 20, 30, 45]) if rng.random() < 0.5 else rng.randint(0, 45)
    w = dict(post=rng.choice([3, 6, 10]), reg=rng.choice([1, 2]), unreg=rng.choice([0, 0.3, 1]),
             next=rng.choice([1, 3, 6]), shutdown=rng.choice([0, 0, 0.2]), drain=rng.choice([0, 0.3]))
    kinds = list(w)
    comps = rng.sample(COMPS, rng.randint(1, 4))
    senders = rng.sample(SENDERS, rng.randint(1, 3))
    ops = []
    for c in comps:                                   # some destinations known from the start
        r = rng.random()
        if r < 0.35:
            ops.append(["reg", c, A])
        elif r < 0.5:
            ops.append(["reg", c, B])
    mid = 0
    posts = []
    for _ in range(n):
        k = rng.choices(kinds, [w[x] for x in kinds])[0]
        if k == "post":
            if posts and rng.random() < 0.04:
                ops.append(list(rng.choice(posts)))   # an equal message again
                continue
            mid += 1
            op = ["post", rng.choice(senders), rng.choice(comps), mid, rng.choice(TYPES)]
            posts.append(op)
            ops.append(op)
        elif k == "reg":
            ops.append(["reg", rng.choice(comps), A if rng.random() < 0.7 else B])
        elif k == "unreg":
            ops.append(["unreg", rng.choice(comps), rng.random() < 0.5])
        else:
            ops.append([k])
    r = rng.random()
    if r < 0.35:
        ops += [["shutdown"], ["drain"]]
    elif r < 0.6:
        ops += [["reg", c, A] for c in comps] + [["drain"]]
    return dict(kind="seq", ops=ops)


def _gen_thr(rng):
    nthreads = rng.randint(2, 4)
    progs = []
    mid = 0
    for t in range(nthreads):
        prog = []
        for _ in range(rng.randint(3, 25)):
            mid += 1
            prog.append([rng.choice([10, 11, 12]), mid, rng.choice([None, None, 20, 10, 15, 25])])
        progs.append(prog)
    return dict(kind="thr", progs=progs, late=12, switch=rng.choice([1e-6, 1e-5, 1e-4, 5e-3]),
                start_agent_first=rng.random() < 0.6, yields=rng.random() < 0.5)


def _gen_mt(rng):
    force = rng.choice([None, None, None, "counter", "shutdown"])
    nthreads = rng.randint(2, 3)
    progs = []
    mid = 0
    for t in range(nthreads):
        prog = []
        for _ in range(rng.randint(2, 9)):
            mid += 1
            prog.append([rng.choice([10, 11]), mid, rng.choice([None, None, 20, 10, 15, 25])])
        progs.append(prog)
    if force == "counter":
        # two threads: thread 0 sits between the load and the store of its only
        # `msg_queue_count += 1` while thread 1 posts 3 of its >= 4 messages (one type, one
        # destination); unlocked, thread 1's 4th post then draws a counter below its 3rd
        ty = rng.choice([None, 10])
        progs = [progs[0][:1], []]
        for _ in range(rng.randint(4, 6)):
            mid += 1
            progs[1].append([10, mid, ty])
    early = force is None and rng.random() < 0.3
    return dict(kind="mt", progs=progs, switch=rng.choice([1e-6, 1e-5, 1e-4, 5e-3]), force=force,
                yield_p=rng.choice([0, 0.1, 0.3, 0.6]), yseed=rng.randrange(10 ** 6),
                early_shutdown=early, start_agent_first=(force == "shutdown") or (force is None and rng.random() < 0.6))



def _gen_reg(rng):
    where = rng.choice(["before_subscribe", "after_subscribe", "direct_before_replay"])
    return dict(kind="reg", where=where, n=rng.randint(2 if where == "direct_before_replay" else 1, 4),
                ty=rng.choice([None, 10]))


def gen(rng, n, tier):
    cases = []
    for i in range(n):
        if i % 110 == 27:
            cases.append(_gen_reg(rng))      # known finding C18-registration-races-with-deferring-post
            continue
        if i % 110 == 60:
            cases.append(dict(kind="addrun", n=rng.randint(1, 5), ty=rng.choice([None, 10])))
            continue
        cases.append(_gen_thr(rng) if i % 11 == 10 else _gen_mt(rng) if i % 11 == 5 else _gen_seq(rng))
    return cases


# ------------------------------------------------------------------ implementation driver
def _cid(name):
    return int(name[1:])


def _name(i):
    return "c%d" % i


def _setup(senders=True):
    from pydcop.infrastructure.agents import Agent
    from pydcop.infrastructure.communication import InProcessCommunicationLayer
    from pydcop.infrastructure.computations import MessagePassingComputation
    logging.disable(logging.CRITICAL)
    trace = {A: [], B: []}

    class Rec(MessagePassingComputation):
        def __init__(self, name, agent_id):
            super().__init__(name)
            self._agent_id = agent_id
            self._msg_handlers["m"] = self._h

        def _h(self, s, m, t):
            trace[self._agent_id].append([_cid(s), _cid(self.name), m.content])

    a = Agent("a1", InProcessCommunicationLayer())
    b = Agent("a2", InProcessCommunicationLayer())
    a.discovery.register_agent("a2", b.address, publish=False)
    b.discovery.register_agent("a1", a.address, publish=False)
    for c in COMPS + [12]:
        if _name(c) not in b._computations:
            comp = Rec(_name(c), B)
            b.add_computation(comp, publish=False)
            comp.start()
    if senders:
        for s in (31, 32):
            a.discovery.register_computation(_name(s), "a1", a.address, publish=False)
    return a, b, Rec, trace


def _pop_and_handle(agent):
    fm, t = agent._messaging.next_msg(0)
    if fm is None:
        return None
    s, d, m, ty = fm
    agent._handle_message(s, d, m, t)
    return [_cid(s), _cid(d), m.content, ty]


def _entry(e):
    fm = e[3]
    return [e[0], e[1], _cid(fm.src_comp), _cid(fm.dest_comp), fm.msg.content, fm.msg_type]


def _run_seq(case):
    from pydcop.infrastructure.computations import Message
    from pydcop.infrastructure.discovery import UnknownComputation
    a, b, Rec, trace = _setup()
    ms = a._messaging
    outbox = []
    real_send = a._comm.send_msg

    def recording_send(src_agent, dest_agent, msg, on_error=None, from_retry=False):
        outbox.append([int(dest_agent[1:]), _cid(msg.src_comp), _cid(msg.dest_comp), msg.msg.content, msg.msg_type])
        return real_send(src_agent, dest_agent, msg, on_error=on_error)

    a._comm.send_msg = recording_send
    outcomes = []
    for op in case["ops"]:
        k = op[0]
        if k == "post":
            before = (len(ms._failed), ms._queue.qsize(), len(outbox))
            try:
                ms.post_msg(_name(op[1]), _name(op[2]), Message("m", op[3]), op[4])
            except UnknownComputation:
                outcomes.append("raised")
                continue
            after = (len(ms._failed), ms._queue.qsize(), len(outbox))
            delta = tuple(y - x for x, y in zip(before, after))
            outcomes.append({(0, 0, 0): "dropped", (1, 0, 0): "deferred", (0, 1, 0): "queued",
                             (0, 0, 1): "sent"}.get(delta, "other%r" % (delta,)))
        elif k == "reg":
            name = _name(op[1])
            try:
                if op[2] == A:
                    if name not in a._computations:
                        comp = Rec(name, A)
                        a.add_computation(comp, publish=False)      # registers on the discovery
                        comp.start()
                    else:
                        a.discovery.register_computation(name, "a1", a.address, publish=False)
                else:
                    a.discovery.register_computation(name, "a2", publish=False)
                outcomes.append("ok")
            except UnknownComputation:
                if op[2] == A and name in a._computations and not a._computations[name].is_running:
                    a._computations[name].start()
                outcomes.append("raised")
        elif k == "unreg":
            a.discovery.unregister_computation(_name(op[1]), None, publish=op[2])
            outcomes.append("ok")
        elif k == "next":
            outcomes.append(_pop_and_handle(a))
        elif k == "shutdown":
            a.clean_shutdown()
            outcomes.append("ok")
        elif k == "drain":
            while _pop_and_handle(a) is not None:
                pass
            outcomes.append("ok")
    queue = [_entry(e) for e in sorted(ms._queue.queue, key=lambda e: (e[0], e[1]))]
    failed = [[_cid(s), _cid(d), m.content, ty] for s, d, m, ty, _ in ms._failed]
    while _pop_and_handle(b) is not None:
        pass
    return dict(outcomes=outcomes, queue=queue, failed=failed, handled=trace[A], outbox=outbox,
                remote=trace[B], remote_failed=len(b._messaging._failed))


class _LoggedPQ(_queue.PriorityQueue):
    """PriorityQueue whose _put/_get (called with the queue's mutex held) log the operation."""

    def _init(self, maxsize):
        super()._init(maxsize)
        self.oplog = []

    def _put(self, item):
        self.oplog.append(("put", item))
        super()._put(item)

    def _get(self):
        item = super()._get()
        self.oplog.append(("get", item))
        return item


def _run_thr(case):
    from pydcop.infrastructure.computations import Message
    a, b, Rec, trace = _setup(senders=False)
    ms = a._messaging
    ms._queue = _LoggedPQ()                      # before any use of the queue
    old_switch = sys.getswitchinterval()
    sys.setswitchinterval(case["switch"])
    errors = []
    try:
        for c in (10, 11):
            comp = Rec(_name(c), A)
            comp.start()
            a.add_computation(comp, publish=False)
        late = case["late"]
        nthreads = len(case["progs"])
        barrier = threading.Barrier(nthreads + 1)

        def poster(tid, prog):
            try:
                half = len(prog) // 2
                for j, (dest, mid, ty) in enumerate(prog):
                    if j == half:
                        barrier.wait(30)           # phase 1 done (posts to [late] were deferred)
                        barrier.wait(30)           # [late] registered by the main thread
                    ms.post_msg(_name(40 + tid), _name(dest), Message("m", mid), ty)
                    if case["yields"] and mid % 3 == 0:
                        threading.Event().wait(0)
            except Exception as e:                 # noqa: BLE001
                errors.append("%s: %s" % (type(e).__name__, e))

        threads = [threading.Thread(target=poster, args=(t, p), daemon=True)
                   for t, p in enumerate(case["progs"])]
        if case["start_agent_first"]:
            a.start()
        for t in threads:
            t.start()
        barrier.wait(30)
        n_deferred = len(ms._failed)
        comp = Rec(_name(late), A)
        comp.start()       # running before it is registered: a message popped before start() would be
        #                    held and re-injected with type 19 (that is C19's subject, not C18's)
        a.add_computation(comp, publish=False)     # replays the deferred messages
        barrier.wait(30)
        for t in threads:
            t.join(30)
        if not case["start_agent_first"]:
            a.start()
        a.clean_shutdown()
        a.join()
    finally:
        sys.setswitchinterval(old_switch)
    events = []
    for kind, item in ms._queue.oplog:
        if kind == "put":
            events.append(["put"] + _entry(item))
        else:
            events.append(["get"] + _entry(item))
    return dict(events=events, handled=trace[A], deferred=n_deferred, errors=errors,
                left=ms._queue.qsize(), failed=len(ms._failed), alive=any(t.is_alive() for t in threads))


# ---- micro-step logged threads (M_MessagingMT)
class _MTLog:
    """One totally ordered log of the micro-steps; every instrumented access performs its effect
    and appends its record while holding [lock]."""

    def __init__(self):
        self.lock = threading.Lock()
        self.events = []
        self.tids = {}            # threading.get_ident() -> poster index

    def tid(self):
        return self.tids.get(threading.get_ident())


def _instrument(a, log, case, gate):
    """Wraps the shared accesses of a's Messaging / agent loop.  Returns an undo function."""
    import pydcop.infrastructure.communication as comm
    ms = a._messaging
    nreads = {}
    prng = random.Random(case.get("yseed", 0))
    yp = case.get("yield_p", 0)

    def perturb():
        # hand the interpreter to another thread right after a shared access (driver-side
        # perturbation; which thread runs next is still the scheduler's choice)
        if yp and log.tid() is not None and prng.random() < yp:
            sleep(prng.choice([0, 0, 1e-5, 1e-4]))

    class _InstrMessaging(comm.Messaging):
        @property
        def msg_queue_count(self):
            t = log.tid()
            with log.lock:
                v = self.__dict__["msg_queue_count"]
                if t is not None:
                    log.events.append(("R", t, v))
            if t is not None:
                nreads[t] = nreads.get(t, 0) + 1
                if case["force"] == "counter" and t == 0 and nreads[t] == 1:
                    gate[2].set()
                    gate[0].wait(0.3)     # between the load and the store of `+= 1`
            perturb()
            return v

        @msg_queue_count.setter
        def msg_queue_count(self, v):
            t = log.tid()
            with log.lock:
                self.__dict__["msg_queue_count"] = v
                if t is not None:
                    log.events.append(("W", t, v))
            if t == 0:
                gate[1].set()
            perturb()

        @property
        def _shutdown(self):
            t = log.tid()
            with log.lock:
                v = self.__dict__["_shutdown"]
                if t is not None:
                    log.events.append(("S", t, v))
            perturb()
            return v

        @_shutdown.setter
        def _shutdown(self, v):
            with log.lock:
                self.__dict__["_shutdown"] = v
                log.events.append(("SetShut",))

    class _Q(_queue.PriorityQueue):
        def _put(self, item):                    # called with the queue's mutex held
            with log.lock:
                super()._put(item)
                log.events.append(("put", log.tid(), item))

        def get(self, block=True, timeout=None):
            # queue.Queue.get with the Empty outcome logged under the mutex
            with self.not_empty:
                if not block:
                    if not self._qsize():
                        with log.lock:
                            log.events.append(("empty",))
                        raise _queue.Empty
                elif timeout is None:
                    while not self._qsize():
                        self.not_empty.wait()
                else:
                    endtime = _monotonic() + timeout
                    while not self._qsize():
                        remaining = endtime - _monotonic()
                        if remaining <= 0.0:
                            with log.lock:
                                log.events.append(("empty",))
                            raise _queue.Empty
                        self.not_empty.wait(remaining)
                with log.lock:
                    item = self._get()
                    log.events.append(("get", item))
                self.not_full.notify()
                return item

    class _Lock:
        def __init__(self, real):
            self.real = real

        def __enter__(self):
            self.real.acquire()
            with log.lock:
                log.events.append(("ACQ", log.tid()))
            perturb()

        def __exit__(self, *exc):
            with log.lock:
                log.events.append(("REL", log.tid()))
            self.real.release()
            perturb()

    class _Evt(threading.Event):
        def is_set(self):
            with log.lock:
                v = super().is_set()
                log.events.append(("F", v))
            return v

        def set(self):
            with log.lock:
                super().set()
                log.events.append(("SetEvt",))

    real_clock = comm.perf_counter

    def clock():
        t = log.tid()
        with log.lock:
            v = real_clock()
            if t is not None:
                log.events.append(("T", t, v))
        return v

    ms.__class__ = _InstrMessaging
    ms._queue = _Q()
    locked = hasattr(ms, "_post_lock")
    if locked:
        ms._post_lock = _Lock(ms._post_lock)
    a._shutdown = _Evt()
    comm.perf_counter = clock

    def undo():
        comm.perf_counter = real_clock
    return locked, undo


def _run_mt(case):
    from pydcop.infrastructure.computations import Message
    a, b, Rec, trace = _setup(senders=False)
    for c in (10, 11):
        comp = Rec(_name(c), 1)
        comp.start()
        a.add_computation(comp, publish=False)
    ms = a._messaging
    log = _MTLog()
    gate = (threading.Event(), threading.Event(), threading.Event())
    locked, undo = _instrument(a, log, case, gate)
    old_switch = sys.getswitchinterval()
    sys.setswitchinterval(case["switch"])
    errors = []
    progs = [list(p) for p in case["progs"]]
    try:
        nthreads = len(progs)
        half = threading.Barrier(nthreads + 1)
        go = threading.Barrier(nthreads)

        def poster(tid, prog):
            log.tids[threading.get_ident()] = tid
            try:
                if tid < nthreads:
                    go.wait(30)                    # the posters start together
                if case["force"] == "counter" and tid == 1:
                    gate[2].wait(0.3)              # thread 0 has loaded the counter
                for j, (dest, mid, ty) in enumerate(prog):
                    if case["early_shutdown"] and j == len(prog) // 2:
                        half.wait(30)
                    ms.post_msg(_name(40 + tid), _name(dest), Message("m", mid), ty)
                    if case["force"] == "counter" and tid == 1 and j == 2:
                        gate[0].set()           # thread 0 may store now ...
                        gate[1].wait(0.3)       # ... and this thread goes on after that store
            except Exception as e:                 # noqa: BLE001
                errors.append("%s: %s" % (type(e).__name__, e))

        threads = [threading.Thread(target=poster, args=(t, p), daemon=True) for t, p in enumerate(progs)]
        if case["force"] == "shutdown":
            # between an Empty result of the agent loop's get and whatever the loop does next:
            # one more thread completes a post, then clean_shutdown is called
            extra = [10, 10 ** 6, None]
            progs.append([extra])
            armed = threading.Event()
            real_next = ms.next_msg
            fired = []

            def next_msg(timeout=0):
                r = real_next(timeout)
                if r[0] is None and armed.is_set() and not fired:
                    fired.append(1)
                    t = threading.Thread(target=poster, args=(nthreads, [extra]), daemon=True)
                    t.start()
                    t.join(30)
                    t = threading.Thread(target=a.clean_shutdown, daemon=True)
                    t.start()
                    t.join(30)
                return r
            ms.next_msg = next_msg
        if case["start_agent_first"]:
            a.start()
        for t in threads:
            t.start()
        if case["early_shutdown"]:
            half.wait(30)
            a.clean_shutdown()
        for t in threads:
            t.join(30)
        if not case["start_agent_first"]:
            a.start()
        if case["force"] == "shutdown":
            armed.set()
        elif not case["early_shutdown"]:
            a.clean_shutdown()
        a.join()
    finally:
        sys.setswitchinterval(old_switch)
        undo()
    # ---- the log as JSON
    clocks = sorted({e[2] for e in log.events if e[0] == "T"})
    rank = {v: i + 1 for i, v in enumerate(clocks)}
    evs = []
    for e in log.events:
        k = e[0]
        if k == "T":
            evs.append(["T", e[1], rank[e[2]]])
        elif k in ("R", "W"):
            evs.append([k, e[1], e[2]])
        elif k == "S":
            evs.append(["S", e[1], bool(e[2])])
        elif k == "put":
            item = e[2]
            fm = item[3]
            evs.append(["put", e[1], item[0], item[1], rank.get(item[2], 0), _cid(fm.src_comp), _cid(fm.dest_comp),
                        fm.msg.content])
        elif k == "get":
            item = e[1]
            fm = item[3]
            evs.append(["get", item[0], item[1], rank.get(item[2], 0), _cid(fm.src_comp), _cid(fm.dest_comp),
                        fm.msg.content])
        elif k == "F":
            evs.append(["F", bool(e[1])])
        elif k in ("ACQ", "REL"):
            evs.append([k, e[1]])
        else:
            evs.append([k])
    return dict(events=evs, progs=progs, locked=locked, handled=trace[1], errors=errors,
                left=ms._queue.qsize(), cnt=ms.__dict__["msg_queue_count"], done=not a.is_running,
                alive=any(t.is_alive() for t in threads))



def _run_reg(case):
    """Forced interleavings of Discovery.register_computation with posts to the late destination:
    the destination registers (from another thread, to completion) while the first post_msg to it is
    between its unknown-destination test and the deferral (before / after it subscribed), or the
    sender's second post runs between the table write and the replay of its deferred first one."""
    from pydcop.infrastructure.computations import Message
    a, b, Rec, trace = _setup(senders=False)
    ms, disc = a._messaging, a.discovery
    fired = []
    n, ty, where = case["n"], case["ty"], case["where"]

    def register():
        comp = Rec(_name(10), A)
        comp.start()
        a.add_computation(comp, publish=False)

    def once_in_other_thread(f):
        if not fired:
            fired.append(1)
            t = threading.Thread(target=f, daemon=True)
            t.start()
            t.join(30)

    def post(k):
        ms.post_msg(_name(41), _name(10), Message("m", k), ty)

    if where == "direct_before_replay":
        real_cb = ms._on_computation_registration

        def cb(evt, comp, agent):
            once_in_other_thread(lambda: post(2))
            return real_cb(evt, comp, agent)
        ms._on_computation_registration = cb          # post_msg subscribes this attribute
        post(1)
        register()
        rest = range(3, n + 1)
    else:
        real_sub = disc.subscribe_computation

        def sub(comp, cb=None, one_shot=False):
            if where == "before_subscribe":
                once_in_other_thread(register)
                return real_sub(comp, cb, one_shot)
            r = real_sub(comp, cb, one_shot)
            once_in_other_thread(register)
            return r
        disc.subscribe_computation = sub
        post(1)
        rest = range(2, n + 1)
    for k in rest:
        post(k)
    try:
        registered = disc.computation_agent(_name(10))
    except Exception:                              # noqa: BLE001
        registered = None
    a.start()
    a.clean_shutdown()
    a.join()
    return dict(handled=trace[A], deferred=[m.content for _, _, m, _, _ in ms._failed], registered=registered,
                left=ms._queue.qsize())


def _run_addrun(case):
    """Kept messages and Agent.add_computation from another thread on a RUNNING agent: a second,
    application-level discovery listener of the same computation (subscribed after the posts, so it
    is called after Messaging's callbacks re-queued the kept messages) returns only when the agent
    thread has dispatched them or has died -- add_computation is still inside register_computation
    meanwhile."""
    from pydcop.infrastructure.computations import Message
    from time import monotonic, sleep as _sleep
    a, b, Rec, trace = _setup(senders=False)
    ms = a._messaging
    n, ty = case["n"], case["ty"]
    a.start()
    end = monotonic() + 10
    while not a.is_running and monotonic() < end:
        _sleep(0.005)
    for k in range(1, n + 1):
        ms.post_msg(_name(41), _name(10), Message("m", k), ty)
    kept = len(ms._failed)

    def listener(evt, computation, agent):
        stop = monotonic() + 10
        while len(trace[A]) < n and a.is_running and monotonic() < stop:
            _sleep(0.005)
    a.discovery.subscribe_computation(_name(10), listener)
    comp = Rec(_name(10), A)
    comp.start()
    a.add_computation(comp, publish=False)          # main thread, agent thread running
    alive = a.is_running
    ms.post_msg(_name(41), _name(10), Message("m", n + 1), ty)
    a.clean_shutdown()
    a.join()
    return dict(handled=trace[A], kept=kept, alive=alive, deferred=[m.content for _, _, m, _, _ in ms._failed],
                left=ms._queue.qsize())


def _oracle_addrun(case, o):
    n = case["n"]
    want = [[41, 10, k] for k in range(1, n + 2)]
    if o["kept"] != n:
        return "late registration: %d of %d posts to the unregistered c10 were kept" % (o["kept"], n)
    if not o["alive"]:
        return ("late registration: the agent thread died while c10 was added from another thread "
                "(handled %r of the %d kept messages)" % (o["handled"], n))
    if o["handled"] != want or o["deferred"] or o["left"]:
        return "late registration: handled %r, posted %r (deferred %r, %d left queued)" % (
            o["handled"], want, o["deferred"], o["left"])
    return None


def _oracle_reg(case, o):
    want = [[41, 10, k + 1] for k in range(case["n"])]
    if o["registered"] == "a1" and o["deferred"]:
        return ("late registration race: messages %r for c10 still deferred although c10 is registered on a1 "
                "(it registered %s of the first post)" % (o["deferred"], case["where"].replace("_", " ")))
    if o["handled"] != want and sorted(o["handled"]) == want and not o["left"]:
        return ("late registration race: sender c41's posts were handled in the order %r (a direct post "
                "overtook the deferred one that the registering thread was about to replay)"
                % [m for _, _, m in o["handled"]])
    if o["handled"] != want or o["left"]:
        return "late registration: handled %r, posted %r" % (o["handled"], want)
    return None


def run_impl(case):
    if case["kind"] == "addrun":
        return _run_addrun(case)
    if case["kind"] == "reg":
        return _run_reg(case)
    if case["kind"] == "mt":
        return _run_mt(case)
    return _run_seq(case) if case["kind"] == "seq" else _run_thr(case)


# ------------------------------------------------------------------ oracle (independent of the model)
def _ty(t):
    return 20 if t is None else t


def _oracle_seq(case, o):
    ops, outs = case["ops"], o["outcomes"]
    if len(outs) != len(ops):
        return "driver: %d outcomes for %d ops" % (len(outs), len(ops))
    for x in outs:
        if isinstance(x, str) and x.startswith("other"):
            return "post_msg changed more than one container: %s" % x
    accepted, queued_msgs, shut, raised = [], [], False, False
    seq_no = {}          # message -> posting indices
    for i, (op, out) in enumerate(zip(ops, outs)):
        if op[0] == "post":
            m = (op[1], op[2], op[3], _ty(op[4]))
            if shut and out != "dropped":
                return "a message posted after shutdown was not dropped: %r -> %s" % (op, out)
            if out in ("queued", "deferred", "sent"):
                accepted.append(m)
                seq_no.setdefault(m, []).append(i)
            if out == "queued":
                queued_msgs.append(m)
            if out == "raised":
                raised = True
        elif op[0] == "shutdown":
            shut = True
        elif out == "raised":
            raised = True
    handled = [(s, d, i, None) for s, d, i in o["handled"]]
    # exactly once
    h_from_next = [tuple(x) for x in outs if isinstance(x, list)]
    placed = h_from_next + [tuple(e[2:6]) for e in o["queue"]] + [tuple(f) for f in o["failed"]] + \
        [tuple(x[1:5]) for x in o["outbox"]]
    drained = len(o["handled"]) - len(h_from_next)
    acc = sorted(accepted)
    if drained == 0:
        pl = sorted(placed)
        if not shut and pl != acc:
            return "once: accepted posts %r are not exactly queue+deferred+sent+handled %r" % (acc, pl)
        for m in set(pl):
            if pl.count(m) > acc.count(m):
                return "once: message %r appears %d times, posted %d times" % (m, pl.count(m), acc.count(m))
    hs = sorted((s, d, i) for s, d, i in o["handled"])
    for m in set(hs):
        if hs.count(m) > sum(1 for x in acc if x[:3] == m):
            return "once: message %r handled %d times" % (m, hs.count(m))
    # the handler got what next_msg returned, in that order
    hn = [list(x[:3]) for x in h_from_next]
    if drained == 0 and o["handled"] != hn:
        return "handled trace %r differs from the popped sequence %r" % (o["handled"], hn)
    # priority inside a run of pops (nothing is posted in between)
    type_of = {}
    for m in accepted:
        type_of.setdefault(m[:3], []).append(m[3])
    run, runs = [], []
    for op, out in zip(ops, outs):
        if op[0] == "next":
            if isinstance(out, list):
                run.append(out[3])
        elif op[0] != "drain":
            runs.append(run)
            run = []
    runs.append(run)
    for r in runs:
        if r != sorted(r):
            return "priority: consecutive pops returned types %r" % r
    # FIFO per destination and type (posting order), when nothing raised and messages are distinct
    if not raised and len(set(accepted)) == len(accepted):
        first = {m: v[0] for m, v in seq_no.items()}
        seen = {}
        types = {m[:3]: m[3] for m in accepted}
        for s, d, i in o["handled"]:
            t = types.get((s, d, i))
            key = (d, t)
            idx = first.get((s, d, i, t), -1)
            if key in seen and seen[key] > idx:
                return "fifo: destination %r type %r: message %r handled after a later-posted one" % (d, t, (s, d, i))
            seen[key] = idx
        # a deferred message is not left behind once its destination is known again
        known = {}
        for op, out in zip(ops, outs):
            if op[0] == "reg":
                known[op[1]] = op[2]
            elif op[0] == "unreg":
                known.pop(op[1], None)
        for f in o["failed"]:
            if f[1] in known and not shut:
                return "late registration: %r still deferred although %r is registered" % (f, f[1])
    # clean shutdown / final drain handles everything that was queued
    if ops and ops[-1][0] == "drain":
        if o["queue"]:
            return "drain: %d messages left in the queue" % len(o["queue"])
        hset = sorted((s, d, i) for s, d, i in o["handled"])
        for m in queued_msgs:
            if m[:3] not in hset:
                return "shutdown/drain: queued message %r was never handled" % (m,)
    # remote side: each sent message handled once by the remote agent, by type then send order
    sent = [tuple(x[1:5]) for x in o["outbox"]]
    exp = [list(m[:3]) for m in sorted(sent, key=lambda m: m[3])]     # sorted() is stable
    if o["remote"] != exp or o["remote_failed"]:
        return "remote: agent a2 handled %r, sent (by type, then order) %r" % (o["remote"], exp)
    return None


def _oracle_thr(case, o):
    if o["errors"] or o["alive"]:
        return "threads: %r alive=%r" % (o["errors"], o["alive"])
    posted = {}
    for tid, prog in enumerate(case["progs"]):
        for dest, mid, ty in prog:
            posted[mid] = (40 + tid, dest, _ty(ty))
    hs = [m for _, _, m in o["handled"]]
    if sorted(hs) != sorted(posted):
        return "once: handled ids %r, posted ids %r (clean shutdown must drain)" % (sorted(hs), sorted(posted))
    if o["left"] or o["failed"]:
        return "shutdown: %d queued / %d deferred messages left" % (o["left"], o["failed"])
    for s, d, m in o["handled"]:
        if (s, d) != posted[m][:2]:
            return "message %d handed to %r from %r" % (m, d, s)
    # FIFO per sender thread, destination and type
    last = {}
    order = {mid: j for prog in case["progs"] for j, (_, mid, _) in enumerate(prog)}
    for s, d, m in o["handled"]:
        key = (s, d, posted[m][2])
        if key in last and order[last[key]] > order[m]:
            return "fifo: sender %r dest %r type %r: %d handled after %d" % (s, d, posted[m][2], m, last[key])
        last[key] = m
    # counters: distinct, increasing along each sender's program
    puts = [e for e in o["events"] if e[0] == "put"]
    cnts = [e[2] for e in puts]
    if len(set(cnts)) != len(cnts):
        return "race: two queue entries drew the same counter"
    # priority: every get returns the least (type, counter) present at that moment
    present = []
    for e in o["events"]:
        if e[0] == "put":
            present.append((e[1], e[2], e[5]))
        else:
            k = (e[1], e[2], e[5])
            if k != min(present):
                return "priority: get returned %r while %r was queued" % (k, min(present))
            present.remove(k)
    return None


# ---- oracle: the property on the log, without the model
def _oracle_mt(case, o):
    if o["errors"] or o["alive"]:
        return "threads: %r alive=%r" % (o["errors"], o["alive"])
    progs = o["progs"]
    seq = [0] * len(progs)
    put_of, dropped, order = {}, set(), []
    present, handled_keys = [], []
    shutdown_at = None
    puts_before_shutdown = set()
    last_cnt = None
    for n, e in enumerate(o["events"]):
        k = e[0]
        if k == "S" and e[2]:
            dropped.add((e[1], seq[e[1]]))
            seq[e[1]] += 1
        elif k == "put":
            tid = e[1]
            if tid is None or seq[tid] >= len(progs[tid]):
                return "once: a put that is no post of the programs: %r" % (e,)
            dest, mid, ty = progs[tid][seq[tid]]
            if (e[2], e[5], e[6], e[7]) != (_ty(ty), 40 + tid, dest, mid):
                return "put %r is not post %d of thread %d %r" % (e, seq[tid], tid, progs[tid][seq[tid]])
            put_of[(tid, seq[tid])] = (e[2], e[3], e[4])
            if shutdown_at is None:
                puts_before_shutdown.add(mid)
            if o["locked"] and last_cnt is not None and e[3] <= last_cnt:
                return "counter: put drew %d after %d" % (e[3], last_cnt)
            last_cnt = e[3]
            seq[tid] += 1
            present.append((e[2], e[3], e[4], mid))
        elif k == "get":
            key = (e[1], e[2], e[3], e[6])
            if key not in present:
                return "once: get returned %r which is not queued" % (key,)
            if key[:3] != min(present)[:3]:
                return "priority: get returned %r while %r was queued" % (key, min(present))
            present.remove(key)
            handled_keys.append(e[6])
        elif k == "SetEvt" and shutdown_at is None:
            shutdown_at = n
    for tid, prog in enumerate(progs):
        for j in range(len(prog)):
            if ((tid, j) in put_of) == ((tid, j) in dropped):
                return "once: post %d of thread %d was put %s and dropped %s" % (
                    j, tid, (tid, j) in put_of, (tid, j) in dropped)
    if dropped and shutdown_at is None:
        return "posts dropped without a shutdown"
    hs = [m for _, _, m in o["handled"]]
    if hs != handled_keys:
        return "handlers saw %r, the loop got %r" % (hs, handled_keys)
    if len(set(hs)) != len(hs):
        return "once: a message was handled twice: %r" % hs
    ident = {prog[j][1]: (tid, j, prog[j][0], _ty(prog[j][2])) for tid, prog in enumerate(progs) for j in range(len(prog))}
    for s, d, m in o["handled"]:
        if (s, d) != (40 + ident[m][0], ident[m][2]):
            return "message %d handed to %r from %r" % (m, d, s)
    last = {}
    for m in hs:
        tid, j, _, ty = ident[m]
        if (tid, ty) in last and last[(tid, ty)] > j:
            return "fifo: sender %d type %d: its post %d handled after its post %d" % (tid, ty, j, last[(tid, ty)])
        last[(tid, ty)] = j
    if not o["done"]:
        return "shutdown: the agent thread did not stop"
    missing = sorted(puts_before_shutdown - set(hs))
    if missing:
        return "shutdown: messages %r queued before clean_shutdown were never handled" % missing
    if not dropped and not case["early_shutdown"] and (o["left"] or len(hs) != sum(len(p) for p in progs)):
        return "shutdown: %d handled of %d, %d left" % (len(hs), sum(len(p) for p in progs), o["left"])
    return None



def oracle(case, o):
    if case["kind"] == "addrun":
        return _oracle_addrun(case, o)
    if case["kind"] == "reg":
        return _oracle_reg(case, o)
    if case["kind"] == "mt":
        return _oracle_mt(case, o)
    return _oracle_seq(case, o) if case["kind"] == "seq" else _oracle_thr(case, o)


def classify(case, o, msg):
    if case.get("kind") == "reg" and isinstance(msg, str) and msg.startswith("late registration race:"):
        return "C18-registration-races-with-deferring-post"
    return None


# ------------------------------------------------------------------ Gallina
def _msg(s, d, i, t):
    return "(mkMsg %s %s %s %s)" % (q.z(s), q.z(d), q.z(i), q.z(t))


def _qent(e):
    return "(mkQ %s %s %s)" % (q.z(e[0]), q.z(e[1]), _msg(e[2], e[3], e[4], e[5]))


def _op(op):
    k = op[0]
    if k == "post":
        return "Post %s %s %s %s" % (q.z(op[1]), q.z(op[2]), q.z(op[3]), q.opt(op[4], q.z))
    if k == "reg":
        return "Register %s %s" % (q.z(op[1]), q.z(op[2]))
    if k == "unreg":
        return "Unregister %s %s" % (q.z(op[1]), q.b(op[2]))
    return {"next": "Next", "shutdown": "Shutdown", "drain": "Drain"}[k]


_OUT = {"dropped": "ODropped", "deferred": "ODeferred", "queued": "OQueued", "sent": "OSent",
        "raised": "ORaised", "ok": "OOk"}


def coq_case(case, o):
    if case["kind"] == "addrun":
        # sequential in the registration model: n complete deferrals, the whole registration, one direct post
        n = case["n"]
        sched = ["RCPost 0%nat"] * (3 * n) + ["RCReg"] * (4 * n + 10) + ["RCPost 0%nat"] * 2
        return "CReg (mkRC %s %s %s %s)" % (q.lst([q.zlist(range(1, n + 2))]), q.lst(sched), q.zlist(o["deferred"]),
                                            q.zlist([m for _, _, m in o["handled"]]))
    if case["kind"] == "reg":
        return _coq_reg(case, o)
    if case["kind"] == "mt":
        return _coq_mt(case, o)
    return "COld (%s)" % _coq_old(case, o)


def _coq_old(case, o):
    if case["kind"] == "thr":
        evs = q.lst(["QPut %s" % _qent(e[1:]) if e[0] == "put" else "QGet" for e in o["events"]])
        handled = q.lst(["(%s, %s, %s)" % (q.z(s), q.z(d), q.z(m)) for s, d, m in o["handled"]])
        return "CThr (mkThr %s %s)" % (evs, handled)
    outs = []
    for x in o["outcomes"]:
        if x is None:
            outs.append("ONone")
        elif isinstance(x, list):
            outs.append("OHandled %s" % _msg(*x))
        else:
            outs.append(_OUT[x])       # KeyError on an 'other' outcome: not expressible
    zzz = lambda l: q.lst(["(%s, %s, %s)" % (q.z(x), q.z(y), q.z(w)) for x, y, w in l])
    btable = q.lst([q.pair(q.z(c), q.z(B)) for c in sorted(set(COMPS + [12]))])
    return "CSeq (mkSeq %s [(31, 1); (32, 1)] %s %s %s %s %s %s %s)" % (
        q.z(A), q.lst([_op(x) for x in case["ops"]]), q.lst(outs),
        q.lst([_qent(e) for e in o["queue"]]),
        q.lst([_msg(*f) for f in o["failed"]]),
        zzz(o["handled"]),
        q.lst([q.pair(q.z(x[0]), _msg(*x[1:5])) for x in o["outbox"]]),
        q.lst([q.pair(q.z(B), q.pair(btable, zzz(o["remote"])))]))


# ---- Gallina
def _coq_mt(case, o):
    progs = o["progs"]
    sched = []
    clock = 0
    nctl = 0
    for e in o["events"]:
        k = e[0]
        if k == "T":
            while clock < e[2]:
                sched.append("CTick")
                clock += 1
            sched.append("CPost %s" % q.nat(e[1]))
        elif k in ("S", "R", "W", "ACQ", "REL", "put"):
            if e[1] is None:
                return None
            sched.append("CPost %s" % q.nat(e[1]))
        elif k in ("F", "get", "empty"):
            sched.append("CAgent")
        elif k in ("SetEvt", "SetShut"):
            sched.append("CCtl")
            nctl += 1
    ctl = []
    for e in o["events"]:
        if e[0] in ("SetEvt", "SetShut"):
            ctl.append(e[0])
    seq = [0] * len(progs)
    puts, dropped = [], []
    for e in o["events"]:
        if e[0] == "S" and e[2]:
            dropped.append(q.pair(q.nat(e[1]), q.nat(seq[e[1]])))
            seq[e[1]] += 1
        elif e[0] == "put":
            tid = e[1]
            puts.append("(mkE %s %s %s %s %s %s %s)" % (q.z(e[2]), q.z(e[3]), q.z(e[4]), q.nat(tid),
                                                       q.nat(seq[tid]), q.z(e[6]), q.z(e[7])))
            seq[tid] += 1
    handled = q.lst(["(%s, %s, %s)" % (q.nat(s - 40), q.z(d), q.z(m)) for s, d, m in o["handled"]])
    gprogs = q.lst([q.lst(["(mkPost %s %s %s)" % (q.z(d), q.z(_ty(ty)), q.z(m)) for d, m, ty in p]) for p in progs])
    return "CMT (mkMT (mkCfg true true) %s %s %s %s %s %s %s %s %s)" % (
        gprogs, q.lst(ctl), q.lst(sched), q.lst(puts), handled, q.lst(dropped), q.z(o["cnt"]),
        q.nat(o["left"]), q.b(o["done"]))


def _coq_reg(case, o):
    """The forced interleaving is known by construction: the schedule of the registration model."""
    n, where = case["n"], case["where"]
    P, R = "RCPost 0%nat", "RCReg"
    if where == "before_subscribe":
        sched = [P] + [R] * 3 + [P, P] + [P, P] * (n - 1)
    elif where == "after_subscribe":
        sched = [P, P] + [R] * 5 + [P] + [P, P] * (n - 1)
    else:
        sched = [P] * 3 + [R] + [P, P] + [R] * 6 + [P, P] * (n - 2)
    return "CReg (mkRC %s %s %s %s)" % (q.lst([q.zlist(range(1, n + 1))]), q.lst(sched), q.zlist(o["deferred"]),
                                        q.zlist([m for _, _, m in o["handled"]]))


def nontrivial(case, o):
    if case["kind"] == "addrun":
        return True
    if case["kind"] == "reg":
        return True
    if case["kind"] == "mt":
        return len(o.get("handled", [])) >= 3 and len(o.get("events", [])) >= 30
    if case["kind"] == "thr":
        return len(o.get("handled", [])) >= 3
    return len(o.get("handled", [])) >= 3 or ("deferred" in o.get("outcomes", []) and len(o.get("handled", [])) >= 1)


def histogram(cases, obs):
    h = {"seq": 0, "thr": 0, "deferred": 0, "replayed_local": 0, "sent_remote": 0, "raised": 0,
         "shutdown": 0, "dropped": 0, "handled>=5": 0, "thr_gets_interleaved": 0,
         "reg": 0, "addrun": 0, "mt": 0, "mt_forced_counter": 0, "mt_forced_shutdown": 0, "mt_early_shutdown": 0, "mt_posts_dropped": 0,
         "mt_left_in_queue": 0, "mt_switch_inside_post": 0, "mt_lock_contended": 0}
    for c, o in zip(cases, obs):
        if not isinstance(o, dict) or "__driver_error__" in o:
            continue
        h[c["kind"]] += 1
        if c["kind"] in ("reg", "addrun"):
            continue
        if c["kind"] == "mt":
            h["mt_forced_counter"] += c["force"] == "counter"
            h["mt_forced_shutdown"] += c["force"] == "shutdown"
            h["mt_early_shutdown"] += bool(c["early_shutdown"])
            h["mt_posts_dropped"] += any(e[0] == "S" and e[2] for e in o["events"])
            h["mt_left_in_queue"] += o["left"] > 0
            inside, switched, contended, holder = set(), False, False, None
            for e in o["events"]:
                if e[0] in ("S", "T", "ACQ", "R", "W", "put", "REL"):
                    if inside - {e[1]}:
                        switched = True
                    if e[0] == "S" and not e[2]:
                        inside.add(e[1])
                    if e[0] == "T" and holder is not None and holder != e[1]:
                        contended = True
                    if e[0] == "ACQ":
                        holder = e[1]
                    if e[0] == "REL":
                        holder = None
                        inside.discard(e[1])
                    if e[0] == "put" and not o["locked"]:
                        inside.discard(e[1])
            h["mt_switch_inside_post"] += switched
            h["mt_lock_contended"] += contended
            continue
        if c["kind"] == "thr":
            kinds = [e[0] for e in o["events"]]
            first_get = kinds.index("get") if "get" in kinds else len(kinds)
            if "put" in kinds[first_get:]:
                h["thr_gets_interleaved"] += 1
            continue
        outs = o["outcomes"]
        h["deferred"] += "deferred" in outs
        h["sent_remote"] += "sent" in outs
        h["raised"] += "raised" in outs
        h["dropped"] += "dropped" in outs
        h["shutdown"] += any(op[0] == "shutdown" for op in c["ops"])
        h["handled>=5"] += len(o["handled"]) >= 5
        deferred_ids = {op[3] for op, x in zip(c["ops"], outs) if x == "deferred"}
        h["replayed_local"] += any(i in deferred_ids for _, _, i in o["handled"])
    return h


def shrink_candidates(case):
    if case["kind"] == "addrun":
        if case["n"] > 1:
            yield dict(case, n=case["n"] - 1)
    elif case["kind"] == "reg":
        if case["n"] > 1:
            yield dict(case, n=case["n"] - 1)
    elif case["kind"] == "seq":
        ops = case["ops"]
        for i in range(len(ops)):
            yield dict(kind="seq", ops=ops[:i] + ops[i + 1:])
    else:
        minlen = 4 if case.get("force") == "counter" else 1 if case["kind"] == "mt" else 2
        for t in range(len(case["progs"])):
            if case.get("force") == "counter" and t == 0:
                continue
            if len(case["progs"][t]) > minlen:
                p = [list(x) for x in case["progs"]]
                p[t] = p[t][:-1]
                d = dict(case)
                d["progs"] = p
                yield d
