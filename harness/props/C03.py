"""C03 -- MGM and MGM2 never worsen the global cost between cycles."""
from harness import coqio as q
from harness.pydrv import localsearch_drv as L

ID = "C03"
COQ_REQUIRE = ["Net", "M_Mgm", "M_Mgm2"]
COQ_CASE_TYPE = "lcase"
COQ_CHECK = "lcheck"
COQ_PREAMBLE = ("Inductive lcase := CMgm (c : M_Mgm.case) (r : M_Mgm.rcase) | CMgm2 (c : M_Mgm2.case2).\n"
                "Definition lcheck (c : lcase) : bool := match c with CMgm x r => M_Mgm.check_case x && "
                "M_Mgm.rcheck_case r | CMgm2 x => M_Mgm2.check_case2 x end.")
OBLIGATIONS = ['mgm_movers_independent_partial', 'mgm_round_monotone_partial', 'mgm_rounds_monotone_partial']
N_QUICK, N_THOROUGH = 300, 4000
PARALLEL = 8
SHARD = 40
RULE = ""
MODELLED = ""
META = dict(level_text="", level_note="", technique="", design_ref="DESIGN.md §5 C03")
ALGOS = ["mgm", "mgm2"]


def gen(rng, n, tier):
    return L.gen_cycle_cases(rng, n, ALGOS)


def run_impl(c):
    return L.run_case(c)


def oracle(c, o):
    for e in o["events"]:
        if e[0] == "raise":
            return "handler of v%02d raised %s: %s" % (e[1], e[2], e[3])
    m = L.check_monotone(c, o)
    if m is None:
        return None
    if m["kind"] == "worse":
        return "%s %s: global cost goes from %d to %d in cycle %d (movers %s)" % (
            c["algo"], c["mode"], m["before"], m["after"], m["cycle"], m["movers"])
    return "%s: constraint-sharing variables %s both change value in cycle %d" % (c["algo"], m["pair"], m["cycle"])


def coq_case(c, o):
    if c["algo"] == "mgm":
        return "CMgm (%s) (%s)" % (L.coq_mgm_case(c, o), L.coq_mgm_rcase(c, o))
    if c["algo"] == "mgm2":
        return "CMgm2 (%s)" % L.coq_mgm2_case(c, o)
    return None


def nontrivial(c, o):
    bs = L.boundaries(c, o)
    return any(bs[i] != bs[i + 1] for i in range(len(bs) - 1))


def histogram(cases, obs):
    return L.cycle_histogram(cases, obs)


def classify(c, o, msg):
    """C03-mgm2-coordinated-gain: mgm2, the cost got worse in a cycle in which a variable changed its
    value as the committed member of a coordinated move (value_selection with _committed and _partner set)"""
    if c["algo"] != "mgm2" or "global cost goes from" not in msg:
        return None
    m = L.check_monotone(c, o)
    if m and m["kind"] == "worse":
        coordinated = {e[1] for e in o["events"] if e[0] == "val" and len(e) > 5 and e[4] == m["cycle"]}
        if any(x in coordinated for x in m["movers"]):
            return "C03-mgm2-coordinated-gain"
    return None
