"""C03 -- MGM and MGM2 never worsen the global cost between cycles."""
from harness import coqio as q
from harness.pydrv import localsearch_drv as L

ID = "C03"
COQ_REQUIRE = ["Net", "M_Mgm", "M_Mgm2"]
COQ_CASE_TYPE = "lcase"
COQ_CHECK = "lcheck"
COQ_PREAMBLE = ("Inductive lcase := CMgm (c : M_Mgm.case) (r : M_Mgm.rcase) | CMgm2 (c : M_Mgm2.case2).\n"
                "Definition lcheck (c : lcase) : bool := match c with CMgm x r => M_Mgm.check_case x && "
                "M_Mgm.rcheck_case r | CMgm2 x => M_Mgm2.check_case2 x end.")
OBLIGATIONS = ['mgm_movers_independent_partial', 'mgm_round_monotone_partial', 'mgm_rounds_monotone_partial', 'mgm2_monotone_refuted',
               'mgm_refines_rounds', 'mgm_async_monotone', 'mgm_async_movers_independent']
N_QUICK, N_THOROUGH = 300, 6000
PARALLEL = 8
SHARD = 40
RULE = ("random DCOPs of 1-6 variables (domains of 1-3 integer values), binary/ternary/unary constraints, duplicate "
        "scopes, isolated variables, own-cost variables in 0/30/60% of the variables, min/max, stop_cycle 2-7, mgm "
        "or mgm2 (threshold 0-1, three favor modes); real computations under seeded FIFO schedules from 6 policies, "
        "85% run to quiescence; all algorithm randomness replaced by a logged oracle. The oracle recomputes the "
        "global cost / the per-variable best responses at every cycle boundary of the real run. ~12% of the "
        "cases form an ORACLE-ONLY stream (mgm, not modelled in Coq): decimal / non-dyadic float costs (k/10, k/3, "
        "k/7, own costs 0.1/0.2, near-ties at rounding distance); there the oracle sums the exact rational values "
        "of the floats (no tolerance on sums) and demands: no two constraint-sharing variables move together "
        "(exactly), cost not worse / no unilateral improvement by more than 1e-9 * scale (the implementation's own "
        "float summation can differ from the exact gain by rounding). "
        "non-trivial = a cycle that moves (C03) / an idle cycle (C04); distinct = distinct case JSON")
MODELLED = ("handler models of mgm.py / mgm2.py compared on full event traces, final states and channels; for MGM "
            "in addition the round-level function mgm_next (about which the theorems are) is iterated from the "
            "observed initial assignment with the observed draws and compared with the assignment at every cycle "
            "boundary of the asynchronous run. Theorems: round-level (all inputs) AND, since the deepening "
            "(P_Mgm3*.v), the refinement of the asynchronous handlers to mgm_next under every schedule "
            "(mgm_refines_rounds) hence mgm_async_monotone / mgm_async_movers_independent about real executions at "
            "cycle boundaries; MGM2: refutation witnesses only")
META = dict(
    level_text=("Partial proof (Coq). Proved for every DCOP (n-ary constraints, variables' own costs), min and max, all draws: one complete MGM cycle as a function on assignments never worsens the global cost (constraints + own costs) and no two constraint-sharing variables both move; lifted to any number of cycles. ALSO proved (deepening, P_Mgm3*.v): the asynchronous handler model computes exactly this cycle function at every cycle boundary under EVERY schedule of starts and FIFO deliveries (mgm_refines_rounds: a computation with cycle counter c holds the value of the synchronous reference run after c-1 rounds), hence between any reachable configuration where all computations have completed j cycles and any where they have completed j+1 the global cost does not get worse and no two constraint-sharing variables both changed (mgm_async_monotone, mgm_async_movers_independent) - the full MGM statement. The refinement is additionally checked on every run (round-level model replayed against the cycle-boundary assignments of real asynchronous executions, plus the full-trace correspondence of the handler model). MGM2: the handler model is tied to the code by the same full-trace correspondence; the property is refuted for coordinated moves (theorem mgm2_monotone_refuted, known finding C03-mgm2-coordinated-gain), no MGM2 monotonicity theorem."),
    level_note=("Trusted: Coq kernel/vm_compute, M_Mgm.v / M_Mgm2.v + Net.v as renderings of the Python code, the "
                "thread-free netdriver, integer costs inside int32."),
    technique="Coq proof over an executable round-level model + round-level and full-trace correspondence",
    design_ref="DESIGN.md §5 C03",
)
ALGOS = ["mgm", "mgm2"]


def gen(rng, n, tier):
    return L.gen_cycle_cases(rng, n, ALGOS)


def run_impl(c):
    return L.run_case(c)


def oracle(c, o):
    for e in o["events"]:
        if e[0] == "raise":
            return "handler of v%02d raised %s: %s" % (e[1], e[2], e[3])
    m = L.check_monotone(c, o)
    if m is None:
        return None
    if m["kind"] == "worse":
        return "%s %s: global cost goes from %s to %s in cycle %d (movers %s)" % (
            c["algo"], c["mode"], m["before"], m["after"], m["cycle"], m["movers"])
    return "%s: constraint-sharing variables %s both change value in cycle %d" % (c["algo"], m["pair"], m["cycle"])


def coq_case(c, o):
    if c.get("float"):
        return None          # oracle-only stream (non-integer costs): not modelled
    if c["algo"] == "mgm":
        return "CMgm (%s) (%s)" % (L.coq_mgm_case(c, o), L.coq_mgm_rcase(c, o))
    if c["algo"] == "mgm2":
        return "CMgm2 (%s)" % L.coq_mgm2_case(c, o)
    return None


def nontrivial(c, o):
    bs = L.boundaries(c, o)
    return any(bs[i] != bs[i + 1] for i in range(len(bs) - 1))


def histogram(cases, obs):
    return L.cycle_histogram(cases, obs)


def classify(c, o, msg):
    """C03-mgm2-coordinated-gain: mgm2, the cost got worse in a cycle in which a variable changed its
    value as the committed member of a coordinated move (value_selection with _committed and _partner set)"""
    if c["algo"] != "mgm2" or "global cost goes from" not in msg:
        return None
    m = L.check_monotone(c, o)
    if m and m["kind"] == "worse":
        coordinated = {e[1] for e in o["events"] if e[0] == "val" and len(e) > 5 and e[4] == m["cycle"]}
        if any(x in coordinated for x in m["movers"]):
            return "C03-mgm2-coordinated-gain"
    return None
