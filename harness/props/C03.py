"""C03 -- MGM and MGM2 never worsen the global cost between cycles."""
from harness import coqio as q
from harness.pydrv import localsearch_drv as L

ID = "C03"
COQ_REQUIRE = ["Net", "M_Mgm", "M_Mgm2", "M_Mgm2r"]
COQ_CASE_TYPE = "lcase"
COQ_CHECK = "lcheck"
COQ_PREAMBLE = ("Inductive lcase := CMgm (c : M_Mgm.case) (r : M_Mgm.rcase) "
                "| CMgm2 (c : M_Mgm2.case2) (r : M_Mgm2r.r2case).\n"
                "Definition lcheck (c : lcase) : bool := match c with CMgm x r => M_Mgm.check_case x && "
                "M_Mgm.rcheck_case r | CMgm2 x r => M_Mgm2.check_case2 x && M_Mgm2r.r2check_case r end.")
OBLIGATIONS = ['mgm_movers_independent_partial', 'mgm_round_monotone_partial', 'mgm_rounds_monotone_partial', 'mgm2_monotone_refuted',
               'mgm_refines_rounds', 'mgm_async_monotone', 'mgm_async_movers_independent',
               'mgm2_unilateral_monotone_partial', 'mgm2_unilateral_movers_independent_partial',
               'mgm2_coordinated_gain_error', 'mgm2_coordinated_worsening_bound', 'mgm2_pair_state_partial',
               'mgm2_pair_move_cost_partial',
               'mgm2_refines_rounds', 'mgm2_payload_invariant', 'mgm2_messages_refine',
               'mgm2_async_unilateral_monotone', 'mgm2_async_unilateral_movers', 'mgm2_async_pair_move_cost',
               'mgm2_async_movers']
N_QUICK, N_THOROUGH = 300, 6000
PARALLEL = 8
SHARD = 40
RULE = ("random DCOPs of 1-6 variables (domains of 1-3 integer values), binary/ternary/unary constraints, duplicate "
        "scopes, isolated variables, own-cost variables in 0/30/60% of the variables, min/max, stop_cycle 2-7, mgm "
        "(break_mode lexic or, 40%, random: identical on the code as it is, whose test compares with the module) "
        "or mgm2 (threshold 0-1, three favor modes); real computations under seeded FIFO schedules from 6 policies, "
        "85% run to quiescence; all algorithm randomness replaced by a logged oracle. The oracle recomputes the "
        "global cost / the per-variable best responses at every cycle boundary of the real run. ~18% of the "
        "cases form an ORACLE-ONLY stream (mgm, not modelled in Coq): decimal / non-dyadic float costs (k/10, k/3, "
        "k/7, own costs 0.1/0.2, near-ties at rounding distance); there the oracle sums the exact rational values "
        "of the floats (no tolerance on sums) and demands: no two constraint-sharing variables move together "
        "(exactly), cost not worse / no unilateral improvement by more than 1e-9 * scale (the implementation's own "
        "float summation can differ from the exact gain by rounding); half of these instances have one "
        "unsatisfiable hard constraint (all entries +inf / -inf: gains inf - inf = nan). 15% of all cases run a "
        "startlate schedule with pause(True)/pause(False) of running computations (a stutter of the model: "
        "Pause/Resume and deliveries to a paused computation are not model actions; everybody is resumed before "
        "the observation); 12% use the names v0, v00, v000.. (every name a substring of the later ones, same "
        "lexical order); 30% of the cost dicts do not cover the whole domain (missing value = cost 0); a handler "
        "call that uses more than 20 s of CPU is reported as a raising handler (HandlerTimeout). "
        "non-trivial = a cycle that moves (C03) / an idle cycle (C04); distinct = distinct case JSON")
MODELLED = ("handler models of mgm.py / mgm2.py compared on full event traces, final states and channels; for MGM "
            "in addition the round-level function mgm_next (about which the theorems are) is iterated from the "
            "observed initial assignment with the observed draws and compared with the assignment at every cycle "
            "boundary of the asynchronous run. Theorems: round-level (all inputs) AND, since the deepening "
            "(P_Mgm3*.v), the refinement of the asynchronous handlers to mgm_next under every schedule "
            "(mgm_refines_rounds) hence mgm_async_monotone / mgm_async_movers_independent about real executions at "
            "cycle boundaries; MGM2: refutation witness of the unguarded statement, plus (deepening 2, M_Mgm2r.v / "
            "P_Mgm2r.v) a ROUND-level function mgm2_next (one complete MGM2 cycle: offerer draws, offers, "
            "_find_best_offer, commitment, answers, gains, go/no-go) with theorems for all inputs: rounds without "
            "commitment are monotone and their movers independent; the gain _find_best_offer claims for a "
            "coordinated move = true decrease + current cost of the shared constraints + acceptor's own cost of "
            "its new value (exact), and the resulting cost of a round in which only the committed pair moves. "
            "The refinement of the asynchronous MGM2 handlers to mgm2_next is NOT a theorem: it is checked on "
            "every run (r2check_case: mgm2_next iterated from the observed initial assignment with the observed "
            "per-node draws equals the observed assignment at every cycle boundary of the real execution)")
META = dict(
    level_text=("Partial proof (Coq). Proved for every DCOP (n-ary constraints, variables' own costs), min and max, all draws: one complete MGM cycle as a function on assignments never worsens the global cost (constraints + own costs) and no two constraint-sharing variables both move; lifted to any number of cycles. ALSO proved (deepening, P_Mgm3*.v): the asynchronous handler model computes exactly this cycle function at every cycle boundary under EVERY schedule of starts and FIFO deliveries (mgm_refines_rounds: a computation with cycle counter c holds the value of the synchronous reference run after c-1 rounds), hence between any reachable configuration where all computations have completed j cycles and any where they have completed j+1 the global cost does not get worse and no two constraint-sharing variables both changed (mgm_async_monotone, mgm_async_movers_independent) - the full MGM statement. The refinement is additionally checked on every run (round-level model replayed against the cycle-boundary assignments of real asynchronous executions, plus the full-trace correspondence of the handler model). MGM2: the handler model is tied to the code by the same full-trace correspondence; the property is refuted for coordinated moves (theorem mgm2_monotone_refuted, known finding C03-mgm2-coordinated-gain). Deepening 2: a round-level MGM2 function (mgm2_next, checked against the cycle-boundary assignments of every real MGM2 run, refinement to the handlers not proved) with guarded theorems for all inputs: a round in which no node commits to a coordinated move never worsens the global cost and moves no two constraint-sharing variables (mgm2_unilateral_*_partial); the defect is quantified exactly: the gain _find_best_offer claims = true decrease of the global cost + current cost of the constraints shared by the pair + the acceptor's own cost of its new value (mgm2_coordinated_gain_error), hence the cost after a pair move (mgm2_coordinated_worsening_bound, mgm2_pair_move_cost_partial). Deepening 3 (P_Mgm2pA/B/C.v): the refinement of the asynchronous MGM2 handlers to mgm2_next is now PROVED for every schedule (mgm2_refines_rounds, mgm2_payload_invariant: every field of every started computation and every pending value/offer/answer/gain/go message is the one of the synchronous reference run; any fuel >= 10*degree+2 for the nested re-dispatch), so the guarded statements hold of real executions between any two reachable configurations at consecutive cycle boundaries: without commitment the cost does not get worse and no two constraint-sharing variables both change (mgm2_async_unilateral_monotone, mgm2_async_unilateral_movers); in ANY cycle two constraint-sharing variables that both changed are the two partners of one committed pair that both said go (mgm2_async_movers, full); when exactly an accepted pair moves the cost changes by -announced gain + shared cost + acceptor's own new-value cost (mgm2_async_pair_move_cost)."),
    level_note=("Trusted: Coq kernel/vm_compute, M_Mgm.v / M_Mgm2.v + Net.v as renderings of the Python code, the "
                "thread-free netdriver, integer costs inside int32."),
    technique="Coq proof over an executable round-level model + round-level and full-trace correspondence",
    design_ref="DESIGN.md §5 C03",
)
ALGOS = ["mgm", "mgm2"]


def gen(rng, n, tier):
    return L.gen_cycle_cases(rng, n, ALGOS)


def run_impl(c):
    return L.run_case(c)


def oracle(c, o):
    for e in o["events"]:
        if e[0] == "raise":
            return "handler of v%02d raised %s: %s" % (e[1], e[2], e[3])
    m = L.check_monotone(c, o)
    if m is None:
        return None
    if m["kind"] == "worse":
        return "%s %s: global cost goes from %s to %s in cycle %d (movers %s)" % (
            c["algo"], c["mode"], m["before"], m["after"], m["cycle"], m["movers"])
    return "%s: constraint-sharing variables %s both change value in cycle %d" % (c["algo"], m["pair"], m["cycle"])


def coq_mgm2_rcase(c, o):
    """round-level MGM2 case (M_Mgm2r.r2case): threshold, favor, initial assignment, per-node draws from the
    first cycle on (the draw spent by on_start on the initial value removed), boundary assignments"""
    bs = L.boundaries(c, o)
    n = len(c["vars"])
    p = c["params"]
    head = "M_Mgm2r.mkR2Case %s %s %s" % (
        L.coq_dcop(c), q.z(round(p.get("threshold", 0.5) * 1000)),
        q.z(["unilateral", "no", "coordinated"].index(p.get("favor", "unilateral"))))
    if not bs:
        return head + " [] [] []"
    orcs = []
    for i in range(n):
        dr = list(o["draws"].get(str(i), []))
        if L.neighbours(c, i) and c["vars"][i].get("init") is None:
            dr = dr[1:]
        orcs.append(q.pair(q.z(i), q.zlist(dr)))
    asg = lambda a: q.lst([q.pair(q.z(i), q.z(a[i])) for i in range(n)])
    return head + " %s %s %s" % (asg(bs[0]), q.lst(orcs), q.lst([asg(a) for a in bs[1:]]))


def coq_case(c, o):
    if c.get("float"):
        return None          # oracle-only stream (non-integer costs): not modelled
    if c["algo"] == "mgm":
        return "CMgm (%s) (%s)" % (L.coq_mgm_case(c, o), L.coq_mgm_rcase(c, o))
    if c["algo"] == "mgm2":
        return "CMgm2 (%s) (%s)" % (L.coq_mgm2_case(c, o), coq_mgm2_rcase(c, o))
    return None


def nontrivial(c, o):
    bs = L.boundaries(c, o)
    return any(bs[i] != bs[i + 1] for i in range(len(bs) - 1))


def histogram(cases, obs):
    h = L.cycle_histogram(cases, obs)
    # coverage of the MGM2 round-level correspondence (M_Mgm2r.r2check_case)
    h["mgm2_round_boundaries_replayed"] = 0
    h["mgm2_coordinated_value_changes"] = 0
    for c, o in zip(cases, obs):
        if c["algo"] == "mgm2" and "events" in o:
            h["mgm2_round_boundaries_replayed"] += max(0, len(L.boundaries(c, o)) - 1)
            h["mgm2_coordinated_value_changes"] += sum(1 for e in o["events"] if e[0] == "val" and len(e) > 5)
    return h


def classify(c, o, msg):
    """C03-mgm2-coordinated-gain: mgm2, the cost got worse in a cycle in which a variable changed its
    value as the committed member of a coordinated move (value_selection with _committed and _partner set)"""
    if c["algo"] != "mgm2" or "global cost goes from" not in msg:
        return None
    m = L.check_monotone(c, o)
    if m and m["kind"] == "worse":
        coordinated = {e[1] for e in o["events"] if e[0] == "val" and len(e) > 5 and e[4] == m["cycle"]}
        if any(x in coordinated for x in m["movers"]):
            return "C03-mgm2-coordinated-gain"
    return None
