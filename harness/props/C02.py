"""C02 -- SyncBB finds the optimum of every binary-constraint DCOP, for any start order and any
per-channel-FIFO delivery order."""
import itertools

from harness import coqio as q

ID = "C02"
COQ_REQUIRE = ["Net", "M_SyncBB"]
COQ_CASE_TYPE = "M_SyncBB.case"
COQ_CHECK = "M_SyncBB.check_case"
OBLIGATIONS = [
    "next_assignment_spec",
    "scan_prune_sound",
    "syncbb_one_token",
    "bb_inv",
    "syncbb_optimal",
    "syncbb_optimal_total_cost",
    "syncbb_quiescent_all_finished",
    "syncbb_finished_at_most_once",
    "syncbb_terminates",
    "syncbb_min_negative_costs_refuted",
]
N_QUICK, N_THOROUGH = 400, 6000
PARALLEL = 8
SHARD = 100
RULE = ("random binary DCOPs: 1-5 variables (names v00.. added to the DCOP in shuffled order), domains of 1-4 "
        "values listed in a random order, 0-100% constraint density incl. several constraints on the same pair, "
        "both scope orientations and unconstrained variables, integer costs from several profiles (0/1, 0-9, "
        "many ties, wide), min and max; in 55% of the cases most variables (any position of the ordering) declare an "
        "initial_value, usually not the first value of the domain; variable and constraint names (v00.., c00..) are "
        "re-used by consecutive cases of a worker process with different tables; 7% carry negative costs (min+negative is the listed finding); the real "
        "SyncBBComputation objects are run by the thread-free netdriver under 6 schedule policies (random start "
        "order, late/early starts, starving one node, no-op actions), 75% to quiescence and 25% cut after a "
        "random number of steps. non-trivial = at least one backward message was sent; distinct = distinct JSON")
MODELLED = ("get_value_candidates, get_next_assignment, the four SyncBB handlers, value_selection and the pre-start "
            "buffering of MessagePassingComputation are modelled (M_SyncBB.v over Net.v). Theorems (all domains "
            "sizes, all cost tables, all schedules): one token, optimality of the held assignment once the first "
            "computation has finished, every quiescent configuration is all-finished, finished at most once, "
            "bounded number of effective steps. The chain built by OrderedConstraintGraph (sorted names) and the "
            "numpy evaluation of NAryMatrixRelation are covered by the correspondence only.")
META = dict(
    level_text=("Proof (Coq): for every number of variables, every ordered duplicate-free non-empty domains, every "
                "list of binary cost tables (non-negative in min mode; any sign in max mode) and EVERY schedule of "
                "starts and per-channel-FIFO deliveries, the SyncBB model keeps exactly one message in the network, "
                "and whenever the first computation has called finished() the values held by the computations form "
                "a total in-domain assignment whose cost is the optimum of the objective; every quiescent "
                "configuration has all computations finished exactly once, and the number of effective steps of any "
                "schedule is bounded (termination). The model is tied to syncbb.py by replaying the schedules "
                "recorded from the real computations and comparing every post_msg (path, bound), value selection, "
                "finished() call, final bound/value, held and in-flight message."),
    level_note=("Trusted: Coq kernel/vm_compute, M_SyncBB.v + Net.v as a rendering of the Python code, the thread-free "
                "netdriver (agent threads are C18/C21's subject). Min mode with negative costs is refuted "
                "(finding C02-negative-costs-min); two defects were repaired in /repo (7526851, ffcb2e6)."),
    technique="Coq invariant proof (branch-and-bound invariant over an executable network model) + schedule-replay correspondence",
    design_ref="DESIGN.md §5 C02",
)

NEG_FINDING = "C02-negative-costs-min"


def _name(i):
    return "v%02d" % i


def _idx(name):
    return int(name[1:])


# ------------------------------------------------------------------ generator
def gen(rng, n, tier):
    cases = []
    for _ in range(n):
        r = rng.random()
        nv = 1 if r < 0.04 else 2 if r < 0.2 else rng.randint(3, 5)
        dmax = rng.choice([2, 3, 3, 4]) if nv <= 4 else rng.choice([2, 3])
        doms = []
        for _i in range(nv):
            d = list(range(rng.randint(1, dmax)))
            rng.shuffle(d)
            doms.append(d)
        profile = rng.choice(["01", "small", "small", "ties", "wide"])
        neg = rng.random() < 0.07
        mode = rng.choice(["min", "max"])

        def cost():
            if profile == "01":
                c = rng.randint(0, 1)
            elif profile == "small":
                c = rng.randint(0, 9)
            elif profile == "ties":
                c = rng.choice([0, 0, 2, 2, 5])
            else:
                c = rng.choice([0, 1, 3, 10, 50, 1000])
            if neg and rng.random() < 0.4:
                c = -c - rng.randint(0, 2)
            return c
        density = rng.choice([0.0, 0.3, 0.6, 1.0, 1.0])
        cons = []
        for i in range(nv):
            for j in range(i + 1, nv):
                k = 0
                while rng.random() < density and k < 2:
                    a, b = (i, j) if rng.random() < 0.5 else (j, i)
                    m = [[cost() for _ in doms[b]] for _ in doms[a]]     # indexed by VALUE
                    cons.append([a, b, m])
                    k += 1
                    if rng.random() < 0.8:
                        break
        rng.shuffle(cons)
        order = list(range(nv))
        rng.shuffle(order)
        # declared initial_value of each variable (SyncBB must enumerate the whole domain whatever it is):
        # none in 45% of the cases, otherwise a domain member biased towards values that are NOT first
        init = [None] * nv
        if rng.random() < 0.55:
            for i in range(nv):
                if rng.random() < 0.8:
                    d = doms[i]
                    init[i] = rng.choice(d[1:]) if len(d) > 1 and rng.random() < 0.8 else rng.choice(d)
        policy = rng.choice(["uniform", "uniform", "startfirst", "startlate", "reverse", "starve"])
        steps = None if rng.random() < 0.75 else rng.randint(1, 60)
        cases.append(dict(mode=mode, doms=doms, cons=cons, order=order, policy=policy,
                          seed=rng.randrange(10 ** 9), steps=steps, init=init))
    return cases


# ------------------------------------------------------------------ implementation driver
def _num(x):
    """canonical integer cost / bound (None = +-infinity)"""
    import math
    if isinstance(x, float) and math.isinf(x):
        return None
    xi = int(x)
    if xi != x:
        raise ValueError("non integer cost %r" % (x,))
    return xi


def _msg(m):
    if m.type == "terminate":
        return ["T"]
    path = [[_idx(v), int(val), _num(c)] for v, val, c in m.current_path]
    return ["F" if m.type == "forward" else "B", path, _num(m.ub)]


def run_impl(c):
    import random
    from importlib import import_module
    from pydcop.algorithms import load_algorithm_module, AlgorithmDef, ComputationDef
    from pydcop.dcop.dcop import DCOP
    from pydcop.dcop.objects import Domain, Variable
    from pydcop.dcop.relations import NAryMatrixRelation
    from harness.pydrv.netdriver import NetDriver

    rng = random.Random(c["seed"])
    random.seed(c["seed"])
    nv = len(c["doms"])
    init = c.get("init") or [None] * nv
    vs = {i: Variable(_name(i), Domain("d%d" % i, "d", c["doms"][i]), initial_value=init[i]) for i in range(nv)}
    dcop = DCOP("t", c["mode"])
    for i in c["order"]:
        dcop.add_variable(vs[i])
    for k, (a, b, m) in enumerate(c["cons"]):
        mat = [[m[va][vb] for vb in c["doms"][b]] for va in c["doms"][a]]     # indexed by domain position
        dcop.add_constraint(NAryMatrixRelation([vs[a], vs[b]], mat, name="c%02d" % k))
    mod = load_algorithm_module("syncbb")
    gm = import_module("pydcop.computations_graph." + mod.GRAPH_TYPE)
    cg = gm.build_computation_graph(dcop)
    adef = AlgorithmDef.build_with_default_param("syncbb", {}, mode=c["mode"],
                                                 parameters_definitions=mod.algo_params)
    log = []
    comps = {}
    for node in cg.nodes:
        comp = mod.build_computation(ComputationDef(node, adef))
        comps[node.name] = comp
        comp.finished = (lambda _n=node.name: log.append(["fin", _idx(_n)]))
        comp._on_value_selection = (lambda v, cost, cycle, _n=node.name: log.append(["sel", _idx(_n), int(v), _num(cost)]))
    drv = NetDriver(comps)
    orig = drv._sender

    def sender(src, dst, msg, prio=None, on_error=None):
        if prio != 19:      # 19 = re-injection of a message held before start, not a post_msg
            log.append(["send", _idx(src), _idx(dst) if dst is not None else -1, _msg(msg)])
        orig(src, dst, msg, prio, on_error)
    for comp in comps.values():
        comp._msg_sender = sender
    real_do = drv.do

    def do(act):
        ne = len(drv.events)
        real_do(act)
        for e in drv.events[ne:]:
            if e[0] == "raise":
                kind = 0
                if e[2] == "IndexError":
                    kind = 1 if act[0] == "S" else 2
                elif e[2] == "AssertionError":
                    kind = 3
                log.append(["raise", _idx(e[1]), kind, e[2] + ": " + e[3][:80]])
    names = sorted(comps)
    policy = c["policy"]
    starve = rng.choice(names) if policy == "starve" else None
    max_steps = c["steps"] if c["steps"] is not None else 20000
    steps = 0
    while steps < max_steps:
        acts = drv.enabled()
        if not acts:
            break
        steps += 1
        if rng.random() < 0.04:      # an action that may be a no-op (same no-op in Net.v)
            if rng.random() < 0.5:
                do(["S", rng.choice(names)])
            else:
                do(["D", rng.choice(names), rng.choice(names)])
            continue
        starts = [a for a in acts if a[0] == "S"]
        dels = [a for a in acts if a[0] == "D"]
        if policy == "startfirst" and starts:
            acts = starts
        elif policy == "startlate" and dels and rng.random() < 0.9:
            acts = dels
        elif policy == "reverse" and starts and rng.random() < 0.7:
            acts = [starts[-1]]
        elif policy == "starve":
            other = [a for a in acts if a[-1] != starve]
            if other and rng.random() < 0.95:
                acts = other
        do(rng.choice(acts))
    complete = not drv.enabled()
    final = []
    for n_ in names:
        comp = comps[n_]
        final.append([_idx(n_), _num(comp.upper_bound),
                      None if comp.current_value is None else int(comp.current_value),
                      sum(1 for e in log if e[0] == "fin" and e[1] == _idx(n_)),
                      bool(comp._running),
                      [[_idx(s), _msg(m)] for s, m, _t in comp._paused_messages_recv]])
    inflight = []
    for (s, d), ql in sorted(drv.chans.items(), key=lambda kv: (kv[0][0], str(kv[0][1]))):
        inflight.append([_idx(s), _idx(d) if d is not None else -1, [_msg(m) for m in ql]])
    return dict(log=log, sched=[[a[0]] + [_idx(x) for x in a[1:]] for a in drv.schedule], final=final,
                inflight=inflight, complete=complete)


# ------------------------------------------------------------------ oracle (independent)
def _cost(c, asg):
    return sum(m[asg[a]][asg[b]] for a, b, m in c["cons"])


def _optimum(c):
    costs = [_cost(c, a) for a in itertools.product(*c["doms"])]
    return min(costs) if c["mode"] == "min" else max(costs)


def oracle(c, o):
    nv = len(c["doms"])
    for e in o["log"]:
        if e[0] == "raise":
            return "handler raised %s at node %s" % (e[3], e[1])
    fins = {i: 0 for i in range(nv)}
    first_fin_pos = None
    for pos, e in enumerate(o["log"]):
        if e[0] == "fin":
            fins[e[1]] += 1
            if e[1] == 0 and first_fin_pos is None:
                first_fin_pos = pos
    for i, k in fins.items():
        if k > 1:
            return "node %d finished %d times" % (i, k)
    vals = {f[0]: f[2] for f in o["final"]}
    if o["complete"]:
        for i in range(nv):
            if fins[i] != 1:
                return "quiescent but node %d has not finished (terminate did not reach it)" % i
        if any(l for _s, _d, l in o["inflight"]):
            return "quiescent with messages in flight %r" % (o["inflight"],)
    if fins[0] >= 1:
        # once the first computation has finished the held assignment must be the optimum
        asg = []
        for i in range(nv):
            v = vals[i]
            if v is None or v not in c["doms"][i]:
                return "after termination node %d holds %r, not a value of its domain" % (i, v)
            asg.append(v)
        got, best = _cost(c, asg), _optimum(c)
        if got != best:
            return "non-optimal assignment at termination: cost %d, optimum %d (%s)" % (got, best, c["mode"])
        # and no value changes afterwards
        for e in o["log"][first_fin_pos:]:
            if e[0] == "sel" and not (nv == 1):
                return "value selected after the first computation finished"
    return None


def classify(c, o, msg):
    if c["mode"] == "min" and any(x < 0 for _a, _b, m in c["cons"] for row in m for x in row) \
            and msg.startswith("non-optimal assignment"):
        return NEG_FINDING
    return None


# ------------------------------------------------------------------ Gallina
def _gmsg(m):
    if m[0] == "T":
        return "Terminate"
    path = q.lst(["(%s, %s, %s)" % (q.z(v), q.z(val), q.z(cst)) for v, val, cst in reversed(m[1])])
    return "(%s %s %s)" % ("Forward" if m[0] == "F" else "Backward", path, q.opt(m[2], q.z))


def coq_case(c, o):
    for d in c["doms"]:
        if sorted(d) != list(range(len(d))):
            return None
    doms = q.lst([q.zlist(d) for d in c["doms"]])
    cons = q.lst(["(%s, %s, %s)" % (q.z(a), q.z(b), q.lst([q.zlist(row) for row in m])) for a, b, m in c["cons"]])
    sched = q.lst(["Start %s" % q.z(a[1]) if a[0] == "S" else "Deliver %s %s" % (q.z(a[1]), q.z(a[2]))
                   for a in o["sched"]])
    evs = []
    for e in o["log"]:
        if e[0] == "fin":
            evs.append("EvFin %s" % q.z(e[1]))
        elif e[0] == "sel":
            evs.append("EvSel %s %s %s" % (q.z(e[1]), q.z(e[2]), q.opt(e[3], q.z)))
        elif e[0] == "send":
            evs.append("EvSend %s %s %s" % (q.z(e[1]), q.z(e[2]), _gmsg(e[3])))
        else:
            evs.append("EvRaise %s %s" % (q.z(e[1]), q.z(e[2])))
    final = q.lst(["(%s, (%s, %s, %s))" % (q.z(f[0]), q.opt(f[1], q.z), q.opt(f[2], q.z), q.z(f[3])) for f in o["final"]])
    running = q.lst([q.pair(q.z(f[0]), q.b(f[4])) for f in o["final"]])
    held = q.lst([q.pair(q.z(f[0]), q.lst([q.pair(q.z(s), _gmsg(m)) for s, m in f[5]])) for f in o["final"]])
    infl = q.lst(["(%s, %s, %s)" % (q.z(s), q.z(d), q.lst([_gmsg(m) for m in l])) for s, d, l in o["inflight"]])
    return "mkCase %s %s %s %s %s %s %s %s %s" % (q.b(c["mode"] == "min"), doms, cons, sched, q.lst(evs), final,
                                                   running, held, infl)


def nontrivial(c, o):
    return any(e[0] == "send" and e[3][0] == "B" for e in o.get("log", []))


def histogram(cases, obs):
    h = {"min": 0, "max": 0, "complete": 0, "truncated": 0, "negative_costs": 0, "single_variable": 0,
         "messages": 0, "max_messages": 0, "backtracks": 0, "value_selections": 0, "held_before_start": 0,
         "with_initial_value": 0, "initial_value_not_first": 0}
    for c, o in zip(cases, obs):
        h[c["mode"]] += 1
        ini = c.get("init") or []
        if any(v is not None for v in ini):
            h["with_initial_value"] += 1
        if any(v is not None and v != c["doms"][i][0] for i, v in enumerate(ini)):
            h["initial_value_not_first"] += 1
        if any(x < 0 for _a, _b, m in c["cons"] for row in m for x in row):
            h["negative_costs"] += 1
        if len(c["doms"]) == 1:
            h["single_variable"] += 1
        if "log" not in o:
            continue
        h["complete" if o["complete"] else "truncated"] += 1
        ns = sum(1 for e in o["log"] if e[0] == "send")
        h["messages"] += ns
        h["max_messages"] = max(h["max_messages"], ns)
        h["backtracks"] += sum(1 for e in o["log"] if e[0] == "send" and e[3][0] == "B")
        h["value_selections"] += sum(1 for e in o["log"] if e[0] == "sel")
        h["held_before_start"] += sum(1 for f in o["final"] if f[5])
    return h


def shrink_candidates(c):
    out = []
    if c.get("steps") is not None:
        out.append(dict(c, steps=None))
    for k in range(len(c["cons"])):
        out.append(dict(c, cons=c["cons"][:k] + c["cons"][k + 1:]))
    nv = len(c["doms"])
    if any(v is not None for v in (c.get("init") or [])):
        out.append(dict(c, init=[None] * nv))
    if nv > 1:
        last = nv - 1
        out.append(dict(c, doms=c["doms"][:last], cons=[x for x in c["cons"] if last not in (x[0], x[1])],
                        order=[i for i in c["order"] if i != last], init=(c.get("init") or [None] * nv)[:last]))
    for i, d in enumerate(c["doms"]):
        if len(d) > 1:
            top = max(d)
            nd = [v for v in d if v != top]
            cons = []
            for a, b, m in c["cons"]:
                m2 = [row[:] for row in m]
                if a == i:
                    m2 = m2[:top]
                if b == i:
                    m2 = [row[:top] for row in m2]
                cons.append([a, b, m2])
            ini = list(c.get("init") or [None] * nv)
            if ini[i] == top:
                ini[i] = None
            out.append(dict(c, doms=c["doms"][:i] + [nd] + c["doms"][i + 1:], cons=cons, init=ini))
    return out
